//go:build mapseam

package c05

import (
	"os"
	"reflect"
	"regexp"
	"sort"
	"strings"
	"unsafe"

	"github.com/risor-io/risor"
	"github.com/risor-io/risor/object"

	"verif/internal/ev"
)

// Containers through every builtin: every default-global callable (deterministic modules only)
// and every method name of the builtin types is applied to a map and a set of four keys, alone
// and with a callback that prints its arguments and makes ties (it compares by length). A
// builtin that walks the Go map behind the container in Go's order - to sort it afterwards, to
// call the callback, to build its result - shows up as an outcome that depends on the order of
// one map range. Calls that fail are fine: the error has to be the same in every order.

var detModules = map[string]bool{"base64": true, "bytes": true, "errors": true, "filepath": true, "fmt": true, "json": true, "math": true, "regexp": true, "strconv": true, "strings": true}

var skipCallables = map[string]bool{"fetch": true, "nslookup": true, "spawn": true, "chan": true, "make": true, "open": true, "cat": true, "cd": true, "cp": true, "ls": true, "getenv": true, "setenv": true, "unsetenv": true, "hash": true, "assert": true}

func moduleAttrs(m *object.Module) []string {
	rv := reflect.ValueOf(m).Elem()
	f := rv.FieldByName("builtins")
	if !f.IsValid() || f.Kind() != reflect.Map {
		return nil
	}
	f = reflect.NewAt(f.Type(), unsafe.Pointer(f.UnsafeAddr())).Elem()
	var out []string
	for _, k := range f.MapKeys() {
		if _, ok := f.MapIndex(k).Interface().(*object.Builtin); ok {
			out = append(out, k.String())
		}
	}
	sort.Strings(out)
	return out
}

func detCallables() []string {
	var out []string
	for name, v := range risor.DefaultGlobals() {
		switch o := v.(type) {
		case *object.Module:
			if detModules[name] {
				for _, attr := range moduleAttrs(o) {
					out = append(out, name+"."+attr)
				}
			}
		case *object.Builtin:
			if !skipCallables[name] {
				out = append(out, name)
			}
		}
	}
	sort.Strings(out)
	return out
}

var caseLabel = regexp.MustCompile(`case "([a-z_0-9]+)"`)

func containerMethodNames() []string {
	set := map[string]bool{}
	for _, f := range []string{"map.go", "set.go"} {
		b, err := os.ReadFile(ev.RepoDir + "/object/" + f)
		if err != nil {
			continue
		}
		for _, m := range caseLabel.FindAllStringSubmatch(string(b), -1) {
			set[m[1]] = true
		}
	}
	var out []string
	for k := range set {
		out = append(out, k)
	}
	sort.Strings(out)
	return out
}

const containerPrelude = `M := {"bb": 1, "a": 2, "cc": 3, "d": 4}
S := {"bb", "a", "cc", "d"}
S2 := {"cc", "e", "ff"}
SF := {10000000000000000.0, 1.0, -10000000000000000.0, 1.5}
SX := {1, "x", nil, 2.5}
SN := {math.sqrt(-1.0), 3.0, 1.0, 0.5}
MF := {"bb": 10000000000000000.0, "a": 1.0, "cc": -10000000000000000.0, "d": 1.5}
MX := {"bb": 1, "a": "x", "cc": nil, "d": 2.5}
MB := {"bb": func(x) { return x }, "a": math, "cc": iter([1]), "d": try(func() { error("e") }, func(e) { return e })}
MB2 := {"bb": {"x": math}, "a": [iter([1])], "cc": {"y": func() { }}, "d": 1}
cmp := func(a, b) { print("cmp", a, b); return len(string(a)) < len(string(b)) }
cb := func(x) { print("cb", x); return len(string(x)) }
cb2 := func(k, v) { print("cb2", k, v); return len(string(k)) }
`

func containerPrograms(thorough bool) []string {
	var out []string
	wrap := func(expr string) string {
		return containerPrelude + "r := try(func() { return " + expr + " }, func(e) { return \"error: \" + string(e) })\nprint(r)\nr"
	}
	for _, f := range detCallables() {
		for _, c := range []string{"M", "S"} {
			out = append(out, wrap(f+"("+c+")"), wrap(f+"("+c+", cmp)"), wrap(f+"("+c+", cb)"))
			if thorough {
				out = append(out, wrap(f+"(cb, "+c+")"), wrap(f+"("+c+", "+c+")"), wrap(f+"("+c+", \"a\")"), wrap(f+"(\"%v\", "+c+")"))
			}
		}
	}
	// contents whose fold depends on the order: floats that cancel, and values of four types (the
	// first one a builtin rejects names the error)
	for _, f := range detCallables() {
		for _, c := range []string{"SF", "SX", "SN", "MF", "MX"} {
			out = append(out, wrap(f+"("+c+")"))
			if thorough {
				out = append(out, wrap(f+"("+c+", cb)"), wrap(f+"(\"%v\", "+c+")"))
			}
		}
	}
	// every codec over maps, sets and lists of maps (rows): what a codec lays out from a map must not follow
	// the map's iteration order
	for _, codec := range []string{"base64", "base32", "hex", "json", "csv", "urlquery", "gzip"} {
		for _, x := range []string{"M", "S", "MX", "[M, MX]", "[MX, M, MF]", "[[1, 2], M]", "{\"rows\": [M, MX], \"k\": S}"} {
			out = append(out, wrap("encode("+x+", \""+codec+"\")"))
			if thorough {
				out = append(out, wrap("decode(encode("+x+", \""+codec+"\"), \""+codec+"\")"))
			}
		}
	}
	// the error path: maps all (or three) of whose values no consumer can take, each of another type - which of
	// them the error names must not follow the map's iteration order
	for _, f := range detCallables() {
		for _, c := range []string{"MB", "MB2", "[MB]", "{\"k\": MB, \"j\": MB2}"} {
			out = append(out, wrap(f+"("+c+")"))
			if thorough {
				out = append(out, wrap(f+"("+c+", 2)"), wrap(f+"(\"%v\", "+c+")"), wrap(f+"("+c+", \"\", \"  \")"))
			}
		}
	}
	for _, codec := range []string{"base64", "base32", "hex", "json", "csv", "urlquery", "gzip"} {
		for _, x := range []string{"MB", "MB2", "[MB, MB2]", "[MB2, M]", "{\"rows\": [MB], \"k\": MB2}"} {
			out = append(out, wrap("encode("+x+", \""+codec+"\")"))
		}
	}
	for _, m := range containerMethodNames() {
		for _, c := range []string{"SF", "SX", "SN", "MF", "MX"} {
			out = append(out, wrap(c+"."+m+"()"))
			if thorough {
				out = append(out, wrap(c+"."+m+"(cb)"), wrap(c+"."+m+"(cb2)"))
			}
		}
	}
	for _, m := range containerMethodNames() {
		for _, c := range []string{"M", "S"} {
			out = append(out, wrap(c+"."+m+"()"), wrap(c+"."+m+"(cb)"), wrap(c+"."+m+"(cb2)"), wrap(c+"."+m+"(S2)"), wrap(c+"."+m+"(\"a\")"))
			if thorough {
				out = append(out, wrap(c+"."+m+"(M)"), wrap(c+"."+m+"(\"zz\", 5)"), wrap(c+"."+m+"(cmp)"))
			}
		}
	}
	return dedup(out)
}

func dedup(l []string) []string {
	seen := map[string]bool{}
	var out []string
	for _, s := range l {
		if !seen[s] {
			seen[s] = true
			out = append(out, s)
		}
	}
	_ = strings.TrimSpace
	return out
}
