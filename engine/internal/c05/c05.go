//go:build mapseam

// Package c05: evaluation and compilation are deterministic.
//
// Go's map iteration order is owned by the harness: tools/mapseam rewrites every range over a Go
// map in risor's packages into a range over vseam.Range*(site, m) (build overlay, /repo untouched).
// For every corpus program the base run records the dynamic map-range sites it executes; then,
// for every dynamic site and every alternative order of that site (all permutations for <= 3
// keys; reverse, rotations and boundary swaps above), the program is re-run with exactly that site
// deviating (thorough: pairs of sites). Value, error, output, marshalled bytes and re-marshalled
// bytes must be identical under every order.
package c05

import (
	"context"
	"fmt"
	"strconv"
	"strings"

	"github.com/risor-io/risor"
	"github.com/risor-io/risor/compiler"
	"github.com/risor-io/risor/object"
	ros "github.com/risor-io/risor/os"
	"github.com/risor-io/risor/parser"
	"github.com/risor-io/risor/vseam"

	"verif/internal/ev"
	"verif/internal/progen"
)

type dynSite struct {
	Site   string
	N      int
	Ranked bool
}

type runner struct {
	sites  []dynSite
	dev    map[int][]int // dynamic site index -> permutation
	cursor int
}

func (rn *runner) choose(site string, n int, ranked bool) []int {
	i := rn.cursor
	rn.cursor++
	if rn.dev == nil {
		rn.sites = append(rn.sites, dynSite{site, n, ranked})
		return nil
	}
	if p, ok := rn.dev[i]; ok && len(p) == n {
		return p
	}
	return nil
}

type logFile struct{ sb *strings.Builder }

func (f logFile) Write(p []byte) (int, error) { f.sb.Write(p); return len(p), nil }
func (f logFile) Read(p []byte) (int, error)  { return 0, fmt.Errorf("no") }
func (f logFile) Close() error                { return nil }
func (f logFile) Stat() (ros.FileInfo, error) { return nil, fmt.Errorf("no") }

type caseT struct {
	Name string
	Src  string
	Opts string // "default", "globals", "deny", "override"
}

func options(kind string, out *strings.Builder) []risor.Option {
	vos := ros.NewVirtualOS(context.Background(), ros.WithStdout(logFile{out}))
	opts := []risor.Option{risor.WithOS(vos)}
	switch kind {
	case "globals":
		opts = append(opts, risor.WithGlobals(map[string]any{"ga": 1, "gb": "two", "gc": []int{3}}))
	case "deny":
		opts = append(opts, risor.WithoutGlobals("exec", "os.exit", "math.abs", "strings.repeat"))
	case "gomap5", "gomap6", "gomap7", "gomap8", "gomap9", "gomap10", "gomap11", "gomap12", "gomap13", "gomap14", "gomap15", "gomap16", "gomap17", "gomap18":
		// a Go map of that many entries as a global (converted entry by entry)
		n, _ := strconv.Atoi(strings.TrimPrefix(kind, "gomap"))
		gm := map[string]any{}
		for i := 0; i < n; i++ {
			gm[fmt.Sprintf("g%c%d", 'z'-byte(i%5), i)] = i
		}
		opts = append(opts, risor.WithGlobals(map[string]any{"gm": gm}))
	case "badglobals":
		// two globals that risor cannot represent: which one the error names is the host's input, not map order
		opts = append(opts, risor.WithGlobals(map[string]any{"ga": make(chan int), "gb": complex(1, 2), "gc": 3}))
	case "badnested":
		opts = append(opts, risor.WithGlobals(map[string]any{"ga": 1, "gm": map[string]any{"x": make(chan int), "y": complex(1, 2), "z": struct{ A chan int }{}}}))
	case "mounts", "mounts3":
		// a host OS assembled from nested mounts, each an in-memory file system that knows its own name, plus an
		// environment and users: which mount serves a path, and in which order anything is listed, is the host's
		// configuration and not the order of a Go map
		mounts := map[string]*ros.Mount{}
		targets := []string{"/", "/data", "/data/cache", "/data/cache/deep", "/var", "/data2"}
		if kind == "mounts3" {
			targets = targets[:3] // three mounts: every order of the mount table is tried
		}
		for _, target := range targets {
			fs := ros.NewMockFS()
			fs.WriteFile("entry.txt", []byte("served by "+target), 0o644)
			fs.WriteFile("/entry.txt", []byte("served by "+target), 0o644)
			mounts[target] = &ros.Mount{Source: fs, Target: target}
		}
		vos = ros.NewVirtualOS(context.Background(), ros.WithStdout(logFile{out}), ros.WithMounts(mounts),
			ros.WithEnvironment(map[string]string{"B": "2", "A": "1", "CC": "3", "D": "4"}), ros.WithCwd("/data/cache"))
		opts = []risor.Option{risor.WithOS(vos)}
	case "override":
		opts = append(opts, risor.WithGlobalOverride("len", object.NewBuiltin("len", func(ctx context.Context, args ...object.Object) object.Object { return object.NewInt(7) })),
			risor.WithGlobalOverride("math.abs", object.NewBuiltin("abs", func(ctx context.Context, args ...object.Object) object.Object { return object.NewInt(9) })))
	}
	return opts
}

// outcome evaluates and compiles one program under the current order choice.
func outcome(c caseT) (res string, pan string) {
	defer func() {
		if r := recover(); r != nil {
			pan = fmt.Sprint(r)
		}
	}()
	ctx := context.Background()
	var out strings.Builder
	v, err := risor.Eval(ctx, c.Src, options(c.Opts, &out)...)
	val := "<nil>"
	if v != nil {
		val = string(v.Type()) + " " + v.Inspect()
	}
	errs := ""
	if err != nil {
		errs = err.Error()
	}
	bytes1, bytes2 := "", ""
	if prog, perr := parser.Parse(ctx, c.Src); perr == nil {
		var o2 strings.Builder
		cfg := risor.NewConfig(options(c.Opts, &o2)...)
		if code, cerr := compiler.Compile(prog, cfg.CompilerOpts()...); cerr == nil {
			if b, merr := compiler.MarshalCode(code); merr == nil {
				bytes1 = string(b)
				if c2, uerr := compiler.UnmarshalCode(b); uerr == nil {
					if b2, merr2 := compiler.MarshalCode(c2); merr2 == nil {
						bytes2 = string(b2)
					}
				}
			} else {
				bytes1 = "marshal error: " + merr.Error()
			}
		} else {
			bytes1 = "compile error: " + cerr.Error()
		}
	}
	return fmt.Sprintf("value: %s\nerror: %s\noutput: %q\nbytecode: %s\nremarshalled: %s", val, errs, out.String(), bytes1, bytes2), ""
}

// alternatives lists the non-identity orders tried for a site with n keys.
func alternatives(n int, thorough bool) [][]int {
	id := make([]int, n)
	for i := range id {
		id[i] = i
	}
	var out [][]int
	add := func(p []int) {
		same := true
		for i := range p {
			if p[i] != i {
				same = false
			}
		}
		if same {
			return
		}
		for _, q := range out {
			if fmt.Sprint(q) == fmt.Sprint(p) {
				return
			}
		}
		out = append(out, p)
	}
	if n <= 1 {
		return nil
	}
	if n <= 3 {
		var rec func(cur []int, used []bool)
		rec = func(cur []int, used []bool) {
			if len(cur) == n {
				add(append([]int{}, cur...))
				return
			}
			for i := 0; i < n; i++ {
				if !used[i] {
					used[i] = true
					rec(append(cur, i), used)
					used[i] = false
				}
			}
		}
		rec(nil, make([]bool, n))
		return out
	}
	rev := make([]int, n)
	for i := range rev {
		rev[i] = n - 1 - i
	}
	add(rev)
	rot := func(k int) []int {
		p := make([]int, n)
		for i := range p {
			p[i] = (i + k) % n
		}
		return p
	}
	if thorough && n <= 12 {
		for k := 1; k < n; k++ {
			add(rot(k))
		}
	} else {
		add(rot(1))
		add(rot(n / 2))
		add(rot(n - 1))
	}
	sw := append([]int{}, id...)
	sw[0], sw[1] = sw[1], sw[0]
	add(sw)
	sw2 := append([]int{}, id...)
	sw2[n-1], sw2[n-2] = sw2[n-2], sw2[n-1]
	add(sw2)
	return out
}

type replayIn struct {
	Case caseT         `json:"case"`
	Dev  map[int][]int `json:"deviating_dynamic_sites"`
	Site string        `json:"site"`
}

func firstDiffLine(a, b string) string {
	la, lb := strings.Split(a, "\n"), strings.Split(b, "\n")
	for i := range la {
		if i < len(lb) && la[i] != lb[i] {
			return ev.Clip(la[i], 300) + "   VS   " + ev.Clip(lb[i], 300)
		}
	}
	return ""
}

func corpus(thorough bool) []caseT {
	var out []caseT
	add := func(name, src, opts string) { out = append(out, caseT{name, src, opts}) }
	hand := []string{
		`{"a": 1, "a": 2}`,
		`m := {a: 1, b: 2, c: 3}; keys(m)`,
		`m := {b: print("b"), a: print("a"), c: print("c")}; m`,
		`func f(a=1, b=2, c="x") { [a, b, c] }; f()`,
		`func f(a=[1], b={}) { a }`,
		`func f(a, b=[1], c={}) { a }; 1`,
		`s := {3, 1, 2}; [s, string(s), len(s)]`,
		`s := {2.5, 1.5, 0.5, 3.5}; [s, string(s)]`,
		`s := {1.5, 0.5}; for v := range s { print(v) }; list(s)`,
		`s := {true, false}; [s, list(s)]`,
		`s := {1, 1.5, "a", true, 2.5, "b", 2}; [string(s), list(s)]`,
		`a, b := {1.5, 0.5}; [a, b]`,
		`json.marshal({2.5, 0.5})`,
		`s := {byte(3), byte(1)}; [s, list(s)]`,
		`s := {nil, 1}; string(s)`,
		`sorted({2.5, 1.5, 0.5})`,
		`m := {"k": {0.5, 1.5}}; print(m); m`,
		`s := set([0.25, 0.75, 0.5]); it := iter(s); [it.next(), it.next(), it.next()]`,
		`s := {"b", "a"}; for v := range s { print(v) }`,
		`m := {"z": 1, "y": 2, "x": 3}; for k, v := range m { print(k, v) }; [m.keys(), m.values(), m.items()]`,
		`m := {"b": [1, {"d": 1, "c": 2}], "a": {3, 1}}; print(m); string(m)`,
		`a := {"x": 1, "y": 2}; b := {"y": 3, "z": 4}; a.update(b); [a, a == {"x": 1, "y": 3, "z": 4}]`,
		`a := {1, 2, 3}; b := {3, 4}; [a.union(b), a.intersection(b), a.difference(b)]`,
		`import math; import strings; [math.abs(-1), strings.to_upper("a")]`,
		`from strings import to_upper, to_lower; [to_upper("a"), to_lower("B")]`,
		`x := {"k": func() { return 1 }, "j": func() { return 2 }}; [x.k(), x.j()]`,
		`json.marshal({"b": 1, "a": [1, {"d": 1, "c": 2}]})`,
		`sorted(keys({"b": 1, "a": 2})) `,
		`try(func() { error("e") }, func(e) { {"err": string(e), "a": 1} })`,
		`m := {}; for i := range 5 { m[string(i)] = i }; [m, keys(m)]`,
		`type({"a": 1}) + type({1})`,
		`[ga, gb, gc]`,
		`len([1, 2]) + math.abs(-4)`,
		`getattr(math, "abs")(-2)`,
		`os.getenv("X")`,
		`delete({"a": 1, "b": 2}, "a")`,
		`any({"a": 0, "b": 1}); all({1, 0})`,
		`list({"b": 1, "a": 2})`,
		`set([3, 1, 2]) == {1, 2, 3}`,
		`m := {"a": 1}; m.setdefault("b", 2); m.pop("a", 0); m`,
		`chunk([1, 2, 3, 4, 5], 2)`,
		`coalesce(nil, {"z": 1, "a": 2})`,
		`sprintf("%v %v", {"b": 1, "a": 2}, {2, 1})`,
		// a map or set that changes while it is being iterated: whatever the loop then does, it does the same every time
		`m := {"k1": 1, "k2": 2, "k3": 3, "k4": 4, "k5": 5, "k6": 6}; seen := []; for k, v := range m { seen.append(k); if k == "k3" { delete(m, "k1") } }; [seen, m]`,
		`m := {"k1": 1, "k2": 2, "k3": 3, "k4": 4, "k5": 5, "k6": 6}; seen := []; for k, v := range m { seen.append(k); if k == "k2" { delete(m, "k5") } }; [seen, m]`,
		`m := {"k1": 1, "k2": 2, "k3": 3, "k4": 4, "k5": 5, "k6": 6}; seen := []; for v in m { seen.append(v); if v == 2 { m.pop("k1", 0); m.pop("k6", 0) } }; [seen, m]`,
		`m := {"k1": 1, "k2": 2, "k3": 3, "k4": 4}; seen := []; it := iter(m); seen.append(it.next()); delete(m, "k1"); seen.append(it.next()); seen.append(it.next()); seen`,
		`m := {"k1": 1, "k2": 2, "k3": 3}; seen := []; for k, v := range m { seen.append(k); m["k9"] = 9; m["k0"] = 0 }; [seen, keys(m)]`,
		`s := {1, 2, 3, 4, 5}; seen := []; for i, v := range s { seen.append(i); if i == 2 { s.remove(1); s.remove(5) } }; [seen, s]`,
		// map literals wrapped over several lines, keys at different columns, with side effects and duplicates
		"m := {\"alpha\": print(\"a\"), \"beta\": print(\"b\"),\n  \"c\": print(\"c\")}; m",
		"m := {\"alpha\": print(\"a\"),\n\"b\": print(\"b\"), \"gamma\": print(\"g\"),\n      \"d\": print(\"d\")}; keys(m)",
		"{\"k\": 1, \"j\": 2,\n\"k\": 3}",
		"{\"kkkkkk\": 1,\n\"j\": 2, \"kkkkkk\": 3}",
		"func f() { return {\"x\": print(1), \"y\": print(2),\n\"z\": print(3), \"x\": print(4)} }; f()",
	}
	for i, h := range hand {
		for _, o := range []string{"default", "globals", "deny", "override"} {
			if (strings.Contains(h, "ga") && o != "globals") || (o != "default" && !thorough && i%4 != 0 && !strings.Contains(h, "ga") && !strings.Contains(h, "math")) {
				continue
			}
			add(fmt.Sprintf("hand%d/%s", i, o), h, o)
		}
	}
	rd := func(p string) string {
		return "try(func() { return string(os.read_file(\"" + p + "\")) }, func(e) { return \"error: \" + string(e) })"
	}
	for i, src := range []string{
		rd("/data/cache/entry.txt"), rd("/data/cache/deep/entry.txt"), rd("/data/entry.txt"), rd("/entry.txt"), rd("/data2/entry.txt"), rd("/var/entry.txt"), rd("entry.txt"), rd("deep/entry.txt"), rd("../entry.txt"),
		rd("/data/cache/deep/x/../entry.txt"), rd("/data/cachex/entry.txt"), rd("/data/cache"),
		"[" + rd("/data/cache/entry.txt") + ", " + rd("/data/cache/entry.txt") + ", " + rd("/data/cache/deep/entry.txt") + ", " + rd("/data/entry.txt") + "]",
		"try(func() { os.write_file(\"/data/cache/new.txt\", \"n\"); return [" + rd("/data/cache/new.txt") + ", " + rd("/data/new.txt") + "] }, func(e) { return string(e) })",
		"try(func() { return os.stat(\"/data/cache/deep/entry.txt\").name }, func(e) { return string(e) })",
		"try(func() { return os.read_dir(\"/data/cache\").map(func(e) { return e.name }) }, func(e) { return string(e) })",
		"try(func() { return os.read_dir(\"/\").map(func(e) { return e.name }) }, func(e) { return string(e) })",
		"os.environ()", "os.getenv(\"A\") + os.getenv(\"CC\")", "os.getwd()",
		"try(func() { os.rename(\"/data/cache/entry.txt\", \"/data/cache/deep/moved.txt\"); return 1 }, func(e) { return string(e) })",
		"try(func() { os.chdir(\"/data\"); return " + rd("entry.txt") + " }, func(e) { return string(e) })",
		"try(func() { return cat(\"/data/cache/entry.txt\") }, func(e) { return string(e) })",
		"try(func() { return ls(\"/data\") }, func(e) { return string(e) })",
	} {
		add(fmt.Sprintf("mounts%d", i), src, "mounts")
		add(fmt.Sprintf("mounts3-%d", i), src, "mounts3")
	}
	// maps and sets of every size from 5 to 18 entries (library code switches algorithm by size - an insertion sort
	// below a threshold, a different hash layout above 8): what they print, list and iterate is fixed at every size
	for n := 5; n <= 18; n++ {
		var kv, el []string
		for i := 0; i < n; i++ {
			k := fmt.Sprintf("k%c%d", 'z'-byte(i%7), (i*5)%n)
			kv = append(kv, fmt.Sprintf("%q: %d", k+fmt.Sprint(i), i))
			el = append(el, fmt.Sprintf("%q", k+fmt.Sprint(i)))
		}
		m, st := "{"+strings.Join(kv, ", ")+"}", "{"+strings.Join(el, ", ")+"}"
		add(fmt.Sprintf("size%d-map", n), "m := "+m+"\nout := []\nfor k, v := range m { out.append(k) }\n[string(m), keys(m), m.values(), m.items(), out, sprintf(\"%v\", m), json.marshal(m)]", "default")
		add(fmt.Sprintf("size%d-set", n), "s := "+st+"\nout := []\nfor v in s { out.append(v) }\n[string(s), list(s), sorted(s), out, sprintf(\"%v\", s)]", "default")
		add(fmt.Sprintf("size%d-conv", n), "try(func() { return gm }, func(e) { return string(e) })", fmt.Sprintf("gomap%d", n))
	}
	add("badglobals", "1", "badglobals")
	add("badnested", "1", "badnested")
	for i, src := range containerPrograms(thorough) {
		add(fmt.Sprintf("container%d", i), src, "default")
	}
	n := 0
	progen.F5(func(p progen.Program) {
		n++
		if p.Fam == "F5maplit" || p.Fam == "F5iter" || p.Fam == "F5in" || (thorough && n%5 == 0) {
			add(p.Fam, p.Src(), "default")
		}
	})
	progen.F3(func(p progen.Program) {
		n++
		if p.Fam == "F3def" && (thorough || n%7 == 0) {
			add(p.Fam, p.Src(), "default")
		}
	})
	progen.F7(func(p progen.Program) {
		n++
		if thorough || n%5 == 0 {
			add(p.Fam, p.Src(), "default")
		}
	})
	return out
}

func Check(r *ev.Run, replay string) {
	if replay != "" {
		var in replayIn
		if err := ev.ReadReplay(replay, &in); err != nil {
			r.EngineError(err.Error())
			return
		}
		rn := &runner{}
		vseam.Choose = rn.choose
		base, _ := outcome(in.Case)
		rn2 := &runner{dev: in.Dev}
		vseam.Choose = rn2.choose
		alt, pan := outcome(in.Case)
		fmt.Printf("%s\nsite %s deviating %v\nbase:\n%s\n\nalternative (panic %q):\n%s\n", in.Case.Src, in.Site, in.Dev, ev.Clip(base, 1500), pan, ev.Clip(alt, 1500))
		if base != alt {
			r.Report("replayed", "differs", in, "", "")
		}
		r.Eval(1)
		r.Outcome("a")
		r.Outcome("b")
		return
	}
	cases := corpus(r.Thorough())
	staticSites := map[string]bool{}
	r.Sharded(16, func(shard, n int) {
		// the map ranges every evaluation executes while the default configuration is built:
		// they are deviated under every other corpus program, not again under the container family
		setup := map[string]bool{}
		{
			rn := &runner{}
			vseam.Choose = rn.choose
			outcome(caseT{"setup", "1", "default"})
			for _, s := range rn.sites {
				setup[s.Site] = true
			}
		}
		for ci, c := range cases {
			if ci%n != shard {
				continue
			}
			rn := &runner{}
			vseam.Choose = rn.choose
			base, pan := outcome(c)
			if pan != "" {
				r.Report("C05:gopanic", c.Src+"\n  "+pan, replayIn{Case: c}, pan, "")
				continue
			}
			r.Eval(1)
			r.Outcome("base|" + ev.Clip(base, 120))
			sites := rn.sites
			// the base order once more: an outcome that differs without any deviation depends on something the seam
			// does not own (reflect's MapKeys, an address, the clock) - every comparison below would blame a map range
			vseam.Choose = (&runner{}).choose
			if again, _ := outcome(c); again != base {
				r.Report("C05:differs-without-deviation", fmt.Sprintf("%s\n  two evaluations with every map range in its base order differ:\n  %s", c.Src, firstDiffLine(base, again)), replayIn{Case: c}, ev.Clip(again, 400), ev.Clip(base, 400))
				continue
			}
			r.Eval(1)
			if ci%53 == 0 {
				r.Sample(map[string]any{"program": c.Src, "options": c.Opts, "dynamic_map_range_sites": len(sites)})
			}
			unranked := 0
			for si, s := range sites {
				staticSites[s.Site] = true
				if strings.HasPrefix(c.Name, "container") && setup[s.Site] {
					continue
				}
				if !s.Ranked {
					unranked++
				}
				for _, alt := range alternatives(s.N, r.Thorough()) {
					dev := map[int][]int{si: alt}
					rn2 := &runner{dev: dev}
					vseam.Choose = rn2.choose
					got, pan := outcome(c)
					r.Eval(1)
					if pan != "" {
						r.Report("C05:gopanic:"+s.Site, c.Src+"\n  "+pan, replayIn{c, dev, s.Site}, pan, "")
						break
					}
					if got != base {
						r.Report("C05:order-dependent:"+s.Site, fmt.Sprintf("%s\n  the outcome depends on the iteration order of the Go map ranged at %s (%d keys, order %v):\n  %s", c.Src, s.Site, s.N, alt, firstDiffLine(base, got)), replayIn{c, dev, s.Site}, ev.Clip(got, 400), ev.Clip(base, 400))
						break
					}
				}
			}
			r.Add("dynamic_sites_visited", len(sites))
			r.Add("dynamic_sites_without_stable_rank", unranked)
		}
		r.Add("static_sites_reached_by_this_shard", len(staticSites))
	})
	r.Set("programs", len(cases))
	r.Set("rule", "every corpus program (map/set/default-parameter/import programs, every deterministic default builtin and every map/set method applied to a 4-key map and set alone and with tie-making printing callbacks, all map-literal and iteration programs of the C01 generators, constant kinds; four configurations: default, extra globals, denied names, overrides) x every dynamic Go-map range site it executes (59 static sites rewritten by tools/mapseam in ., ast, compiler, vm, object, builtins, importer, parser, lexer, os, modules/fmt, modules/os) x every alternative order of that one site (all permutations for <= 3 keys; reverse, rotations and boundary swaps above); oracle: value, error text, output, MarshalCode bytes and re-marshalled bytes identical to the base order")
	r.Assumptions = []string{"dependence on memory addresses is not covered by this seam", "rand, time and goroutine scheduling are exempt by the statement"}
}
