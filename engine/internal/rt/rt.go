// Package rt drives the real risor pipeline (lexer -> parser -> compiler -> VM)
// on one source text and reports the outcome in the harness's own terms.
package rt

import (
	"context"
	"fmt"
	"io/fs"
	"strings"
	"sync"
	"time"

	"github.com/risor-io/risor/builtins"
	"github.com/risor-io/risor/compiler"
	modFmt "github.com/risor-io/risor/modules/fmt"
	"github.com/risor-io/risor/object"
	ros "github.com/risor-io/risor/os"
	"github.com/risor-io/risor/parser"
	"github.com/risor-io/risor/vm"
)

// Outcome of running one program on the implementation.
type Outcome struct {
	Stage   string // "parse", "compile", "run", "ok", "gopanic"
	Err     error  // the error returned by Run (Stage "run")
	ErrText string
	Class   string // error class for Stage run: text before the first ':' when it is a known class, else "user"
	UserMsg string
	Val     string // Inspect() of the result
	Type    string
	Log     []string
	Globals map[string]string
	Code    *compiler.Code
	VM      *vm.VirtualMachine
	release context.CancelFunc
}

// Release frees the guard timer of the run; call it when the VM is no longer used.
func (o *Outcome) Release() {
	if o.release != nil {
		o.release()
		o.release = nil
	}
}

func (o Outcome) Rejected() bool { return o.Stage == "parse" || o.Stage == "compile" }

var knownClasses = []string{"type error", "index error", "key error", "args error", "panic", "value error", "attribute error", "name error", "eval error", "unpack count mismatch", "exec error", "io error"}

func Classify(msg string) (class, user string) {
	for _, k := range knownClasses {
		if strings.HasPrefix(msg, k) {
			return k, ""
		}
	}
	return "user", msg
}

// logFile is an os.File whose writes go to a shared line log.
type logFile struct {
	mu   *sync.Mutex
	log  *[]string
	part strings.Builder
}

func (f *logFile) Write(p []byte) (int, error) {
	f.mu.Lock()
	defer f.mu.Unlock()
	f.part.Write(p)
	s := f.part.String()
	for {
		i := strings.IndexByte(s, '\n')
		if i < 0 {
			break
		}
		*f.log = append(*f.log, s[:i])
		s = s[i+1:]
	}
	f.part.Reset()
	f.part.WriteString(s)
	return len(p), nil
}
func (f *logFile) Read(p []byte) (int, error)  { return 0, fmt.Errorf("not readable") }
func (f *logFile) Close() error                { return nil }
func (f *logFile) Stat() (fs.FileInfo, error) { return nil, fmt.Errorf("no stat") }

// Env is one evaluation environment: globals + log.
type Env struct {
	mu      sync.Mutex
	Log     []string
	Emits   int64
	Globals map[string]any
	Names   []string
	OS      ros.OS
	Probe   func(site int64)
	OnVM    func(m *vm.VirtualMachine) // called after the VM is built, before it runs
}

// safeInspect renders a value; a panic inside Inspect (a corrupted value) is reported in the text.
func safeInspect(o object.Object) (s string) {
	defer func() {
		if r := recover(); r != nil {
			s = fmt.Sprint("<Inspect panicked: ", r, ">")
		}
	}()
	if o == nil {
		return "<Go nil object>"
	}
	return o.Inspect()
}

// NewEnv builds the standard harness environment: risor's builtins + print/printf +
// host builtins emit(k), n(), probe(k). extra adds / overrides globals.
func NewEnv(extra map[string]any) *Env {
	e := &Env{Globals: map[string]any{}}
	for k, v := range builtins.Builtins() {
		e.Globals[k] = v
	}
	for k, v := range modFmt.Builtins() {
		e.Globals[k] = v
	}
	e.Globals["emit"] = object.NewBuiltin("emit", func(ctx context.Context, args ...object.Object) object.Object {
		s := "#?"
		if len(args) == 1 {
			s = "#" + safeInspect(args[0])
		}
		e.mu.Lock()
		e.Emits++
		e.Log = append(e.Log, s)
		e.mu.Unlock()
		return object.Nil
	})
	e.Globals["n"] = object.NewBuiltin("n", func(ctx context.Context, args ...object.Object) object.Object {
		e.mu.Lock()
		defer e.mu.Unlock()
		return object.NewInt(e.Emits)
	})
	e.Globals["probe"] = object.NewBuiltin("probe", func(ctx context.Context, args ...object.Object) object.Object {
		if e.Probe != nil && len(args) == 1 {
			if i, ok := args[0].(*object.Int); ok {
				e.Probe(i.Value())
			}
		}
		return object.Nil
	})
	for k, v := range extra {
		e.Globals[k] = v
	}
	for k := range e.Globals {
		e.Names = append(e.Names, k)
	}
	out := &logFile{mu: &e.mu, log: &e.Log}
	e.OS = ros.NewVirtualOS(context.Background(), ros.WithStdout(out))
	return e
}

// Reset clears the log and counters so the environment can serve another program.
func (e *Env) Reset() {
	e.mu.Lock()
	e.Log = nil
	e.Emits = 0
	e.mu.Unlock()
}

// Eval = Compile + RunCode on this environment (after Reset).
func (e *Env) Eval(src string, names []string) Outcome { return e.EvalPost(src, names, nil) }

// EvalPost additionally has the host call the functions held by the globals in post
// (vm.Get + vm.Call, argument 0 if the function takes one); results are logged as "#host <value>".
func (e *Env) EvalPost(src string, names []string, post []string) Outcome {
	e.Reset()
	code, o := e.Compile(src)
	if code == nil {
		return o
	}
	o = e.RunCode(code, names, 5*time.Second)
	defer o.Release()
	if o.Stage == "ok" && len(post) > 0 {
		e.post(&o, post)
		if o.Stage == "ok" && len(names) > 0 {
			for _, n := range names {
				if v, err := o.VM.Get(n); err == nil && v != nil {
					o.Globals[n] = safeInspect(v)
				}
			}
		}
	}
	return o
}

func (e *Env) post(o *Outcome, post []string) {
	defer func() {
		if r := recover(); r != nil {
			o.Stage = "gopanic"
			o.ErrText = fmt.Sprint("in vm.Call: ", r)
		}
		e.mu.Lock()
		o.Log = append([]string(nil), e.Log...)
		e.mu.Unlock()
	}()
	for _, name := range post {
		// "f!" : the host calls f and, when what comes back is a function, calls that twice as well
		// "f?" : the host calls f with one argument too many (refused before f is entered)
		chain, surplus := strings.HasSuffix(name, "!"), strings.HasSuffix(name, "?")
		name = strings.TrimRight(name, "!?")
		obj, err := o.VM.Get(name)
		if err != nil {
			e.logLine("#host get error " + err.Error())
			continue
		}
		fn, ok := obj.(*object.Function)
		if !ok {
			e.logLine("#host not a function")
			continue
		}
		var args []object.Object
		if len(fn.Parameters()) > 0 {
			args = []object.Object{object.NewInt(0)}
		}
		if surplus {
			args = append(args, object.NewInt(0), object.NewInt(0))
			if _, err := o.VM.Call(context.Background(), fn, args); err != nil {
				e.logLine("#host refused")
			} else {
				e.logLine("#host surplus arguments accepted")
			}
			continue
		}
		res, err := o.VM.Call(context.Background(), fn, args)
		if err != nil {
			cls, _ := Classify(err.Error())
			e.logLine("#host error " + cls)
		} else if _, isFn := res.(*object.Function); isFn {
			e.logLine("#host function")
		} else {
			e.logLine("#host " + safeInspect(res))
		}
		if inner, ok := res.(*object.Function); ok && chain && err == nil {
			for k := 0; k < 2; k++ {
				var a2 []object.Object
				if len(inner.Parameters()) > 0 {
					a2 = []object.Object{object.NewInt(0)}
				}
				r2, err := o.VM.Call(context.Background(), inner, a2)
				if err != nil {
					cls, _ := Classify(err.Error())
					e.logLine("#host error " + cls)
				} else {
					e.logLine("#host " + safeInspect(r2))
				}
			}
		}
	}
}

func (e *Env) logLine(s string) {
	e.mu.Lock()
	e.Log = append(e.Log, s)
	e.mu.Unlock()
}

// Compile parses and compiles src against the environment's global names.
func (e *Env) Compile(src string) (code *compiler.Code, o Outcome) {
	defer func() {
		if r := recover(); r != nil {
			o = Outcome{Stage: "gopanic", ErrText: fmt.Sprint(r)}
			code = nil
		}
	}()
	ctx := context.Background()
	prog, err := parser.Parse(ctx, src)
	if err != nil {
		return nil, Outcome{Stage: "parse", ErrText: err.Error()}
	}
	code, err = compiler.Compile(prog, compiler.WithGlobalNames(e.Names))
	if err != nil {
		return nil, Outcome{Stage: "compile", ErrText: err.Error()}
	}
	return code, Outcome{Stage: "ok"}
}

// RunCode runs compiled code on a fresh VM. names = top-level variables to read back.
func (e *Env) RunCode(code *compiler.Code, names []string, timeout time.Duration) (o Outcome) {
	defer func() {
		if r := recover(); r != nil {
			rel := o.release
			o = Outcome{Stage: "gopanic", ErrText: fmt.Sprint(r), release: rel}
		}
		e.mu.Lock()
		o.Log = append([]string(nil), e.Log...)
		e.mu.Unlock()
	}()
	ctx := context.Background()
	if timeout > 0 {
		// The context is deliberately not cancelled when the run returns: cancelling a finished
		// run's context can halt a later call on the same VM (the subject of C07). The timer is
		// released by Outcome.Release once the VM is no longer used.
		var cancel context.CancelFunc
		ctx, cancel = context.WithTimeout(ctx, timeout)
		o.release = cancel
	}
	machine := vm.New(code, vm.WithGlobals(e.Globals), vm.WithOS(e.OS), vm.WithConcurrency())
	o.VM = machine
	o.Code = code
	if e.OnVM != nil {
		e.OnVM(machine)
	}
	if err := machine.Run(ctx); err != nil {
		o.Stage = "run"
		o.ErrText = err.Error()
		o.Class, o.UserMsg = Classify(o.ErrText)
		if ctx.Err() != nil {
			o.Class = "timeout"
		}
		return o
	}
	o.Stage = "ok"
	if v, ok := machine.TOS(); ok && v != nil {
		o.Val = safeInspect(v)
		o.Type = string(v.Type())
	} else {
		o.Val, o.Type = "nil", "nil"
	}
	if len(names) > 0 {
		o.Globals = map[string]string{}
		for _, n := range names {
			if v, err := machine.Get(n); err == nil && v != nil {
				o.Globals[n] = safeInspect(v)
			}
		}
	}
	return o
}

// RunCodeCtx runs compiled code on a fresh VM under the caller's context (no guard timer).
func (e *Env) RunCodeCtx(ctx context.Context, code *compiler.Code) (o Outcome) {
	defer func() {
		if r := recover(); r != nil {
			o = Outcome{Stage: "gopanic", ErrText: fmt.Sprint(r)}
		}
		e.mu.Lock()
		o.Log = append([]string(nil), e.Log...)
		e.mu.Unlock()
	}()
	machine := vm.New(code, vm.WithGlobals(e.Globals), vm.WithOS(e.OS), vm.WithConcurrency())
	o.VM = machine
	o.Code = code
	if e.OnVM != nil {
		e.OnVM(machine)
	}
	if err := machine.Run(ctx); err != nil {
		o.Stage = "run"
		o.Err = err
		o.ErrText = err.Error()
		o.Class, o.UserMsg = Classify(o.ErrText)
		return o
	}
	o.Stage = "ok"
	if v, ok := machine.TOS(); ok && v != nil {
		o.Val = safeInspect(v)
		o.Type = string(v.Type())
	} else {
		o.Val, o.Type = "nil", "nil"
	}
	return o
}

// Eval = Compile + RunCode on a fresh environment.
func Eval(src string, names []string) Outcome {
	e := NewEnv(nil)
	code, o := e.Compile(src)
	if code == nil {
		return o
	}
	out := e.RunCode(code, names, 5*time.Second)
	out.Release()
	return out
}
