// Package astdump renders risor's real AST in two position-free forms:
// Expr: a fully parenthesised expression dump through the public accessors
// (comparable with progen.Dump), and Generic: a reflection dump of every node
// and field except source positions (used to compare two parses).
package astdump

import (
	"fmt"
	"reflect"
	"sort"
	"strconv"
	"strings"
	"unsafe"

	"github.com/risor-io/risor/ast"
	"github.com/risor-io/risor/token"
)

// Expr dumps an expression fully parenthesised; ok=false for node kinds it does not know.
func Expr(n ast.Node) (s string, ok bool) {
	ok = true
	var d func(n ast.Node) string
	list := func(ns []ast.Node) string {
		parts := make([]string, len(ns))
		for i, x := range ns {
			parts[i] = d(x)
		}
		return strings.Join(parts, ", ")
	}
	d = func(n ast.Node) string {
		switch x := n.(type) {
		case *ast.Ident:
			return x.Literal()
		case *ast.Int:
			return strconv.FormatInt(x.Value(), 10)
		case *ast.Float:
			f := strconv.FormatFloat(x.Value(), 'f', -1, 64)
			if !strings.Contains(f, ".") {
				f += ".0"
			}
			return f
		case *ast.String:
			return quote(x.Value())
		case *ast.Bool:
			return strconv.FormatBool(x.Value())
		case *ast.Nil:
			return "nil"
		case *ast.Infix:
			return "(" + d(x.Left()) + " " + x.Operator() + " " + d(x.Right()) + ")"
		case *ast.In:
			return "(" + d(x.Left()) + " in " + d(x.Right()) + ")"
		case *ast.NotIn:
			return "(" + d(x.Left()) + " not in " + d(x.Right()) + ")"
		case *ast.Prefix:
			return "(" + x.Operator() + d(x.Right()) + ")"
		case *ast.Ternary:
			return "(" + d(x.Condition()) + " ? " + d(x.IfTrue()) + " : " + d(x.IfFalse()) + ")"
		case *ast.Call:
			return d(x.Function()) + "(" + list(x.Arguments()) + ")"
		case *ast.ObjectCall:
			return d(x.Object()) + "." + d(x.Call())
		case *ast.GetAttr:
			return d(x.Object()) + "." + x.Name()
		case *ast.Index:
			return d(x.Left()) + "[" + d(x.Index()) + "]"
		case *ast.List:
			parts := make([]string, len(x.Items()))
			for i, it := range x.Items() {
				parts[i] = d(it)
			}
			return "[" + strings.Join(parts, ", ") + "]"
		case *ast.Map:
			type kv struct {
				pos  int
				k, v string
			}
			var kvs []kv
			for k, v := range x.Items() {
				kvs = append(kvs, kv{k.Token().StartPosition.Char, d(k), d(v)})
			}
			sort.Slice(kvs, func(i, j int) bool { return kvs[i].pos < kvs[j].pos })
			parts := make([]string, len(kvs))
			for i, e := range kvs {
				parts[i] = e.k + ": " + e.v
			}
			return "{" + strings.Join(parts, ", ") + "}"
		}
		ok = false
		return fmt.Sprintf("<%T>", n)
	}
	return d(n), ok
}

func quote(s string) string {
	var sb strings.Builder
	sb.WriteByte('"')
	for _, c := range s {
		switch c {
		case '"':
			sb.WriteString(`\"`)
		case '\\':
			sb.WriteString(`\\`)
		case '\n':
			sb.WriteString(`\n`)
		case '\t':
			sb.WriteString(`\t`)
		case '\r':
			sb.WriteString(`\r`)
		default:
			sb.WriteRune(c)
		}
	}
	sb.WriteByte('"')
	return sb.String()
}

var tokenType = reflect.TypeOf(token.Token{})
var positionType = reflect.TypeOf(token.Position{})
var nodeType = reflect.TypeOf((*ast.Node)(nil)).Elem()

// Generic dumps any AST (or any value) structurally, skipping token/position
// fields. Maps keyed by AST nodes are ordered by the key's source position;
// other maps by their dumped key.
func Generic(v any) string {
	var sb strings.Builder
	seen := map[uintptr]bool{}
	generic(&sb, reflect.ValueOf(v), seen, 0)
	return sb.String()
}

func generic(sb *strings.Builder, v reflect.Value, seen map[uintptr]bool, depth int) {
	if depth > 400 {
		sb.WriteString("<deep>")
		return
	}
	if !v.IsValid() {
		sb.WriteString("<nil>")
		return
	}
	switch v.Kind() {
	case reflect.Interface:
		if v.IsNil() {
			sb.WriteString("<nil>")
			return
		}
		generic(sb, v.Elem(), seen, depth+1)
	case reflect.Ptr:
		if v.IsNil() {
			sb.WriteString("<nil>")
			return
		}
		p := v.Pointer()
		if seen[p] {
			sb.WriteString("<cycle>")
			return
		}
		seen[p] = true
		generic(sb, v.Elem(), seen, depth+1)
		delete(seen, p)
		// the order in which the implementation itself walks a map literal (printing and compiling use it)
		// is part of the tree's meaning although the entries are kept in a Go map
		if !v.CanInterface() {
			return
		}
		if m, ok := v.Interface().(*ast.Map); ok {
			sb.WriteString(" entry-order=[")
			for i, k := range m.OrderedKeys() {
				if i > 0 {
					sb.WriteString(" ")
				}
				sb.WriteString(strconv.Quote(k.String()))
			}
			sb.WriteString("]")
		}
	case reflect.Struct:
		t := v.Type()
		if t == positionType {
			return
		}
		if t == tokenType {
			// type and literal only, never positions
			sb.WriteString("tok(" + v.FieldByName("Type").String() + "," + strconv.Quote(v.FieldByName("Literal").String()) + ")")
			return
		}
		sb.WriteString("(" + t.Name())
		for i := 0; i < v.NumField(); i++ {
			f := v.Field(i)
			ft := t.Field(i)
			if ft.Type == positionType {
				continue
			}
			if !f.CanInterface() {
				if !f.CanAddr() {
					// copy into an addressable value
					c := reflect.New(t).Elem()
					c.Set(v)
					f = c.Field(i)
				}
				f = reflect.NewAt(f.Type(), unsafe.Pointer(f.UnsafeAddr())).Elem()
			}
			sb.WriteString(" " + ft.Name + "=")
			generic(sb, f, seen, depth+1)
		}
		sb.WriteString(")")
	case reflect.Slice, reflect.Array:
		if v.Kind() == reflect.Slice && v.IsNil() {
			sb.WriteString("[]")
			return
		}
		sb.WriteString("[")
		for i := 0; i < v.Len(); i++ {
			if i > 0 {
				sb.WriteString(" ")
			}
			generic(sb, v.Index(i), seen, depth+1)
		}
		sb.WriteString("]")
	case reflect.Map:
		type ent struct {
			pos  int
			k, v string
		}
		var es []ent
		it := v.MapRange()
		for it.Next() {
			var kb, vb strings.Builder
			generic(&kb, it.Key(), seen, depth+1)
			generic(&vb, it.Value(), seen, depth+1)
			e := ent{k: kb.String(), v: vb.String(), pos: -1}
			if it.Key().Type().Implements(nodeType) && it.Key().CanInterface() {
				if n, ok := it.Key().Interface().(ast.Node); ok && n != nil {
					e.pos = n.Token().StartPosition.Char
				}
			}
			es = append(es, e)
		}
		sort.Slice(es, func(i, j int) bool {
			if es[i].pos != es[j].pos {
				return es[i].pos < es[j].pos
			}
			return es[i].k < es[j].k
		})
		sb.WriteString("{")
		for i, e := range es {
			if i > 0 {
				sb.WriteString(" ")
			}
			sb.WriteString(e.k + ":" + e.v)
		}
		sb.WriteString("}")
	case reflect.String:
		sb.WriteString(strconv.Quote(v.String()))
	case reflect.Bool:
		sb.WriteString(strconv.FormatBool(v.Bool()))
	case reflect.Int, reflect.Int8, reflect.Int16, reflect.Int32, reflect.Int64:
		sb.WriteString(strconv.FormatInt(v.Int(), 10))
	case reflect.Uint, reflect.Uint8, reflect.Uint16, reflect.Uint32, reflect.Uint64:
		sb.WriteString(strconv.FormatUint(v.Uint(), 10))
	case reflect.Float32, reflect.Float64:
		sb.WriteString(strconv.FormatFloat(v.Float(), 'g', -1, 64))
	case reflect.Func:
		sb.WriteString("<func>")
	default:
		sb.WriteString("<" + v.Kind().String() + ">")
	}
}
