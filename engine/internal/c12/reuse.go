package c12

import (
	"context"
	"fmt"
	"strings"
	"testing/fstest"

	"github.com/risor-io/risor"
	"github.com/risor-io/risor/compiler"
	"github.com/risor-io/risor/importer"
	"github.com/risor-io/risor/object"
	ros "github.com/risor-io/risor/os"
	rparser "github.com/risor-io/risor/parser"
	"github.com/risor-io/risor/vm"

	"verif/internal/ev"
)

// Reused-VM contexts: "r:<r1>:<supply>:<entry>:<inner>". On ONE VirtualMachine a first run R1 (`os.getpid()`, so
// that anything a VM might cache about its OS is primed) is followed by the case as second run R2.
//
//	r1     OS of R1: none (real/simple OS fallback) | optA (recording OS A by option) | ctxA (A in the context)
//	supply OS of R2: vmopt   recording OS B by vm.RunCode(ctx, code, vm.WithOS(B))
//	                 risoropt B by risor.WithVM(v) + risor.WithOS(B) (risor.Eval / risor.Call)
//	                 ctx      B in the context
//	entry  how R2 enters the VM: runcode (RunCode / risor.Eval on the VM) | run (incremental: the case is appended
//	       to the main code and vm.Run resumes, the REPL way; B can only come in the context) | vmcall (R2's code
//	       defines the function, then vm.Call) | risorcall (risor.Call with WithVM)
//	inner  direct | spawn (the case runs in a spawned goroutine) | import (the case lives in an imported module)
//
// R2 uses the same Go context value as R1 (context.Background()) whenever B is not itself carried by the context
// and R1's context did not carry A.
// Oracle: every call of R2 is served by B, A's log gets nothing new, the real process is untouched. The one
// exception is r1=optA with supply=ctx: A is still the VM's option OS and B is in the context - the undocumented
// "both" situation - so exactly one of them must serve all of R2.
var (
	rR1          = []string{"none", "optA", "ctxA"}
	rInner       = []string{"direct", "spawn", "import"}
	rEntrySupply = [][2]string{
		{"runcode", "vmopt"}, {"runcode", "risoropt"}, {"runcode", "ctx"},
		{"run", "ctx"},
		{"vmcall", "vmopt"}, {"vmcall", "risoropt"}, {"vmcall", "ctx"},
		{"risorcall", "risoropt"}, {"risorcall", "ctx"},
		// keep: R2 names no OS at all (risor.Eval / risor.Call with WithVM only): the OS the VM was given
		// for R1 keeps serving (only with r1 = optA)
		{"runcode", "keep"}, {"vmcall", "keep"}, {"risorcall", "keep"},
	}
)

const reuseSupply = "reuse"

func reuseContexts() []string {
	var out []string
	for _, r1 := range rR1 {
		for _, es := range rEntrySupply {
			if es[1] == "keep" && r1 != "optA" {
				continue
			}
			for _, in := range rInner {
				out = append(out, "r:"+r1+":"+es[1]+":"+es[0]+":"+in)
			}
		}
	}
	return out
}

// reuseVariants: all call templates in the thorough tier, a deterministic third (every third template) in quick.
func reuseVariants(thorough bool) []variant {
	var out []variant
	for i, v := range variants(0) {
		if thorough || i%3 == 0 {
			out = append(out, v)
		}
	}
	return out
}

// R1 also touches the three standard streams: what the os module remembers about them belongs to R1's OS
const r1Source = "os.getpid()\nos.stdout\nos.stdin\nos.stderr\nos.getpid()\n"

// reuseSources returns R2's main program and module source.
func reuseSources(v variant, cx string) (main, mod string) {
	p := strings.Split(cx, ":")
	entry, inner := p[3], p[4]
	call := entry == "vmcall" || entry == "risorcall"
	switch inner {
	case "direct":
		if call {
			return funcDef("__case", v), ""
		}
		return topSrc(v), ""
	case "spawn":
		if call {
			return funcDef("__inner", v) + "func __case() {\n  return spawn(__inner).wait()\n}\n", ""
		}
		return funcDef("__inner", v) + "spawn(__inner).wait()\n", ""
	default: // import
		if call {
			return "import vmod\nfunc __case() {\n  return vmod.vcase()\n}\n", funcDef("vcase", v)
		}
		return "import vmod\nvmod.vcase()\n", funcDef("vcase", v)
	}
}

func compileSrc(ctx context.Context, src string, opts []compiler.Option) (*compiler.Code, error) {
	tree, err := rparser.Parse(ctx, src)
	if err != nil {
		return nil, fmt.Errorf("parse: %w", err)
	}
	return compiler.Compile(tree, opts...)
}

// executeReuse performs R1 and R2 on one VM. r1Err is non-empty when R1 itself failed.
func executeReuse(v variant, cx string, A, B *recOS) (got, errText, r1Err string, aAfterR1 int) {
	defer func() {
		if e := recover(); e != nil {
			got, errText = "PANIC", fmt.Sprint(e)
		}
	}()
	p := strings.Split(cx, ":")
	r1, supply, entry := p[1], p[2], p[3]
	main, mod := reuseSources(v, cx)
	bg := context.Background()
	ctx1, ctx2 := bg, bg
	if r1 == "ctxA" {
		ctx1 = ros.WithOS(bg, A)
	}
	if supply == "ctx" {
		ctx2 = ros.WithOS(bg, B)
	}
	base := []risor.Option{risor.WithConcurrency()}
	if mod != "" {
		base = append(base, risor.WithImporter(importer.NewFSImporter(importer.FSImporterOptions{
			GlobalNames: defaultGlobalNames,
			SourceFS:    fstest.MapFS{"vmod.risor": &fstest.MapFile{Data: []byte(mod)}},
			Extensions:  []string{".risor"},
		})))
	}
	cfg := risor.NewConfig(base...)
	fin := func(o object.Object, err error) (string, string) {
		if err != nil {
			return "ERR", err.Error()
		}
		return render(o), ""
	}
	aLen := func() int {
		if A == nil {
			return 0
		}
		return len(A.in.snapshot())
	}
	vmOpts1 := cfg.VMOpts()
	if r1 == "optA" {
		vmOpts1 = append(vmOpts1, vm.WithOS(A))
	}

	if entry == "run" {
		// incremental: main = R1's script; the case is appended to the same code and vm.Run resumes
		c, err := compiler.New(cfg.CompilerOpts()...)
		if err != nil {
			return "ERR", "compiler: " + err.Error(), "", 0
		}
		t1, err := rparser.Parse(bg, r1Source)
		if err != nil {
			return "ERR", "parse r1: " + err.Error(), "", 0
		}
		code, err := c.Compile(t1)
		if err != nil {
			return "ERR", "compile r1: " + err.Error(), "", 0
		}
		machine := vm.New(code, vmOpts1...)
		if err := machine.Run(ctx1); err != nil {
			r1Err = err.Error()
		}
		aAfterR1 = aLen()
		t2, err := rparser.Parse(bg, main)
		if err != nil {
			return "ERR", "parse: " + err.Error(), r1Err, aAfterR1
		}
		if _, err := c.Compile(t2); err != nil {
			return "ERR", "compile: " + err.Error(), r1Err, aAfterR1
		}
		if err := machine.Run(ctx2); err != nil {
			got, errText = fin(nil, err)
			return got, errText, r1Err, aAfterR1
		}
		tos, _ := machine.TOS()
		got, errText = fin(tos, nil)
		return got, errText, r1Err, aAfterR1
	}

	machine, err := vm.NewEmpty()
	if err != nil {
		return "ERR", "new vm: " + err.Error(), "", 0
	}
	r1code, err := compileSrc(bg, r1Source, cfg.CompilerOpts())
	if err != nil {
		return "ERR", "r1: " + err.Error(), "", 0
	}
	if err := machine.RunCode(ctx1, r1code, vmOpts1...); err != nil {
		r1Err = err.Error()
	}
	aAfterR1 = aLen()

	ropts := append(append([]risor.Option{}, base...), risor.WithVM(machine))
	if supply == "risoropt" {
		ropts = append(ropts, risor.WithOS(B))
	}
	var vopts []vm.Option
	if supply == "vmopt" {
		vopts = append(vopts, vm.WithOS(B))
	}
	// runR2Code loads R2's code into the VM the way the supply form dictates
	runR2Code := func() (object.Object, error) {
		if supply == "risoropt" || supply == "keep" {
			return risor.Eval(ctx2, main, ropts...)
		}
		code, err := compileSrc(bg, main, cfg.CompilerOpts())
		if err != nil {
			return nil, err
		}
		return vm.RunCodeOnVM(ctx2, machine, code, vopts...)
	}
	switch entry {
	case "runcode":
		got, errText = fin(runR2Code())
	case "vmcall":
		if _, err := runR2Code(); err != nil {
			return "ERR", "defining run: " + err.Error(), r1Err, aAfterR1
		}
		fo, err := machine.Get("__case")
		if err != nil {
			return "ERR", "get: " + err.Error(), r1Err, aAfterR1
		}
		fn, ok := fo.(*object.Function)
		if !ok {
			return "ERR", "__case is not a function", r1Err, aAfterR1
		}
		got, errText = fin(machine.Call(ctx2, fn, nil))
	case "risorcall":
		code, err := compileSrc(bg, main, cfg.CompilerOpts())
		if err != nil {
			return "ERR", err.Error(), r1Err, aAfterR1
		}
		got, errText = fin(risor.Call(ctx2, code, "__case", nil, ropts...))
	}
	return got, errText, r1Err, aAfterR1
}

func runReuse(idx int, c kase, detail bool) (out caseOut) {
	out.I = idx
	tag := tagOf(idx)
	v, cx := retagVariant(c.v, tag), c.in.Ctx
	p := strings.Split(cx, ":")
	r1, supply := p[1], p[2]
	var A *recOS
	if r1 != "none" {
		A = newRecOS("A", tag)
	}
	B := newRecOS("B", tag)
	got, errText, r1Err, aAfterR1 := executeReuse(v, cx, A, B)
	out.Got, out.Err = got, errText
	addFail := func(kind, what, obs, exp string) {
		out.Fails = append(out.Fails, fail{kind, what, ev.Clip(obs, 600), ev.Clip(exp, 300)})
	}
	bLog := B.in.snapshot()
	var aNew []string
	if A != nil {
		al := A.in.snapshot()
		if r1Err != "" || aAfterR1 == 0 || al[0] != "Getpid()" {
			addFail("r1-not-served", "the priming run R1 was not served by recording OS A", fmt.Sprintf("A's log %v err %q", al, r1Err), "A logs Getpid()")
		}
		if aAfterR1 <= len(al) {
			aNew = al[aAfterR1:]
		}
	} else if r1Err != "" {
		addFail("r1-failed", "the priming run R1 failed", r1Err, "os.getpid() runs")
	}
	server, log := B, bLog
	out.Served = "B"
	both := r1 == "optA" && supply == "ctx"
	keep := supply == "keep"
	switch {
	case keep:
		// nothing names an OS for R2: the VM's own OS (A) has to serve it
		server, log, out.Served = A, aNew, "A"
		if len(bLog) > 0 {
			addFail("keep-wrong-os", "an OS that was never given to the VM served calls", strings.Join(bLog, "; "), "nothing")
		}
	case len(aNew) > 0 && both && len(bLog) == 0:
		server, log, out.Served = A, aNew, "A"
	case len(aNew) > 0 && both:
		addFail("both-split", "both recording OS instances served part of R2", "A: "+strings.Join(aNew, "; ")+" | B: "+strings.Join(bLog, "; "), "exactly one instance serves every call")
	case len(aNew) > 0:
		out.Served = "A(stale)"
		if len(bLog) > 0 {
			out.Served = "A(stale)+B"
		}
	case len(bLog) == 0:
		out.Served = "none"
	}
	if detail {
		out.Log = append(append([]string{"--- B:"}, bLog...), append([]string{"--- new in A during R2:"}, aNew...)...)
		m, mod := reuseSources(v, cx)
		out.Src = "--- R1: " + r1Source + "--- R2:\n" + m
		if mod != "" {
			out.Src += "--- vmod.risor ---\n" + mod
		}
	}
	if got == "PANIC" {
		addFail("panic", "panic escaped the evaluation", errText, "value or error")
	}
	if miss, ok := subsequence(v.Log, log); !ok {
		obs := "B's log: [" + strings.Join(bLog, "; ") + "]"
		if len(aNew) > 0 {
			obs += " the EARLIER run's OS A logged during R2: [" + strings.Join(aNew, "; ") + "]"
		}
		what := "on a reused VM the OS supplied for the second run did not log "
		if keep {
			what = "on a reused VM whose second run names no OS, the OS the VM was given did not log "
		}
		addFail("not-served", what+miss, obs+" answer: "+got+" "+errText, "B's log contains "+strings.Join(v.Log, "; "))
	} else if len(aNew) > 0 && !(both && server == A) && !keep {
		addFail("stale-os", "the OS of the earlier run logged calls of the second run", strings.Join(aNew, "; "), "A's log gets nothing new")
	}
	if !matchWant(v.Want, got) {
		addFail("wrong-answer", "the script did not observe the recording OS's answer", got+" "+errText, v.Want)
	}
	for _, ps := range v.Post {
		if msg := postCheck(server, ps); msg != "" {
			addFail("post-state", msg, msg, ps)
		}
	}
	for _, f := range out.Fails {
		if f.Kind == "not-served" {
			var keep []fail
			for _, g := range out.Fails {
				if g.Kind != "wrong-answer" && g.Kind != "post-state" {
					keep = append(keep, g)
				}
			}
			out.Fails = keep
			break
		}
	}
	return out
}
