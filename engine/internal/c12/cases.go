package c12

import (
	"fmt"
	"go/ast"
	"go/parser"
	"go/token"
	"path/filepath"
	"reflect"
	"sort"
	"strconv"
	"strings"

	"github.com/risor-io/risor/builtins"
	modFilepath "github.com/risor-io/risor/modules/filepath"
	modFmt "github.com/risor-io/risor/modules/fmt"
	modOs "github.com/risor-io/risor/modules/os"
	"github.com/risor-io/risor/object"

	"verif/internal/ev"
)

// variant is one call template instantiated with one argument tuple.
type variant struct {
	Fn    string   `json:"fn"`    // discovered function this variant exercises, e.g. "os.read_file", "builtin.cat", "file.seek"
	ID    string   `json:"id"`    // argument tuple id
	K     int      `json:"k"`     // path spelling (0 plain, 1 "./", 2 "x/../")
	Stmts string   `json:"stmts"` // risor statements
	Expr  string   `json:"expr"`  // risor expression: the answer the script observed
	Want  string   `json:"want"`  // expected rendering of Expr: exact | "re:<regexp>" | "ERR" | "*" (statement silent)
	Log   []string `json:"log"`   // calls the recording OS must have logged, in this order (subsequence)
	Post  []string `json:"post"`  // post-state of the recording OS
}

const (
	cA   = "alpha-VIRTUAL\nline2-VIRTUAL\n"
	cRel = "rel-VIRTUAL\n"
	cB   = "beta-VIRTUAL"
	cC   = "gamma-VIRTUAL"
)

func q(s string) string { return strconv.Quote(s) }

// spell returns an alternative spelling of the same location (all still carry the marker).
func spell(p string, k int) string {
	abs := strings.HasPrefix(p, "/")
	switch k {
	case 1:
		if abs {
			return "/./" + p[1:]
		}
		return "./" + p
	case 2:
		if abs {
			return "/VERIFMARK_tmp/.." + p
		}
		return "VERIFMARK_reldir/../" + p
	}
	return p
}

// absOf is where a script path lands in the recording OS (cwd = vCwd).
func absOf(p string) string {
	if strings.HasPrefix(p, "/") {
		return filepath.Clean(p)
	}
	return filepath.Join(vCwd, p)
}

func listLit(items ...string) string {
	qs := make([]string, len(items))
	for i, s := range items {
		qs[i] = q(s)
	}
	return "[" + strings.Join(qs, ", ") + "]"
}

// variants builds every call template for spelling k.
func variants(k int) []variant {
	var out []variant
	add := func(fn, id, stmts, expr, want string, log []string, post ...string) {
		out = append(out, variant{Fn: fn, ID: id, K: k, Stmts: stmts, Expr: expr, Want: want, Log: log, Post: post})
	}
	L := func(s ...string) []string { return s }
	sp := func(p string) string { return spell(p, k) }

	fileA, relF := sp("/VERIFMARK_dir/a.txt"), sp("VERIFMARK_rel.txt")
	dirD, relD := sp("/VERIFMARK_dir"), sp("VERIFMARK_reldir")
	missing := sp("/VERIFMARK_dir/VERIFMARK_missing.txt")
	newAbs, newRel := sp("/VERIFMARK_dir/VERIFMARK_new.txt"), sp("VERIFMARK_newrel.txt")
	newTop, newRelDir, newSub := sp("/VERIFMARK_newtop"), sp("VERIFMARK_newreldir"), sp("/VERIFMARK_dir/VERIFMARK_nd")
	type pc struct{ id, p, content string }
	readable := []pc{{"absfile", fileA, cA}, {"relfile", relF, cRel}}

	// ------------------------------------------------------------ os module
	for _, mod := range []string{"os."} {
		_ = mod
	}
	add("os.args", "-", "", "os.args()", listLit("VERIFMARK_arg0", "VERIFMARK_arg1"), L("Args()"))
	for _, t := range []struct{ fn, call string }{{"os.chdir", "os.chdir"}, {"builtin.cd", "cd"}} {
		for _, p := range []pc{{"absdir", dirD, ""}, {"reldir", relD, ""}} {
			add(t.fn, p.id, t.call+"("+q(p.p)+")", `"done"`, "done", L(fmt.Sprintf("Chdir(%q)", p.p)), "cwd:"+p.p)
		}
	}
	for _, p := range []pc{{"newabs", newAbs, ""}, {"newrel", newRel, ""}, {"existing", fileA, ""}} {
		a := absOf(p.p)
		add("os.create", p.id, fmt.Sprintf("f := os.create(%s)\nf.write(\"created-VERIFMARK\")\nf.close()", q(p.p)),
			`"done"`, "done",
			L(fmt.Sprintf("Create(%q)", p.p), fmt.Sprintf("File.Write(%s,%q)", a, "created-VERIFMARK"), "File.Close("+a+")"),
			"file:"+a+"=created-VERIFMARK")
	}
	add("os.current_user", "-", "u := os.current_user()", `[u["uid"], u["gid"], u["username"], u["name"], u["home_dir"]]`,
		listLit("777", vGid, vUser, "Verif User", vHome), L("CurrentUser()"))
	add("os.environ", "-", "", "sorted(os.environ())", listLit(vEnvName+"="+vEnvValue), L("Environ()"))
	add("os.exit", "noarg", "os.exit()", `"after-exit"`, "after-exit", L("Exit(0)"), "exit:0")
	add("os.exit", "zero", "os.exit(0)", `"after-exit"`, "after-exit", L("Exit(0)"), "exit:0")
	add("os.exit", "three", "os.exit(3)", `"after-exit"`, "ERR", L("Exit(3)"), "exit:3")
	add("os.exit", "error", `os.exit(errors.new("VERIFMARK boom"))`, `"after-exit"`, "ERR", L("Exit(1)"), "exit:1")
	for _, t := range []struct{ fn, call string }{{"os.getenv", "os.getenv"}, {"builtin.getenv", "getenv"}} {
		add(t.fn, "set", "", t.call+"("+q(vEnvName)+")", vEnvValue, L(fmt.Sprintf("Getenv(%q)", vEnvName)))
		add(t.fn, "unset", "", t.call+`("VERIFMARK_UNSET")`, "", L(`Getenv("VERIFMARK_UNSET")`))
		// PATH is set in the real environment and absent from the recording OS: a read that bypasses the OS answers non-empty.
		add(t.fn, "realonly", "", t.call+`("PATH")`, "", L(`Getenv("PATH")`))
	}
	add("os.getpid", "-", "", "os.getpid()", fmt.Sprint(vPid), L("Getpid()"))
	add("os.getuid", "-", "", "os.getuid()", fmt.Sprint(vUid), L("Getuid()"))
	add("os.getwd", "-", "", "os.getwd()", vCwd, L("Getwd()"))
	add("os.hostname", "-", "", "os.hostname()", vHost, L("Hostname()"))
	grp := `[g["gid"], g["name"]]`
	usr := `[u["uid"], u["username"], u["home_dir"]]`
	add("os.lookup_gid", "known", `g := os.lookup_gid("888")`, grp, listLit(vGid, vGroup), L(`LookupGid("888")`))
	add("os.lookup_gid", "realonly", `g := os.lookup_gid("0")`, grp, "ERR", L(`LookupGid("0")`))
	add("os.lookup_gid", "unknown", `g := os.lookup_gid("VERIFMARK_nogid")`, grp, "ERR", L(`LookupGid("VERIFMARK_nogid")`))
	add("os.lookup_group", "known", "g := os.lookup_group("+q(vGroup)+")", grp, listLit(vGid, vGroup), L(fmt.Sprintf("LookupGroup(%q)", vGroup)))
	add("os.lookup_group", "realonly", `g := os.lookup_group("root")`, grp, "ERR", L(`LookupGroup("root")`))
	add("os.lookup_uid", "known", `u := os.lookup_uid("777")`, usr, listLit("777", vUser, vHome), L(`LookupUid("777")`))
	add("os.lookup_uid", "realonly", `u := os.lookup_uid("0")`, usr, "ERR", L(`LookupUid("0")`))
	add("os.lookup_user", "known", "u := os.lookup_user("+q(vUser)+")", usr, listLit("777", vUser, vHome), L(fmt.Sprintf("LookupUser(%q)", vUser)))
	add("os.lookup_user", "realonly", `u := os.lookup_user("root")`, usr, "ERR", L(`LookupUser("root")`))
	for _, p := range []pc{{"newtop-nested", sp("/VERIFMARK_newtop/x/y"), ""}, {"newrel-nested", sp("VERIFMARK_newreldir/z"), ""}} {
		add("os.mkdir_all", p.id, "os.mkdir_all("+q(p.p)+")", `"made"`, "made",
			L(fmt.Sprintf("MkdirAll(%q,755)", p.p)), "dir:"+absOf(p.p))
	}
	add("os.mkdir_all", "perm", "os.mkdir_all("+q(newTop)+", 448)", `"made"`, "made",
		L(fmt.Sprintf("MkdirAll(%q,700)", newTop)), "dir:"+absOf(newTop))
	add("os.mkdir_temp", "pattern", "", `os.mkdir_temp("", "VERIFMARK_pat")`, `re:^/VERIFMARK_tmp/\d+-VERIFMARK_pat$`, L(`MkdirTemp("","VERIFMARK_pat")`))
	add("os.mkdir_temp", "dir", "", "os.mkdir_temp("+q(dirD)+`, "VERIFMARK_pat")`, "ERR", L(fmt.Sprintf("MkdirTemp(%q,%q)", dirD, "VERIFMARK_pat")))
	for _, p := range []pc{{"newtop", newTop, ""}, {"newrel", newRelDir, ""}, {"newsub", newSub, ""}} {
		add("os.mkdir", p.id, "os.mkdir("+q(p.p)+")", `"made"`, "made",
			L(fmt.Sprintf("Mkdir(%q,755)", p.p)), "dir:"+absOf(p.p))
	}
	add("os.mkdir", "perm", "os.mkdir("+q(newTop)+", 448)", `"made"`, "made", L(fmt.Sprintf("Mkdir(%q,700)", newTop)), "dir:"+absOf(newTop))
	add("os.mkdir", "exists", "os.mkdir("+q(dirD)+")", `"made"`, "ERR", L(fmt.Sprintf("Mkdir(%q,755)", dirD)))
	for _, t := range []struct{ fn, call string }{{"os.open", "os.open"}, {"builtin.open", "open"}} {
		for _, p := range readable {
			a := absOf(p.p)
			add(t.fn, p.id, fmt.Sprintf("f := %s(%s)\nd := string(f.read())\nf.close()", t.call, q(p.p)), "d", p.content,
				L(fmt.Sprintf("Open(%q)", p.p), "File.Read("+a+")", "File.Close("+a+")"))
		}
		add(t.fn, "missing", "f := "+t.call+"("+q(missing)+")", `"opened"`, "ERR", L(fmt.Sprintf("Open(%q)", missing)))
	}
	names := ".map(func(e) { return e.name })"
	for _, t := range []struct{ fn, call string }{{"os.read_dir", "os.read_dir"}, {"builtin.ls", "ls"}} {
		add(t.fn, "absdir", "", "sorted("+t.call+"("+q(dirD)+")"+names+")", listLit("a.txt", "sub"), L(fmt.Sprintf("ReadDir(%q)", dirD)))
		add(t.fn, "reldir", "", "sorted("+t.call+"("+q(relD)+")"+names+")", listLit("c.txt"), L(fmt.Sprintf("ReadDir(%q)", relD)))
		add(t.fn, "cwd", "", "sorted("+t.call+"()"+names+")", listLit("VERIFMARK_rel.txt", "VERIFMARK_reldir"), L("Getwd()", fmt.Sprintf("ReadDir(%q)", vCwd)))
		add(t.fn, "missing", "", "sorted("+t.call+"("+q(missing)+")"+names+")", "ERR", L(fmt.Sprintf("ReadDir(%q)", missing)))
		add(t.fn, "info", "e := "+t.call+"("+q(dirD)+").filter(func(e) { return e.name == \"a.txt\" })[0]", "[e.name, e.is_dir, e.info().size]",
			fmt.Sprintf(`["a.txt", false, %d]`, len(cA)), L(fmt.Sprintf("ReadDir(%q)", dirD)))
	}
	for _, p := range readable {
		add("os.read_file", p.id, "", "string(os.read_file("+q(p.p)+"))", p.content, L(fmt.Sprintf("ReadFile(%q)", p.p)))
	}
	add("os.read_file", "missing", "", "string(os.read_file("+q(missing)+"))", "ERR", L(fmt.Sprintf("ReadFile(%q)", missing)))
	for _, p := range readable {
		add("os.remove", p.id, "os.remove("+q(p.p)+")", `"removed"`, "removed",
			L(fmt.Sprintf("Remove(%q)", p.p)), "nofile:"+absOf(p.p))
	}
	add("os.remove", "missing", "os.remove("+q(missing)+")", `"removed"`, "ERR", L(fmt.Sprintf("Remove(%q)", missing)))
	add("os.remove_all", "absdir", "os.remove_all("+q(dirD)+")", `"removed"`, "removed",
		L(fmt.Sprintf("RemoveAll(%q)", dirD)), "nofile:/VERIFMARK_dir/a.txt", "nofile:/VERIFMARK_dir/sub/b.txt", "nofile:/VERIFMARK_dir")
	add("os.remove_all", "reldir", "os.remove_all("+q(relD)+")", `"removed"`, "removed",
		L(fmt.Sprintf("RemoveAll(%q)", relD)), "nofile:/VERIFMARK_cwd/VERIFMARK_reldir/c.txt", "nofile:/VERIFMARK_cwd/VERIFMARK_reldir")
	add("os.rename", "abs", "os.rename("+q(fileA)+", "+q(newAbs)+")", `"renamed"`, "renamed",
		L(fmt.Sprintf("Rename(%q,%q)", fileA, newAbs)), "file:"+absOf(newAbs)+"="+cA, "nofile:"+absOf(fileA))
	add("os.rename", "rel", "os.rename("+q(relF)+", "+q(newRel)+")", `"renamed"`, "renamed",
		L(fmt.Sprintf("Rename(%q,%q)", relF, newRel)), "file:"+absOf(newRel)+"="+cRel, "nofile:"+absOf(relF))
	add("os.rename", "missing", "os.rename("+q(missing)+", "+q(newAbs)+")", `"renamed"`, "ERR", L(fmt.Sprintf("Rename(%q,%q)", missing, newAbs)), "nofile:"+absOf(newAbs))
	for _, t := range []struct{ fn, call string }{{"os.setenv", "os.setenv"}, {"builtin.setenv", "setenv"}} {
		add(t.fn, "new", t.call+`("VERIFMARK_NEWVAR", "v-VERIFMARK")`, `"set"`, "set",
			L(`Setenv("VERIFMARK_NEWVAR","v-VERIFMARK")`), "env:VERIFMARK_NEWVAR=v-VERIFMARK")
		add(t.fn, "overwrite", t.call+"("+q(vEnvName)+`, "changed-VERIFMARK")`, `"set"`, "set",
			L(fmt.Sprintf("Setenv(%q,%q)", vEnvName, "changed-VERIFMARK")), "env:"+vEnvName+"=changed-VERIFMARK")
	}
	for _, t := range []struct{ fn, call string }{{"os.unsetenv", "os.unsetenv"}, {"builtin.unsetenv", "unsetenv"}} {
		add(t.fn, "set", t.call+"("+q(vEnvName)+")", `"unset"`, "unset", L(fmt.Sprintf("Unsetenv(%q)", vEnvName)), "noenv:"+vEnvName)
		add(t.fn, "unset", t.call+`("VERIFMARK_UNSET")`, `"unset"`, "unset", L(`Unsetenv("VERIFMARK_UNSET")`), "env:"+vEnvName+"="+vEnvValue)
	}
	info := "[i.name, i.size, i.is_dir]"
	add("os.stat", "absfile", "i := os.stat("+q(fileA)+")", info, fmt.Sprintf(`["a.txt", %d, false]`, len(cA)), L(fmt.Sprintf("Stat(%q)", fileA)))
	add("os.stat", "relfile", "i := os.stat("+q(relF)+")", info, fmt.Sprintf(`["VERIFMARK_rel.txt", %d, false]`, len(cRel)), L(fmt.Sprintf("Stat(%q)", relF)))
	add("os.stat", "absdir", "i := os.stat("+q(dirD)+")", info, `["VERIFMARK_dir", 0, true]`, L(fmt.Sprintf("Stat(%q)", dirD)))
	add("os.stat", "missing", "i := os.stat("+q(missing)+")", info, "ERR", L(fmt.Sprintf("Stat(%q)", missing)))
	lnkA, lnkR := sp("/VERIFMARK_dir/VERIFMARK_link"), sp("VERIFMARK_rellink")
	add("os.symlink", "abs", "os.symlink("+q(fileA)+", "+q(lnkA)+")", `"linked"`, "linked", L(fmt.Sprintf("Symlink(%q,%q)", fileA, lnkA)), "file:"+absOf(lnkA)+"="+cA)
	add("os.symlink", "rel", "os.symlink("+q(relF)+", "+q(lnkR)+")", `"linked"`, "linked", L(fmt.Sprintf("Symlink(%q,%q)", relF, lnkR)), "file:"+absOf(lnkR)+"="+cRel)
	add("os.temp_dir", "-", "", "os.temp_dir()", vTmp, L("TempDir()"))
	add("os.user_cache_dir", "-", "", "os.user_cache_dir()", vCache, L("UserCacheDir()"))
	add("os.user_config_dir", "-", "", "os.user_config_dir()", vConfig, L("UserConfigDir()"))
	add("os.user_home_dir", "-", "", "os.user_home_dir()", vHome, L("UserHomeDir()"))
	add("os.write_file", "newabs-string", "os.write_file("+q(newAbs)+`, "w-VERIFMARK")`, `"written"`, "written",
		L(fmt.Sprintf("WriteFile(%q,%q,644)", newAbs, "w-VERIFMARK")), "file:"+absOf(newAbs)+"=w-VERIFMARK")
	add("os.write_file", "newrel-bytes", "os.write_file("+q(newRel)+`, byte_slice("wb-VERIFMARK"))`, `"written"`, "written",
		L(fmt.Sprintf("WriteFile(%q,%q,644)", newRel, "wb-VERIFMARK")), "file:"+absOf(newRel)+"=wb-VERIFMARK")
	add("os.write_file", "overwrite-perm", "os.write_file("+q(fileA)+`, "ow-VERIFMARK", 384)`, `"written"`, "written",
		L(fmt.Sprintf("WriteFile(%q,%q,600)", fileA, "ow-VERIFMARK")), "file:"+absOf(fileA)+"=ow-VERIFMARK")
	noParent := sp("/VERIFMARK_nodir/x.txt")
	add("os.write_file", "noparent", "os.write_file("+q(noParent)+`, "x")`, `"written"`, "ERR", L(fmt.Sprintf("WriteFile(%q,%q,644)", noParent, "x")), "nofile:"+absOf(noParent))
	add("os.stdin", "read", "", "string(os.stdin.read())", vStdin, L("Stdin()", "File.Read(<stdin>)"))
	add("os.stdout", "write", `os.stdout.write("out-VERIFMARK\n")`, `"done"`, "done", L("Stdout()", `File.Write(<stdout>,"out-VERIFMARK\n")`), "stdout:out-VERIFMARK\n")
	add("os.stderr", "write", `os.stderr.write("err-VERIFMARK\n")`, `"done"`, "done", L("Stderr()", `File.Write(<stderr>,"err-VERIFMARK\n")`), "stderr:err-VERIFMARK\n")

	// the same three streams reached without the attribute access os.<stream>: bound by a from-import, fetched with
	// getattr, taken from the module after it was bound to another name. Whether such a handle works at all is not
	// the question (today it is an unresolved attribute and the write is refused); when it works it is the supplied
	// OS that serves it - the real streams are watched by the worker whatever the script answers
	for _, st := range []struct{ id, get, use string }{
		{"from-import", "from os import stdout", `stdout.write("fi-VERIFMARK\n")`},
		{"from-import-stderr", "from os import stderr", `stderr.write("fie-VERIFMARK\n")`},
		{"from-import-stdin", "from os import stdin", `stdin.read()`},
		{"getattr", `so := getattr(os, "stdout")`, `so.write("ga-VERIFMARK\n")`},
		{"getattr-stdin", `si := getattr(os, "stdin")`, `si.read()`},
		{"module-alias", "import os as vos", `vos.stdout.write("al-VERIFMARK\n")`},
	} {
		add("os.stdout", "handle-"+st.id, st.get+"\nr := try(func() { "+st.use+"; return \"used\" }, func(e) { return \"refused\" })", "r", "re:^(used|refused|ERR)$", nil)
	}

	// ------------------------------------------------------------ shell-style builtins not shared with an os function above
	add("builtin.cat", "abs", "", "cat("+q(fileA)+")", cA, L(fmt.Sprintf("ReadFile(%q)", fileA)))
	add("builtin.cat", "abs+rel", "", "cat("+q(fileA)+", "+q(relF)+")", cA+cRel, L(fmt.Sprintf("ReadFile(%q)", fileA), fmt.Sprintf("ReadFile(%q)", relF)))
	add("builtin.cat", "missing", "", "cat("+q(missing)+")", "ERR", L(fmt.Sprintf("ReadFile(%q)", missing)))
	add("builtin.cp", "abs", "cp("+q(fileA)+", "+q(newAbs)+")", `"copied"`, "copied",
		L(fmt.Sprintf("ReadFile(%q)", fileA), fmt.Sprintf("WriteFile(%q,%q,644)", newAbs, cA)), "file:"+absOf(newAbs)+"="+cA)
	add("builtin.cp", "rel", "cp("+q(relF)+", "+q(newRel)+")", `"copied"`, "copied",
		L(fmt.Sprintf("ReadFile(%q)", relF), fmt.Sprintf("WriteFile(%q,%q,644)", newRel, cRel)), "file:"+absOf(newRel)+"="+cRel)
	add("builtin.cp", "missing", "cp("+q(missing)+", "+q(newAbs)+")", `"copied"`, "ERR", L(fmt.Sprintf("ReadFile(%q)", missing)), "nofile:"+absOf(newAbs))

	// ------------------------------------------------------------ print / printf builtins and the fmt module
	add("builtin.print", "-", `print("p-VERIFMARK", 1)`, `"done"`, "done", L("Stdout()", `File.Write(<stdout>,"p-VERIFMARK 1\n")`), "stdout:p-VERIFMARK 1\n")
	add("builtin.printf", "-", `printf("%s|%d\n", "pf-VERIFMARK", 2)`, `"done"`, "done", L("Stdout()", `File.Write(<stdout>,"pf-VERIFMARK|2\n")`), "stdout:pf-VERIFMARK|2\n")
	add("builtin.errorf", "-", "", `string(errorf("e-%s", "VERIFMARK"))`, "e-VERIFMARK", nil, "stdout:")
	add("builtin.sprintf", "-", "", `sprintf("s-%s", "VERIFMARK")`, "s-VERIFMARK", nil, "stdout:")
	add("fmt.println", "-", `fmt.println("pl-VERIFMARK", 3)`, `"done"`, "done", L("Stdout()", `File.Write(<stdout>,"pl-VERIFMARK 3\n")`), "stdout:pl-VERIFMARK 3\n")
	add("fmt.printf", "-", `fmt.printf("%s-%d\n", "fp-VERIFMARK", 7)`, `"done"`, "done", L("Stdout()", `File.Write(<stdout>,"fp-VERIFMARK-7\n")`), "stdout:fp-VERIFMARK-7\n")
	add("fmt.errorf", "-", "", `string(fmt.errorf("fe-%s", "VERIFMARK"))`, "fe-VERIFMARK", nil, "stdout:")
	add("fmt.sprintf", "-", "", `fmt.sprintf("fs-%s", "VERIFMARK")`, "fs-VERIFMARK", nil, "stdout:")

	// ------------------------------------------------------------ filepath module
	add("filepath.abs", "rel", "", "filepath.abs("+q(relF)+")", filepath.Join(vCwd, relF), L("Getwd()"))
	add("filepath.abs", "abs", "", "filepath.abs("+q(fileA)+")", filepath.Clean(fileA), nil)
	add("filepath.base", "-", "", "filepath.base("+q(fileA)+")", "a.txt", nil)
	add("filepath.clean", "-", "", "filepath.clean("+q(fileA)+")", filepath.Clean(fileA), nil)
	add("filepath.dir", "-", "", "filepath.dir("+q(fileA)+")", filepath.Dir(fileA), nil)
	add("filepath.ext", "-", "", "filepath.ext("+q(relF)+")", ".txt", nil)
	add("filepath.is_abs", "abs", "", "filepath.is_abs("+q(fileA)+")", "true", nil)
	add("filepath.is_abs", "rel", "", "filepath.is_abs("+q(relF)+")", "false", nil)
	add("filepath.join", "-", "", "filepath.join("+q(dirD)+`, "sub", "b.txt")`, filepath.Join(dirD, "sub", "b.txt"), nil)
	add("filepath.match", "-", "", `filepath.match("VERIFMARK_*.txt", "VERIFMARK_rel.txt")`, "true", nil)
	add("filepath.rel", "abs", "", `filepath.rel("/VERIFMARK_dir", "/VERIFMARK_dir/sub/b.txt")`, "sub/b.txt", nil)
	add("filepath.rel", "mixed", "", `filepath.rel("/VERIFMARK_dir", "VERIFMARK_rel.txt")`, "ERR", nil)
	add("filepath.split_list", "-", "", `filepath.split_list("/VERIFMARK_a:/VERIFMARK_b")`, listLit("/VERIFMARK_a", "/VERIFMARK_b"), nil)
	add("filepath.split", "-", "", `filepath.split("/VERIFMARK_dir/a.txt")`, listLit("/VERIFMARK_dir/", "a.txt"), nil)
	walk := "acc := []\nfilepath.walk_dir(%s, func(path, d, err) {\n  acc.append(path)\n})"
	add("filepath.walk_dir", "absdir", fmt.Sprintf(walk, q(dirD)), "acc",
		listLit("/VERIFMARK_dir", "/VERIFMARK_dir/a.txt", "/VERIFMARK_dir/sub", "/VERIFMARK_dir/sub/b.txt"), L(fmt.Sprintf("WalkDir(%q)", dirD)))
	add("filepath.walk_dir", "reldir", fmt.Sprintf(walk, q(relD)), "acc",
		listLit("/VERIFMARK_cwd/VERIFMARK_reldir", "/VERIFMARK_cwd/VERIFMARK_reldir/c.txt"), L(fmt.Sprintf("WalkDir(%q)", relD)))
	add("filepath.walk_dir", "missing", fmt.Sprintf(walk, q(missing)), "acc", listLit(absOf(missing)), L(fmt.Sprintf("WalkDir(%q)", missing)))
	add("filepath.walk_dir", "callback-reads", "acc := []\nfilepath.walk_dir("+q(dirD)+", func(path, d, err) {\n  if !d.is_dir {\n    acc.append(string(os.read_file(path)))\n  }\n})", "acc",
		listLit(cA, cB), L(fmt.Sprintf("WalkDir(%q)", dirD), `ReadFile("/VERIFMARK_dir/a.txt")`, `ReadFile("/VERIFMARK_dir/sub/b.txt")`))

	// ------------------------------------------------------------ file objects from open / create / stdin / stdout
	type src struct {
		id, open, label string
	}
	nA := absOf(newAbs)
	srcs := []src{
		{"open", "f := os.open(" + q(fileA) + ")", "/VERIFMARK_dir/a.txt"},
		{"create", "f := os.create(" + q(newAbs) + ")", nA},
		{"stdin", "f := os.stdin", "<stdin>"},
		{"stdout", "f := os.stdout", "<stdout>"},
	}
	for _, s := range srcs {
		lb := s.label
		fadd := func(m, id, stmts, expr, want string, log []string, post ...string) {
			st := s.open
			if stmts != "" {
				st += "\n" + stmts
			}
			add("file."+m, s.id+id, st, expr, want, log, post...)
		}
		base := map[string]string{"open": "a.txt", "create": "VERIFMARK_new.txt", "stdin": "stdin", "stdout": "stdout"}[s.id]
		fadd("name", "", "", "f.name()", base, nil)
		size := map[string]int{"open": len(cA), "create": 0, "stdin": len(vStdin), "stdout": 0}[s.id]
		fadd("stat", "", "i := f.stat()", "[i.name, i.size]", fmt.Sprintf("[%s, %d]", q(filepath.Base(lb)), size), L("File.Stat("+lb+")"))
		fadd("position", "", "", "f.position", "0", L("File.Seek("+lb+",0,1)"))
		fadd("close", "", "", "f.close()", "nil", L("File.Close("+lb+")"))
		switch s.id {
		case "open":
			fadd("read", "-all", "", "string(f.read())", cA, L("File.Read("+lb+")"))
			fadd("read", "-chunk", "", "string(f.read(byte_slice([0, 0, 0, 0, 0])))", "alpha", L("File.Read("+lb+")"))
			fadd("read", "-buffer", "", "f.read(buffer())", "*", L("File.Stat("+lb+")", "File.Read("+lb+")"))
			fadd("write", "", "", `f.write("w-VERIFMARK")`, "ERR", L(fmt.Sprintf("File.Write(%s,%q)", lb, "w-VERIFMARK")), "file:"+lb+"="+cA)
			fadd("seek", "", "p := f.seek(6, 0)", "[p, string(f.read())]", fmt.Sprintf("[6, %s]", q(cA[6:])), L("File.Seek("+lb+",6,0)", "File.Read("+lb+")"))
			fadd("position", "-moved", "f.seek(-5, 2)", "f.position", fmt.Sprint(len(cA)-5), L("File.Seek("+lb+",-5,2)", "File.Seek("+lb+",0,1)"))
			fadd("read_lines", "", "", "f.read_lines()", listLit("alpha-VIRTUAL", "line2-VIRTUAL"), L("File.Read("+lb+")"))
			fadd("iter", "", "", "list(f)", listLit("alpha-VIRTUAL", "line2-VIRTUAL"), L("File.Read("+lb+")"))
		case "create":
			fadd("read", "-all", "", "string(f.read())", "", L("File.Read("+lb+")"))
			fadd("write", "", `n := f.write("w-VERIFMARK")`, "n", "11", L(fmt.Sprintf("File.Write(%s,%q)", lb, "w-VERIFMARK")), "file:"+lb+"=w-VERIFMARK")
			fadd("write", "-bytes", `n := f.write(byte_slice("wb-VERIFMARK"))`, "n", "12", L(fmt.Sprintf("File.Write(%s,%q)", lb, "wb-VERIFMARK")), "file:"+lb+"=wb-VERIFMARK")
			fadd("seek", "", "f.write(\"0123456789-VERIFMARK\")\np := f.seek(2, 0)", "[p, string(f.read())]", `[2, "23456789-VERIFMARK"]`, L("File.Seek("+lb+",2,0)", "File.Read("+lb+")"))
			fadd("read_lines", "", "f.write(\"l1-VERIFMARK\\nl2\\n\")\nf.seek(0, 0)", "f.read_lines()", listLit("l1-VERIFMARK", "l2"), L("File.Read("+lb+")"))
			fadd("iter", "", "f.write(\"l1-VERIFMARK\\nl2\\n\")\nf.seek(0, 0)", "list(f)", listLit("l1-VERIFMARK", "l2"), L("File.Read("+lb+")"))
		case "stdin":
			fadd("read", "-all", "", "string(f.read())", vStdin, L("File.Read("+lb+")"))
			fadd("read", "-chunk", "", "string(f.read(byte_slice([0, 0, 0, 0, 0])))", "stdin", L("File.Read("+lb+")"))
			fadd("write", "", "", `f.write("w-VERIFMARK")`, "ERR", L(fmt.Sprintf("File.Write(%s,%q)", lb, "w-VERIFMARK")))
			fadd("seek", "", "p := f.seek(6, 0)", "[p, string(f.read())]", fmt.Sprintf("[6, %s]", q(vStdin[6:])), L("File.Seek("+lb+",6,0)"))
			fadd("read_lines", "", "", "f.read_lines()", listLit("stdin-VIRTUAL-1", "stdin-VIRTUAL-2"), L("File.Read("+lb+")"))
			fadd("iter", "", "", "list(f)", listLit("stdin-VIRTUAL-1", "stdin-VIRTUAL-2"), L("File.Read("+lb+")"))
		case "stdout":
			fadd("read", "-all", "", "string(f.read())", "ERR", L("File.Read("+lb+")"))
			fadd("write", "", `n := f.write("w-VERIFMARK")`, "n", "11", L(fmt.Sprintf("File.Write(%s,%q)", lb, "w-VERIFMARK")), "stdout:w-VERIFMARK")
			fadd("seek", "", "", "f.seek(0, 0)", "0", L("File.Seek("+lb+",0,0)"))
			fadd("read_lines", "", "", "f.read_lines()", "ERR", L("File.Read("+lb+")"))
			fadd("iter", "", "", "list(f)", "*", L("File.Read("+lb+")"))
		}
	}
	return out
}

// skipList: discovered names that deliberately have no call template.
var skipList = map[string]string{
	"os.err_not_exist":         "constant error value, not a function; performs no OS access",
	"os.err_exist":             "constant error value",
	"os.err_permission":        "constant error value",
	"os.err_closed":            "constant error value",
	"os.err_invalid":           "constant error value",
	"os.err_no_deadline":       "constant error value",
	"os.err_deadline_exceeded": "constant error value",
}

// ---------------------------------------------------------------- discovery from the live objects / sources

// moduleAttrs lists the attribute names of a builtin module (the unexported builtins map, read by reflection).
func moduleAttrs(m *object.Module) []string {
	f := reflect.ValueOf(m).Elem().FieldByName("builtins")
	if !f.IsValid() || f.Kind() != reflect.Map {
		return nil
	}
	var out []string
	for _, k := range f.MapKeys() {
		out = append(out, k.String())
	}
	sort.Strings(out)
	return out
}

// fileAttrs parses object/file.go and returns the string cases of (*File).GetAttr.
func fileAttrs() ([]string, error) {
	fset := token.NewFileSet()
	f, err := parser.ParseFile(fset, filepath.Join(ev.RepoDir, "object", "file.go"), nil, 0)
	if err != nil {
		return nil, err
	}
	var out []string
	for _, d := range f.Decls {
		fd, ok := d.(*ast.FuncDecl)
		if !ok || fd.Name.Name != "GetAttr" || fd.Recv == nil || fd.Body == nil {
			continue
		}
		for _, st := range fd.Body.List {
			sw, ok := st.(*ast.SwitchStmt)
			if !ok {
				continue
			}
			for _, c := range sw.Body.List {
				for _, e := range c.(*ast.CaseClause).List {
					if bl, ok := e.(*ast.BasicLit); ok && bl.Kind == token.STRING {
						s, _ := strconv.Unquote(bl.Value)
						out = append(out, s)
					}
				}
			}
		}
	}
	sort.Strings(out)
	return out, nil
}

// discover returns every function name the property quantifies over, as found in the tree under test.
func discover() ([]string, error) {
	var names []string
	for _, n := range moduleAttrs(modOs.Module()) {
		names = append(names, "os."+n)
	}
	for _, n := range moduleAttrs(modFilepath.Module()) {
		names = append(names, "filepath."+n)
	}
	for _, n := range moduleAttrs(modFmt.Module()) {
		names = append(names, "fmt."+n)
	}
	var bs []string
	for n := range modOs.Builtins() {
		bs = append(bs, n)
	}
	for n := range modFmt.Builtins() {
		bs = append(bs, n)
	}
	sort.Strings(bs)
	for _, n := range bs {
		names = append(names, "builtin."+n)
	}
	fa, err := fileAttrs()
	if err != nil {
		return nil, err
	}
	if len(fa) == 0 {
		return nil, fmt.Errorf("no attribute cases found in (*object.File).GetAttr")
	}
	for _, n := range fa {
		names = append(names, "file."+n)
	}
	var probe object.Object = &object.File{}
	if _, ok := probe.(object.Iterable); ok {
		names = append(names, "file.iter")
	}
	if len(names) < 40 {
		return nil, fmt.Errorf("discovery found only %d names", len(names))
	}
	return names, nil
}

// coreBuiltinsTouchingOS scans builtins.Builtins() source files for OS access: the generic builtins are
// expected not to reach the OS at all, so none of them needs a template.
func coreBuiltinNames() []string {
	var out []string
	for n := range builtins.Builtins() {
		out = append(out, n)
	}
	sort.Strings(out)
	return out
}
