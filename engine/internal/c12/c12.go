// Package c12: a host-supplied OS mediates all file, environment, process and stdio access.
//
// Bounded-exhaustive enumeration: every function discovered in the os, filepath and fmt modules, the
// print/printf and shell-style builtins, and every attribute of file objects (from open / create / stdin /
// stdout) x argument tuples from a marker-carrying pool x execution contexts (top level, spawn, go, cloned VM,
// imported module, builtin callback, risor.Call from the host, and compositions) x OS supplied by risor.WithOS / in the context / both.
//
// Every case runs in a worker child process, one at a time, against fresh recording OS instances:
//  1. the recording OS logged the corresponding call(s) and the script observed its answers;
//  2. the real process is untouched (cwd, environment, sentinel tree = real cwd, "/", TMPDIR, real stdio);
//  3. thorough tier: the workers run under strace and no syscall argument carries the marker.
package c12

import (
	"bufio"
	"bytes"
	"context"
	"encoding/json"
	"fmt"
	"go/ast"
	"go/parser"
	"go/token"
	"io/fs"
	"os"
	"os/exec"
	osuser "os/user"
	"path/filepath"
	"regexp"
	"sort"
	"strconv"
	"strings"
	"sync"
	"syscall"
	"testing/fstest"
	"time"

	"github.com/risor-io/risor"
	"github.com/risor-io/risor/compiler"
	"github.com/risor-io/risor/importer"
	"github.com/risor-io/risor/object"
	ros "github.com/risor-io/risor/os"
	rparser "github.com/risor-io/risor/parser"
	"github.com/risor-io/risor/vm"

	"verif/internal/ev"
)

var contexts = []string{"top", "spawn", "go", "clone-call", "clone-run", "import-fn", "import-top", "import-spawn", "clone-spawn", "spawn-spawn", "callback", "host-call"}
var supplies = []string{"opt", "ctx", "both"}

// caseIn fully determines one case (replay input).
type caseIn struct {
	Fn     string `json:"fn"`
	ID     string `json:"id"`
	K      int    `json:"k"`
	Ctx    string `json:"ctx"`
	Supply string `json:"supply"`
}

type kase struct {
	in caseIn
	v  variant
}

func spellings(thorough bool) []int {
	if thorough {
		return []int{0, 1, 2}
	}
	return []int{0}
}

// Composed contexts (thorough tier): "g:<loc>:<entry>:<chain>" -
//
//	loc   where the functions are defined: main program | imported module
//	entry how the host enters: eval (risor.Eval) | clone-run | clone-call | host-call (risor.Call)
//	chain how the case function is reached from the entry function, innermost first, 1..2 links over
//	      direct call | spawn().wait() | go + channel | callback of a builtin (list.map) | try()
var (
	gLocs    = []string{"main", "module"}
	gEntries = []string{"eval", "clone-run", "clone-call", "host-call"}
	gLinks   = []string{"direct", "spawn", "go", "callback", "try"}
)

func composedContexts() []string {
	var chains []string
	for _, a := range gLinks {
		chains = append(chains, a)
	}
	for _, a := range gLinks {
		for _, b := range gLinks {
			chains = append(chains, a+"+"+b)
		}
	}
	var out []string
	for _, l := range gLocs {
		for _, e := range gEntries {
			for _, c := range chains {
				out = append(out, "g:"+l+":"+e+":"+c)
			}
		}
	}
	return out
}

// excluded: os.exit with a non-zero code ends the evaluation with a fatal error; inside a `go` goroutine that
// kills the goroutine before it can hand anything back, so the main script would wait on the channel forever.
// (exit() and exit(0) in the go contexts, and the non-zero codes in the other contexts, are enumerated.)
func excluded(v variant, cx string) bool {
	if v.Fn != "os.exit" || v.Want != "ERR" {
		return false
	}
	if cx == "go" {
		return true
	}
	if strings.HasPrefix(cx, "g:") {
		for _, l := range strings.Split(cx[strings.LastIndex(cx, ":")+1:], "+") {
			if l == "go" {
				return true
			}
		}
	}
	return false
}

// caseList: named contexts x all spellings, then (thorough) the composed contexts x plain spelling.
func caseList(thorough bool) []kase {
	var out []kase
	for _, k := range spellings(thorough) {
		for _, v := range variants(k) {
			for _, cx := range contexts {
				if excluded(v, cx) {
					continue
				}
				for _, s := range supplies {
					out = append(out, kase{caseIn{v.Fn, v.ID, k, cx, s}, v})
				}
				if k == 0 && (cx == "top" || cx == "spawn" || cx == "host-call") && v.Fn != "os.exit" {
					out = append(out, kase{caseIn{v.Fn, v.ID, k, cx, "decline"}, v})
				}
			}
		}
	}
	rc := reuseContexts()
	for _, v := range reuseVariants(thorough) {
		for _, cx := range rc {
			out = append(out, kase{caseIn{v.Fn, v.ID, 0, cx, reuseSupply}, v})
		}
	}
	if thorough {
		cc := composedContexts()
		for _, v := range variants(0) {
			for _, cx := range cc {
				if excluded(v, cx) {
					continue
				}
				for _, s := range supplies {
					out = append(out, kase{caseIn{v.Fn, v.ID, 0, cx, s}, v})
				}
			}
		}
	}
	return out
}

// composedSources builds the program for a "g:" context.
func composedSources(v variant, cx string) (main, mod string) {
	parts := strings.Split(cx, ":")
	loc, entry, chain := parts[1], parts[2], strings.Split(parts[3], "+")
	defs := funcDef("f0", v)
	for i, link := range chain {
		inner, name := fmt.Sprintf("f%d", i), fmt.Sprintf("f%d", i+1)
		var body string
		switch link {
		case "direct":
			body = "  return " + inner + "()\n"
		case "spawn":
			body = "  return spawn(" + inner + ").wait()\n"
		case "go":
			body = "  ch := chan(1)\n  go func() {\n    r := try(" + inner + ", \"ERR\")\n    ch <- r\n  }()\n  got := <-ch\n  return got\n"
		case "callback":
			body = "  return [0].map(func(x) {\n    return " + inner + "()\n  })[0]\n"
		case "try":
			body = "  return try(" + inner + ", \"ERR\")\n"
		}
		defs += "func " + name + "() {\n" + body + "}\n"
	}
	top := fmt.Sprintf("f%d", len(chain))
	if loc == "module" {
		mod = defs
		main = "import vmod\nfunc __case() {\n  return vmod." + top + "()\n}\n"
	} else {
		main = defs + "func __case() {\n  return " + top + "()\n}\n"
	}
	if entry == "eval" || entry == "clone-run" {
		main += "__case()\n"
	}
	return main, mod
}

// ---------------------------------------------------------------- running one case (worker side)

type fail struct {
	Kind     string `json:"kind"`
	What     string `json:"what"`
	Observed string `json:"observed"`
	Expected string `json:"expected"`
}

type caseOut struct {
	I      int      `json:"i"`
	Served string   `json:"served"`
	Got    string   `json:"got"`
	Fails  []fail   `json:"fails,omitempty"`
	Src    string   `json:"src,omitempty"`
	Log    []string `json:"log,omitempty"`
	Err    string   `json:"err,omitempty"`
}

func render(o object.Object) string {
	switch v := o.(type) {
	case nil:
		return "<none>"
	case *object.String:
		return v.Value()
	case *object.ByteSlice:
		return string(v.Value())
	case *object.Error:
		return "error:" + v.Value().Error()
	}
	return o.Inspect()
}

func indent(s string) string {
	if s == "" {
		return ""
	}
	return "  " + strings.ReplaceAll(s, "\n", "\n  ") + "\n"
}

func funcDef(name string, v variant) string {
	return "func " + name + "() {\n" + indent(v.Stmts) + "  return " + v.Expr + "\n}\n"
}

func topSrc(v variant) string {
	s := v.Stmts
	if s != "" {
		s += "\n"
	}
	return s + v.Expr + "\n"
}

// sources returns the main program and (for import contexts) the module source.
func sources(v variant, cx string) (main, mod string) {
	if strings.HasPrefix(cx, "g:") {
		return composedSources(v, cx)
	}
	if strings.HasPrefix(cx, "r:") {
		return reuseSources(v, cx)
	}
	switch cx {
	case "top", "clone-run":
		return topSrc(v), ""
	case "spawn":
		return funcDef("__case", v) + "spawn(__case).wait()\n", ""
	case "spawn-spawn":
		return funcDef("__case", v) + "func __outer() {\n  return spawn(__case).wait()\n}\nspawn(__outer).wait()\n", ""
	case "callback":
		return funcDef("__case", v) + "[0].map(func(x) {\n  return __case()\n})[0]\n", ""
	case "go":
		return funcDef("__case", v) + "__ch := chan(1)\ngo func() {\n  __r := try(__case, \"ERR\")\n  __ch <- __r\n}()\n<-__ch\n", ""
	case "clone-call", "host-call":
		return funcDef("__case", v), ""
	case "clone-spawn":
		return funcDef("__inner", v) + "func __case() {\n  return spawn(__inner).wait()\n}\n", ""
	case "import-fn":
		return "import vmod\nvmod.vcase()\n", funcDef("vcase", v)
	case "import-spawn":
		return "import vmod\nspawn(vmod.vcase).wait()\n", funcDef("vcase", v)
	case "import-top":
		s := v.Stmts
		if s != "" {
			s += "\n"
		}
		return "import vmod\nvmod.result\n", s + "result := " + v.Expr + "\n"
	}
	return "", ""
}

var defaultGlobalNames = risor.NewConfig().GlobalNames()

// execute runs the case on the real pipeline and returns the rendered answer ("ERR" for any error).
func execute(ctx context.Context, v variant, cx string, opts []risor.Option) (got string, errText string) {
	defer func() {
		if e := recover(); e != nil {
			got, errText = "PANIC", fmt.Sprint(e)
		}
	}()
	main, mod := sources(v, cx)
	if mod != "" {
		imp := importer.NewFSImporter(importer.FSImporterOptions{
			GlobalNames: defaultGlobalNames,
			SourceFS:    fstest.MapFS{"vmod.risor": &fstest.MapFile{Data: []byte(mod)}},
			Extensions:  []string{".risor"},
		})
		opts = append(opts, risor.WithImporter(imp))
	}
	fin := func(o object.Object, err error) (string, string) {
		if err != nil {
			return "ERR", err.Error()
		}
		return render(o), ""
	}
	if strings.HasPrefix(cx, "g:") {
		cx = map[string]string{"eval": "top", "clone-run": "clone-run", "clone-call": "clone-call", "host-call": "host-call"}[strings.Split(cx, ":")[2]]
	}
	switch cx {
	case "host-call":
		cfg := risor.NewConfig(opts...)
		tree, err := rparser.Parse(ctx, main)
		if err != nil {
			return "ERR", "parse: " + err.Error()
		}
		code, err := compiler.Compile(tree, cfg.CompilerOpts()...)
		if err != nil {
			return "ERR", "compile: " + err.Error()
		}
		return fin(risor.Call(ctx, code, "__case", nil, opts...))
	case "clone-call", "clone-spawn", "clone-run":
		cfg := risor.NewConfig(opts...)
		tree, err := rparser.Parse(ctx, main)
		if err != nil {
			return "ERR", "parse: " + err.Error()
		}
		code, err := compiler.Compile(tree, cfg.CompilerOpts()...)
		if err != nil {
			return "ERR", "compile: " + err.Error()
		}
		machine := vm.New(code, cfg.VMOpts()...)
		if cx == "clone-run" {
			clone, err := machine.Clone()
			if err != nil {
				return "ERR", "clone: " + err.Error()
			}
			if err := clone.Run(ctx); err != nil {
				return fin(nil, err)
			}
			tos, _ := clone.TOS()
			return fin(tos, nil)
		}
		if err := machine.Run(ctx); err != nil {
			return "ERR", "defining run: " + err.Error()
		}
		fo, err := machine.Get("__case")
		if err != nil {
			return "ERR", "get: " + err.Error()
		}
		fn, ok := fo.(*object.Function)
		if !ok {
			return "ERR", "__case is not a function"
		}
		clone, err := machine.Clone()
		if err != nil {
			return "ERR", "clone: " + err.Error()
		}
		return fin(clone.Call(ctx, fn, nil))
	}
	return fin(risor.Eval(ctx, main, opts...))
}

func subsequence(want, log []string) (missing string, ok bool) {
	j := 0
	for _, w := range want {
		found := false
		for j < len(log) {
			if log[j] == w {
				found = true
				j++
				break
			}
			j++
		}
		if !found {
			return w, false
		}
	}
	return "", true
}

func matchWant(want, got string) bool {
	switch {
	case want == "*":
		return true
	case strings.HasPrefix(want, "re:"):
		return regexp.MustCompile(want[3:]).MatchString(got)
	}
	return want == got
}

func postCheck(o *recOS, p string) string {
	kind, rest, _ := strings.Cut(p, ":")
	switch kind {
	case "file":
		path, want, _ := strings.Cut(rest, "=")
		got, ok := o.fileContent(path)
		if !ok {
			return "recording OS has no file " + path
		}
		if got != want {
			return fmt.Sprintf("recording OS file %s holds %q, want %q", path, got, want)
		}
	case "nofile":
		if o.exists(rest) {
			return "recording OS still has " + rest
		}
	case "dir":
		if !o.isDir(rest) {
			return "recording OS has no directory " + rest
		}
	case "env":
		n, want, _ := strings.Cut(rest, "=")
		if got, ok := o.v.LookupEnv(n); !ok || got != want {
			return fmt.Sprintf("recording OS env %s=%q (set=%v), want %q", n, got, ok, want)
		}
	case "noenv":
		if got, ok := o.v.LookupEnv(rest); ok {
			return fmt.Sprintf("recording OS env %s still set to %q", rest, got)
		}
	case "cwd":
		// (a relative argument composes with the working directory the recording OS started in)
		want := rest
		if !filepath.IsAbs(want) {
			want = filepath.Join(o.cwd0, want)
		}
		if got, _ := o.v.Getwd(); filepath.Clean(got) != filepath.Clean(want) {
			return fmt.Sprintf("recording OS cwd %q, want %q", got, want)
		}
	case "stdout":
		if got := o.stdoutText(); got != rest {
			return fmt.Sprintf("recording OS stdout holds %q, want %q", got, rest)
		}
	case "stderr":
		if got := o.stderrText(); got != rest {
			return fmt.Sprintf("recording OS stderr holds %q, want %q", got, rest)
		}
	case "exit":
		o.in.mu.Lock()
		ex := fmt.Sprint(o.in.exits)
		o.in.mu.Unlock()
		if ex != "["+rest+"]" {
			return "recording OS exit handler saw " + ex + ", want [" + rest + "]"
		}
	}
	return ""
}

func tagOf(idx int) byte { return byte('A' + idx%16) }

func retagVariant(v variant, tag byte) variant {
	t := func(s string) string { return retag(s, tag) }
	w := v
	w.Stmts, w.Expr, w.Want = t(v.Stmts), t(v.Expr), t(v.Want)
	w.Log, w.Post = nil, nil
	for _, l := range v.Log {
		w.Log = append(w.Log, t(l))
	}
	for _, p := range v.Post {
		w.Post = append(w.Post, t(p))
	}
	return w
}

func runCase(idx int, c kase, detail bool) (out caseOut) {
	if strings.HasPrefix(c.in.Ctx, "r:") {
		return runReuse(idx, c, detail)
	}
	out.I = idx
	tag := tagOf(idx)
	v, cx, supply := retagVariant(c.v, tag), c.in.Ctx, c.in.Supply
	var optOS, ctxOS *recOS
	// The context is deliberately never cancelled: object.File closes its underlying file from a goroutine when
	// the context ends, which (under a defect that hands a script the real stdio) would close the worker's real
	// standard streams at some later, unattributable moment. The worker process is short-lived.
	ctx := context.Background()
	opts := []risor.Option{risor.WithConcurrency()}
	if supply == "decline" {
		return runDeclined(idx, c, v, cx, tag, detail)
	}
	if supply == "opt" || supply == "both" {
		optOS = newRecOS("opt", tag)
		opts = append(opts, risor.WithOS(optOS))
	}
	if supply == "ctx" || supply == "both" {
		ctxOS = newRecOS("ctx", tag)
		ctx = ros.WithOS(ctx, ctxOS)
	}
	got, errText := execute(ctx, v, cx, opts)
	out.Got, out.Err = got, errText
	var optLog, ctxLog []string
	if optOS != nil {
		optLog = optOS.in.snapshot()
	}
	if ctxOS != nil {
		ctxLog = ctxOS.in.snapshot()
	}
	addFail := func(kind, what, obs, exp string) {
		out.Fails = append(out.Fails, fail{kind, what, ev.Clip(obs, 600), ev.Clip(exp, 300)})
	}
	var server *recOS
	var log []string
	switch supply {
	case "opt":
		server, log, out.Served = optOS, optLog, "opt"
	case "ctx":
		server, log, out.Served = ctxOS, ctxLog, "ctx"
	default:
		switch {
		case len(ctxLog) > 0 && len(optLog) > 0:
			addFail("both-split", "both recording OS instances served part of the case", "ctx instance: "+strings.Join(ctxLog, "; ")+" | WithOS instance: "+strings.Join(optLog, "; "), "exactly one instance serves every call")
			server, log, out.Served = ctxOS, ctxLog, "split"
		case len(optLog) > 0:
			server, log, out.Served = optOS, optLog, "opt"
		case len(ctxLog) > 0:
			server, log, out.Served = ctxOS, ctxLog, "ctx"
		default:
			server, log, out.Served = ctxOS, ctxLog, "none"
		}
	}
	if detail {
		out.Log = log
		m, mod := sources(v, cx)
		out.Src = m
		if mod != "" {
			out.Src += "--- vmod.risor ---\n" + mod
		}
	}
	if got == "PANIC" {
		addFail("panic", "panic escaped the evaluation", errText, "value or error")
	}
	if miss, ok := subsequence(v.Log, log); !ok {
		addFail("not-served", "the recording OS did not log "+miss, "log: ["+strings.Join(log, "; ")+"] answer: "+got+" "+errText, "log contains "+strings.Join(v.Log, "; "))
	}
	if !matchWant(v.Want, got) {
		addFail("wrong-answer", "the script did not observe the recording OS's answer", got+" "+errText, v.Want)
	}
	for _, p := range v.Post {
		if msg := postCheck(server, p); msg != "" {
			addFail("post-state", msg, msg, p)
		}
	}
	// a call that was not served also fails its answer and post-state; keep the primary failure only
	for _, f := range out.Fails {
		if f.Kind == "not-served" {
			var keep []fail
			for _, g := range out.Fails {
				if g.Kind != "wrong-answer" && g.Kind != "post-state" {
					keep = append(keep, g)
				}
			}
			out.Fails = keep
			break
		}
	}
	return out
}

// runDeclined runs the case against a host OS that answers every question about users, groups, the host
// name and the standard directories with an error (and whose environment names the real account root). What
// the script gets is then an error or something derived from the supplied OS; the real machine's home
// directory, host name or working directory in the answer can only have come from the real OS.
func runDeclined(idx int, c kase, v variant, cx string, tag byte, detail bool) (out caseOut) {
	out.I = idx
	o := newRecOS("opt", tag)
	o.decline = true
	got, errText := execute(context.Background(), v, cx, []risor.Option{risor.WithConcurrency(), risor.WithOS(o)})
	out.Got, out.Err, out.Served = got, errText, "opt"
	if detail {
		out.Log = o.in.snapshot()
		out.Src, _ = sources(v, cx)
	}
	if got == "PANIC" {
		out.Fails = append(out.Fails, fail{"panic", "panic escaped the evaluation", ev.Clip(errText, 600), "value or error"})
	}
	seen := got + "\n" + errText + "\n" + o.stdoutText() + "\n" + o.stderrText()
	for what, datum := range realData() {
		if strings.Contains(seen, datum) {
			out.Fails = append(out.Fails, fail{"real-data", "the host OS declined every query, yet the script saw the real machine's " + what, ev.Clip(seen, 600), "an error, or data of the supplied OS"})
		}
	}
	return out
}

var realDataOnce sync.Once
var realDataMap map[string]string

// realData: strings that identify the real machine and that the recording OS never hands out.
func realData() map[string]string {
	realDataOnce.Do(func() {
		realDataMap = map[string]string{}
		if u, err := osuser.Current(); err == nil {
			if len(u.HomeDir) >= 4 {
				realDataMap["home directory of the real user"] = u.HomeDir
			}
		}
		if u, err := osuser.Lookup("root"); err == nil && len(u.HomeDir) >= 4 {
			realDataMap["home directory of root"] = u.HomeDir
		}
		if h, err := os.Hostname(); err == nil && len(h) >= 4 {
			realDataMap["host name"] = h
		}
		if d, err := os.Getwd(); err == nil && len(d) >= 6 {
			realDataMap["working directory"] = d
		}
	})
	return realDataMap
}

// ---------------------------------------------------------------- real-process observation (worker side)

type realObs struct {
	cwd       string
	tmp       string
	sentinel  string
	stdinPos  int64
	stdoutLen int64
	stderrLen int64
}

const sentinelContent = "REAL-SENTINEL-CONTENT"

func buildSentinel(dir string) {
	os.MkdirAll(filepath.Join(dir, "sub"), 0o755)
	os.WriteFile(filepath.Join(dir, "keep.txt"), []byte(sentinelContent), 0o644)
	os.WriteFile(filepath.Join(dir, "sub", "inner.txt"), []byte(sentinelContent+"-inner"), 0o644)
}

func snapshotTree(dir string) string {
	var sb strings.Builder
	filepath.WalkDir(dir, func(p string, d fs.DirEntry, err error) error {
		rel, _ := filepath.Rel(dir, p)
		if err != nil {
			sb.WriteString("ERR " + rel + "\n")
			return nil
		}
		switch {
		case d.IsDir():
			sb.WriteString("D " + rel + "\n")
		case d.Type()&fs.ModeSymlink != 0:
			l, _ := os.Readlink(p)
			sb.WriteString("L " + rel + " -> " + l + "\n")
		default:
			b, _ := os.ReadFile(p)
			sb.WriteString("F " + rel + " " + string(b) + "\n")
		}
		return nil
	})
	return sb.String()
}

func fdPos(fd int) int64 {
	p, err := syscall.Seek(fd, 0, 1)
	if err != nil {
		return -1
	}
	return p
}

func fdLen(f *os.File) int64 {
	st, err := f.Stat()
	if err != nil {
		return -1
	}
	return st.Size()
}

func observe(cwd, tmp string) realObs {
	return realObs{cwd: cwd, tmp: tmp, sentinel: snapshotTree(cwd), stdinPos: fdPos(0), stdoutLen: fdLen(os.Stdout), stderrLen: fdLen(os.Stderr)}
}

// realEffects compares the real process with the baseline, reports what changed and restores it.
func realEffects(b *realObs, tag byte) []fail {
	own := retag(mark, tag)
	var out []fail
	add := func(kind, what, obs string) {
		out = append(out, fail{"real-" + kind, what, ev.Clip(obs, 400), "real process untouched"})
	}
	if wd, _ := os.Getwd(); wd != b.cwd {
		add("cwd", "the real working directory changed", wd)
		os.Chdir(b.cwd)
	}
	for _, kv := range os.Environ() {
		if strings.Contains(kv, own) {
			add("env", "a marker variable appeared in the real environment", kv)
			n, _, _ := strings.Cut(kv, "=")
			os.Unsetenv(n)
		}
	}
	if s := snapshotTree(b.cwd); s != b.sentinel {
		add("tree", "the sentinel tree (real cwd) changed", s)
		os.RemoveAll(b.cwd)
		buildSentinel(b.cwd)
		os.Chdir(b.cwd)
		b.sentinel = snapshotTree(b.cwd)
	}
	for _, d := range []string{"/", b.tmp} {
		es, _ := os.ReadDir(d)
		for _, e := range es {
			// "/" is shared by the parallel workers: only entries carrying this worker's tag are this case's doing
			if strings.Contains(e.Name(), own) {
				p := filepath.Join(d, e.Name())
				add("file", "a marker-named entry appeared on the real filesystem", p)
				os.RemoveAll(p)
			}
		}
	}
	if p := fdPos(0); p != b.stdinPos {
		add("stdin", "the real standard input was read or closed", fmt.Sprintf("offset %d -> %d", b.stdinPos, p))
		reopen(0, os.O_RDONLY)
		syscall.Seek(0, b.stdinPos, 0)
	}
	if n := fdLen(os.Stdout); n != b.stdoutLen {
		add("stdout", "the real standard output was written or closed", fmt.Sprintf("size %d -> %d", b.stdoutLen, n))
		reopen(1, os.O_WRONLY|os.O_APPEND)
		b.stdoutLen = fdLen(os.Stdout)
	}
	if n := fdLen(os.Stderr); n != b.stderrLen {
		add("stderr", "the real standard error was written or closed", fmt.Sprintf("size %d -> %d", b.stderrLen, n))
		reopen(2, os.O_WRONLY|os.O_APPEND)
		b.stderrLen = fdLen(os.Stderr)
	}
	return out
}

// stdio file paths handed down by the parent (VERIF_C12_STDIO = stdin|stdout|stderr), so that a case that closed
// a real standard stream does not poison the cases after it.
var stdioPaths []string
var keepAlive []*os.File

func reopen(fd int, flag int) {
	if fd >= len(stdioPaths) {
		return
	}
	f, err := os.OpenFile(stdioPaths[fd], flag, 0o644)
	if err != nil {
		return
	}
	if int(f.Fd()) != fd {
		syscall.Dup2(int(f.Fd()), fd)
		f.Close()
	} else {
		keepAlive = append(keepAlive, f) // f owns the descriptor now; its finaliser must never run
	}
	// The *os.File objects are replaced only when the script closed them (a live one that became unreachable
	// would be finalised and close the descriptor again).
	closed := func(f *os.File) bool { _, err := f.Stat(); return err != nil }
	switch fd {
	case 0:
		if closed(os.Stdin) {
			os.Stdin = os.NewFile(0, "/dev/stdin")
		}
	case 1:
		if closed(os.Stdout) {
			os.Stdout = os.NewFile(1, "/dev/stdout")
		}
	case 2:
		if closed(os.Stderr) {
			os.Stderr = os.NewFile(2, "/dev/stderr")
		}
	}
}

// Worker is the sub-command `check c12-worker <shard> <n> <tier> <resultfile> <tmpdir> <skipcsv> [<only>]`.
// The parent starts it with cwd = a fresh sentinel tree, TMPDIR = tmpdir and regular files as stdin/stdout/stderr.
func Worker(args []string) {
	if len(args) > 0 && args[0] == "control" {
		// positive control for the strace oracle: one real syscall whose argument carries the marker
		os.Lstat("/" + mark + "_control_probe")
		return
	}
	shard, _ := strconv.Atoi(args[0])
	n, _ := strconv.Atoi(args[1])
	thorough := args[2] == "thorough"
	res, err := os.OpenFile(args[3], os.O_WRONLY|os.O_APPEND|os.O_CREATE, 0o644)
	if err != nil {
		os.Exit(90)
	}
	tmp := args[4]
	skip := map[int]bool{}
	for _, f := range strings.Split(args[5], ",") {
		if k, err := strconv.Atoi(f); err == nil {
			skip[k] = true
		}
	}
	only := -1
	if len(args) > 6 {
		only, _ = strconv.Atoi(args[6])
	}
	cwd, _ := os.Getwd()
	stdioPaths = strings.Split(os.Getenv("VERIF_C12_STDIO"), "|")
	cases := caseList(thorough)
	base := observe(cwd, tmp)
	w := bufio.NewWriter(res)
	var watchdog *time.Timer
	for i := range cases {
		if only >= 0 {
			if i != only {
				continue
			}
		} else if i%n != shard || skip[i] {
			continue
		}
		fmt.Fprintf(w, "@%d\n", i)
		w.Flush()
		// watchdog: a case that hangs ends the worker (exit 91); the parent skips the function and restarts.
		// It only bounds the enumeration - a skipped case is recorded as a cap, never as a violation.
		if watchdog != nil {
			watchdog.Stop()
		}
		watchdog = time.AfterFunc(20*time.Second, func() { os.Exit(91) })
		// a recognisable, marker-free syscall so that a strace hit can be attributed to its case
		os.Lstat("/verif-c12-case-" + strconv.Itoa(i))
		out := runCase(i, cases[i], only >= 0)
		out.Fails = append(out.Fails, realEffects(&base, tagOf(i))...)
		b, _ := json.Marshal(out)
		w.Write(b)
		w.WriteByte('\n')
		w.Flush()
	}
	if watchdog != nil {
		watchdog.Stop()
	}
	fmt.Fprintf(w, "@done\n")
	w.Flush()
	res.Close()
}

// ---------------------------------------------------------------- parent side

type workerRun struct {
	outs     []caseOut
	crashes  []crash
	timeouts []int
	strace   string // path of the strace output ("" when not traced)
	err      string
}

type crash struct {
	idx  int
	text string
}

func straceArgs(out string) []string {
	return []string{"-f", "-qq", "-s", "256", "-e", "trace=%file,%process", "-o", out}
}

// runWorker runs one shard to completion, restarting after a case that killed the child.
func runWorker(self, scratch string, shard, n int, tier string, only int, traced bool) workerRun {
	var wr workerRun
	dir := filepath.Join(scratch, fmt.Sprintf("w%d", shard))
	sent, tmp := filepath.Join(dir, "sentinel"), filepath.Join(dir, "tmp")
	os.MkdirAll(tmp, 0o755)
	var skip []string
	for attempt := 0; attempt < 400; attempt++ {
		os.RemoveAll(sent)
		buildSentinel(sent)
		resFile := filepath.Join(dir, fmt.Sprintf("results-%d.jsonl", attempt))
		os.WriteFile(filepath.Join(dir, "stdin.txt"), []byte("REAL-STDIN-LINE-1\nREAL-STDIN-LINE-2\n"), 0o644)
		stdin, _ := os.Open(filepath.Join(dir, "stdin.txt"))
		stdout, _ := os.OpenFile(filepath.Join(dir, fmt.Sprintf("stdout-%d.txt", attempt)), os.O_CREATE|os.O_RDWR|os.O_APPEND, 0o644)
		stderr, _ := os.OpenFile(filepath.Join(dir, fmt.Sprintf("stderr-%d.txt", attempt)), os.O_CREATE|os.O_RDWR|os.O_APPEND, 0o644)
		wargs := []string{"c12-worker", strconv.Itoa(shard), strconv.Itoa(n), tier, resFile, tmp, strings.Join(skip, ",")}
		if only >= 0 {
			wargs = append(wargs, strconv.Itoa(only))
		}
		// the deadline only bounds the enumeration (a case that hangs is skipped and the run is not called exhaustive)
		limit := 90 * time.Second
		if tier == "thorough" {
			limit = 6 * time.Minute
		}
		c, cancel := context.WithTimeout(context.Background(), limit)
		var cmd *exec.Cmd
		if traced {
			wr.strace = filepath.Join(dir, fmt.Sprintf("strace-%d.txt", attempt))
			cmd = exec.CommandContext(c, "strace", append(append(straceArgs(wr.strace), self), wargs...)...)
		} else {
			cmd = exec.CommandContext(c, self, wargs...)
		}
		cmd.Dir = sent
		cmd.SysProcAttr = &syscall.SysProcAttr{Setpgid: true}
		cmd.Cancel = func() error { return syscall.Kill(-cmd.Process.Pid, syscall.SIGKILL) } // strace and its tracee
		cmd.Env = append(os.Environ(), "TMPDIR="+tmp, "VERIF_C12_STDIO="+strings.Join([]string{stdin.Name(), stdout.Name(), stderr.Name()}, "|"))
		cmd.Stdin, cmd.Stdout, cmd.Stderr = stdin, stdout, stderr
		runErr := cmd.Run()
		timedOut := c.Err() == context.DeadlineExceeded
		if ee, ok := runErr.(*exec.ExitError); ok && ee.ExitCode() == 91 {
			timedOut = true
		}
		cancel()
		stdin.Close()
		stdout.Close()
		stderr.Close()
		// read what the child reported
		last, done := -1, false
		b, _ := os.ReadFile(resFile)
		reported := map[int]bool{}
		for _, line := range strings.Split(string(b), "\n") {
			switch {
			case line == "":
			case line == "@done":
				done = true
			case line[0] == '@':
				last, _ = strconv.Atoi(line[1:])
			default:
				var o caseOut
				if err := json.Unmarshal([]byte(line), &o); err == nil {
					wr.outs = append(wr.outs, o)
					reported[o.I] = true
				}
			}
		}
		if done && runErr == nil {
			return wr
		}
		et, _ := os.ReadFile(filepath.Join(dir, fmt.Sprintf("stderr-%d.txt", attempt)))
		if last < 0 || reported[last] {
			wr.err = fmt.Sprintf("worker %d ended abnormally outside a case (%v): %s", shard, runErr, ev.Clip(string(et), 400))
			return wr
		}
		if timedOut {
			// skip every remaining case of the same function in this shard: one hang must not cost a deadline per case
			cs := caseList(tier == "thorough")
			for i := range cs {
				if i%n == shard && i >= last && cs[i].in.Fn == cs[last].in.Fn && !reported[i] {
					wr.timeouts = append(wr.timeouts, i)
					if i != last {
						skip = append(skip, strconv.Itoa(i))
					}
				}
			}
		} else {
			wr.crashes = append(wr.crashes, crash{last, fmt.Sprintf("%v: %s", runErr, ev.Clip(strings.TrimSpace(string(et)), 300))})
		}
		skip = append(skip, strconv.Itoa(last))
		if only >= 0 {
			return wr
		}
	}
	wr.err = fmt.Sprintf("worker %d: restart limit", shard)
	return wr
}

var reTag = regexp.MustCompile(markPrefix + `[A-P]`)
var reSyscall = regexp.MustCompile(`^\d+\s+(\w+)\(`)
var reCaseProbe = regexp.MustCompile(`/verif-c12-case-(\d+)"`)

// scanStrace returns (syscall, line, case index) for every traced syscall whose arguments carry the marker.
func scanStrace(path string) (hits [][3]string, lines int, err error) {
	f, err := os.Open(path)
	if err != nil {
		return nil, 0, err
	}
	defer f.Close()
	sc := bufio.NewScanner(f)
	sc.Buffer(make([]byte, 1<<20), 1<<20)
	cur := "-1"
	for sc.Scan() {
		line := sc.Text()
		lines++
		if m := reCaseProbe.FindStringSubmatch(line); m != nil {
			cur = m[1]
			continue
		}
		if strings.Contains(line, markPrefix) {
			name := "?"
			if m := reSyscall.FindStringSubmatch(line); m != nil {
				name = m[1]
			}
			hits = append(hits, [3]string{name, line, cur})
		}
	}
	return hits, lines, sc.Err()
}

func Check(r *ev.Run, replay string) {
	self := os.Getenv("VERIF_SELF")
	if self == "" {
		self, _ = os.Executable()
	}
	thorough := r.Thorough()
	cases := caseList(thorough)

	// ---- discovery: every discovered function has a template or a commented skip entry
	names, err := discover()
	if err != nil {
		r.EngineError("discovery: " + err.Error())
		return
	}
	have := map[string]int{}
	for _, v := range variants(0) {
		have[v.Fn]++
	}
	disc := map[string]bool{}
	var skipped []string
	for _, n := range names {
		disc[n] = true
		if have[n] == 0 {
			if _, ok := skipList[n]; ok {
				skipped = append(skipped, n)
				continue
			}
			r.EngineError("discovered function " + n + " has neither a call template nor a skip entry")
			return
		}
	}
	for fn := range have {
		if !disc[fn] {
			r.EngineError("call template for " + fn + " but no such function was discovered in the tree (stale template)")
			return
		}
	}
	r.Set("functions_discovered", len(names))
	r.Set("functions_with_templates", len(have))
	r.Set("skipped_with_reason", skipped)
	r.Set("templates_per_spelling", len(variants(0)))
	r.Assumptions = []string{
		"exec, network modules and the importer's own file reads are outside the statement (modules imported from an in-memory fs.FS)",
		"when an OS is supplied both with WithOS and in the context the precedence is not documented: exactly one of the two recording instances must serve the whole case (which one is recorded in the outcome keys)",
		"the recording OS wraps risor's VirtualOS (mount / -> in-memory FS); users and groups are answered by the wrapper because VirtualUser/VirtualGroup cannot be constructed outside package os",
		"real-filesystem observation covers the real cwd (a sentinel tree), / and TMPDIR; any other location is covered by the strace oracle in the thorough tier only",
	}

	if replay != "" {
		replayOne(r, self, cases, replay)
		return
	}

	staticScan(r)

	scratch, err := os.MkdirTemp("", "verif-c12-")
	if err != nil {
		r.EngineError("mkdirtemp: " + err.Error())
		return
	}
	if os.Getenv("C12_KEEP") == "" {
		defer os.RemoveAll(scratch)
	} else {
		fmt.Println("scratch kept:", scratch)
	}
	sweepReal(r, false)

	// ---- strace availability + positive control (thorough only)
	traced := false
	if thorough {
		ctl := filepath.Join(scratch, "control.txt")
		cmd := exec.Command("strace", append(append(straceArgs(ctl), self), "c12-worker", "control")...)
		var eb bytes.Buffer
		cmd.Stderr = &eb
		cerr := cmd.Run()
		hits, _, _ := scanStrace(ctl)
		switch {
		case cerr != nil:
			r.Set("strace", "unavailable: "+cerr.Error()+" "+ev.Clip(eb.String(), 200))
		case len(hits) == 0:
			r.Set("strace", "attached but the positive control (lstat of a marker path) was not seen; oracle not applied")
		default:
			traced = true
			r.Set("strace", "attached; positive control seen: "+ev.Clip(hits[0][1], 160))
		}
	} else {
		r.Set("strace", "not run in the quick tier")
	}

	nw := 16
	runs := make([]workerRun, nw)
	var wg sync.WaitGroup
	for i := 0; i < nw; i++ {
		wg.Add(1)
		go func(i int) {
			defer wg.Done()
			runs[i] = runWorker(self, scratch, i, nw, r.Tier, -1, traced)
		}(i)
	}
	wg.Wait()

	// ---- aggregate
	type fkey struct{ kind, fn, cx, supply string }
	fails := map[fkey][]int{} // -> case indices
	failText := map[int][]fail{}
	seen := map[int]bool{}
	served := map[string]int{}
	for _, wr := range runs {
		if wr.err != "" {
			r.EngineError(wr.err)
			return
		}
		for _, o := range wr.outs {
			if o.I < 0 || o.I >= len(cases) || seen[o.I] {
				continue
			}
			seen[o.I] = true
			c := cases[o.I]
			r.Eval(1)
			class := reTag.ReplaceAllString(o.Got, mark)
			if strings.HasPrefix(c.v.Want, "re:") {
				class = "<matches pattern>"
			}
			r.Outcome(c.in.Fn + "|" + c.in.ID + "|served=" + o.Served + "|" + ev.Clip(class, 40))
			r.Outcome("ctx|" + c.in.Ctx + "|" + c.in.Supply + "|served=" + o.Served)
			if c.in.Supply == "both" {
				served[c.in.Ctx+":"+o.Served]++
			}
			for _, f := range o.Fails {
				k := fkey{f.Kind, c.in.Fn, c.in.Ctx, c.in.Supply}
				fails[k] = append(fails[k], o.I)
			}
			if len(o.Fails) > 0 {
				failText[o.I] = o.Fails
			}
		}
		for _, ti := range wr.timeouts {
			seen[ti] = true
			r.Cap(fmt.Sprintf("case %d %+v did not finish before the worker deadline; skipped", ti, cases[ti].in))
		}
		for _, cr := range wr.crashes {
			c := cases[cr.idx]
			seen[cr.idx] = true
			r.Eval(1)
			kind := "process-died"
			if c.in.Fn == "os.exit" {
				kind = "real-exit"
			}
			k := fkey{kind, c.in.Fn, c.in.Ctx, c.in.Supply}
			fails[k] = append(fails[k], cr.idx)
			failText[cr.idx] = []fail{{kind, "the worker process ended while running this case", cr.text, "the recording OS's exit handler is called; the process survives"}}
		}
	}
	for i := range cases {
		if !seen[i] {
			r.EngineError(fmt.Sprintf("case %d (%+v) produced no result", i, cases[i].in))
			return
		}
	}
	r.Set("served_by_when_both", served)
	r.Set("cases", len(cases))
	r.Set("contexts", contexts)
	r.Set("reused_vm_contexts", fmt.Sprintf("%d: OS of the priming run R1 %v x (entry, supply of R2's OS) %v x inner %v, on %d call templates (quick: every third, thorough: all); R1 = os.getpid() on the same VM, same Go context value wherever the second OS is not itself in the context",
		len(reuseContexts()), rR1, rEntrySupply, rInner, len(reuseVariants(thorough))))
	if thorough {
		r.Set("composed_contexts", fmt.Sprintf("%d: definitions in %v x host entry %v x call chains of 1..2 links over %v (plain spelling)", len(composedContexts()), gLocs, gEntries, gLinks))
	}
	r.Set("excluded_cases", "os.exit(3) and os.exit(error) x go context x 3 supplies: the fatal exit error kills the goroutine before it reports back")
	r.Set("supplies", supplies)

	// Group the failures: a context in which (almost) nothing is served by the recording OS is one defect, not
	// one per function; everything else that fails in that context (answers, real effects) is its consequence.
	perCtx := map[string]map[string]bool{} // ctx|supply -> set of fns that were not served
	for k := range fails {
		if k.kind != "not-served" {
			continue
		}
		key := k.cx + "|" + k.supply
		if perCtx[key] == nil {
			perCtx[key] = map[string]bool{}
		}
		perCtx[key][k.fn] = true
	}
	wholesale := map[string]bool{}
	var ck []string
	for key := range perCtx {
		ck = append(ck, key)
	}
	sort.Strings(ck)
	folded := 0
	fnsIn := map[string]map[string]bool{} // ctx|supply -> functions that have cases there
	for _, c := range cases {
		key := c.in.Ctx + "|" + c.in.Supply
		if fnsIn[key] == nil {
			fnsIn[key] = map[string]bool{}
		}
		fnsIn[key][c.in.Fn] = true
	}
	for _, key := range ck {
		if len(perCtx[key])*2 >= len(fnsIn[key]) {
			wholesale[key] = true
		}
	}
	// Reused-VM contexts: one report per (OS of the first run, way the second run's OS is supplied) when (almost)
	// every entry / inner form with that pair fails.
	pairOf := func(cx string) string {
		if !strings.HasPrefix(cx, "r:") {
			return ""
		}
		p := strings.Split(cx, ":")
		return p[1] + ":" + p[2]
	}
	badPair := map[string]bool{}
	{
		tot, bad := map[string]int{}, map[string]int{}
		for _, cx := range reuseContexts() {
			tot[pairOf(cx)]++
			if wholesale[cx+"|"+reuseSupply] {
				bad[pairOf(cx)]++
			}
		}
		for pr, t := range tot {
			if bad[pr]*10 >= t*9 {
				badPair[pr] = true
			}
		}
	}
	pairReported := map[string]int{}
	// A link (spawn, go, callback, try, direct) through which nothing is mediated makes every composed context
	// containing it fail: report the link once instead of each of those contexts.
	linksOf := func(cx string) []string {
		if !strings.HasPrefix(cx, "g:") {
			return nil
		}
		return strings.Split(cx[strings.LastIndex(cx, ":")+1:], "+")
	}
	badLink := map[string]bool{}
	if thorough {
		for _, l := range gLinks {
			tot, bad := 0, 0
			for _, cx := range composedContexts() {
				has := false
				for _, x := range linksOf(cx) {
					has = has || x == l
				}
				if !has {
					continue
				}
				for _, sp := range supplies {
					tot++
					if wholesale[cx+"|"+sp] {
						bad++
					}
				}
			}
			if tot > 0 && bad*10 >= tot*9 {
				badLink[l] = true
			}
		}
	}
	linkReported := map[string]int{}
	for _, key := range ck {
		fns := perCtx[key]
		if !wholesale[key] {
			continue
		}
		parts := strings.Split(key, "|")
		viaLink := ""
		for _, l := range linksOf(parts[0]) {
			if badLink[l] && (viaLink == "" || l < viaLink) {
				viaLink = l
			}
		}
		if viaLink != "" {
			linkReported[viaLink]++
			if linkReported[viaLink] > 1 {
				continue
			}
		}
		viaPair := ""
		if pr := pairOf(parts[0]); pr != "" && badPair[pr] {
			viaPair = pr
			pairReported[pr]++
			if pairReported[pr] > 1 {
				continue
			}
		}
		var fl []string
		for fn := range fns {
			fl = append(fl, fn)
		}
		sort.Strings(fl)
		first := -1
		also := map[string]bool{}
		for k, idxs := range fails {
			if k.cx != parts[0] || k.supply != parts[1] {
				continue
			}
			if k.kind != "not-served" {
				also[k.kind] = true
				folded += len(idxs)
				continue
			}
			for _, i := range idxs {
				if first < 0 || i < first {
					first = i
				}
			}
		}
		var al []string
		for a := range also {
			al = append(al, a)
		}
		sort.Strings(al)
		f0 := failText[first][0]
		for _, f := range failText[first] {
			if f.Kind == "not-served" {
				f0 = f
			}
		}
		if viaLink != "" {
			r.Report("link-unmediated:"+viaLink,
				fmt.Sprintf("at least 90%% of the composed contexts that reach the function through a %q link are not served by the recording OS; first: context %s, OS supplied by %s, %s: %s",
					viaLink, parts[0], parts[1], cases[first].in.Fn, f0.What),
				cases[first].in, f0.Observed, f0.Expected)
			continue
		}
		if viaPair != "" {
			pp := strings.Split(viaPair, ":")
			r.Report("reuse-unmediated:"+viaPair,
				fmt.Sprintf("on a reused VM whose first run had OS %q, a second run whose OS is supplied by %q is not served by that OS (at least 90%% of the entry/inner forms); first: context %s, %s: %s",
					pp[0], pp[1], parts[0], cases[first].in.Fn, f0.What),
				cases[first].in, f0.Observed, f0.Expected)
			continue
		}
		r.Report("context-unmediated:"+parts[0]+":"+parts[1],
			fmt.Sprintf("%d of %d functions are not served by the recording OS in context %s with the OS supplied by %s; e.g. %s: %s; consequences in the same context: %s",
				len(fns), len(fnsIn[key]), parts[0], parts[1], cases[first].in.Fn, f0.What, strings.Join(al, " ")),
			cases[first].in, f0.Observed, f0.Expected)
	}
	r.Set("consequent_failures_folded", folded)
	if len(pairReported) > 0 {
		r.Set("contexts_folded_into_reuse_reports", pairReported)
	}
	if len(linkReported) > 0 {
		r.Set("contexts_folded_into_link_reports", linkReported)
	}
	type gkey struct{ kind, fn string }
	groups := map[gkey][]fkey{}
	for k := range fails {
		if wholesale[k.cx+"|"+k.supply] {
			continue
		}
		g := gkey{k.kind, k.fn}
		groups[g] = append(groups[g], k)
	}
	var gk []gkey
	for g := range groups {
		gk = append(gk, g)
	}
	sort.Slice(gk, func(i, j int) bool { return gk[i].kind+gk[i].fn < gk[j].kind+gk[j].fn })
	for _, g := range gk {
		ks := groups[g]
		sort.Slice(ks, func(i, j int) bool { return ks[i].cx+ks[i].supply < ks[j].cx+ks[j].supply })
		var where []string
		first := -1
		for _, k := range ks {
			where = append(where, k.cx+"/"+k.supply)
			idxs := fails[k]
			sort.Ints(idxs)
			if first < 0 || idxs[0] < first {
				first = idxs[0]
			}
		}
		f0 := failText[first][0]
		for _, f := range failText[first] {
			if f.Kind == g.kind {
				f0 = f
			}
		}
		r.Report(g.kind+":"+g.fn, fmt.Sprintf("%s %s: %s (contexts: %s)", g.fn, cases[first].in.ID, f0.What, ev.Clip(strings.Join(where, " "), 300)),
			cases[first].in, f0.Observed, f0.Expected)
	}

	sweepReal(r, true)

	// ---- strace oracle
	if traced {
		total, nh := 0, 0
		for _, wr := range runs {
			if wr.strace == "" {
				continue
			}
			dir := filepath.Dir(wr.strace)
			fl, _ := filepath.Glob(filepath.Join(dir, "strace-*.txt"))
			sort.Strings(fl)
			for _, f := range fl {
				hits, lines, err := scanStrace(f)
				if err != nil {
					r.EngineError("reading strace output: " + err.Error())
					return
				}
				total += lines
				for _, h := range hits {
					nh++
					idx, _ := strconv.Atoi(h[2])
					var in any = map[string]any{"part": "strace", "note": "outside a case"}
					fn := "?"
					if idx >= 0 && idx < len(cases) {
						in = cases[idx].in
						fn = cases[idx].in.Fn
					}
					r.Report("strace-marker:"+h[0]+":"+fn, "a real syscall carried the marker: "+ev.Clip(h[1], 300), in, h[1], "no syscall argument contains "+mark)
				}
			}
		}
		r.Set("strace_lines_scanned", total)
		r.Set("strace_marker_hits", nh)
	}

	for _, i := range []int{0, len(cases) / 3, len(cases) / 2, len(cases) - 1} {
		m, mod := sources(cases[i].v, cases[i].in.Ctx)
		r.Sample(map[string]any{"case": cases[i].in, "main": m, "module": mod, "want": cases[i].v.Want, "log": cases[i].v.Log, "post": cases[i].v.Post})
	}
	r.Set("rule", fmt.Sprintf("every discovered function of os (%d attrs), filepath, fmt, the print/printf/errorf/sprintf and shell-style builtins and every attribute of file objects from open/create/stdin/stdout (%d names, %d with templates, %d skipped with reason) x %d argument tuples per spelling x path spellings %v x %d contexts %v (thorough adds 240 composed contexts x plain spelling: definitions in main|module x entry by Eval|clone.Run|clone.Call|risor.Call x chains of 1..2 links over direct|spawn|go|callback|try) x OS supplied by {WithOS, context, both}; every template also (top level, spawned, risor.Call) against a supplied OS that answers every user / group / host name / standard directory query with an error while its environment names the real account root - the answer must not contain the real machine's home directories, host name or working directory; plus 81 reused-VM contexts (first run with no/option/context OS A, then the case as second run on the same VM with OS B by vm.RunCode option | risor.WithVM+WithOS | context, entered by RunCode | incremental Run | vm.Call | risor.Call, directly | in a spawned goroutine | in an imported module; B alone must serve) x every third template (quick) / all templates (thorough); each case in a worker process against fresh recording OS instances: expected calls logged in order, answer observed, post-state, real cwd/env/sentinel tree//,TMPDIR/stdio untouched; thorough: all workers under strace -f -e trace=%%file,%%process, no syscall argument contains the marker. distinct = (function, tuple, serving instance, answer) and (context, supply, serving instance) keys",
		len(moduleAttrsOS()), len(names), len(have), len(skipped), len(variants(0)), spellings(thorough), len(contexts), contexts))
}

// sweepReal removes marker-named entries from /, the temp dir and the harness cwd. Before the run that is hygiene
// (left-overs of an aborted run); after the run every such entry that no worker attributed to a case is a finding.
func sweepReal(r *ev.Run, report bool) {
	cwd, _ := os.Getwd()
	var found []string
	for _, d := range []string{"/", os.TempDir(), cwd} {
		es, _ := os.ReadDir(d)
		for _, e := range es {
			if strings.Contains(e.Name(), markPrefix) {
				p := filepath.Join(d, e.Name())
				found = append(found, p)
				os.RemoveAll(p)
			}
		}
	}
	for _, kv := range os.Environ() {
		if strings.Contains(kv, markPrefix) {
			found = append(found, "env "+kv)
		}
	}
	if report {
		r.Set("real_fs_marker_entries_after_run", len(found))
		if len(found) > 0 {
			r.Report("real-file-unattributed", "marker-named entries exist on the real filesystem after the run: "+ev.Clip(strings.Join(found, " "), 300),
				map[string]any{"part": "sweep"}, strings.Join(found, " "), "no file whose name contains "+mark)
		}
	}
}

func moduleAttrsOS() []string {
	var out []string
	n, _ := discover()
	for _, s := range n {
		if strings.HasPrefix(s, "os.") {
			out = append(out, s)
		}
	}
	return out
}

// ---------------------------------------------------------------- static scan of the anchor sources

// staticScan reports direct uses of Go's process-level OS API in the script-facing sources named by the property.
func staticScan(r *ev.Run) {
	files := []string{"modules/os/os.go", "modules/filepath/filepath.go", "modules/fmt/fmt.go", "object/file.go", "object/file_iter.go", "object/file_info.go", "object/dir_entry.go"}
	bs, _ := filepath.Glob(filepath.Join(ev.RepoDir, "builtins", "*.go"))
	for _, b := range bs {
		if !strings.HasSuffix(b, "_test.go") {
			rel, _ := filepath.Rel(ev.RepoDir, b)
			files = append(files, rel)
		}
	}
	osPkgs := map[string]bool{"os": true, "io/ioutil": true, "syscall": true, "os/user": true, "os/exec": true, "os/signal": true}
	fpTouching := map[string]bool{"Abs": true, "Walk": true, "WalkDir": true, "Glob": true, "EvalSymlinks": true}
	fmtTouching := map[string]bool{"Print": true, "Printf": true, "Println": true, "Scan": true, "Scanf": true, "Scanln": true}
	n := 0
	for _, rel := range files {
		fset := token.NewFileSet()
		f, err := parser.ParseFile(fset, filepath.Join(ev.RepoDir, rel), nil, 0)
		if err != nil {
			r.EngineError("static scan: " + err.Error())
			return
		}
		bind := map[string]string{} // local name -> import path
		for _, im := range f.Imports {
			p, _ := strconv.Unquote(im.Path.Value)
			name := filepath.Base(p)
			if im.Name != nil {
				name = im.Name.Name
			}
			if osPkgs[p] || p == "path/filepath" || p == "fmt" {
				bind[name] = p
			}
		}
		ast.Inspect(f, func(nd ast.Node) bool {
			se, ok := nd.(*ast.SelectorExpr)
			if !ok {
				return true
			}
			id, ok := se.X.(*ast.Ident)
			if !ok || id.Obj != nil {
				return true
			}
			p, ok := bind[id.Name]
			if !ok {
				return true
			}
			n++
			sel := se.Sel.Name
			bad := false
			switch {
			case p == "path/filepath":
				bad = fpTouching[sel]
			case p == "fmt":
				bad = fmtTouching[sel]
			case p == "os":
				// the error sentinels and pure types are not OS accesses
				bad = !(strings.HasPrefix(sel, "Err") || sel == "FileMode" || sel == "FileInfo" || sel == "PathError" || strings.HasPrefix(sel, "Mode") || strings.HasPrefix(sel, "O_") || sel == "PathSeparator" || sel == "PathListSeparator")
			default:
				bad = true
			}
			if bad {
				pos := fset.Position(se.Pos())
				r.Report("static-direct-os:"+rel+":"+p+"."+sel, fmt.Sprintf("%s:%d uses %s.%s directly instead of the OS from the context", rel, pos.Line, p, sel),
					map[string]any{"part": "static", "file": rel, "line": pos.Line}, p+"."+sel, "access through os.GetDefaultOS(ctx)")
			}
			return true
		})
	}
	r.Set("static_scan_files", len(files))
	r.Set("static_scan_selectors_checked", n)
	r.Eval(len(files))
}

// ---------------------------------------------------------------- replay

func replayOne(r *ev.Run, self string, cases []kase, path string) {
	var raw map[string]any
	if err := ev.ReadReplay(path, &raw); err != nil {
		r.EngineError("replay: " + err.Error())
		return
	}
	if raw["part"] == "static" {
		fmt.Println("static finding: re-running the static scan")
		staticScan(r)
		r.Outcome("replay")
		r.Outcome("replay2")
		return
	}
	if raw["part"] == "sweep" {
		fmt.Println("left-over finding: sweeping /, the temp dir and the cwd for marker-named entries")
		sweepReal(r, true)
		r.Outcome("replay")
		r.Outcome("replay2")
		return
	}
	if s, ok := raw["fn"].(string); !ok || s == "" {
		fmt.Printf("this finding is not tied to one case (%v); re-run the check\n", raw)
		r.Outcome("replay")
		r.Outcome("replay2")
		return
	}
	var in caseIn
	if err := ev.ReadReplay(path, &in); err != nil {
		r.EngineError("replay: " + err.Error())
		return
	}
	all := cases
	if in.K != 0 && !r.Thorough() {
		all = caseList(true)
	}
	idx := -1
	for i, c := range all {
		if c.in == in {
			idx = i
		}
	}
	if idx < 0 {
		r.EngineError(fmt.Sprintf("replay: no case %+v in the enumeration", in))
		return
	}
	scratch, err := os.MkdirTemp("", "verif-c12-")
	if err != nil {
		r.EngineError(err.Error())
		return
	}
	defer os.RemoveAll(scratch)
	tier := r.Tier
	if in.K != 0 {
		tier = "thorough"
	}
	wr := runWorker(self, scratch, 0, 1, tier, idx, false)
	fmt.Printf("replay case %d: %+v\n", idx, in)
	r.Eval(1)
	r.Outcome("replay")
	r.Outcome("replay2")
	for _, o := range wr.outs {
		fmt.Printf("--- source ---\n%s--- answer: %q (expected %q) err=%q served by: %s\n--- log of the serving recording OS ---\n  %s\n", o.Src, o.Got, all[idx].v.Want, o.Err, o.Served, strings.Join(o.Log, "\n  "))
		for _, f := range o.Fails {
			fmt.Printf("FAIL %s: %s\n  observed: %s\n  expected: %s\n", f.Kind, f.What, f.Observed, f.Expected)
			r.Report(f.Kind+":"+in.Fn, f.What, in, f.Observed, f.Expected)
		}
		if len(o.Fails) == 0 {
			fmt.Println("all oracles hold for this case")
		}
	}
	for _, cr := range wr.crashes {
		fmt.Printf("worker process died in this case: %s\n", cr.text)
		r.Report("process-died:"+in.Fn, "the worker process ended while running this case", in, cr.text, "process survives")
	}
	if wr.err != "" {
		r.EngineError(wr.err)
	}
}
