package c12

import (
	"context"
	"fmt"
	"io"
	"io/fs"
	"path/filepath"
	"sort"
	"strings"
	"sync"
	"time"

	ros "github.com/risor-io/risor/os"
)

// Fixed identity answers of the recording OS. Every path and every environment
// variable name the scripts use carries the marker.
const (
	mark       = "VERIFMARK"
	markPrefix = "VERIFMAR" // what the real-side scans look for (see retag)
	vPid       = 424242
	vUid       = 777
	vHost      = "verif-host"
	vCwd       = "/VERIFMARK_cwd"
	vTmp       = "/VERIFMARK_tmp"
	vHome      = "/VERIFMARK_home"
	vCache     = "/VERIFMARK_home/cache"
	vConfig    = "/VERIFMARK_home/config"
	vEnvName   = "VERIFMARK_VAR"
	vEnvValue  = "virtual-env-value"
	vStdin     = "stdin-VIRTUAL-1\nstdin-VIRTUAL-2\n"
	vUser      = "VERIFMARK_user"
	vGroup     = "VERIFMARK_group"
	vGid       = "888"
)

// initial tree of the in-memory filesystem (directories end in "/").
var initTree = map[string]string{
	"/":                                     "",
	"/VERIFMARK_cwd/":                       "",
	"/VERIFMARK_cwd/VERIFMARK_rel.txt":      "rel-VIRTUAL\n",
	"/VERIFMARK_cwd/VERIFMARK_reldir/":      "",
	"/VERIFMARK_cwd/VERIFMARK_reldir/c.txt": "gamma-VIRTUAL",
	"/VERIFMARK_dir/":                       "",
	"/VERIFMARK_dir/a.txt":                  "alpha-VIRTUAL\nline2-VIRTUAL\n",
	"/VERIFMARK_dir/sub/":                   "",
	"/VERIFMARK_dir/sub/b.txt":              "beta-VIRTUAL",
	"/VERIFMARK_tmp/":                       "",
	"/VERIFMARK_home/":                      "",
}

// ---------------------------------------------------------------- recorder

// inst is one recording OS instance: call log + in-memory state, one mutex for all of it.
type inst struct {
	mu    sync.Mutex
	name  string
	log   []string
	nodes map[string]*node // absolute cleaned path -> node
	exits []int
}

type node struct {
	dir  bool
	link string // symlink target (absolute), "" otherwise
	data []byte
	mode fs.FileMode
}

func (in *inst) add(format string, a ...any) {
	in.mu.Lock()
	in.log = append(in.log, fmt.Sprintf(format, a...))
	in.mu.Unlock()
}

func (in *inst) snapshot() []string {
	in.mu.Lock()
	defer in.mu.Unlock()
	return append([]string(nil), in.log...)
}

// ---------------------------------------------------------------- in-memory filesystem (ros.FS)

// memFS is mounted at "/" of the VirtualOS; VirtualOS hands it paths relative to the mount.
type memFS struct{ in *inst }

func norm(p string) string { return filepath.Clean("/" + p) }

func perr(op, p string, err error) error { return &fs.PathError{Op: op, Path: p, Err: err} }

// resolve follows symlinks (bounded) and returns the final path and node (nil if absent). Caller holds the lock.
func (m memFS) resolve(p string) (string, *node) {
	p = norm(p)
	for i := 0; i < 8; i++ {
		n := m.in.nodes[p]
		if n == nil || n.link == "" {
			return p, n
		}
		p = n.link
	}
	return p, nil
}

func (m memFS) parentOK(p string) bool {
	d := filepath.Dir(p)
	_, n := m.resolve(d)
	return n != nil && n.dir
}

func (m memFS) newFile(p string, n *node, flag int) *memFile {
	return &memFile{in: m.in, label: p, n: n, readable: flag&(ros.O_WRONLY) == 0, writable: flag&(ros.O_WRONLY|ros.O_RDWR) != 0, app: flag&ros.O_APPEND != 0}
}

func (m memFS) OpenFile(name string, flag int, perm ros.FileMode) (ros.File, error) {
	m.in.mu.Lock()
	defer m.in.mu.Unlock()
	p, n := m.resolve(name)
	if n == nil {
		if flag&ros.O_CREATE == 0 {
			return nil, perr("open", p, fs.ErrNotExist)
		}
		if !m.parentOK(p) {
			return nil, perr("open", p, fs.ErrNotExist)
		}
		n = &node{mode: perm}
		m.in.nodes[p] = n
	} else if flag&ros.O_CREATE != 0 && flag&ros.O_EXCL != 0 {
		return nil, perr("open", p, fs.ErrExist)
	}
	if n.dir && flag&(ros.O_WRONLY|ros.O_RDWR) != 0 {
		return nil, perr("open", p, fs.ErrInvalid)
	}
	if flag&ros.O_TRUNC != 0 {
		n.data = nil
	}
	return m.newFile(p, n, flag), nil
}

func (m memFS) Create(name string) (ros.File, error) {
	return m.OpenFile(name, ros.O_RDWR|ros.O_CREATE|ros.O_TRUNC, 0o666)
}

func (m memFS) Open(name string) (ros.File, error) { return m.OpenFile(name, ros.O_RDONLY, 0) }

func (m memFS) Mkdir(name string, perm ros.FileMode) error {
	m.in.mu.Lock()
	defer m.in.mu.Unlock()
	p := norm(name)
	if m.in.nodes[p] != nil {
		return perr("mkdir", p, fs.ErrExist)
	}
	if !m.parentOK(p) {
		return perr("mkdir", p, fs.ErrNotExist)
	}
	m.in.nodes[p] = &node{dir: true, mode: perm | fs.ModeDir}
	return nil
}

func (m memFS) MkdirAll(path string, perm ros.FileMode) error {
	m.in.mu.Lock()
	defer m.in.mu.Unlock()
	p := norm(path)
	cur := ""
	for _, seg := range strings.Split(strings.Trim(p, "/"), "/") {
		if seg == "" {
			continue
		}
		cur += "/" + seg
		_, n := m.resolve(cur)
		if n == nil {
			m.in.nodes[cur] = &node{dir: true, mode: perm | fs.ModeDir}
		} else if !n.dir {
			return perr("mkdir", cur, fs.ErrInvalid)
		}
	}
	return nil
}

func (m memFS) ReadFile(name string) ([]byte, error) {
	m.in.mu.Lock()
	defer m.in.mu.Unlock()
	p, n := m.resolve(name)
	if n == nil {
		return nil, perr("open", p, fs.ErrNotExist)
	}
	if n.dir {
		return nil, perr("read", p, fs.ErrInvalid)
	}
	return append([]byte(nil), n.data...), nil
}

func (m memFS) children(p string) []string {
	var out []string
	pre := p
	if pre != "/" {
		pre += "/"
	}
	for k := range m.in.nodes {
		if k != p && strings.HasPrefix(k, pre) && !strings.Contains(k[len(pre):], "/") {
			out = append(out, k)
		}
	}
	sort.Strings(out)
	return out
}

func (m memFS) Remove(name string) error {
	m.in.mu.Lock()
	defer m.in.mu.Unlock()
	p := norm(name)
	n := m.in.nodes[p]
	if n == nil {
		return perr("remove", p, fs.ErrNotExist)
	}
	if n.dir && len(m.children(p)) > 0 {
		return perr("remove", p, fs.ErrInvalid)
	}
	delete(m.in.nodes, p)
	return nil
}

func (m memFS) RemoveAll(path string) error {
	m.in.mu.Lock()
	defer m.in.mu.Unlock()
	p := norm(path)
	for k := range m.in.nodes {
		if k == p || strings.HasPrefix(k, p+"/") {
			delete(m.in.nodes, k)
		}
	}
	return nil
}

func (m memFS) Rename(oldpath, newpath string) error {
	m.in.mu.Lock()
	defer m.in.mu.Unlock()
	o, n := norm(oldpath), norm(newpath)
	if m.in.nodes[o] == nil {
		return perr("rename", o, fs.ErrNotExist)
	}
	if !m.parentOK(n) {
		return perr("rename", n, fs.ErrNotExist)
	}
	moves := map[string]*node{}
	for k, v := range m.in.nodes {
		if k == o || strings.HasPrefix(k, o+"/") {
			moves[n+k[len(o):]] = v
			delete(m.in.nodes, k)
		}
	}
	for k, v := range moves {
		m.in.nodes[k] = v
	}
	return nil
}

func (m memFS) info(p string, n *node) ros.FileInfo {
	mode := n.mode
	if n.link != "" {
		mode |= fs.ModeSymlink
	}
	return ros.NewFileInfo(ros.GenericFileInfoOpts{Name: filepath.Base(p), Size: int64(len(n.data)), Mode: mode, ModTime: time.Unix(1700000000, 0), IsDir: n.dir})
}

func (m memFS) Stat(name string) (ros.FileInfo, error) {
	m.in.mu.Lock()
	defer m.in.mu.Unlock()
	p, n := m.resolve(name)
	if n == nil {
		return nil, perr("stat", norm(name), fs.ErrNotExist)
	}
	_ = p
	return m.info(norm(name), &node{dir: n.dir, data: n.data, mode: n.mode}), nil
}

func (m memFS) Symlink(oldname, newname string) error {
	m.in.mu.Lock()
	defer m.in.mu.Unlock()
	o, n := norm(oldname), norm(newname)
	if m.in.nodes[n] != nil {
		return perr("symlink", n, fs.ErrExist)
	}
	if !m.parentOK(n) {
		return perr("symlink", n, fs.ErrNotExist)
	}
	m.in.nodes[n] = &node{link: o, mode: 0o777}
	return nil
}

func (m memFS) WriteFile(name string, data []byte, perm ros.FileMode) error {
	m.in.mu.Lock()
	defer m.in.mu.Unlock()
	p, n := m.resolve(name)
	if n == nil {
		if !m.parentOK(p) {
			return perr("open", p, fs.ErrNotExist)
		}
		n = &node{mode: perm}
		m.in.nodes[p] = n
	}
	if n.dir {
		return perr("write", p, fs.ErrInvalid)
	}
	n.data = append([]byte(nil), data...)
	return nil
}

type memDirEntry struct {
	name string
	info ros.FileInfo
}

func (e memDirEntry) Name() string               { return e.name }
func (e memDirEntry) IsDir() bool                { return e.info.IsDir() }
func (e memDirEntry) Type() fs.FileMode          { return e.info.Mode().Type() }
func (e memDirEntry) Info() (fs.FileInfo, error) { return e.info, nil }
func (e memDirEntry) HasInfo() bool              { return true }

func (m memFS) ReadDir(name string) ([]ros.DirEntry, error) {
	m.in.mu.Lock()
	defer m.in.mu.Unlock()
	p, n := m.resolve(name)
	if n == nil {
		return nil, perr("readdir", p, fs.ErrNotExist)
	}
	if !n.dir {
		return nil, perr("readdir", p, fs.ErrInvalid)
	}
	var out []ros.DirEntry
	for _, c := range m.children(p) {
		out = append(out, memDirEntry{filepath.Base(c), m.info(c, m.in.nodes[c])})
	}
	return out, nil
}

// WalkDir visits root and everything below it in lexical order (the fs.WalkDir contract), with
// paths spelled below the root as given (cleaned).
func (m memFS) WalkDir(root string, fn ros.WalkDirFunc) error {
	m.in.mu.Lock()
	p, n := m.resolve(root)
	if n == nil {
		m.in.mu.Unlock()
		return fn(norm(root), nil, perr("lstat", norm(root), fs.ErrNotExist))
	}
	type item struct {
		path string
		e    memDirEntry
	}
	var items []item
	var keys []string
	for k := range m.in.nodes {
		if k == p || strings.HasPrefix(k, strings.TrimSuffix(p, "/")+"/") {
			keys = append(keys, k)
		}
	}
	sort.Strings(keys)
	for _, k := range keys {
		items = append(items, item{k, memDirEntry{filepath.Base(k), m.info(k, m.in.nodes[k])}})
	}
	m.in.mu.Unlock()
	skip := ""
	for _, it := range items {
		if skip != "" && strings.HasPrefix(it.path, skip+"/") {
			continue
		}
		err := fn(it.path, it.e, nil)
		if err == fs.SkipDir {
			if it.e.IsDir() {
				skip = it.path
				continue
			}
			return nil
		}
		if err == fs.SkipAll {
			return nil
		}
		if err != nil {
			return err
		}
	}
	return nil
}

// ---------------------------------------------------------------- recording file

// memFile is a handle on a node (or on a stdio buffer). Every method is logged as File.<Op>(label,...).
type memFile struct {
	in       *inst
	label    string
	n        *node
	pos      int64
	readable bool
	writable bool
	app      bool
	closed   bool
}

func (f *memFile) Read(p []byte) (int, error) {
	f.in.mu.Lock()
	defer f.in.mu.Unlock()
	f.in.log = append(f.in.log, fmt.Sprintf("File.Read(%s)", f.label))
	if f.closed {
		return 0, fs.ErrClosed
	}
	if !f.readable || f.n.dir {
		return 0, perr("read", f.label, fs.ErrInvalid)
	}
	if f.pos >= int64(len(f.n.data)) {
		return 0, io.EOF
	}
	k := copy(p, f.n.data[f.pos:])
	f.pos += int64(k)
	return k, nil
}

func (f *memFile) Write(p []byte) (int, error) {
	f.in.mu.Lock()
	defer f.in.mu.Unlock()
	f.in.log = append(f.in.log, fmt.Sprintf("File.Write(%s,%q)", f.label, string(p)))
	if f.closed {
		return 0, fs.ErrClosed
	}
	if !f.writable {
		return 0, perr("write", f.label, fs.ErrPermission)
	}
	if f.app || f.pos > int64(len(f.n.data)) {
		f.pos = int64(len(f.n.data))
	}
	d := append([]byte(nil), f.n.data[:f.pos]...)
	d = append(d, p...)
	if end := f.pos + int64(len(p)); end < int64(len(f.n.data)) {
		d = append(d, f.n.data[end:]...)
	}
	f.n.data = d
	f.pos += int64(len(p))
	return len(p), nil
}

func (f *memFile) Close() error {
	f.in.mu.Lock()
	defer f.in.mu.Unlock()
	f.in.log = append(f.in.log, fmt.Sprintf("File.Close(%s)", f.label))
	f.closed = true
	return nil
}

func (f *memFile) Stat() (fs.FileInfo, error) {
	f.in.mu.Lock()
	defer f.in.mu.Unlock()
	f.in.log = append(f.in.log, fmt.Sprintf("File.Stat(%s)", f.label))
	return ros.NewFileInfo(ros.GenericFileInfoOpts{Name: filepath.Base(f.label), Size: int64(len(f.n.data)), Mode: f.n.mode, ModTime: time.Unix(1700000000, 0), IsDir: f.n.dir}), nil
}

func (f *memFile) Seek(offset int64, whence int) (int64, error) {
	f.in.mu.Lock()
	defer f.in.mu.Unlock()
	f.in.log = append(f.in.log, fmt.Sprintf("File.Seek(%s,%d,%d)", f.label, offset, whence))
	var np int64
	switch whence {
	case io.SeekStart:
		np = offset
	case io.SeekCurrent:
		np = f.pos + offset
	case io.SeekEnd:
		np = int64(len(f.n.data)) + offset
	default:
		return 0, perr("seek", f.label, fs.ErrInvalid)
	}
	if np < 0 {
		return 0, perr("seek", f.label, fs.ErrInvalid)
	}
	f.pos = np
	return np, nil
}

// ---------------------------------------------------------------- recording OS

// recOS implements ros.OS method by method (no embedding, so the compiler proves the list is complete):
// log the call with its arguments, then let risor's VirtualOS (mounted on memFS) answer.
type recOS struct {
	// decline: the host's OS has nothing to say about users, groups, the host name and the standard
	// directories - every such query is logged and answered with an error - while its environment names
	// accounts that exist on the real machine (USER=root). An implementation that "helps" with a fallback
	// to the real operating system shows real data where the supplied OS gave none.
	decline bool
	tag     byte
	in      *inst
	v       *ros.VirtualOS
	fs      memFS
	stdin   *memFile
	stdout  *memFile
	stderr  *memFile
	cwd0    string // the working directory it starts in
}

var _ ros.OS = (*recOS)(nil)

// retag rewrites the marker for one case: "/" of the real filesystem is shared by the parallel workers, so the
// cases of worker i (= case index mod 16) use the marker VERIFMAR<'A'+i> (same length; shard 10 has VERIFMARK
// itself). A real entry carrying a worker's own tag is that worker's doing.
func retag(s string, tag byte) string {
	if tag == 'K' {
		return s
	}
	return strings.ReplaceAll(s, mark, markPrefix+string(tag))
}

func newRecOS(name string, tag byte) *recOS {
	t := func(s string) string { return retag(s, tag) }
	in := &inst{name: name, nodes: map[string]*node{}}
	for p, c := range initTree {
		if strings.HasSuffix(p, "/") {
			in.nodes[norm(t(p))] = &node{dir: true, mode: 0o755 | fs.ModeDir}
		} else {
			in.nodes[t(p)] = &node{data: []byte(c), mode: 0o644}
		}
	}
	o := &recOS{in: in, fs: memFS{in}, tag: tag, cwd0: t(vCwd)}
	o.stdin = &memFile{in: in, label: "<stdin>", n: &node{data: []byte(vStdin), mode: 0o444}, readable: true}
	o.stdout = &memFile{in: in, label: "<stdout>", n: &node{mode: 0o222}, writable: true, app: true}
	o.stderr = &memFile{in: in, label: "<stderr>", n: &node{mode: 0o222}, writable: true, app: true}
	o.v = ros.NewVirtualOS(context.Background(),
		ros.WithMounts(map[string]*ros.Mount{"/": {Source: o.fs, Target: "/", Type: "mem"}}),
		ros.WithCwd(t(vCwd)), ros.WithTmp(t(vTmp)), ros.WithPid(vPid), ros.WithUid(vUid), ros.WithHostname(vHost),
		ros.WithEnvironment(map[string]string{t(vEnvName): vEnvValue}),
		ros.WithArgs([]string{t("VERIFMARK_arg0"), t("VERIFMARK_arg1")}),
		ros.WithUserCacheDir(t(vCache)), ros.WithUserConfigDir(t(vConfig)), ros.WithUserHomeDir(t(vHome)),
		ros.WithStdin(o.stdin), ros.WithStdout(o.stdout), ros.WithStderr(o.stderr),
		ros.WithExitHandler(func(code int) {
			in.mu.Lock()
			in.exits = append(in.exits, code)
			in.mu.Unlock()
		}),
	)
	return o
}

func (o *recOS) Create(name string) (ros.File, error) {
	o.in.add("Create(%q)", name)
	return o.v.Create(name)
}
func (o *recOS) Mkdir(name string, perm ros.FileMode) error {
	o.in.add("Mkdir(%q,%o)", name, uint32(perm))
	return o.v.Mkdir(name, perm)
}
func (o *recOS) MkdirAll(path string, perm ros.FileMode) error {
	o.in.add("MkdirAll(%q,%o)", path, uint32(perm))
	return o.v.MkdirAll(path, perm)
}
func (o *recOS) Open(name string) (ros.File, error) {
	o.in.add("Open(%q)", name)
	return o.v.Open(name)
}
func (o *recOS) OpenFile(name string, flag int, perm ros.FileMode) (ros.File, error) {
	o.in.add("OpenFile(%q,%d,%o)", name, flag, uint32(perm))
	return o.v.OpenFile(name, flag, perm)
}
func (o *recOS) ReadFile(name string) ([]byte, error) {
	o.in.add("ReadFile(%q)", name)
	return o.v.ReadFile(name)
}
func (o *recOS) Remove(name string) error {
	o.in.add("Remove(%q)", name)
	return o.v.Remove(name)
}
func (o *recOS) RemoveAll(path string) error {
	o.in.add("RemoveAll(%q)", path)
	return o.v.RemoveAll(path)
}
func (o *recOS) Rename(a, b string) error {
	o.in.add("Rename(%q,%q)", a, b)
	return o.v.Rename(a, b)
}
func (o *recOS) Stat(name string) (ros.FileInfo, error) {
	o.in.add("Stat(%q)", name)
	return o.v.Stat(name)
}
func (o *recOS) Symlink(a, b string) error {
	o.in.add("Symlink(%q,%q)", a, b)
	return o.v.Symlink(a, b)
}
func (o *recOS) WriteFile(name string, data []byte, perm ros.FileMode) error {
	o.in.add("WriteFile(%q,%q,%o)", name, string(data), uint32(perm))
	return o.v.WriteFile(name, data, perm)
}
func (o *recOS) ReadDir(name string) ([]ros.DirEntry, error) {
	o.in.add("ReadDir(%q)", name)
	return o.v.ReadDir(name)
}
func (o *recOS) WalkDir(root string, fn ros.WalkDirFunc) error {
	o.in.add("WalkDir(%q)", root)
	return o.v.WalkDir(root, fn)
}
func (o *recOS) Args() []string { o.in.add("Args()"); return o.v.Args() }
func (o *recOS) Chdir(dir string) error {
	o.in.add("Chdir(%q)", dir)
	return o.v.Chdir(dir)
}
func (o *recOS) Environ() []string { o.in.add("Environ()"); return o.v.Environ() }
func (o *recOS) Exit(code int)     { o.in.add("Exit(%d)", code); o.v.Exit(code) }
func (o *recOS) Getenv(key string) string {
	o.in.add("Getenv(%q)", key)
	if o.decline && (key == "USER" || key == "LOGNAME" || key == "USERNAME") {
		return "root"
	}
	return o.v.Getenv(key)
}
func (o *recOS) Getpid() int { o.in.add("Getpid()"); return o.v.Getpid() }
func (o *recOS) Getuid() int { o.in.add("Getuid()"); return o.v.Getuid() }
func (o *recOS) Getwd() (string, error) {
	o.in.add("Getwd()")
	if o.decline {
		return "", errDeclined
	}
	return o.v.Getwd()
}
func (o *recOS) Hostname() (string, error) {
	o.in.add("Hostname()")
	if o.decline {
		return "", errDeclined
	}
	return o.v.Hostname()
}
func (o *recOS) LookupEnv(key string) (string, bool) {
	o.in.add("LookupEnv(%q)", key)
	return o.v.LookupEnv(key)
}
func (o *recOS) MkdirTemp(dir, pattern string) (string, error) {
	o.in.add("MkdirTemp(%q,%q)", dir, pattern)
	return o.v.MkdirTemp(dir, pattern)
}
func (o *recOS) Setenv(key, value string) error {
	o.in.add("Setenv(%q,%q)", key, value)
	return o.v.Setenv(key, value)
}
func (o *recOS) TempDir() string { o.in.add("TempDir()"); return o.v.TempDir() }
func (o *recOS) Unsetenv(key string) error {
	o.in.add("Unsetenv(%q)", key)
	return o.v.Unsetenv(key)
}
func (o *recOS) UserCacheDir() (string, error) {
	o.in.add("UserCacheDir()")
	if o.decline {
		return "", errDeclined
	}
	return o.v.UserCacheDir()
}
func (o *recOS) UserConfigDir() (string, error) {
	if o.decline {
		o.in.add("UserConfigDir()")
		return "", errDeclined
	}
	o.in.add("UserConfigDir()")
	return o.v.UserConfigDir()
}
func (o *recOS) UserHomeDir() (string, error) {
	o.in.add("UserHomeDir()")
	if o.decline {
		return "", errDeclined
	}
	return o.v.UserHomeDir()
}
func (o *recOS) Stdin() ros.File     { o.in.add("Stdin()"); return o.v.Stdin() }
func (o *recOS) Stdout() ros.File    { o.in.add("Stdout()"); return o.v.Stdout() }
func (o *recOS) Stderr() ros.File    { o.in.add("Stderr()"); return o.v.Stderr() }
func (o *recOS) PathSeparator() rune { o.in.add("PathSeparator()"); return o.v.PathSeparator() }
func (o *recOS) PathListSeparator() rune {
	o.in.add("PathListSeparator()")
	return o.v.PathListSeparator()
}

// VirtualUser / VirtualGroup have unexported fields and no constructor, so a host outside package os cannot
// configure users on a VirtualOS; the recording OS answers the user and group lookups itself.
type vUserT struct{ tag byte }

func (vUserT) Uid() string        { return fmt.Sprint(vUid) }
func (vUserT) Gid() string        { return vGid }
func (u vUserT) Username() string { return retag(vUser, u.tag) }
func (vUserT) Name() string       { return "Verif User" }
func (u vUserT) HomeDir() string  { return retag(vHome, u.tag) }

type vGroupT struct{ tag byte }

func (vGroupT) Gid() string    { return vGid }
func (g vGroupT) Name() string { return retag(vGroup, g.tag) }

var errDeclined = fmt.Errorf("not available on this host OS")

func (o *recOS) CurrentUser() (ros.User, error) {
	o.in.add("CurrentUser()")
	if o.decline {
		return nil, errDeclined
	}
	return vUserT{o.tag}, nil
}
func (o *recOS) LookupUser(name string) (ros.User, error) {
	o.in.add("LookupUser(%q)", name)
	if o.decline {
		return nil, errDeclined
	}
	if name == retag(vUser, o.tag) {
		return vUserT{o.tag}, nil
	}
	return nil, fmt.Errorf("user %s not found", name)
}
func (o *recOS) LookupUid(uid string) (ros.User, error) {
	o.in.add("LookupUid(%q)", uid)
	if o.decline {
		return nil, errDeclined
	}
	if uid == fmt.Sprint(vUid) {
		return vUserT{o.tag}, nil
	}
	return nil, fmt.Errorf("user with uid %s not found", uid)
}
func (o *recOS) LookupGroup(name string) (ros.Group, error) {
	o.in.add("LookupGroup(%q)", name)
	if o.decline {
		return nil, errDeclined
	}
	if name == retag(vGroup, o.tag) {
		return vGroupT{o.tag}, nil
	}
	return nil, fmt.Errorf("group %s not found", name)
}
func (o *recOS) LookupGid(gid string) (ros.Group, error) {
	o.in.add("LookupGid(%q)", gid)
	if o.decline {
		return nil, errDeclined
	}
	if gid == vGid {
		return vGroupT{o.tag}, nil
	}
	return nil, fmt.Errorf("group with gid %s not found", gid)
}

// ---------------------------------------------------------------- post-state queries (harness side, not logged)

func (o *recOS) fileContent(abs string) (string, bool) {
	o.in.mu.Lock()
	defer o.in.mu.Unlock()
	_, n := o.fs.resolve(abs)
	if n == nil || n.dir {
		return "", false
	}
	return string(n.data), true
}

func (o *recOS) isDir(abs string) bool {
	o.in.mu.Lock()
	defer o.in.mu.Unlock()
	_, n := o.fs.resolve(abs)
	return n != nil && n.dir
}

func (o *recOS) exists(abs string) bool {
	o.in.mu.Lock()
	defer o.in.mu.Unlock()
	return o.in.nodes[norm(abs)] != nil
}

func (o *recOS) stdoutText() string {
	o.in.mu.Lock()
	defer o.in.mu.Unlock()
	return string(o.stdout.n.data)
}

func (o *recOS) stderrText() string {
	o.in.mu.Lock()
	defer o.in.mu.Unlock()
	return string(o.stderr.n.data)
}
