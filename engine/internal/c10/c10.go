// Package c10: channels and spawned threads deliver every value exactly once, in order.
//
// Stateless model checking of the implementation: every producer/consumer scenario below is a
// closed system of real goroutines (the script's main evaluation, its spawned threads, the VM's
// watcher goroutine) run under internal/dsched; all schedules with at most B preemptions are
// enumerated and each complete execution is judged.
package c10

import (
	"context"
	"fmt"
	"sort"
	"strconv"
	"strings"

	"github.com/risor-io/risor/object"

	"verif/internal/dsched"
	"verif/internal/ev"
	"verif/internal/rt"
)

type scen struct {
	S, R, B, M int
	Recv       string // "arrow", "method", "forin", "range"
	Spawn      string // "go", "spawn", "fnspawn"
	Args       string // "" = producer/consumer scenario; otherwise a spawn-argument scenario: "reassign", "mutate-list", "closure-counter", "error"
}

func (s scen) name() string {
	if s.Args != "" {
		return fmt.Sprintf("spawn-arguments=%s spawn=%s", s.Args, s.Spawn)
	}
	return fmt.Sprintf("senders=%d receivers=%d buffer=%d msgs=%d recv=%s spawn=%s", s.S, s.R, s.B, s.M, s.Recv, s.Spawn)
}

func (s scen) argsSource() string {
	start := func(fn, args, into string) string {
		switch s.Spawn {
		case "spawn":
			return fmt.Sprintf("%s := spawn(%s, %s)\n", into, fn, args)
		case "fnspawn":
			return fmt.Sprintf("%s := %s.spawn(%s)\n", into, fn, args)
		}
		return fmt.Sprintf("%s := chan(1)\ngo func(c, a, b) { c <- (%s(a, b)) }(%s, %s)\n", into, fn, into, args)
	}
	wait := func(h string) string {
		if s.Spawn == "go" {
			return "<-" + h
		}
		return h + ".wait()"
	}
	switch s.Args {
	case "reassign":
		// the callee must see the values given at the spawn site although the spawner reassigns its variables at once
		return "func pair(a, b) { return [a, b] }\nx := 1\ny := \"s\"\n" + start("pair", "x, y", "t") + "x = 2\ny = \"changed\"\ngot(\"w\", " + wait("t") + ")\ngot(\"x\", x)\n\"done\"\n"
	case "closure-counter":
		// two spawned calls increment a shared counter under a channel used as a lock; both results and the total are exact
		return "total := 0\nlock := chan(1)\nfunc inc(k, d) { lock <- 1\n total = total + d\n v := total\n <-lock\n return k }\n" + start("inc", "1, 10", "t1") + start("inc", "2, 5", "t2") + "got(\"w\", " + wait("t1") + ")\ngot(\"w\", " + wait("t2") + ")\ngot(\"n\", total)\n\"done\"\n"
	case "each-spawn":
		// the spawn method itself used as a callback: each job reaches its own spawned call although the
		// builtin that drives the callback reuses its argument buffer
		return "out := chan(3)\nfunc worker(j) { out <- j\n return j }\n[1, 2, 3].each(worker.spawn)\na := <-out\nb := <-out\nc := <-out\ngot(\"n\", sorted([a, b, c]))\n\"done\"\n"
	case "wide-helper":
		// a helper with more than 8 local variables starts a thread over a closure of its locals and
		// returns; the next call of the helper must not disturb the variables the running closure holds
		pad := ""
		for i := 2; i <= 10; i++ {
			pad += fmt.Sprintf("  a%d := %d\n", i, i)
		}
		return "out := chan(3)\nfunc start(id) {\n  a1 := id * 10\n" + pad + "  return spawn(func() { out <- a1\n return a1 + a2 })\n}\nt1 := start(1)\nt2 := start(2)\nt3 := start(3)\ngot(\"n\", sorted([<-out, <-out, <-out]))\ngot(\"w\", [t1.wait(), t2.wait(), t3.wait()])\n\"done\"\n"
	case "nested-spawn":
		// a thread that starts another thread and returns at once: the inner thread still delivers its value
		// and its result although the call that started it is long gone (the outer call takes two unused
		// arguments so that every spawn form can start it)
		return "out := chan()\nfunc inner(k) { out <- k\n return k * 2 }\nfunc outer(a, b) { return spawn(inner, 7) }\n" + start("outer", "0, 0", "t") + "h := " + wait("t") + "\ngot(\"n\", <-out)\ngot(\"w\", h.wait())\n\"done\"\n"
	case "nested-go":
		// the same with a go statement inside the spawned call: two values sent after the starter returned
		return "out := chan()\nfunc outer(a, b) { go func() { out <- 1\n out <- 2 }()\n return 5 }\n" + start("outer", "0, 0", "t") + "got(\"w\", " + wait("t") + ")\ngot(\"n\", [<-out, <-out])\n\"done\"\n"
	case "map-spawn":
		return "func worker(j) { return j * 10 }\nts := [1, 2, 3].map(worker.spawn)\ngot(\"n\", ts.map(func(t) { return t.wait() }))\n\"done\"\n"
	case "error-wait-twice":
		// every wait() on a failed thread raises its error: also after another waiter has caught it, whichever
		// way that waiter called wait (the method value handed to try, or a call inside a function)
		return "func boom(a, b) { return [a][b] }\n" + start("boom", "1, 5", "t") + "r1 := try(t.wait, func(e) { return \"caught1\" })\nr2 := try(func() { return t.wait() }, func(e) { return \"caught2\" })\nr3 := try(t.wait, func(e) { return \"caught3\" })\ngot(\"w\", [r1, r2, r3])\n\"done\"\n"
	case "wide-253", "wide-254", "wide-255":
		// a named function with as many parameters as the compiler takes (255) and one or two fewer, started by each
		// spawn form: the thread's result is built from the first, a middle and the last argument
		n, _ := strconv.Atoi(strings.TrimPrefix(s.Args, "wide-"))
		var ps, as []string
		for i := 0; i < n; i++ {
			ps = append(ps, fmt.Sprintf("p%d", i))
			as = append(as, fmt.Sprint(1000+i))
		}
		def := "func wide(" + strings.Join(ps, ", ") + ") { return [p0, p" + fmt.Sprint(n/2) + ", p" + fmt.Sprint(n-1) + "] }\n"
		if s.Spawn == "go" {
			return def + "t := chan(1)\ngo func(c) { c <- (wide(" + strings.Join(as, ", ") + ")) }(t)\ngot(\"w\", <-t)\n\"done\"\n"
		}
		return def + "t := wide.spawn(" + strings.Join(as, ", ") + ")\ngot(\"w\", t.wait())\n\"done\"\n"
	case "closure-factory":
		// two closures made by one function literal, each over its own variable, each started by the same spawn
		// form: every thread runs the closure it was started on (what is remembered per function literal is
		// shared by all closures made from it)
		return "func mk(k) { n := k * 10\n return func(a, b) { n = n + a\n return n } }\n" + start("mk(1)", "1, 0", "t1") + "got(\"w\", " + wait("t1") + ")\n" + start("mk(2)", "2, 0", "t2") + start("mk(3)", "3, 0", "t3") + "got(\"w\", [" + wait("t2") + ", " + wait("t3") + "])\n\"done\"\n"
	case "panic-frames", "panic-operands", "panic-builtin":
		// the spawned call ends in a Go panic - it runs out of frames, out of operand stack, or a builtin panics:
		// that is the call's error, wait() raises it (every time) and a result is never invented
		def, fn, args := "func deep(a, b) { return 1 + deep(a, b) }\n", "deep", "1, 5"
		switch s.Args {
		case "panic-operands":
			def, fn = "func wide(a, b) { return ["+strings.Repeat("a, ", 1100)+"b] }\n", "wide"
		case "panic-builtin":
			def, fn, args = "", "chan", "-1"
		}
		return def + start(fn, args, "t") + "r1 := try(func() { return " + wait("t") + " }, func(e) { return \"caught1\" })\nr2 := try(t.wait, func(e) { return \"caught2\" })\ngot(\"w\", [r1, r2])\n\"done\"\n"
	case "error":
		// wait() returns the spawned call's error
		return "func boom(a, b) { return [a][b] }\n" + start("boom", "1, 5", "t") + "r := try(func() { return " + wait("t") + " }, func(e) { return \"caught\" })\ngot(\"w\", r)\n\"done\"\n"
	}
	return ""
}

func (s scen) source() string {
	if s.Args != "" {
		return s.argsSource()
	}
	var sb strings.Builder
	fmt.Fprintf(&sb, "ch := chan(%d)\n", s.B)
	sb.WriteString("func sender(id) {\n")
	for k := 0; k < s.M; k++ {
		fmt.Fprintf(&sb, "  ch <- (id * 10 + %d)\n", k)
	}
	sb.WriteString("  return id * 100\n}\n")
	sb.WriteString("func receiver(rid) {\n")
	switch s.Recv {
	case "arrow":
		sb.WriteString("  for {\n    v := <-ch\n    if v == nil { break }\n    got(rid, v)\n  }\n")
	case "method":
		sb.WriteString("  for {\n    v := ch.receive()\n    if v == nil { break }\n    got(rid, v)\n  }\n")
	case "forin":
		sb.WriteString("  for v in ch {\n    got(rid, v)\n  }\n")
	case "range":
		sb.WriteString("  for _, v := range ch {\n    got(rid, v)\n  }\n")
	}
	sb.WriteString("  return rid + 1000\n}\n")
	start := func(fn string, arg int, into string) {
		switch s.Spawn {
		case "spawn":
			fmt.Fprintf(&sb, "%s := spawn(%s, %d)\n", into, fn, arg)
		case "fnspawn":
			fmt.Fprintf(&sb, "%s := %s.spawn(%d)\n", into, fn, arg)
		case "go":
			// the go statement has no handle: completion is signalled on a private channel
			fmt.Fprintf(&sb, "%s := chan(1)\ngo func(c) { c <- (%s(%d)) }(%s)\n", into, fn, arg, into)
		}
	}
	for i := 0; i < s.R; i++ {
		start("receiver", i, fmt.Sprintf("r%d", i))
	}
	for i := 0; i < s.S; i++ {
		start("sender", i, fmt.Sprintf("s%d", i))
	}
	wait := func(h string) string {
		if s.Spawn == "go" {
			return "<-" + h
		}
		return h + ".wait()"
	}
	for i := 0; i < s.S; i++ {
		fmt.Fprintf(&sb, "got(\"w\", %s)\n", wait(fmt.Sprintf("s%d", i)))
	}
	sb.WriteString("ch.close()\n")
	for i := 0; i < s.R; i++ {
		fmt.Fprintf(&sb, "got(\"w\", %s)\n", wait(fmt.Sprintf("r%d", i)))
	}
	sb.WriteString("got(\"after\", <-ch)\n\"done\"\n")
	return sb.String()
}

type state struct {
	env  *rt.Env
	out  rt.Outcome
	done bool
}

func (s scen) scenario() *dsched.Scenario {
	src := s.source()
	return &dsched.Scenario{
		Name:       s.name(),
		Horizon:    40,
		ParkInside: true,
		Setup:      func() any { return &state{} },
		Body: func(x *dsched.Exec, st any) {
			stt := st.(*state)
			stt.env = rt.NewEnv(map[string]any{
				"got": object.NewBuiltin("got", func(ctx context.Context, args ...object.Object) object.Object {
					x.Note(args[0].Inspect() + ":" + args[1].Inspect())
					return object.Nil
				}),
			})
			code, o := stt.env.Compile(src)
			if code == nil {
				stt.out = o
				stt.done = true
				return
			}
			stt.out = stt.env.RunCode(code, nil, 0)
			stt.done = true
		},
		Check: func(x *dsched.Exec, st any) (string, string) { return s.judge(x, st.(*state)) },
	}
}

// judge applies the oracle to one complete execution.
func (s scen) judge(x *dsched.Exec, st *state) (violation, key string) {
	notes := append([]string{}, x.Notes...)
	key = strings.Join(notes, " ")
	if s.Args != "" {
		if x.Deadlock {
			return "deadlock: " + key, "deadlock"
		}
		if !st.done || st.out.Stage != "ok" {
			return fmt.Sprintf("evaluation failed: %s %s", st.out.Stage, st.out.ErrText), "error"
		}
		if len(x.Leftover) > 0 {
			return "tasks still running after the evaluation returned: " + strings.Join(x.Leftover, "; "), "leftover"
		}
		want := map[string]string{
			"reassign":         `"w":[1, "s"] "x":2`,
			"closure-counter":  `"w":1 "w":2 "n":15`,
			"error":            `"w":"caught"`,
			"error-wait-twice": `"w":["caught1", "caught2", "caught3"]`,
			"each-spawn":       `"n":[1, 2, 3]`,
			"map-spawn":        `"n":[10, 20, 30]`,
			"wide-helper":      `"n":[10, 20, 30] "w":[12, 22, 32]`,
			"nested-spawn":     `"n":7 "w":14`,
			"nested-go":        `"w":5 "n":[1, 2]`,
			"closure-factory":  `"w":11 "w":[22, 33]`,
			"wide-253":         `"w":[1000, 1126, 1252]`,
			"wide-254":         `"w":[1000, 1127, 1253]`,
			"wide-255":         `"w":[1000, 1127, 1254]`,
			"panic-frames":     `"w":["caught1", "caught2"]`,
			"panic-operands":   `"w":["caught1", "caught2"]`,
			"panic-builtin":    `"w":["caught1", "caught2"]`,
		}[s.Args]
		if s.Args == "error" && s.Spawn == "go" {
			// the go statement has no handle: the error of the spawned call is not observable through wait()
			return "", key
		}
		if key != want {
			return fmt.Sprintf("spawned call / wait() observed %s, expected %s", key, want), key
		}
		return "", key
	}
	if x.Deadlock {
		return "deadlock: no task is enabled; " + key, "deadlock"
	}
	if !st.done {
		return "the main evaluation did not finish: " + key, "unfinished"
	}
	if st.out.Stage != "ok" {
		return fmt.Sprintf("evaluation failed: %s %s", st.out.Stage, st.out.ErrText), "error:" + st.out.ErrText
	}
	if len(x.Leftover) > 0 {
		return "tasks still running after the evaluation returned: " + strings.Join(x.Leftover, "; "), "leftover"
	}
	perRecv := map[string][]int{}
	var all []int
	var waits []int
	after := ""
	for _, n := range notes {
		parts := strings.SplitN(n, ":", 2)
		switch parts[0] {
		case `"w"`:
			var v int
			fmt.Sscan(parts[1], &v)
			waits = append(waits, v)
		case `"after"`:
			after = parts[1]
		default:
			var v int
			if _, err := fmt.Sscan(parts[1], &v); err != nil {
				return "a receiver observed a non-integer value: " + n, key
			}
			perRecv[parts[0]] = append(perRecv[parts[0]], v)
			all = append(all, v)
		}
	}
	var want []int
	for i := 0; i < s.S; i++ {
		for k := 0; k < s.M; k++ {
			want = append(want, i*10+k)
		}
	}
	sort.Ints(all)
	if fmt.Sprint(all) != fmt.Sprint(want) {
		return fmt.Sprintf("received multiset %v, sent %v (per receiver: %v)", all, want, perRecv), key
	}
	for rid, vs := range perRecv {
		last := map[int]int{}
		for _, v := range vs {
			sid, k := v/10, v%10
			if p, ok := last[sid]; ok && k < p {
				return fmt.Sprintf("receiver %s saw sender %d's values out of order: %v", rid, sid, vs), key
			}
			last[sid] = k
		}
	}
	var wantW []int
	for i := 0; i < s.S; i++ {
		wantW = append(wantW, i*100)
	}
	for i := 0; i < s.R; i++ {
		wantW = append(wantW, i+1000)
	}
	if fmt.Sprint(waits) != fmt.Sprint(wantW) {
		return fmt.Sprintf("wait() values %v, expected %v", waits, wantW), key
	}
	if after != "nil" {
		return "receive on a closed and drained channel gave " + after, key
	}
	if len(x.Races) > 0 {
		return "unsynchronised access to the channel's own fields: " + x.Races[0], key
	}
	// canonical outcome: which receiver got what
	var ks []string
	for rid, vs := range perRecv {
		ks = append(ks, fmt.Sprintf("%s=%v", rid, vs))
	}
	sort.Strings(ks)
	return "", strings.Join(ks, " ")
}

func scenarios(thorough bool) []scen {
	var out []scen
	recvs := []string{"arrow", "method", "forin", "range"}
	spawns := []string{"spawn", "fnspawn", "go"}
	add := func(S, R, B, M int, rv, sp string) { out = append(out, scen{S, R, B, M, rv, sp, ""}) }
	for _, a := range []string{"reassign", "closure-counter", "error"} {
		for _, sp := range spawns {
			if a == "error" && sp == "go" {
				continue // the go statement has no handle to wait on
			}
			out = append(out, scen{Spawn: sp, Args: a})
		}
	}
	out = append(out, scen{Spawn: "fnspawn", Args: "each-spawn"}, scen{Spawn: "fnspawn", Args: "map-spawn"}, scen{Spawn: "spawn", Args: "wide-helper"})
	for _, sp := range spawns {
		out = append(out, scen{Spawn: sp, Args: "nested-spawn"}, scen{Spawn: sp, Args: "nested-go"})
	}
	out = append(out, scen{Spawn: "spawn", Args: "error-wait-twice"}, scen{Spawn: "fnspawn", Args: "error-wait-twice"})
	for _, sp := range spawns {
		out = append(out, scen{Spawn: sp, Args: "closure-factory"})
	}
	for _, w := range []string{"wide-253", "wide-254", "wide-255"} {
		out = append(out, scen{Spawn: "fnspawn", Args: w}, scen{Spawn: "go", Args: w})
	}
	out = append(out, scen{Spawn: "spawn", Args: "panic-frames"}, scen{Spawn: "fnspawn", Args: "panic-frames"}, scen{Spawn: "spawn", Args: "panic-operands"},
		scen{Spawn: "fnspawn", Args: "panic-operands"}, scen{Spawn: "spawn", Args: "panic-builtin"})
	if !thorough {
		for _, sr := range [][2]int{{1, 1}, {1, 2}, {2, 1}} {
			for _, b := range []int{0, 1} {
				for _, rv := range recvs {
					m := 2
					if sr[0] == 2 {
						m = 1
					}
					add(sr[0], sr[1], b, m, rv, "spawn")
				}
			}
		}
		for _, sp := range spawns[1:] {
			add(1, 2, 0, 2, "forin", sp)
			add(2, 1, 1, 1, "arrow", sp)
		}
		return out
	}
	for _, sr := range [][2]int{{1, 1}, {1, 2}, {2, 1}, {2, 2}} {
		for _, b := range []int{0, 1, 2} {
			for _, m := range []int{1, 2} {
				for _, rv := range recvs {
					for _, sp := range spawns {
						if sr == [2]int{2, 2} && (m == 2 || sp != "spawn") {
							continue // 2x2 with two messages each exceeds the execution budget; 2x2x1 stays
						}
						add(sr[0], sr[1], b, m, rv, sp)
					}
				}
			}
		}
	}
	return out
}

type replayIn struct {
	Scenario scen   `json:"scenario"`
	Source   string `json:"source"`
	Schedule []int  `json:"schedule"`
}

func Check(r *ev.Run, replay string) {
	if replay != "" {
		var in replayIn
		if err := ev.ReadReplay(replay, &in); err != nil {
			r.EngineError(err.Error())
			return
		}
		sc := in.Scenario.scenario()
		x, e := dsched.Replay(sc, in.Schedule)
		fmt.Printf("%s\nschedule %v\ntrace %v\nengine error: %q\n", in.Source, in.Schedule, x.Trace, e)
		v, key := in.Scenario.judge(x, x.State.(*state))
		fmt.Printf("outcome: %s\nviolation: %q\n", key, v)
		if v != "" {
			r.Report("replayed", v, in, v, "")
		}
		r.Set("states", 1)
		r.Set("transitions", len(x.Choices)+1)
		r.Set("traces_validated_against_impl", 1)
		return
	}
	bound, limit := 2, 30000
	if r.Thorough() {
		bound, limit = 2, 60000
	}
	scs := scenarios(r.Thorough())
	r.Sharded(16, func(shard, nShards int) {
		total, points, det := 0, 0, 0
		for i, s := range scs {
			if i%nShards != shard {
				continue
			}
			sc := s.scenario()
			st := dsched.Explore(sc, bound, limit)
			total += st.Executions
			points += st.Points
			det += st.DeterminismOK
			r.Eval(st.Executions)
			for k := range st.Outcomes {
				r.Outcome(s.name() + "|" + k)
			}
			if i < 6 {
				r.Sample(map[string]any{"scenario": s.name(), "executions": st.Executions, "bound_completed": st.BoundCompleted, "distinct_outcomes": len(st.Outcomes)})
			}
			if st.EngineError != "" {
				r.EngineError(s.name() + ": " + st.EngineError)
				break
			}
			if st.Capped {
				r.Cap(fmt.Sprintf("%s: %d executions explored, bound %d completed", s.name(), st.Executions, st.BoundCompleted))
			}
			if st.Violation != "" {
				r.Report(signature(s, st.Violation), s.name()+"\n  "+st.Violation+"\n  schedule "+fmt.Sprint(st.ViolationSched), replayIn{s, s.source(), st.ViolationSched}, st.Violation, "every value received exactly once, per-sender order, wait() values, nil after close")
			}
		}
		r.Add("states", points+total)
		r.Add("transitions", points)
		r.Add("traces_validated_against_impl", total)
		r.Add("executions", total)
		r.Add("schedules_replayed_for_determinism", det)
	})
	r.Set("scenarios", len(scs))
	r.Set("preemption_bound", bound)
	r.Set("rule", fmt.Sprintf("every schedule with at most %d preemptions of each producer/consumer scenario (senders x receivers x buffer x messages x receive form x spawn form); a task that reaches a send or receive that cannot complete yet may either wait at the scheduling point or enter the real operation and block inside it until another task's send, receive or close wakes it (the scheduler reads the Go channel's wait queue to know it is blocked), so both the ready-on-arrival and the blocked-then-woken path of the implementation are explored; every execution runs the real risor evaluation under the controlled scheduler; states = scheduling points visited, transitions = decisions taken, traces validated = complete executions judged", bound))
}

func signature(s scen, v string) string {
	kind := "other"
	switch {
	case strings.HasPrefix(v, "received multiset"):
		kind = "lost-or-duplicated"
	case strings.HasPrefix(v, "deadlock"):
		kind = "deadlock"
	case strings.Contains(v, "out of order"):
		kind = "order"
	case strings.HasPrefix(v, "wait()"), strings.HasPrefix(v, "spawned call"):
		kind = "wait-value"
	case strings.HasPrefix(v, "unsynchronised"):
		kind = "race"
	case strings.HasPrefix(v, "evaluation failed"):
		kind = "evaluation-error"
	}
	multi := ""
	if s.R > 1 {
		multi = ":multi-receiver"
	}
	return "C10:" + kind + ":" + s.Recv + multi
}
