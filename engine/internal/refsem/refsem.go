// Package refsem is a deliberately boring tree-walking reference interpreter for
// the lang AST. It shares no code with risor. It defines only what DESIGN.md
// Appendix A lists; generators must stay inside that sheet.
package refsem

import (
	"fmt"
	"math"
	"sort"
	"strconv"
	"strings"
	"unicode/utf8"

	"verif/internal/lang"
)

type Val any

type List struct{ E []Val }
type Map struct{ M map[string]Val }
type SetV struct{ E []Val }
type Fn struct {
	N   *lang.N
	Env *Env
}
type ErrV struct {
	Class string
	Msg   string
}
type Builtin struct{ Name string }
type Bound struct {
	Recv Val
	Name string
}

// Raise is a raised error travelling up.
type Raise struct{ E *ErrV }

type Cell struct {
	V     Val
	Const bool
	Unset bool // sessions: declared by a piece that failed before the declaration ran
}

type Env struct {
	vars   map[string]*Cell
	parent *Env
}

func newEnv(p *Env) *Env { return &Env{vars: map[string]*Cell{}, parent: p} }

func (e *Env) lookup(name string) *Cell {
	for s := e; s != nil; s = s.parent {
		if c, ok := s.vars[name]; ok {
			return c
		}
	}
	return nil
}

type ctl int

const (
	cNone ctl = iota
	cBreak
	cCont
	cRet
)

// Outcome of a program.
type Outcome struct {
	Rejected    bool // statically invalid: the implementation must refuse to compile it
	RejectWhy   string
	NonTerm     bool   // model step budget exceeded: program excluded
	ValueUnspec bool   // the log and error are defined but the value is not (duplicate map keys)
	Unspec      bool   // the program left the semantics sheet (model raised an outside-sheet marker): not compared
	Err         *ErrV  // raised error escaping the program
	Val         string // Show() of the final value when no error
	Type        string
	Log         []string
	Globals     map[string]string
}

type Interp struct {
	Log         []string
	Emits       int
	steps       int
	Budget      int
	depth       int
	unspec      bool
	valueUnspec bool
	DeepFails   bool // recursion deeper than the model's limit is a run-time failure, not "non-terminating"
	loopRet     Val // value carried by a return statement out of a loop body
	globals     *Env
	frames      []*frame
	Host        map[string]func(in *Interp, args []Val) (Val, *Raise)
}

type budgetExceeded struct{}

// BuiltinNames are the globals every generated program may use.
var BuiltinNames = []string{"print", "emit", "n", "len", "string", "keys", "sorted", "try", "error", "call", "type", "int", "probe", "spawn"}

func isBuiltin(name string) bool {
	for _, b := range BuiltinNames {
		if b == name {
			return true
		}
	}
	return false
}

// Thread is the model of a spawned call that is waited for: it runs at the spawn.
type Thread struct {
	V Val
	R *Raise
}

// Run statically checks and then interprets a program.
func Run(prog []*lang.N, budget int) (out Outcome) { return RunPost(prog, nil, budget) }

// RunPost also models the host calling the functions held by the globals named in post
// after the program has run (vm.Get + vm.Call); each result is logged as "#host <value>".
func RunPost(prog []*lang.N, post []string, budget int) (out Outcome) {
	if why := Check(prog); why != "" {
		return Outcome{Rejected: true, RejectWhy: why}
	}
	in := &Interp{Budget: budget}
	in.globals = newEnv(nil)
	defer func() {
		if r := recover(); r != nil {
			if _, ok := r.(budgetExceeded); ok {
				out = Outcome{NonTerm: true}
				return
			}
			panic(r)
		}
	}()
	v, c, rs := in.block(prog, in.globals, true)
	_ = c
	if rs == nil {
		for _, name := range post {
			chain, surplus := strings.HasSuffix(name, "!"), strings.HasSuffix(name, "?")
			name = strings.TrimRight(name, "!?")
			if surplus {
				in.Log = append(in.Log, "#host refused")
				continue
			}
			cell := in.globals.vars[name]
			if cell == nil {
				panic("refsem: post call of unknown global " + name)
			}
			var args []Val
			if fn, ok := cell.V.(*Fn); ok && len(fn.N.Params) > 0 {
				args = []Val{int64(0)}
			}
			pv, pr := in.call(cell.V, args)
			if pr != nil {
				in.Log = append(in.Log, "#host error "+pr.E.Class)
			} else if _, isFn := pv.(*Fn); isFn {
				in.Log = append(in.Log, "#host function")
			} else {
				in.Log = append(in.Log, "#host "+Show(pv))
			}
			if inner, ok := pv.(*Fn); ok && chain && pr == nil {
				for k := 0; k < 2; k++ {
					var a2 []Val
					if len(inner.N.Params) > 0 {
						a2 = []Val{int64(0)}
					}
					v2, r2 := in.call(inner, a2)
					if r2 != nil {
						in.Log = append(in.Log, "#host error "+r2.E.Class)
					} else {
						in.Log = append(in.Log, "#host "+Show(v2))
					}
				}
			}
		}
	}
	out.Log = in.Log
	out.ValueUnspec = in.valueUnspec
	if in.unspec || (rs != nil && outsideClasses[rs.E.Class]) {
		return Outcome{Unspec: true}
	}
	if rs != nil {
		out.Err = rs.E
		return out
	}
	out.Val = Show(v)
	out.Type = TypeOf(v)
	out.Globals = map[string]string{}
	for k, c := range in.globals.vars {
		if _, isFn := c.V.(*Fn); isFn {
			continue
		}
		out.Globals[k] = Show(c.V)
	}
	return out
}

func (in *Interp) tick() {
	in.steps++
	if in.steps > in.Budget {
		panic(budgetExceeded{})
	}
}

func raise(class, msg string) *Raise { return &Raise{&ErrV{Class: class, Msg: msg}} }

// unspecified marks the run as having left the sheet; the error still propagates so the run ends quickly.
var outsideClasses = map[string]bool{"outside-sheet": true, "slice-outside-sheet": true}

// ------------------------------------------------------------------ statements

// block executes statements in env (fresh = env was created for this block).
// The value is the value of the last statement if it is an expression statement.
func (in *Interp) block(b []*lang.N, env *Env, fresh bool) (Val, ctl, *Raise) {
	// hoist named function declarations of this block
	for _, s := range b {
		if s.K == lang.SFunc {
			if _, ok := env.vars[s.S]; !ok {
				env.vars[s.S] = &Cell{}
			}
		}
	}
	var last Val
	for i, s := range b {
		v, c, r := in.stmt(s, env)
		if r != nil || c != cNone {
			return v, c, r
		}
		if i == len(b)-1 {
			last = v
		}
	}
	return last, cNone, nil
}

func (in *Interp) child(b []*lang.N, env *Env) (Val, ctl, *Raise) {
	return in.block(b, newEnv(env), true)
}

func isExprStmt(s *lang.N) bool {
	switch s.K {
	case lang.SExpr:
		return true
	case lang.SIf, lang.SSwitch:
		return true
	}
	return s.K < lang.SExpr
}

func (in *Interp) stmt(s *lang.N, env *Env) (Val, ctl, *Raise) {
	in.tick()
	switch s.K {
	case lang.SExpr:
		v, r := in.expr(s.A[0], env)
		return v, cNone, r
	case lang.SVar:
		v, r := in.expr(s.A[0], env)
		if r != nil {
			return nil, cNone, r
		}
		env.vars[s.S] = &Cell{V: v}
		return nil, cNone, nil
	case lang.SConst:
		v, r := in.expr(s.A[0], env)
		if r != nil {
			return nil, cNone, r
		}
		env.vars[s.S] = &Cell{V: v, Const: true}
		return nil, cNone, nil
	case lang.SAssign:
		return nil, cNone, in.assign(s, env)
	case lang.SMultiVar, lang.SMultiSet:
		v, r := in.expr(s.A[0], env)
		if r != nil {
			return nil, cNone, r
		}
		// any container unpacks: a list gives its elements, a string its characters, a map its
		// keys in sorted order
		var items []Val
		switch x := v.(type) {
		case *List:
			items = x.E
		case string, *Map:
			keys, vals, _ := iterate(x)
			items = vals
			if _, isMap := x.(*Map); isMap {
				items = keys
			}
		default:
			return nil, cNone, raise("type error", "unpack of a non-container")
		}
		if len(items) != len(s.Names) {
			return nil, cNone, raise("unpack", "unpack count mismatch")
		}
		for i, n := range s.Names {
			if s.K == lang.SMultiVar {
				env.vars[n] = &Cell{V: items[i]}
			} else {
				env.lookup(n).V = items[i]
			}
		}
		return nil, cNone, nil
	case lang.SInc:
		c := env.lookup(s.S)
		d := int64(1)
		if s.Op == "--" {
			d = -1
		}
		switch x := c.V.(type) {
		case int64:
			c.V = x + d
		case float64:
			c.V = x + float64(d)
		default:
			return nil, cNone, raise("type error", "++ on non-number")
		}
		return nil, cNone, nil
	case lang.SReturn:
		if len(s.A) == 0 {
			return nil, cRet, nil
		}
		v, r := in.expr(s.A[0], env)
		if r != nil {
			return nil, cNone, r
		}
		return v, cRet, nil
	case lang.SBreak:
		return nil, cBreak, nil
	case lang.SContinue:
		return nil, cCont, nil
	case lang.SIf:
		return in.ifStmt(s, env)
	case lang.SSwitch:
		return in.switchStmt(s, env)
	case lang.SFor:
		in.loopRet = nil
		c, r := in.forStmt(s, env)
		if c == cRet {
			return in.loopRet, c, r
		}
		return nil, c, r
	case lang.SDefer:
		return nil, cNone, in.deferStmt(s, env)
	case lang.SFunc:
		env.vars[s.S].V = &Fn{N: s, Env: env}
		return nil, cNone, nil
	default:
		v, r := in.expr(s, env)
		return v, cNone, r
	}
}

func (in *Interp) ifStmt(s *lang.N, env *Env) (Val, ctl, *Raise) {
	c, r := in.expr(s.A[0], env)
	if r != nil {
		return nil, cNone, r
	}
	if Truthy(c) {
		return in.child(s.Body, env)
	}
	if s.HasElse {
		return in.child(s.Else, env)
	}
	return nil, cNone, nil
}

func (in *Interp) switchStmt(s *lang.N, env *Env) (Val, ctl, *Raise) {
	subj, r := in.expr(s.A[0], env)
	if r != nil {
		return nil, cNone, r
	}
	var def *lang.Case
	for i := range s.Cases {
		c := &s.Cases[i]
		if c.Default {
			def = c
			continue
		}
		for _, ve := range c.Vals {
			v, r := in.expr(ve, env)
			if r != nil {
				return nil, cNone, r
			}
			if Equal(subj, v) {
				return in.child(c.Body, env)
			}
		}
	}
	if def != nil {
		return in.child(def.Body, env)
	}
	return nil, cNone, nil
}

func (in *Interp) forStmt(s *lang.N, env *Env) (ctl, *Raise) {
	loopEnv := newEnv(env)
	body := func() (stop bool, c ctl, r *Raise) {
		in.tick()
		var v Val
		v, c, r = in.child(s.Body, loopEnv)
		if c == cRet {
			in.loopRet = v // the value of a return statement inside the loop body
		}
		if r != nil {
			return true, cNone, r
		}
		switch c {
		case cBreak:
			return true, cNone, nil
		case cRet:
			return true, cRet, nil
		}
		return false, cNone, nil
	}
	switch s.Op {
	case "inf":
		for {
			if stop, c, r := body(); stop {
				return c, r
			}
		}
	case "cond":
		for {
			cv, r := in.expr(s.A[0], loopEnv)
			if r != nil {
				return cNone, r
			}
			if !Truthy(cv) {
				return cNone, nil
			}
			if stop, c, r := body(); stop {
				return c, r
			}
		}
	case "three":
		if _, _, r := in.stmt(s.Init, loopEnv); r != nil {
			return cNone, r
		}
		for {
			cv, r := in.expr(s.A[0], loopEnv)
			if r != nil {
				return cNone, r
			}
			if !Truthy(cv) {
				return cNone, nil
			}
			if stop, c, r := body(); stop {
				return c, r
			}
			if _, _, r := in.stmt(s.Post, loopEnv); r != nil {
				return cNone, r
			}
		}
	}
	// iteration forms
	itv, r := in.expr(s.A[0], loopEnv)
	if r != nil {
		return cNone, r
	}
	keys, vals, ok := iterate(itv)
	if !ok {
		return cNone, raise("type error", "not iterable")
	}
	for i := range keys {
		switch s.Op {
		case "range":
			loopEnv.vars[s.Names[0]] = &Cell{V: keys[i]}
		case "rangekv":
			loopEnv.vars[s.Names[0]] = &Cell{V: keys[i]}
			loopEnv.vars[s.Names[1]] = &Cell{V: vals[i]}
		case "in":
			loopEnv.vars[s.Names[0]] = &Cell{V: vals[i]}
		}
		if stop, c, r := body(); stop {
			return c, r
		}
	}
	return cNone, nil
}

// iterate snapshots the (key, value) sequence of an iterable.
func iterate(v Val) (keys, vals []Val, ok bool) {
	switch x := v.(type) {
	case int64:
		for i := int64(0); i < x; i++ {
			keys = append(keys, i)
			vals = append(vals, i)
		}
	case *List:
		for i, e := range x.E {
			keys = append(keys, int64(i))
			vals = append(vals, e)
		}
	case string:
		i := 0
		for _, c := range x {
			keys = append(keys, int64(i))
			vals = append(vals, string(c))
			i++
		}
	case *Map:
		for _, k := range sortedKeys(x) {
			keys = append(keys, k)
			vals = append(vals, x.M[k])
		}
	default:
		return nil, nil, false
	}
	return keys, vals, true
}

func sortedKeys(m *Map) []string {
	ks := make([]string, 0, len(m.M))
	for k := range m.M {
		ks = append(ks, k)
	}
	sort.Strings(ks)
	return ks
}

type frame struct {
	defers []func() *Raise
}

func (in *Interp) deferStmt(s *lang.N, env *Env) *Raise {
	call := s.A[0]
	// arguments are evaluated at the defer statement
	var fv Val
	var args []Val
	switch call.K {
	case lang.ECall:
		f, r := in.expr(call.A[0], env)
		if r != nil {
			return r
		}
		fv = f
		for _, a := range call.A[1:] {
			v, r := in.expr(a, env)
			if r != nil {
				return r
			}
			args = append(args, v)
		}
	case lang.EMeth:
		// the receiver and the arguments are evaluated at the defer statement, the method runs later
		recv, r := in.expr(call.A[0], env)
		if r != nil {
			return r
		}
		for _, a := range call.A[1:] {
			v, r := in.expr(a, env)
			if r != nil {
				return r
			}
			args = append(args, v)
		}
		name := call.S
		fr := in.frames[len(in.frames)-1]
		fr.defers = append(fr.defers, func() *Raise {
			_, r := in.method(recv, name, args)
			return r
		})
		return nil
	default:
		panic("refsem: defer of non-call")
	}
	fr := in.frames[len(in.frames)-1]
	fr.defers = append(fr.defers, func() *Raise {
		_, r := in.call(fv, args)
		return r
	})
	return nil
}

func (in *Interp) assign(s *lang.N, env *Env) *Raise {
	t := s.A[0]
	compute := func(old func() (Val, *Raise)) (Val, *Raise) {
		if s.Op == "=" {
			return in.expr(s.A[1], env)
		}
		o, r := old()
		if r != nil {
			return nil, r
		}
		rhs, r := in.expr(s.A[1], env)
		if r != nil {
			return nil, r
		}
		return binop(strings.TrimSuffix(s.Op, "="), o, rhs)
	}
	switch t.K {
	case lang.EIdent:
		c := env.lookup(t.S)
		if c == nil && in.DeepFails {
			// sessions: assignment to a name whose declaration did not run: it is declared now
			c = &Cell{}
			in.globals.vars[t.S] = c
			if s.Op != "=" {
				return raise("eval", "global variable has no value")
			}
		}
		if c.Unset && s.Op != "=" {
			return raise("eval", "global variable has no value")
		}
		v, r := compute(func() (Val, *Raise) { return c.V, nil })
		if r != nil {
			return r
		}
		c.V = v
		c.Unset = false
		return nil
	case lang.EIndex:
		cont, r := in.expr(t.A[0], env)
		if r != nil {
			return r
		}
		idx, r := in.expr(t.A[1], env)
		if r != nil {
			return r
		}
		v, r := compute(func() (Val, *Raise) { return index(cont, idx) })
		if r != nil {
			return r
		}
		return setIndex(cont, idx, v)
	case lang.EAttr:
		cont, r := in.expr(t.A[0], env)
		if r != nil {
			return r
		}
		v, r := compute(func() (Val, *Raise) { return index(cont, t.S) })
		if r != nil {
			return r
		}
		return setIndex(cont, t.S, v)
	}
	panic("refsem: bad assignment target")
}

func setIndex(cont, idx, v Val) *Raise {
	switch c := cont.(type) {
	case *List:
		i, ok := idx.(int64)
		if !ok {
			return raise("type error", "list index must be int")
		}
		n := int64(len(c.E))
		if i < 0 {
			i += n
		}
		if i < 0 || i >= n {
			return raise("index error", "index out of range")
		}
		c.E[i] = v
		return nil
	case *Map:
		k, ok := idx.(string)
		if !ok {
			return raise("type error", "map key must be string")
		}
		c.M[k] = v
		return nil
	}
	return raise("type error", "not assignable")
}

// ------------------------------------------------------------------ expressions

func (in *Interp) expr(e *lang.N, env *Env) (Val, *Raise) {
	in.tick()
	switch e.K {
	case lang.EInt:
		return e.I, nil
	case lang.EFloat:
		return e.F, nil
	case lang.EStr:
		return e.S, nil
	case lang.EBool:
		return e.B, nil
	case lang.ENil:
		return nil, nil
	case lang.EIdent:
		if c := env.lookup(e.S); c != nil {
			if c.Unset {
				return nil, raise("eval", "global variable has no value")
			}
			return c.V, nil
		}
		if isBuiltin(e.S) {
			return &Builtin{e.S}, nil
		}
		if in.DeepFails {
			// sessions: a name that an earlier, failed piece declared after the point where it failed. The
			// compiler knows it, nothing was assigned: reading it is an error of that piece, not a crash
			return nil, raise("eval", "global variable has no value")
		}
		panic("refsem: unresolved identifier " + e.S + " (static check should have rejected)")
	case lang.EGroup:
		return in.expr(e.A[0], env)
	case lang.EList:
		l := &List{}
		for _, x := range e.A {
			v, r := in.expr(x, env)
			if r != nil {
				return nil, r
			}
			l.E = append(l.E, v)
		}
		return l, nil
	case lang.ESet:
		s := &SetV{}
		for _, x := range e.A {
			v, r := in.expr(x, env)
			if r != nil {
				return nil, r
			}
			s.add(v)
		}
		return s, nil
	case lang.EMap:
		m := &Map{M: map[string]Val{}}
		for i := 0; i+1 < len(e.A); i += 2 {
			var k string
			if e.A[i].K == lang.EIdent {
				k = e.A[i].S
			} else {
				kv, r := in.expr(e.A[i], env)
				if r != nil {
					return nil, r
				}
				ks, ok := kv.(string)
				if !ok {
					return nil, raise("type error", "map key must be string")
				}
				k = ks
			}
			v, r := in.expr(e.A[i+1], env)
			if r != nil {
				return nil, r
			}
			if _, dup := m.M[k]; dup {
				in.valueUnspec = true // which of two duplicate keys wins is not in the sheet
			}
			m.M[k] = v
		}
		return m, nil
	case lang.EBin:
		return in.binary(e, env)
	case lang.EPre:
		v, r := in.expr(e.A[0], env)
		if r != nil {
			return nil, r
		}
		switch e.Op {
		case "!":
			return !Truthy(v), nil
		case "-":
			switch x := v.(type) {
			case int64:
				return -x, nil
			case float64:
				return -x, nil
			}
			return nil, raise("type error", "negation of non-number")
		}
		panic("refsem: prefix " + e.Op)
	case lang.ETern:
		c, r := in.expr(e.A[0], env)
		if r != nil {
			return nil, r
		}
		if Truthy(c) {
			return in.expr(e.A[1], env)
		}
		return in.expr(e.A[2], env)
	case lang.EIndex:
		c, r := in.expr(e.A[0], env)
		if r != nil {
			return nil, r
		}
		i, r := in.expr(e.A[1], env)
		if r != nil {
			return nil, r
		}
		return index(c, i)
	case lang.ESlice:
		c, r := in.expr(e.A[0], env)
		if r != nil {
			return nil, r
		}
		var lo, hi Val
		if e.A[1] != nil {
			if lo, r = in.expr(e.A[1], env); r != nil {
				return nil, r
			}
		}
		if e.A[2] != nil {
			if hi, r = in.expr(e.A[2], env); r != nil {
				return nil, r
			}
		}
		return slice(c, lo, hi, e.A[1] != nil, e.A[2] != nil)
	case lang.EAttr:
		c, r := in.expr(e.A[0], env)
		if r != nil {
			return nil, r
		}
		if m, ok := c.(*Map); ok {
			if v, ok := m.M[e.S]; ok {
				return v, nil
			}
		}
		return &Bound{c, e.S}, nil
	case lang.ECall:
		f, r := in.expr(e.A[0], env)
		if r != nil {
			return nil, r
		}
		args, r := in.args(e.A[1:], env)
		if r != nil {
			return nil, r
		}
		return in.call(f, args)
	case lang.EMeth:
		o, r := in.expr(e.A[0], env)
		if r != nil {
			return nil, r
		}
		args, r := in.args(e.A[1:], env)
		if r != nil {
			return nil, r
		}
		if m, ok := o.(*Map); ok {
			if f, ok := m.M[e.S]; ok {
				return in.call(f, args)
			}
		}
		return in.method(o, e.S, args)
	case lang.EFunc:
		fn := &Fn{N: e, Env: env}
		if e.S != "" {
			// a named function literal can refer to itself
			fe := newEnv(env)
			fe.vars[e.S] = &Cell{V: fn}
			fn.Env = fe
		}
		return fn, nil
	case lang.EPipe:
		cur, r := in.expr(e.A[0], env)
		if r != nil {
			return nil, r
		}
		for _, st := range e.A[1:] {
			switch st.K {
			case lang.ECall:
				f, r := in.expr(st.A[0], env)
				if r != nil {
					return nil, r
				}
				args, r := in.args(st.A[1:], env)
				if r != nil {
					return nil, r
				}
				cur, r = in.call(f, append([]Val{cur}, args...))
				if r != nil {
					return nil, r
				}
			case lang.EMeth:
				o, r := in.expr(st.A[0], env)
				if r != nil {
					return nil, r
				}
				args, r := in.args(st.A[1:], env)
				if r != nil {
					return nil, r
				}
				cur, r = in.method(o, st.S, append([]Val{cur}, args...))
				if r != nil {
					return nil, r
				}
			default:
				f, r := in.expr(st, env)
				if r != nil {
					return nil, r
				}
				cur, r = in.call(f, []Val{cur})
				if r != nil {
					return nil, r
				}
			}
		}
		return cur, nil
	case lang.EInterp:
		var sb strings.Builder
		for _, p := range e.A {
			if p.K == lang.EStr {
				sb.WriteString(p.S)
				continue
			}
			v, r := in.expr(p, env)
			if r != nil {
				return nil, r
			}
			sb.WriteString(Printable(v))
		}
		return sb.String(), nil
	case lang.EIfExpr, lang.SIf:
		v, c, r := in.ifStmt(e, env)
		if c != cNone {
			// break / continue / return taken while an enclosing expression is half evaluated: the sheet says
			// nothing about it (the stack-neutrality check has its own oracle for these programs)
			return nil, raise("outside-sheet", "control flow out of an if-expression")
		}
		return v, r
	case lang.SSwitch:
		v, c, r := in.switchStmt(e, env)
		if c != cNone {
			panic("refsem: control flow out of a switch-expression is outside the sheet")
		}
		return v, r
	}
	panic(fmt.Sprintf("refsem: expression kind %d", e.K))
}

func (in *Interp) args(a []*lang.N, env *Env) ([]Val, *Raise) {
	out := make([]Val, 0, len(a))
	for _, x := range a {
		v, r := in.expr(x, env)
		if r != nil {
			return nil, r
		}
		out = append(out, v)
	}
	return out, nil
}

func (in *Interp) binary(e *lang.N, env *Env) (Val, *Raise) {
	l, r := in.expr(e.A[0], env)
	if r != nil {
		return nil, r
	}
	switch e.Op {
	case "&&":
		if !Truthy(l) {
			return l, nil
		}
		return in.expr(e.A[1], env)
	case "||":
		if Truthy(l) {
			return l, nil
		}
		return in.expr(e.A[1], env)
	}
	rv, r := in.expr(e.A[1], env)
	if r != nil {
		return nil, r
	}
	return binop(e.Op, l, rv)
}

func typeErr() *Raise { return raise("type error", "unsupported operand types") }

func binop(op string, l, r Val) (Val, *Raise) {
	switch op {
	case "==":
		return Equal(l, r), nil
	case "!=":
		return !Equal(l, r), nil
	case "in", "not in":
		c, rs := contains(r, l)
		if rs != nil {
			return nil, rs
		}
		if op == "not in" {
			return !c, nil
		}
		return c, nil
	case "<", "<=", ">", ">=":
		if l == nil && r == nil {
			return nil, raise("outside-sheet", "ordering of nil with nil")
		}
		c, ok := Compare(l, r)
		if !ok {
			return nil, typeErr()
		}
		switch op {
		case "<":
			return c < 0, nil
		case "<=":
			return c <= 0, nil
		case ">":
			return c > 0, nil
		}
		return c >= 0, nil
	}
	switch a := l.(type) {
	case int64:
		switch b := r.(type) {
		case int64:
			return intOp(op, a, b)
		case float64:
			if op == "**" {
				return nil, raise("outside-sheet", "int ** float")
			}
			return floatOp(op, float64(a), b)
		}
	case float64:
		switch b := r.(type) {
		case int64:
			return floatOp(op, a, float64(b))
		case float64:
			return floatOp(op, a, b)
		}
	case string:
		if b, ok := r.(string); ok && op == "+" {
			return a + b, nil
		}
	case *List:
		if b, ok := r.(*List); ok && op == "+" {
			out := &List{E: append(append([]Val{}, a.E...), b.E...)}
			return out, nil
		}
	}
	return nil, typeErr()
}

func intOp(op string, a, b int64) (Val, *Raise) {
	switch op {
	case "+":
		return a + b, nil
	case "-":
		return a - b, nil
	case "*":
		return a * b, nil
	case "/":
		if b == 0 {
			return nil, raise("panic", "integer divide by zero")
		}
		return a / b, nil
	case "%":
		if b == 0 {
			return nil, raise("panic", "integer divide by zero")
		}
		return a % b, nil
	case "**":
		if b < 0 {
			return nil, raise("outside-sheet", "negative exponent")
		}
		res := int64(1)
		for i := int64(0); i < b; i++ {
			res *= a
		}
		return res, nil
	case "<<":
		if b < 0 || b > 62 {
			return nil, raise("outside-sheet", "shift count")
		}
		return a << uint(b), nil
	case ">>":
		if b < 0 || b > 62 {
			return nil, raise("outside-sheet", "shift count")
		}
		return a >> uint(b), nil
	case "&":
		return a & b, nil
	}
	return nil, typeErr()
}

func floatOp(op string, a, b float64) (Val, *Raise) {
	switch op {
	case "+":
		return a + b, nil
	case "-":
		return a - b, nil
	case "*":
		return a * b, nil
	case "/":
		return a / b, nil
	case "**":
		return math.Pow(a, b), nil
	}
	return nil, typeErr()
}

// Truthy per the sheet.
func Truthy(v Val) bool {
	switch x := v.(type) {
	case nil:
		return false
	case bool:
		return x
	case int64:
		return x != 0
	case float64:
		return x != 0
	case string:
		return x != ""
	case *List:
		return len(x.E) > 0
	case *Map:
		return len(x.M) > 0
	case *SetV:
		return len(x.E) > 0
	}
	return true
}

func Equal(a, b Val) bool {
	switch x := a.(type) {
	case nil:
		return b == nil
	case bool:
		y, ok := b.(bool)
		return ok && x == y
	case int64:
		switch y := b.(type) {
		case int64:
			return x == y
		case float64:
			return float64(x) == y
		}
		return false
	case float64:
		switch y := b.(type) {
		case int64:
			return x == float64(y)
		case float64:
			return x == y
		}
		return false
	case string:
		y, ok := b.(string)
		return ok && x == y
	case *List:
		y, ok := b.(*List)
		if !ok || len(x.E) != len(y.E) {
			return false
		}
		for i := range x.E {
			if !Equal(x.E[i], y.E[i]) {
				return false
			}
		}
		return true
	case *Map:
		y, ok := b.(*Map)
		if !ok || len(x.M) != len(y.M) {
			return false
		}
		for k, v := range x.M {
			w, ok := y.M[k]
			if !ok || !Equal(v, w) {
				return false
			}
		}
		return true
	case *SetV:
		y, ok := b.(*SetV)
		if !ok || len(x.E) != len(y.E) {
			return false
		}
		for _, v := range x.E {
			if !y.has(v) {
				return false
			}
		}
		return true
	case *ErrV:
		y, ok := b.(*ErrV)
		return ok && x.Msg == y.Msg
	}
	return a == b
}

// Compare returns ok=false for pairs the sheet does not order.
func Compare(a, b Val) (int, bool) {
	switch x := a.(type) {
	case int64:
		switch y := b.(type) {
		case int64:
			return cmp(x < y, x > y), true
		case float64:
			return cmp(float64(x) < y, float64(x) > y), true
		}
	case float64:
		switch y := b.(type) {
		case int64:
			return cmp(x < float64(y), x > float64(y)), true
		case float64:
			return cmp(x < y, x > y), true
		}
	case string:
		if y, ok := b.(string); ok {
			return strings.Compare(x, y), true
		}
	case bool:
		if y, ok := b.(bool); ok {
			return cmp(!x && y, x && !y), true
		}
	case *List:
		if y, ok := b.(*List); ok {
			if len(x.E) != len(y.E) {
				return cmp(len(x.E) < len(y.E), len(x.E) > len(y.E)), true
			}
			for i := range x.E {
				c, ok := Compare(x.E[i], y.E[i])
				if !ok {
					return 0, false
				}
				if c != 0 {
					return c, true
				}
			}
			return 0, true
		}
	}
	return 0, false
}

func cmp(lt, gt bool) int {
	if lt {
		return -1
	}
	if gt {
		return 1
	}
	return 0
}

func contains(cont, item Val) (bool, *Raise) {
	switch c := cont.(type) {
	case *List:
		for _, e := range c.E {
			if Equal(e, item) {
				return true, nil
			}
		}
		return false, nil
	case *Map:
		k, ok := item.(string)
		if !ok {
			return false, nil
		}
		_, has := c.M[k]
		return has, nil
	case string:
		s, ok := item.(string)
		if !ok {
			return false, nil
		}
		return strings.Contains(c, s), nil
	case *SetV:
		return c.has(item), nil
	}
	return false, typeErr()
}

func (s *SetV) has(v Val) bool {
	for _, e := range s.E {
		if TypeOf(e) == TypeOf(v) && Equal(e, v) {
			return true
		}
	}
	return false
}

func (s *SetV) add(v Val) {
	if !s.has(v) {
		s.E = append(s.E, v)
	}
}

func index(cont, idx Val) (Val, *Raise) {
	switch c := cont.(type) {
	case *List:
		i, ok := idx.(int64)
		if !ok {
			return nil, raise("type error", "list index must be int")
		}
		n := int64(len(c.E))
		if i < 0 {
			i += n
		}
		if i < 0 || i >= n {
			return nil, raise("index error", "index out of range")
		}
		return c.E[i], nil
	case string:
		i, ok := idx.(int64)
		if !ok {
			return nil, raise("type error", "string index must be int")
		}
		rs := []rune(c)
		n := int64(len(rs))
		if i < 0 {
			i += n
		}
		if i < 0 || i >= n {
			return nil, raise("index error", "index out of range")
		}
		return string(rs[i]), nil
	case *Map:
		k, ok := idx.(string)
		if !ok {
			return nil, raise("type error", "map key must be string")
		}
		v, has := c.M[k]
		if !has {
			return nil, raise("key error", k)
		}
		return v, nil
	}
	return nil, raise("type error", "not indexable")
}

// slice implements c[lo:hi]; bounds follow the sheet: negative indices count
// from the end, lo > hi or anything out of [0, len] is an error the sheet
// leaves to the implementation except where stated (callers avoid those).
func slice(cont, lo, hi Val, hasLo, hasHi bool) (Val, *Raise) {
	var n int64
	var rs []rune
	var l *List
	switch c := cont.(type) {
	case *List:
		l = c
		n = int64(len(c.E))
	case string:
		rs = []rune(c)
		n = int64(len(rs))
	default:
		return nil, raise("type error", "not sliceable")
	}
	a, b := int64(0), n
	if hasLo {
		x, ok := lo.(int64)
		if !ok {
			return nil, raise("type error", "slice index must be int")
		}
		a = x
	}
	if hasHi {
		x, ok := hi.(int64)
		if !ok {
			return nil, raise("type error", "slice index must be int")
		}
		b = x
	}
	if a < 0 {
		a += n
	}
	if b < 0 {
		b += n
	}
	if a < 0 || a >= n || b < 0 || b > n || a > b {
		return nil, raise("slice-outside-sheet", "slice bounds")
	}
	if l != nil {
		return &List{E: append([]Val{}, l.E[a:b]...)}, nil
	}
	return string(rs[a:b]), nil
}

// ------------------------------------------------------------------ calls

func (in *Interp) call(f Val, args []Val) (Val, *Raise) {
	in.tick()
	switch fn := f.(type) {
	case *Fn:
		return in.callFn(fn, args)
	case *Builtin:
		return in.builtin(fn.Name, args)
	case *Bound:
		return in.method(fn.Recv, fn.Name, args)
	}
	return nil, raise("type error", "not callable")
}

func (in *Interp) callFn(fn *Fn, args []Val) (Val, *Raise) {
	ps := fn.N.Params
	req := 0
	for _, p := range ps {
		if p.Def == nil {
			req++
		}
	}
	if len(args) < req || len(args) > len(ps) {
		return nil, raise("args error", "wrong argument count")
	}
	if in.depth >= 200 {
		if in.DeepFails {
			// sessions: recursion this deep is taken to be unbounded; the implementation ends it
			// with a stack overflow, a run-time failure of the piece
			return nil, raise("overflow", "recursion too deep")
		}
		panic(budgetExceeded{})
	}
	in.depth++
	defer func() { in.depth-- }()
	penv := newEnv(fn.Env)
	for i, p := range ps {
		if i < len(args) {
			penv.vars[p.Name] = &Cell{V: args[i]}
		} else {
			v, _ := in.expr(p.Def, fn.Env)
			penv.vars[p.Name] = &Cell{V: v}
		}
	}
	fr := &frame{}
	in.frames = append(in.frames, fr)
	v, c, r := in.block(fn.N.Body, newEnv(penv), true)
	_ = c
	// a trailing non-expression statement yields nil unless it returned
	if r == nil && c != cRet {
		if n := len(fn.N.Body); n == 0 || !yieldsValue(fn.N.Body[n-1]) {
			v = nil
		}
	}
	// deferred calls run LIFO, also when the body raised; an error inside a
	// deferred call replaces the result
	for i := len(fr.defers) - 1; i >= 0; i-- {
		if dr := fr.defers[i](); dr != nil {
			r = dr
		}
	}
	in.frames = in.frames[:len(in.frames)-1]
	if r != nil {
		return nil, r
	}
	return v, nil
}

func yieldsValue(s *lang.N) bool {
	switch s.K {
	case lang.SExpr, lang.SIf, lang.SSwitch, lang.SReturn:
		return true
	}
	return s.K < lang.SExpr
}

func (in *Interp) builtin(name string, args []Val) (Val, *Raise) {
	if h, ok := in.Host[name]; ok {
		return h(in, args)
	}
	switch name {
	case "print":
		parts := make([]string, len(args))
		for i, a := range args {
			parts[i] = Printable(a)
		}
		in.Log = append(in.Log, strings.Join(parts, " "))
		return nil, nil
	case "emit":
		in.Emits++
		in.Log = append(in.Log, "#"+Show(args[0]))
		return nil, nil
	case "probe":
		return nil, nil
	case "n":
		return int64(in.Emits), nil
	case "len":
		if len(args) != 1 {
			return nil, raise("args error", "len")
		}
		switch x := args[0].(type) {
		case string:
			return int64(utf8.RuneCountInString(x)), nil
		case *List:
			return int64(len(x.E)), nil
		case *Map:
			return int64(len(x.M)), nil
		case *SetV:
			return int64(len(x.E)), nil
		}
		return nil, raise("type error", "len")
	case "string":
		if len(args) != 1 {
			return nil, raise("args error", "string")
		}
		return Printable(args[0]), nil
	case "type":
		if len(args) != 1 {
			return nil, raise("args error", "type")
		}
		return TypeOf(args[0]), nil
	case "keys":
		if m, ok := args[0].(*Map); ok && len(args) == 1 {
			l := &List{}
			for _, k := range sortedKeys(m) {
				l.E = append(l.E, k)
			}
			return l, nil
		}
		return nil, raise("outside-sheet", "keys")
	case "error":
		if len(args) == 1 {
			if s, ok := args[0].(string); ok {
				return nil, &Raise{&ErrV{Class: "user", Msg: s}}
			}
		}
		return nil, raise("outside-sheet", "error()")
	case "spawn":
		if len(args) < 1 {
			return nil, raise("args error", "spawn")
		}
		v, r := in.call(args[0], args[1:])
		return &Thread{v, r}, nil
	case "call":
		if len(args) < 1 {
			return nil, raise("args error", "call")
		}
		return in.call(args[0], args[1:])
	case "try":
		var last *ErrV
		for _, a := range args {
			var v Val
			var r *Raise
			switch f := a.(type) {
			case *Fn:
				var ca []Val
				if len(f.N.Params) > 0 && last != nil {
					ca = append(ca, last)
				}
				v, r = in.callFn(f, ca)
			case *Builtin, *Bound:
				return nil, raise("outside-sheet", "try with builtin")
			default:
				return a, nil
			}
			if r != nil {
				if outsideClasses[r.E.Class] {
					in.unspec = true
				}
				if r.E.Class == "panic" || r.E.Class == "args error" {
					return nil, r // fatal error classes pass through try
				}
				last = r.E
				continue
			}
			return v, nil
		}
		return nil, nil
	case "sorted":
		l, ok := args[0].(*List)
		if !ok {
			return nil, raise("outside-sheet", "sorted of non-list")
		}
		out := &List{E: append([]Val{}, l.E...)}
		if len(args) == 1 {
			for i := range out.E {
				for j := range out.E {
					if _, ok := Compare(out.E[i], out.E[j]); !ok {
						return nil, raise("outside-sheet", "sorted of incomparable values")
					}
				}
			}
			sort.SliceStable(out.E, func(i, j int) bool { c, _ := Compare(out.E[i], out.E[j]); return c < 0 })
			return out, nil
		}
		return nil, raise("outside-sheet", "sorted with comparator")
	case "int":
		switch x := args[0].(type) {
		case int64:
			return x, nil
		case float64:
			return int64(x), nil
		}
		return nil, raise("outside-sheet", "int()")
	}
	panic("refsem: builtin " + name)
}

func (in *Interp) method(recv Val, name string, args []Val) (Val, *Raise) {
	switch o := recv.(type) {
	case *Fn:
		if name == "spawn" {
			v, r := in.callFn(o, args)
			return &Thread{v, r}, nil
		}
	case *Thread:
		if name == "wait" && len(args) == 0 {
			if o.R != nil {
				return nil, o.R
			}
			return o.V, nil
		}
	case *List:
		switch name {
		case "append":
			if len(args) != 1 {
				return nil, raise("args error", "append")
			}
			o.E = append(o.E, args[0])
			return o, nil
		case "map", "filter", "each":
			if len(args) != 1 {
				return nil, raise("args error", name)
			}
			f, ok := args[0].(*Fn)
			if !ok || len(f.N.Params) != 1 {
				return nil, raise("outside-sheet", "callback shape")
			}
			res := &List{}
			for _, e := range append([]Val{}, o.E...) {
				v, r := in.callFn(f, []Val{e})
				if r != nil {
					return nil, r
				}
				switch name {
				case "map":
					res.E = append(res.E, v)
				case "filter":
					if Truthy(v) {
						res.E = append(res.E, e)
					}
				}
			}
			if name == "each" {
				return nil, nil
			}
			return res, nil
		}
	case string:
		switch name {
		case "to_upper":
			return strings.ToUpper(o), nil
		case "contains":
			if len(args) == 1 {
				if s, ok := args[0].(string); ok {
					return strings.Contains(o, s), nil
				}
			}
		}
	}
	return nil, raise("outside-sheet", "method "+name)
}

// ------------------------------------------------------------------ printing

func TypeOf(v Val) string {
	switch v.(type) {
	case nil:
		return "nil"
	case bool:
		return "bool"
	case int64:
		return "int"
	case float64:
		return "float"
	case string:
		return "string"
	case *List:
		return "list"
	case *Map:
		return "map"
	case *SetV:
		return "set"
	case *Fn:
		return "function"
	case *ErrV:
		return "error"
	case *Builtin, *Bound:
		return "builtin"
	case *Thread:
		return "thread"
	}
	return "?"
}

// Show is the Inspect form.
func Show(v Val) string {
	switch x := v.(type) {
	case nil:
		return "nil"
	case bool:
		if x {
			return "true"
		}
		return "false"
	case int64:
		return strconv.FormatInt(x, 10)
	case float64:
		return strconv.FormatFloat(x, 'f', -1, 64)
	case string:
		return strconv.Quote(x)
	case *List:
		parts := make([]string, len(x.E))
		for i, e := range x.E {
			parts[i] = Show(e)
		}
		return "[" + strings.Join(parts, ", ") + "]"
	case *Map:
		var parts []string
		for _, k := range sortedKeys(x) {
			parts = append(parts, strconv.Quote(k)+": "+Show(x.M[k]))
		}
		return "{" + strings.Join(parts, ", ") + "}"
	case *SetV:
		parts := make([]string, len(x.E))
		for i, e := range x.E {
			parts[i] = Show(e)
		}
		sort.Strings(parts)
		return "{" + strings.Join(parts, ", ") + "}"
	case *ErrV:
		return "error(" + strconv.Quote(x.Msg) + ")"
	case *Fn:
		return "<function>"
	}
	return "<builtin>"
}

// Printable is how print() and interpolation render a value.
func Printable(v Val) string {
	switch x := v.(type) {
	case string:
		return x
	case *ErrV:
		return x.Msg
	}
	return Show(v)
}

// ------------------------------------------------------------------ incremental sessions (REPL model)

// Session models one compiler + one VM fed with successive pieces: global bindings persist, a
// rejected piece has no effect at all, a piece that fails at run time keeps the effects it had
// before failing.
type Session struct {
	in    *Interp
	scope *scope
}

func NewSession(budget int) *Session {
	in := &Interp{Budget: budget, DeepFails: true}
	in.globals = newEnv(nil)
	return &Session{in: in, scope: &scope{vars: map[string]bool{}, consts: map[string]bool{}}}
}

// DefineGlobal provides a host global (a name the host supplies with a value before the first piece).
func (s *Session) DefineGlobal(name string, v Val) {
	s.scope.vars[name] = true
	s.in.globals.vars[name] = &Cell{V: v}
}

// Piece feeds one piece. syntaxError marks a piece the parser must reject.
func (s *Session) Piece(prog []*lang.N, syntaxError bool) (out Outcome) {
	if syntaxError {
		return Outcome{Rejected: true, RejectWhy: "syntax error"}
	}
	// static check against a copy of the accumulated scope
	trial := &scope{vars: map[string]bool{}, consts: map[string]bool{}}
	for k, v := range s.scope.vars {
		trial.vars[k] = v
	}
	for k, v := range s.scope.consts {
		trial.consts[k] = v
	}
	c := &checker{}
	c.block(prog, trial, ctx{})
	if c.why != "" {
		return Outcome{Rejected: true, RejectWhy: c.why}
	}
	s.scope = trial
	s.in.steps = 0
	logStart := len(s.in.Log)
	defer func() {
		if r := recover(); r != nil {
			if _, ok := r.(budgetExceeded); ok {
				out = Outcome{NonTerm: true}
				return
			}
			panic(r)
		}
	}()
	v, _, rs := s.in.block(prog, s.in.globals, false)
	out.Log = append([]string{}, s.in.Log[logStart:]...)
	if s.in.unspec || (rs != nil && outsideClasses[rs.E.Class]) {
		return Outcome{Unspec: true}
	}
	// names the piece declared but never assigned (it failed before reaching them) are known and have no
	// value: reading one is an error of the piece that reads it, assigning to it gives it a value
	for name := range trial.vars {
		if _, ok := s.in.globals.vars[name]; !ok {
			s.in.globals.vars[name] = &Cell{Const: trial.consts[name], Unset: true}
		}
	}
	if rs != nil {
		out.Err = rs.E
		return out
	}
	out.Val = Show(v)
	out.Type = TypeOf(v)
	return out
}

// Globals returns the current global values (functions omitted).
func (s *Session) Globals() map[string]string {
	out := map[string]string{}
	for k, c := range s.in.globals.vars {
		if _, isFn := c.V.(*Fn); isFn || c.Unset {
			continue
		}
		out[k] = Show(c.V)
	}
	return out
}
