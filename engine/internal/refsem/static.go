package refsem

import "verif/internal/lang"

// Check is the static pass: it returns "" when the program must be accepted by
// the compiler and a reason when it must be rejected (undefined name,
// redeclaration in one block, assignment to a constant, break/continue outside
// a loop, return/defer outside a function).
func Check(prog []*lang.N) string {
	c := &checker{}
	g := &scope{vars: map[string]bool{}, consts: map[string]bool{}}
	c.block(prog, g, ctx{})
	return c.why
}

type scope struct {
	vars   map[string]bool
	consts map[string]bool
	parent *scope
}

func (s *scope) find(name string) (found, isConst bool) {
	for x := s; x != nil; x = x.parent {
		if x.vars[name] {
			return true, x.consts[name]
		}
	}
	return false, false
}

type ctx struct {
	inLoop bool
	inFunc bool
}

type checker struct{ why string }

func (c *checker) fail(w string) {
	if c.why == "" {
		c.why = w
	}
}

func child(p *scope) *scope { return &scope{vars: map[string]bool{}, consts: map[string]bool{}, parent: p} }

func (c *checker) declare(s *scope, name string, isConst bool) {
	if s.vars[name] {
		c.fail("redeclared " + name)
	}
	if isBuiltin(name) && s.parent == nil {
		c.fail("outside-sheet: shadowing a builtin at top level")
	}
	s.vars[name] = true
	if isConst {
		s.consts[name] = true
	}
}

func (c *checker) block(b []*lang.N, s *scope, x ctx) {
	for _, st := range b {
		if st.K == lang.SFunc {
			c.declare(s, st.S, false)
		}
	}
	for _, st := range b {
		c.stmt(st, s, x)
	}
}

func (c *checker) use(s *scope, name string) {
	if found, _ := s.find(name); found || isBuiltin(name) {
		return
	}
	c.fail("undefined " + name)
}

func (c *checker) assignTo(s *scope, name string) {
	found, isConst := s.find(name)
	if !found {
		c.fail("undefined " + name)
	} else if isConst {
		c.fail("assignment to constant " + name)
	}
}

func (c *checker) stmt(st *lang.N, s *scope, x ctx) {
	switch st.K {
	case lang.SExpr:
		c.expr(st.A[0], s, x)
	case lang.SVar:
		c.expr(st.A[0], s, x)
		c.declare(s, st.S, false)
	case lang.SConst:
		c.expr(st.A[0], s, x)
		c.declare(s, st.S, true)
	case lang.SAssign:
		t := st.A[0]
		if t.K == lang.EIdent {
			c.assignTo(s, t.S)
		} else {
			c.expr(t, s, x)
		}
		c.expr(st.A[1], s, x)
	case lang.SMultiVar:
		c.expr(st.A[0], s, x)
		for _, n := range st.Names {
			c.declare(s, n, false)
		}
	case lang.SMultiSet:
		c.expr(st.A[0], s, x)
		for _, n := range st.Names {
			c.assignTo(s, n)
		}
	case lang.SInc:
		c.assignTo(s, st.S)
	case lang.SReturn:
		if !x.inFunc {
			c.fail("return outside function")
		}
		if len(st.A) > 0 {
			c.expr(st.A[0], s, x)
		}
	case lang.SBreak, lang.SContinue:
		if !x.inLoop {
			c.fail("break/continue outside loop")
		}
	case lang.SIf:
		c.expr(st.A[0], s, x)
		c.block(st.Body, child(s), x)
		if st.HasElse {
			c.block(st.Else, child(s), x)
		}
	case lang.SSwitch:
		c.expr(st.A[0], s, x)
		for _, cs := range st.Cases {
			for _, v := range cs.Vals {
				c.expr(v, s, x)
			}
			c.block(cs.Body, child(s), x)
		}
	case lang.SFor:
		ls := child(s)
		lx := x
		lx.inLoop = true
		switch st.Op {
		case "inf":
		case "cond":
			c.expr(st.A[0], ls, x)
		case "three":
			c.stmt(st.Init, ls, x)
			c.expr(st.A[0], ls, x)
			c.stmt(st.Post, ls, x)
		default:
			c.expr(st.A[0], ls, x)
			for _, n := range st.Names {
				c.declare(ls, n, false)
			}
		}
		c.block(st.Body, child(ls), lx)
	case lang.SDefer:
		if !x.inFunc {
			c.fail("defer outside function")
		}
		c.expr(st.A[0], s, x)
	case lang.SFunc:
		c.function(st, s)
	default:
		c.expr(st, s, x)
	}
}

func (c *checker) function(f *lang.N, s *scope) {
	fs := child(s)
	if f.K == lang.EFunc && f.S != "" {
		fs.vars[f.S] = true
		fs = child(fs)
	}
	for _, p := range f.Params {
		if p.Def != nil {
			c.expr(p.Def, s, ctx{})
		}
		c.declare(fs, p.Name, false)
	}
	c.block(f.Body, child(fs), ctx{inFunc: true})
}

func (c *checker) expr(e *lang.N, s *scope, x ctx) {
	if e == nil {
		return
	}
	switch e.K {
	case lang.EIdent:
		c.use(s, e.S)
	case lang.EFunc:
		c.function(e, s)
	case lang.EMap:
		for i := 0; i+1 < len(e.A); i += 2 {
			if e.A[i].K != lang.EIdent {
				c.expr(e.A[i], s, x)
			}
			c.expr(e.A[i+1], s, x)
		}
	case lang.EIfExpr, lang.SIf, lang.SSwitch:
		c.stmt(&lang.N{K: kindAsStmt(e.K), A: e.A, Body: e.Body, Else: e.Else, HasElse: e.HasElse, Cases: e.Cases}, s, x)
	default:
		for _, a := range e.A {
			c.expr(a, s, x)
		}
	}
}

func kindAsStmt(k lang.K) lang.K {
	if k == lang.EIfExpr {
		return lang.SIf
	}
	return k
}
