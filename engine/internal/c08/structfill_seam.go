//go:build mapseam

package c08

import (
	"strings"

	"github.com/risor-io/risor/vseam"
)

// With the map seam the order in which the struct converter walks a script map is set by the check.
var structOrder []int

func init() {
	vseam.Choose = func(site string, n int, ranked bool) []int {
		if strings.HasPrefix(site, "object/typeconv.go") && len(structOrder) == n {
			return structOrder
		}
		return nil
	}
}

func setStructOrder(p []int) { structOrder = p }
