package c08

// Mutants of /repo used to demonstrate detection (applied to a scratch worktree, run with
// VERIF_REPO=<worktree> ./run C08 quick; "new" = signatures that do not occur on the unchanged tree).
//
// m1  object/typeconv.go PointerConverter.From: `c.valueConverter.From(v.Elem().Interface())` -> `From(v.Interface())`
//     caught: fatal:stack-overflow (DynamicConverter <-> PointerConverter recursion on ptr(iface(int)) &nil kills the
//     worker process; reported from the parent, remaining share capped, exhaustive:false).
// m2  object/typeconv.go StructConverter.To: `if c.isValueType {` -> `if false && c.isValueType {`
//     caught: altered|panic:global-back:wrong-go-type(ptr-for-struct-value(struct|named-struct)),
//     vmpanic:method-arg:wrong-go-type(ptr-for-struct-value(...)).
// m3  object/typeconv.go TimeConverter.From: `NewTime(obj.(time.Time))` -> `NewTime(obj.(time.Time).UTC())`
//     caught: altered:{global,field-read,field-write-script,method-result}:time-value (zone offset lost).
// m4  object/proxy.go Proxy.call: `if args[argIndex] == Nil {` -> `if false && ...` (no nil-argument handling)
//     caught: vmpanic:method-arg:other-reflect-Call-using-zero.
// m5  object/go_type.go/proxy.go IsProxyableType: also admit reflect.Map
//     not caught: equivalent on the enumerated routes (NewProxy is only reached through StructConverter.From).
// m6  object/typeconv.go Uint16Converter.From: `int64(obj.(uint16))` -> `int64(int16(obj.(uint16)))`
//     caught: altered:{global,field-read,method-result}:int-value (uint16 max became -1).
