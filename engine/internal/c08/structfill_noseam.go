//go:build !mapseam

package c08

// Without the map seam the converter walks script maps in Go's own order.
func setStructOrder(p []int) {}
