package c08

import (
	"fmt"
	"reflect"

	"github.com/risor-io/risor/object"
)

// Array refill: a script list that is shorter than the Go array it is converted to leaves the
// missing positions at the element type's zero value, whatever was converted before. Converters
// are cached per type for the whole process, so the demand is checked as a two-step history: a
// full list with non-zero elements goes into a field of the array type, then a shorter list goes
// into the same field of a fresh holder (and, for nested arrays, one list [[v, v], [w]] whose
// second row is shorter). Accepted outcomes: a clean rejection of the short list, or exactly
// [w, zero]. Run once per array-typed spec.

func (a *acc) routeArrayRefill(s *spec) {
	arr := s
	nested := false
	if s.ctor != "array" {
		if (s.ctor == "slice" || s.ctor == "array") && s.elem != nil && s.elem.ctor == "array" {
			arr, nested = s.elem, true
		} else {
			return
		}
	} else if s.elem != nil && s.elem.ctor == "array" {
		arr, nested = s.elem, true
	}
	// two script-expressible, non-zero element values
	var vs []reflect.Value
	var objs []object.Object
	for _, e := range arr.elem.values() {
		if e.v.IsZero() {
			continue
		}
		o, ok := toObj(e.v)
		if !ok {
			continue
		}
		vs = append(vs, e.v)
		objs = append(objs, o)
		if len(vs) == 2 {
			break
		}
	}
	if len(vs) == 0 {
		return
	}
	v, vo := vs[0], objs[0]
	w, wo := vs[len(vs)-1], objs[len(objs)-1]
	in := caseIn{Route: "array-refill", Type: s.path, Value: "full-then-short"}
	route := "array-refill"
	var src string
	var g map[string]any
	dst := holderOf(s, reflect.Zero(s.t))
	want := reflect.New(s.t).Elem()
	if !nested {
		first := holderOf(s, reflect.Zero(s.t))
		g = map[string]any{"s": first.Interface(), "t": dst.Interface(), "full": list(vo, vo), "short": list(wo)}
		src = "s.F = full\nt.F = short"
		want.Index(0).Set(w)
	} else {
		g = map[string]any{"t": dst.Interface(), "rows": list(list(vo, vo), list(wo))}
		src = "t.F = rows"
		if s.ctor == "slice" {
			want = reflect.MakeSlice(s.t, 2, 2)
		}
		want.Index(0).Index(0).Set(v)
		want.Index(0).Index(1).Set(v)
		want.Index(1).Index(0).Set(w)
	}
	a.Evals++
	o := eval(src, g)
	if kind, text := o.failure(); kind != "" {
		a.out(route, kind, s)
		if kind != "rejected" {
			a.fail(in, s, kind, "field-write", panicClass(text), fmt.Sprintf("`%s` with an array field of type %s panicked", src, s.t), text, "the field set, or an error")
		}
		return
	}
	if d := sameTyped(dst.Elem().Field(0), want, ""); d != nil {
		a.out(route, "stale-elements", s)
		a.fail(in, s, "altered", "array-refill", "short-list-keeps-earlier-elements", fmt.Sprintf("`%s`: a list shorter than the array %s was accepted but the missing positions are not zero", src, s.t),
			d.Msg+"; field = "+showV(dst.Elem().Field(0)), showV(want)+", or an error")
		return
	}
	a.out(route, "ok", s)
}
