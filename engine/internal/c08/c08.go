// Package c08: Go values cross the host/script boundary faithfully or are rejected cleanly.
//
// Bounded-exhaustive enumeration of Go TYPES (leaf types under the constructors pointer, slice, array[2],
// map[string]T, struct{F T}, interface holding T, to a depth) x VALUES (zero, nil where legal, min, max,
// ordinary) x ROUTES across the bridge:
//
//	global        risor.Eval("x", WithGlobal("x", v)) -> Interface(); then back through NewTypeConverter(T).To
//	field-read    `s.F` on a proxy of *struct{F T}
//	field-write   `s.F = t.F` (value obtained from a Go field of the same type) and `s.F = x` (x = the
//	              script-side object a script would build for the same contents); read back from Go and the script
//	method        `h.Echo(t.F)` / `h.Echo(x)` on *H[T] with Echo(v T) T: received argument and result
//	misfit        `s.F = p` / `h.Echo(p)` for a pool of script objects that may not fit T: only "no panic"
//
// Oracle: contents equal after normalisation AND typed round trip equal, OR a clean error. Never a panic
// (neither one that escapes to the host nor one that vm.Run turns into an error "panic: ...").
//
// Every case runs in a child process (one per core, each strictly sequential): the bridge's type caches are
// filled lazily and GoType.GetConverter does so without the lock (C09), so in-process parallelism could kill
// the check with "concurrent map writes".
package c08

import (
	"bufio"
	"bytes"
	"context"
	"encoding/json"
	"fmt"
	"math"
	"os"
	"os/exec"
	"reflect"
	"regexp"
	"runtime"
	"runtime/debug"
	"sort"
	"strconv"
	"strings"
	"sync"
	"time"

	"github.com/risor-io/risor"
	"github.com/risor-io/risor/object"

	"verif/internal/ev"
)

// caseIn is the replay input: it fully determines one executed case.
type caseIn struct {
	Route  string `json:"route"`            // global | field-read | field-write | method | misfit-write | misfit-method | all
	Source string `json:"source,omitempty"` // fld | obj (field-write, method)
	Type   string `json:"type"`             // type path, e.g. "ptr(slice(NInt))"
	Value  string `json:"value"`            // value name within the type, or misfit pool entry
}

type finding struct {
	Sig      string `json:"sig"`
	What     string `json:"what"`
	Observed string `json:"observed"`
	Expected string `json:"expected"`
	In       caseIn `json:"in"`
	Idx      int    `json:"idx"`
	Ord      int    `json:"ord"`
	N        int    `json:"n"`
}

type acc struct {
	Evals    int                 `json:"evals"`
	Counts   map[string]int      `json:"counts"`
	Outcomes map[string]struct{} `json:"-"`
	OutList  []string            `json:"outcomes"`
	Finds    map[string]*finding `json:"finds"`
	idx      int
	ord      int
	verbose  bool
}

func newAcc() *acc {
	return &acc{Counts: map[string]int{}, Outcomes: map[string]struct{}{}, Finds: map[string]*finding{}}
}

func (a *acc) out(route, class string, s *spec) {
	a.Counts[route+"|"+class]++
	a.Outcomes[route+"|"+class+"|"+s.ctorChain()+"|"+s.leafOf().class] = struct{}{}
	if a.verbose {
		fmt.Printf("  %-14s %s\n", route, class)
	}
}

func (a *acc) fail(in caseIn, s *spec, kind, stage, cause, what, observed, expected string) {
	sig := kind + ":" + stage + ":" + cause
	if s != nil && s.leafOf().class == "named-key-map" && strings.HasPrefix(cause, "assert(named-basic") {
		sig += "[map-key]" // same message as for a named value, but a different site (MapConverter.From asserts string keys)
	}
	a.ord++
	if f, ok := a.Finds[sig]; ok {
		f.N++
		return
	}
	a.Finds[sig] = &finding{Sig: sig, What: what, Observed: observed, Expected: expected, In: in, Idx: a.idx, Ord: a.ord, N: 1}
	if a.verbose {
		fmt.Printf("  FAIL %s\n       %s\n       observed: %s\n", sig, what, observed)
	}
}

var ctx = context.Background()

type evalOut struct {
	obj object.Object
	err error
	pan string
}

func eval(src string, g map[string]any) (o evalOut) {
	defer func() {
		if r := recover(); r != nil {
			o.pan = fmt.Sprint(r)
		}
	}()
	o.obj, o.err = risor.Eval(ctx, src, risor.WithoutDefaultGlobals(), risor.WithGlobals(g))
	return
}

// failure classifies a non-ok evaluation: "panic" (escaped to the host), "vmpanic" (vm.Run recovered a
// panic into an error), "rejected" (clean error) or "" (ok).
func (o evalOut) failure() (kind, text string) {
	switch {
	case o.pan != "":
		return "panic", o.pan
	case o.err != nil && strings.HasPrefix(o.err.Error(), "panic: "):
		return "vmpanic", o.err.Error()
	case o.err != nil:
		return "rejected", o.err.Error()
	}
	return "", ""
}

var (
	reIfaceConv = regexp.MustCompile(`^(?:panic: )?interface conversion: interface(?: \{\})? is (.*), not (.*)$`)
	reAssign    = regexp.MustCompile(`^(?:panic: )?(reflect\.Set|reflect\.Value\.\w+): value of type (.*) is not assignable to type (.*)$`)
	reCallUsing = regexp.MustCompile(`^(?:panic: )?reflect: Call using (.*) as type (.*)$`)
	reZeroVal   = regexp.MustCompile(`^(?:panic: )?reflect: call of (reflect\.Value\.\w+) on zero Value`)
	reCallOn    = regexp.MustCompile(`^(?:panic: )?reflect: call of (reflect\.Value\.\w+) on (\w+) Value`)
	reIndex     = regexp.MustCompile(`^(?:panic: )?reflect: array index out of range`)
	reNilDeref  = regexp.MustCompile(`invalid memory address or nil pointer dereference`)
	reWord      = regexp.MustCompile(`[A-Za-z.]+`)
	reNamedB    = regexp.MustCompile(`^c08\.N(Bool|Int|Int8|Int16|Int32|Int64|Uint|Uint8|Uint16|Uint32|Uint64|Float32|Float64|String)$`)
)

// tclass maps a Go type name as printed in a panic message (or reflect.Type.String()) to a shape class.
// This is the "type shape" part of a signature: it names the types at the point of failure, not the whole case.
func tclass(n string) string {
	n = strings.TrimSpace(n)
	switch {
	case n == "nil":
		return "nil"
	case reNamedB.MatchString(n):
		return "named-basic"
	case n == "c08.NStruct":
		return "named-struct"
	case strings.HasPrefix(n, "c08.N"):
		return "named-composite"
	case n == "time.Duration":
		return "duration"
	case n == "time.Time":
		return "time"
	case n == "interface {}" || n == "any":
		return "iface"
	case n == "error":
		return "error"
	case strings.HasPrefix(n, "*"):
		return "ptr(" + tclass(n[1:]) + ")"
	case strings.HasPrefix(n, "[]"):
		return "slice"
	case strings.HasPrefix(n, "[2]"):
		return "array"
	case strings.HasPrefix(n, "map["):
		return "map"
	case strings.HasPrefix(n, "struct {"):
		return "struct"
	case strings.Contains(n, "."):
		return "other-named"
	}
	return "basic"
}

// wrongType names the root cause when a converter produced a Go value of type x where type y was required.
// Pointer depth is ignored; what matters is the innermost mismatch.
func wrongType(x, y string) string {
	x, y = strings.TrimSpace(x), strings.TrimSpace(y)
	if x == "*"+y {
		return "ptr-for-struct-value(" + tclass(y) + ")"
	}
	bx, by := strings.TrimLeft(x, "*"), strings.TrimLeft(y, "*")
	cx, cy := tclass(bx), tclass(by)
	if cx == "map" && cy == "map" {
		return "string-key-for-named-key-map"
	}
	switch cy {
	case "named-basic", "duration", "named-composite", "named-struct":
		if cx != cy {
			return "unnamed-for-" + cy
		}
	case "iface", "error":
		if strings.HasPrefix(y, "*") {
			return "pointer-to-interface"
		}
	}
	return tclass(x) + "-for-" + tclass(y)
}

// panicClass reduces a panic message to a stable class: the failing operation plus the shape classes of
// the types it names (no concrete type names, no values).
func panicClass(msg string) string {
	if m := reIfaceConv.FindStringSubmatch(msg); m != nil {
		return "assert(" + tclass(m[1]) + " as " + tclass(m[2]) + ")"
	}
	if m := reAssign.FindStringSubmatch(msg); m != nil {
		return "wrong-go-type(" + wrongType(m[2], m[3]) + ")"
	}
	if m := reCallUsing.FindStringSubmatch(msg); m != nil {
		return "wrong-go-type(" + wrongType(m[1], m[2]) + ")"
	}
	if m := reZeroVal.FindStringSubmatch(msg); m != nil {
		return "zero-Value." + strings.TrimPrefix(m[1], "reflect.Value.")
	}
	if m := reCallOn.FindStringSubmatch(msg); m != nil {
		return strings.TrimPrefix(m[1], "reflect.Value.") + "-on-" + m[2]
	}
	if reIndex.MatchString(msg) {
		return "array-index-out-of-range"
	}
	if reNilDeref.MatchString(msg) {
		return "nil-dereference"
	}
	w := reWord.FindAllString(strings.TrimPrefix(msg, "panic: "), 4)
	return "other-" + strings.Join(w, "-")
}

func safeInterface(o object.Object) (got any, pan string) {
	defer func() {
		if r := recover(); r != nil {
			pan = fmt.Sprint(r)
		}
	}()
	return o.Interface(), ""
}

func show(v any) string {
	if v == nil {
		return "nil"
	}
	return showV(reflect.ValueOf(v))
}

// showV renders a Go value deterministically (pointers are dereferenced, never printed as addresses; map keys sorted).
func showV(v reflect.Value) string {
	if !v.IsValid() {
		return "<invalid>"
	}
	return ev.Clip(v.Type().String()+"("+render(v, 0)+")", 200)
}

func render(v reflect.Value, depth int) string {
	if !v.IsValid() {
		return "nil"
	}
	if depth > 8 {
		return "..."
	}
	if e, ok := isErrVal(v); ok && (v.Kind() == reflect.Interface || v.Kind() == reflect.Pointer) {
		return fmt.Sprintf("%T %q", e, e.Error())
	}
	switch v.Kind() {
	case reflect.Pointer:
		if v.IsNil() {
			return "nil"
		}
		return "&" + render(v.Elem(), depth+1)
	case reflect.Interface:
		if v.IsNil() {
			return "nil"
		}
		return v.Elem().Type().String() + " " + render(v.Elem(), depth+1)
	case reflect.Slice:
		if v.IsNil() {
			return "nil"
		}
		fallthrough
	case reflect.Array:
		parts := make([]string, v.Len())
		for i := range parts {
			parts[i] = render(v.Index(i), depth+1)
		}
		return "[" + strings.Join(parts, " ") + "]"
	case reflect.Map:
		if v.IsNil() {
			return "nil"
		}
		keys := v.MapKeys()
		sort.Slice(keys, func(i, j int) bool { return keys[i].String() < keys[j].String() })
		parts := make([]string, len(keys))
		for i, k := range keys {
			parts[i] = k.String() + ":" + render(v.MapIndex(k), depth+1)
		}
		return "map[" + strings.Join(parts, " ") + "]"
	case reflect.Struct:
		if v.Type() == timeType && v.CanInterface() {
			return v.Interface().(time.Time).Format(time.RFC3339Nano)
		}
		parts := []string{}
		for i := 0; i < v.NumField(); i++ {
			if v.Type().Field(i).IsExported() {
				parts = append(parts, v.Type().Field(i).Name+":"+render(v.Field(i), depth+1))
			}
		}
		return "{" + strings.Join(parts, " ") + "}"
	case reflect.String:
		return strconv.Quote(v.String())
	}
	if v.CanInterface() {
		return fmt.Sprint(v.Interface())
	}
	return "?"
}

// holderOf builds *struct{F T} with F = v.
func holderOf(s *spec, v reflect.Value) reflect.Value {
	ht := reflect.StructOf([]reflect.StructField{{Name: "F", Type: s.t}})
	h := reflect.New(ht)
	h.Elem().Field(0).Set(v)
	return h
}

// toObj builds the script-side object a script itself would construct for the contents of v
// (int, float, string, bool, nil, byte, byte_slice, time, list, map). ok=false when a script cannot
// express the value (structs, errors, unsigned values above MaxInt64).
func toObj(v reflect.Value) (object.Object, bool) {
	if _, isErr := isErrVal(v); isErr {
		return nil, false
	}
	v = strip(v)
	if !v.IsValid() {
		return object.Nil, true
	}
	k := v.Kind()
	switch {
	case v.Type() == reflect.TypeOf(byte(0)):
		return object.NewByte(byte(v.Uint())), true
	case isInt(k):
		return object.NewInt(v.Int()), true
	case isUint(k):
		if v.Uint() > math.MaxInt64 {
			return nil, false
		}
		return object.NewInt(int64(v.Uint())), true
	case isFloat(k):
		return object.NewFloat(v.Float()), true
	case k == reflect.String:
		return object.NewString(v.String()), true
	case k == reflect.Bool:
		return object.NewBool(v.Bool()), true
	case v.Type() == timeType:
		return object.NewTime(v.Interface().(time.Time)), true
	case k == reflect.Slice && v.Type().Elem().Kind() == reflect.Uint8:
		return object.NewByteSlice(append([]byte{}, v.Bytes()...)), true
	case k == reflect.Slice || k == reflect.Array:
		items := make([]object.Object, 0, v.Len())
		for i := 0; i < v.Len(); i++ {
			o, ok := toObj(v.Index(i))
			if !ok {
				return nil, false
			}
			items = append(items, o)
		}
		return object.NewList(items), true
	case k == reflect.Map:
		m := map[string]object.Object{}
		for _, key := range v.MapKeys() {
			o, ok := toObj(v.MapIndex(key))
			if !ok {
				return nil, false
			}
			m[key.String()] = o
		}
		return object.NewMap(m), true
	}
	return nil, false
}

// ---------------------------------------------------------------- routes

// checkScriptValue applies comparison (i) to an evaluated object.
func (a *acc) checkScriptValue(in caseIn, s *spec, stage string, obj object.Object, v reflect.Value) bool {
	got, pan := safeInterface(obj)
	if pan != "" {
		a.fail(in, s, "panic", stage+"-Interface", panicClass(pan), fmt.Sprintf("%s %s: Interface() of the script value panicked", in.Type, in.Value), pan, "no panic")
		return false
	}
	if d := sameContents(got, v); d != nil {
		a.fail(in, s, "altered", stage, d.Code,
			fmt.Sprintf("%s %s: the script-side value does not carry the contents of the Go original %s", in.Type, in.Value, showV(v)),
			d.Msg+"; Interface() = "+show(got), "contents equal to the original, or an error")
		return false
	}
	return true
}

// refusedSelfReference: a struct that refers to itself through a pointer or a slice is a nested struct like any other
// (the bridge registers the struct type before it looks at the fields); that it is refused as "recursive" when the
// conversion happens to start at one of its pointer or container types, and accepted when it starts elsewhere, is
// not "rejected with an error" but an answer that depends on where in the type the first conversion began.
func (a *acc) refusedSelfReference(in caseIn, s *spec, stage, kind, text string) {
	if kind == "rejected" && s.leafOf().name == "RecNode" && strings.Contains(text, "recursive") {
		a.fail(in, s, "rejected", stage, "self-referential-struct-refused", fmt.Sprintf("a value of type %s (a struct that refers to itself through a pointer and a slice) is refused as a recursive type", s.t), ev.Clip(text, 200), "the value converted")
	}
}

// routeGlobal: WithGlobal -> script returns it -> Interface(); then the typed path back.
func (a *acc) routeGlobal(s *spec, nv namedVal) {
	in := caseIn{Route: "global", Type: s.path, Value: nv.name}
	var iv any
	if !(nv.v.Kind() == reflect.Interface && nv.v.IsNil()) {
		iv = nv.v.Interface()
	}
	a.Evals++
	o := eval("x", map[string]any{"x": iv})
	if kind, text := o.failure(); kind != "" {
		a.out("global", kind, s)
		a.refusedSelfReference(in, s, "global", kind, text)
		if kind != "rejected" {
			a.fail(in, s, kind, "global", panicClass(text), fmt.Sprintf("risor.Eval(\"x\", WithGlobal(\"x\", %s)) panicked", showV(nv.v)), text, "a value or an error")
		}
		return
	}
	if !a.checkScriptValue(in, s, "global", o.obj, nv.v) {
		a.out("global", "altered", s)
		return
	}
	if iv == nil {
		a.out("global", "ok", s)
		return
	}
	// typed round trip through the converter of the dynamic type
	dyn := reflect.ValueOf(iv)
	var back any
	var err error
	pan := func() (p string) {
		defer func() {
			if r := recover(); r != nil {
				p = fmt.Sprint(r)
			}
		}()
		conv, e := object.NewTypeConverter(dyn.Type())
		if e != nil {
			err = e
			return
		}
		back, err = conv.To(o.obj)
		return
	}()
	switch {
	case pan != "":
		a.out("global", "back-panic", s)
		a.fail(in, s, "panic", "global-back", panicClass(pan), fmt.Sprintf("NewTypeConverter(%s).To(script value of %s) panicked", dyn.Type(), showV(nv.v)), pan, "the original value or an error")
	case err != nil:
		a.out("global", "back-rejected", s)
	default:
		if d := sameTyped(reflect.ValueOf(back), dyn, ""); d != nil {
			a.out("global", "back-altered", s)
			a.fail(in, s, "altered", "global-back", d.Code, fmt.Sprintf("%s %s: the script value converted back with NewTypeConverter(%s).To differs from the original %s", in.Type, in.Value, dyn.Type(), showV(nv.v)), d.Msg+"; got "+show(back), "a Go value equal to the original, or an error")
			return
		}
		a.out("global", "ok", s)
	}
}

// routeFieldRead: `s.F`. Returns true when the read produced a faithful value.
func (a *acc) routeFieldRead(s *spec, nv namedVal) bool {
	in := caseIn{Route: "field-read", Type: s.path, Value: nv.name}
	h := holderOf(s, nv.v)
	a.Evals++
	o := eval("s.F", map[string]any{"s": h.Interface()})
	if kind, text := o.failure(); kind != "" {
		a.out("field-read", kind, s)
		a.refusedSelfReference(in, s, "field-read", kind, text)
		if kind != "rejected" {
			a.fail(in, s, kind, "field-read", panicClass(text), fmt.Sprintf("`s.F` with s = &struct{F %s}{%s} panicked", s.t, showV(nv.v)), text, "a value or an error")
		}
		return false
	}
	if !a.checkScriptValue(in, s, "field-read", o.obj, nv.v) {
		a.out("field-read", "altered", s)
		return false
	}
	a.out("field-read", "ok", s)
	return true
}

func otherValue(s *spec, nv namedVal) reflect.Value {
	vals := s.values()
	for i, x := range vals {
		if x.name == nv.name {
			return vals[(i+1)%len(vals)].v
		}
	}
	return reflect.Zero(s.t)
}

// routeFieldWrite: the script writes the value into s.F (preset to a different value); Go and the script read it back.
func (a *acc) routeFieldWrite(s *spec, nv namedVal, source string, readOK bool) {
	in := caseIn{Route: "field-write", Source: source, Type: s.path, Value: nv.name}
	route := "field-write/" + source
	dst := holderOf(s, otherValue(s, nv))
	g := map[string]any{"s": dst.Interface()}
	src := "s.F = t.F"
	if source == "fld" {
		if !readOK {
			a.out(route, "blocked-by-field-read", s)
			return
		}
		g["t"] = holderOf(s, nv.v).Interface()
	} else {
		x, ok := toObj(nv.v)
		if !ok {
			a.out(route, "inexpressible", s)
			return
		}
		g["x"] = x
		src = "s.F = x"
	}
	a.Evals++
	o := eval(src, g)
	if kind, text := o.failure(); kind != "" {
		a.out(route, kind, s)
		if kind != "rejected" {
			a.fail(in, s, kind, "field-write", panicClass(text), fmt.Sprintf("`%s` into a field of type %s, value %s, panicked", src, s.t, showV(nv.v)), text, "the field set, or an error")
		}
		return
	}
	if d := sameTyped(dst.Elem().Field(0), nv.v, ""); d != nil {
		a.out(route, "altered-go", s)
		a.fail(in, s, "altered", "field-write-go", d.Code, fmt.Sprintf("`%s` into a field of type %s: Go reads back something else than the value written %s", src, s.t, showV(nv.v)),
			d.Msg+"; field = "+showV(dst.Elem().Field(0)), "the value written, or an error")
		return
	}
	if !readOK {
		a.out(route, "ok-go-only", s)
		return
	}
	a.Evals++
	o2 := eval("s.F", map[string]any{"s": dst.Interface()})
	if kind, _ := o2.failure(); kind != "" {
		a.out(route, "readback-"+kind, s)
		return
	}
	if !a.checkScriptValue(in, s, "field-write-script", o2.obj, nv.v) {
		a.out(route, "altered-script", s)
		return
	}
	a.out(route, "ok", s)
}

// routeMethod: `h.Echo(arg)`; the holder records what it received.
func (a *acc) routeMethod(s *spec, nv namedVal, source string, readOK bool) {
	mk, ok := holders[s.t]
	if !ok {
		return
	}
	in := caseIn{Route: "method", Source: source, Type: s.path, Value: nv.name}
	route := "method/" + source
	h, rec := mk()
	g := map[string]any{"h": h}
	src := "h.Echo(t.F)"
	if source == "fld" {
		if !readOK {
			a.out(route, "blocked-by-field-read", s)
			return
		}
		g["t"] = holderOf(s, nv.v).Interface()
	} else {
		x, ok := toObj(nv.v)
		if !ok {
			a.out(route, "inexpressible", s)
			return
		}
		g["x"] = x
		src = "h.Echo(x)"
	}
	a.Evals++
	o := eval(src, g)
	stage := "method-arg"
	if rec.calls > 0 {
		stage = "method-result"
	}
	if rec.calls > 0 {
		if d := sameTyped(rec.got, nv.v, ""); d != nil {
			a.out(route, "arg-altered", s)
			a.fail(in, s, "altered", "method-arg", d.Code, fmt.Sprintf("`%s` with Echo(v %s): the method received something else than the script passed (%s)", src, s.t, showV(nv.v)),
				d.Msg+"; received "+showV(rec.got), "exactly the argument passed, or an error")
			return
		}
	}
	if kind, text := o.failure(); kind != "" {
		a.out(route, kind+"@"+stage, s)
		if kind != "rejected" {
			a.fail(in, s, kind, stage, panicClass(text), fmt.Sprintf("`%s` with Echo(v %s) %s, value %s, panicked", src, s.t, s.t, showV(nv.v)), text, "the call performed, or an error")
		} else if source == "fld" && rec.calls == 0 {
			// the value was represented when it was read from a Go field of this very type: it has to convert back
			a.fail(in, s, "rejected", "method-arg", "value-read-from-go-not-accepted-back", fmt.Sprintf("`%s`: the value read from a field of type %s is refused by a method whose parameter has that type (%s)", src, s.t, showV(nv.v)), ev.Clip(text, 200), "the call performed")
		}
		return
	}
	if rec.calls != 1 {
		a.out(route, "not-called", s)
		a.fail(in, s, "altered", "method-arg", "calls-"+strconv.Itoa(rec.calls), fmt.Sprintf("`%s` returned without error but Echo ran %d times", src, rec.calls), "", "one call")
		return
	}
	if !a.checkScriptValue(in, s, "method-result", o.obj, nv.v) {
		a.out(route, "result-altered", s)
		return
	}
	a.out(route, "ok", s)
}

// ---------------------------------------------------------------- misfit pool

type misfit struct {
	name string
	mk   func() object.Object
}

func list(items ...object.Object) object.Object { return object.NewList(items) }

var misfits = []misfit{
	{"nil", func() object.Object { return object.Nil }},
	{"true", func() object.Object { return object.True }},
	{"300", func() object.Object { return object.NewInt(300) }},
	{"-1", func() object.Object { return object.NewInt(-1) }},
	{"maxint64", func() object.Object { return object.NewInt(math.MaxInt64) }},
	{"1.5", func() object.Object { return object.NewFloat(1.5) }},
	{"1e300", func() object.Object { return object.NewFloat(1e300) }},
	{`"s"`, func() object.Object { return object.NewString("s") }},
	{`""`, func() object.Object { return object.NewString("") }},
	{"[]", func() object.Object { return list() }},
	{"[1,2,3]", func() object.Object { return list(object.NewInt(1), object.NewInt(2), object.NewInt(3)) }},
	{"[nil]", func() object.Object { return list(object.Nil) }},
	{`["s"]`, func() object.Object { return list(object.NewString("s")) }},
	{"[[1]]", func() object.Object { return list(list(object.NewInt(1))) }},
	{"{k:1}", func() object.Object { return object.NewMap(map[string]object.Object{"k": object.NewInt(1)}) }},
	{"{k:nil}", func() object.Object { return object.NewMap(map[string]object.Object{"k": object.Nil}) }},
	{"{F:1}", func() object.Object { return object.NewMap(map[string]object.Object{"F": object.NewInt(1)}) }},
	{"{F:nil}", func() object.Object { return object.NewMap(map[string]object.Object{"F": object.Nil}) }},
	{"byte(9)", func() object.Object { return object.NewByte(9) }},
	{"byte_slice(ab)", func() object.Object { return object.NewByteSlice([]byte("ab")) }},
	{"time", func() object.Object { return object.NewTime(time.Unix(1700000000, 0).UTC()) }},
}

var numericMisfit = map[string]bool{"300": true, "-1": true, "maxint64": true, "1.5": true, "1e300": true, "byte(9)": true}

var containerMisfit, opaqueMisfit = map[string]bool{}, map[string]bool{}

// misfitOther is a struct type that no target of the search has.
type misfitOther struct{ N int }

func numericElem(t reflect.Type) bool {
	switch t.Kind() {
	case reflect.Slice, reflect.Array, reflect.Map, reflect.Pointer:
		return isNumericKind(t.Elem().Kind())
	}
	return false
}

// The numbers at the edges of every Go integer and float type, as script ints and as script floats: the last
// one that fits and the first one that does not, at both ends of int8 .. int64, uint8 .. uint64, the exact
// integer range of float32 and float64, and the largest float32.
func init() {
	add := func(name string, o object.Object) {
		misfits = append(misfits, misfit{name, func() object.Object { return o }})
		numericMisfit[name] = true
	}
	for _, w := range []uint{8, 16, 32, 64} {
		half := math.Ldexp(1, int(w-1)) // 2^(w-1)
		full := math.Ldexp(1, int(w))   // 2^w
		for i, f := range []float64{half - 1, half, -half, -half - 1, full - 1, full} {
			if w == 64 && (i == 0 || i == 3 || i == 4) {
				continue // not representable as a float64: the same float as its neighbour
			}
			add(fmt.Sprintf("float(%s)", strconv.FormatFloat(f, 'f', -1, 64)), object.NewFloat(f))
			if f >= -9223372036854775808.0 && f < 9223372036854775808.0 {
				add(fmt.Sprintf("int(%d)", int64(f)), object.NewInt(int64(f)))
			}
		}
	}
	// numbers inside containers: what does not fit the element type must not be cut to size there either
	cadd := func(name string, o object.Object) {
		misfits = append(misfits, misfit{name, func() object.Object { return o }})
		containerMisfit[name] = true
	}
	for _, n := range []struct {
		name string
		o    object.Object
	}{{"300", object.NewInt(300)}, {"-1", object.NewInt(-1)}, {"1.5", object.NewFloat(1.5)}, {"2^63", object.NewFloat(9223372036854775808.0)}, {"70000", object.NewInt(70000)}} {
		cadd("["+n.name+"]", list(n.o))
		cadd("[1,"+n.name+",2]", list(object.NewInt(1), n.o, object.NewInt(2)))
		cadd("{k:"+n.name+"}", object.NewMap(map[string]object.Object{"k": n.o}))
	}
	// values that have no Go counterpart at all, and proxies of Go values of another type than any target
	for _, src := range []struct{ name, expr string }{{"function", "func(x) { return x }"}, {"builtin", "len"}, {"module", "math"}, {"partial", "func() { defer len([1]) }"}} {
		v, err := risor.Eval(context.Background(), src.expr)
		if err != nil {
			panic(err)
		}
		misfits = append(misfits, misfit{src.name, func() object.Object { return v }})
		opaqueMisfit[src.name] = true
		if src.name == "function" || src.name == "module" {
			// the same one and two levels down: in a list, in a map, in a list in a list
			for _, n := range []struct {
				name string
				o    object.Object
			}{{"[" + src.name + "]", list(v)}, {"{k:" + src.name + "}", object.NewMap(map[string]object.Object{"k": v})}, {"[[1," + src.name + "]]", list(list(object.NewInt(1), v))}} {
				o := n.o
				misfits = append(misfits, misfit{n.name, func() object.Object { return o }})
				opaqueMisfit[n.name] = true
			}
		}
	}
	for _, px := range []struct {
		name string
		v    any
	}{{"proxy(*other)", &misfitOther{N: 5}}} {
		pv, err := object.NewProxy(px.v)
		if err != nil {
			panic(err)
		}
		misfits = append(misfits, misfit{px.name, func() object.Object { return pv }})
	}
	add("int(minint64)", object.NewInt(math.MinInt64))
	add("float(2^63-1024)", object.NewFloat(9223372036854774784.0)) // the largest float below 2^63
	add("float(-2^63-2048)", object.NewFloat(-9223372036854777856.0)) // the first float below -2^63
	add("int(2^24+1)", object.NewInt(1<<24+1))
	add("int(2^53+1)", object.NewInt(1<<53+1))
	add("float(2^24+1)", object.NewFloat(1<<24+1))
	add("float(maxfloat32)", object.NewFloat(math.MaxFloat32))
	add("float(maxfloat32*2)", object.NewFloat(math.MaxFloat32*2))
	add("float(1e-50)", object.NewFloat(1e-50))
	add("float(-0.5)", object.NewFloat(-0.5))
	add("float(NaN)", object.NewFloat(math.NaN()))
	add("float(+Inf)", object.NewFloat(math.Inf(1)))
}

func isNumericKind(k reflect.Kind) bool {
	switch k {
	case reflect.Int, reflect.Int8, reflect.Int16, reflect.Int32, reflect.Int64, reflect.Uint, reflect.Uint8, reflect.Uint16,
		reflect.Uint32, reflect.Uint64, reflect.Float32, reflect.Float64:
		return true
	}
	return false
}

func misfitByName(n string) *misfit {
	for i := range misfits {
		if misfits[i].name == n {
			return &misfits[i]
		}
	}
	return nil
}

// routeMisfit: a script object that may or may not fit T is written to a field / passed to a method.
// The only demand is "no panic".
func (a *acc) routeMisfit(s *spec, m *misfit, which string) {
	in := caseIn{Route: "misfit-" + which, Type: s.path, Value: m.name}
	route := in.Route
	var g map[string]any
	var rec *recorder
	src := ""
	// a number written to a numeric field, or passed to Echo, comes back as the number it was - or the write
	// is refused; what does not fit (300 into an int8, 1.5 into an int, 1e300 into a float32) must not be cut to size
	numeric := numericMisfit[m.name] && isNumericKind(s.t.Kind())
	// the same for a number behind a pointer and for numbers in a list or map written to a container of numbers,
	// and for a value that has no Go counterpart (a function, a module): accepted means it reads back as itself
	if (numericMisfit[m.name] && m.name != "float(NaN)" && s.t.Kind() == reflect.Pointer && isNumericKind(s.t.Elem().Kind()) && s.t.Elem().Kind() != reflect.Float32) ||
		(containerMisfit[m.name] && numericElem(s.t) && s.t.Kind() != reflect.Pointer && s.t.Kind() != reflect.Array && s.t.Elem().Kind() != reflect.Float32) || (opaqueMisfit[m.name] && (!strings.ContainsAny(m.name, "[{") || s.t.Kind() == reflect.Interface)) {
		numeric = true
	}
	// q is what has to come back: p itself, except that a float target holds the nearest float of its size
	// (rounding is how Go converts, 0.1 has no float32 either); a finite number that no float of that size is
	// near to (beyond the largest float32) stays p, which nothing accepted can equal
	q := m.mk()
	if numeric && (s.t.Kind() == reflect.Float32 || s.t.Kind() == reflect.Float64) {
		var pf float64
		switch v := q.(type) {
		case *object.Int:
			pf = float64(v.Value())
		case *object.Float:
			pf = v.Value()
		case *object.Byte:
			pf = float64(v.Value())
		}
		if s.t.Kind() == reflect.Float32 {
			if r := float64(float32(pf)); !math.IsInf(r, 0) || math.IsInf(pf, 0) {
				pf = r
			}
		}
		q = object.NewFloat(pf)
		if math.IsNaN(pf) {
			numeric = false // NaN equals nothing, itself included: only "no panic"
		}
	}
	if which == "write" {
		g = map[string]any{"s": holderOf(s, reflect.Zero(s.t)).Interface(), "p": m.mk(), "q": q}
		src = "s.F = p"
		if numeric {
			src = "s.F = p\ns.F == q"
		}
	} else {
		mk, ok := holders[s.t]
		if !ok {
			return
		}
		var h any
		h, rec = mk()
		g = map[string]any{"h": h, "p": m.mk(), "q": q}
		src = "h.Echo(p)"
		if numeric {
			src = "h.Echo(p) == q"
		}
	}
	a.Evals++
	o := eval(src, g)
	kind, text := o.failure()
	if kind == "" {
		kind = "accepted"
	}
	a.Counts[route+"|"+kind]++
	a.Outcomes[route+"|"+kind+"|"+s.ctorChain()+"|"+s.leafOf().class+"|"+m.name] = struct{}{}
	if a.verbose {
		fmt.Printf("  %-14s %s %s\n", route, kind, text)
	}
	if kind == "accepted" && m.name == "{F:nil}" && s.ctor == "struct" && s.elem != nil && s.elem.t.Kind() == reflect.Struct && s.elem.t != timeType {
		// a map whose F is nil, for a struct whose F is a struct held by value: nil is not one of its values (a field write of
		// nil and a nil argument for it are refused), so it must not arrive as the zero struct either
		stage := "field-write"
		if which == "method" {
			stage = "method-arg"
		}
		a.fail(in, s, "changed", stage, "nil-became-the-zero-struct", fmt.Sprintf("`%s` with p = {F: nil} and a target of type %s: accepted, Go holds a zero %s where the script passed nil", src, s.t, s.elem.t), "accepted", "an error")
	}
	if kind == "accepted" && numeric && o.obj == object.False {
		stage := "field-write"
		if which == "method" {
			stage = "method-arg"
		}
		a.fail(in, s, "changed", stage, "number-cut-to-size", fmt.Sprintf("`%s` with p = %s and a target of type %s: the value was accepted and came back as another value", src, m.name, s.t), "false", "true, or an error")
	}
	if kind == "panic" || kind == "vmpanic" {
		// same stages as the fitted routes: the signature names the defect (site + cause), not the family that found it
		stage := "field-write"
		if which == "method" {
			stage = "method-arg"
			if rec.calls > 0 {
				stage = "method-result"
			}
		}
		a.fail(in, s, kind, stage, panicClass(text), fmt.Sprintf("`%s` with p = %s and a target of type %s panicked", src, m.name, s.t), text, "the value converted, or an error")
	}
}

// ---------------------------------------------------------------- case list

type unit struct {
	s  *spec
	nv namedVal // value case when mf == nil
	mf *misfit
}

func depths(thorough bool) (valueDepth, misfitDepth int) {
	if thorough {
		return 3, 3
	}
	return 2, 2
}

func units(thorough bool) []unit {
	vd, md := depths(thorough)
	var us []unit
	for _, s := range allSpecs(vd) {
		for _, nv := range s.values() {
			us = append(us, unit{s: s, nv: nv})
		}
	}
	for _, s := range allSpecs(md) {
		for i := range misfits {
			us = append(us, unit{s: s, mf: &misfits[i]})
		}
	}
	return us
}

func (a *acc) runUnit(u unit, only caseIn) {
	// every unit is the first use of its types in the process: what an earlier unit left in the package-level
	// type registries must not decide how this one fares (a self-referential type converted alone is refused or
	// not depending on where the conversion starts)
	object.VerifResetTypeCaches()
	want := func(route, source string) bool {
		if only.Route == "" || only.Route == "all" {
			return true
		}
		return only.Route == route && (only.Source == "" || only.Source == source)
	}
	if u.mf != nil {
		if want("misfit-write", "") {
			a.routeMisfit(u.s, u.mf, "write")
		}
		if want("misfit-method", "") {
			a.routeMisfit(u.s, u.mf, "method")
		}
		return
	}
	if vals := u.s.values(); len(vals) > 0 && vals[0].name == u.nv.name && want("array-refill", "") {
		a.routeArrayRefill(u.s) // once per type
	}
	// field-read first: it gates the variants that obtain their value by reading a Go field
	readOK := false
	if want("field-read", "") {
		readOK = a.routeFieldRead(u.s, u.nv)
	} else {
		quiet := newAcc()
		readOK = quiet.routeFieldRead(u.s, u.nv)
	}
	if want("global", "") {
		a.routeGlobal(u.s, u.nv)
	}
	for _, src := range []string{"fld", "obj"} {
		if want("field-write", src) {
			a.routeFieldWrite(u.s, u.nv, src, readOK)
		}
	}
	for _, src := range []string{"fld", "obj"} {
		if want("method", src) {
			a.routeMethod(u.s, u.nv, src, readOK)
		}
	}
}

// ---------------------------------------------------------------- worker (child process)

// Worker is the sub-command `check c08-worker <i> <n> <tier>`: it runs the units with index = i mod n,
// sequentially, announces each on stderr (so a fatal crash can be attributed) and prints one JSON result.
func Worker(args []string) {
	debug.SetMaxStack(64 << 20) // a runaway recursion in the bridge dies quickly instead of eating 1 GB first
	i, _ := strconv.Atoi(args[0])
	n, _ := strconv.Atoi(args[1])
	us := units(args[2] == "thorough")
	skip := map[int]bool{}
	if len(args) > 3 {
		for _, f := range strings.Split(args[3], ",") {
			if k, err := strconv.Atoi(f); err == nil {
				skip[k] = true
			}
		}
	}
	a := newAcc()
	w := bufio.NewWriterSize(os.Stderr, 64)
	if i == 0 {
		a.routeStructRefill() // the struct-refill histories run once, in the first worker
	}
	for k := i; k < len(us); k += n {
		if skip[k] {
			continue
		}
		fmt.Fprintf(w, "@%d\n", k)
		w.Flush()
		a.idx = k
		a.runUnit(us[k], caseIn{})
	}
	for o := range a.Outcomes {
		a.OutList = append(a.OutList, o)
	}
	sort.Strings(a.OutList)
	b, _ := json.Marshal(a)
	os.Stdout.Write(b)
}

func unitIn(u unit) caseIn {
	if u.mf != nil {
		return caseIn{Route: "misfit-write", Type: u.s.path, Value: u.mf.name}
	}
	return caseIn{Route: "all", Type: u.s.path, Value: u.nv.name}
}

// ---------------------------------------------------------------- parent

func Check(r *ev.Run, replay string) {
	if replay != "" {
		var ph phReplay
		if err := ev.ReadReplay(replay, &ph); err == nil && len(ph.ProxyHistory) > 0 {
			replayProxyHistory(r, ph)
			return
		}
		replayOne(r, replay)
		return
	}
	proxyHistories(r)
	us := units(r.Thorough())
	vd, md := depths(r.Thorough())
	nSpecs, nMis := len(allSpecs(vd)), len(allSpecs(md))
	nVals := 0
	for _, u := range us {
		if u.mf == nil {
			nVals++
		}
	}
	self := os.Getenv("VERIF_SELF")
	if self == "" {
		self, _ = os.Executable()
	}
	n := runtime.NumCPU()
	if n > 32 {
		n = 32
	}
	type crash struct {
		unit int
		msg  string
	}
	type wres struct {
		a       *acc
		err     string
		crashes []crash
	}
	const maxRestarts = 3
	results := make([]wres, n)
	var wg sync.WaitGroup
	for i := 0; i < n; i++ {
		wg.Add(1)
		go func(i int) {
			defer wg.Done()
			var res wres
			var skip []string
			for attempt := 0; attempt <= maxRestarts; attempt++ {
				c, cancel := context.WithTimeout(context.Background(), 7*time.Minute)
				cmd := exec.CommandContext(c, self, "c08-worker", strconv.Itoa(i), strconv.Itoa(n), r.Tier, strings.Join(skip, ","))
				var so, se bytes.Buffer
				cmd.Stdout, cmd.Stderr = &so, &se
				err := cmd.Run()
				cancel()
				if err == nil {
					res.a = newAcc()
					if e := json.Unmarshal(so.Bytes(), res.a); e != nil {
						res.err = "worker output does not parse: " + e.Error()
						res.a = nil
					}
					break
				}
				// the worker died: attribute it to the unit it announced last, then run again without that unit
				last, text := -1, se.String()
				if k := strings.LastIndex(text, "@"); k >= 0 {
					line := text[k+1:]
					if nl := strings.IndexByte(line, '\n'); nl >= 0 {
						last, _ = strconv.Atoi(line[:nl])
						text = line[nl+1:]
					}
				}
				if last < 0 {
					res.err = err.Error() + ": " + ev.Clip(text, 400)
					break
				}
				res.crashes = append(res.crashes, crash{last, err.Error() + ": " + ev.Clip(strings.TrimSpace(text), 300)})
				skip = append(skip, strconv.Itoa(last))
				if attempt == maxRestarts {
					res.err = "restart limit"
				}
			}
			results[i] = res
		}(i)
	}
	wg.Wait()

	finds := map[string]*finding{}
	counts := map[string]int{}
	reFatal := regexp.MustCompile(`fatal error: ([a-z ]+)`)
	for i, w := range results {
		for _, c := range w.crashes {
			u := us[c.unit]
			cause := "unknown"
			if m := reFatal.FindStringSubmatch(c.msg); m != nil {
				cause = strings.ReplaceAll(strings.TrimSpace(m[1]), " ", "-")
			}
			r.Report("fatal:"+cause, fmt.Sprintf("the process died (not a recoverable panic) while running %s %s", u.s.path, unitIn(u).Value), unitIn(u), c.msg, "no fatal error")
		}
		if w.a == nil {
			if w.err == "restart limit" {
				r.Cap(fmt.Sprintf("worker %d died %d times; the rest of its share was not run", i, len(w.crashes)))
			} else {
				r.EngineError(fmt.Sprintf("worker %d: %s", i, w.err))
			}
			continue
		}
		r.Eval(w.a.Evals)
		for _, o := range w.a.OutList {
			r.Outcome(o)
		}
		for k, v := range w.a.Counts {
			counts[k] += v
		}
		for sig, f := range w.a.Finds {
			if g, ok := finds[sig]; ok {
				tot := g.N + f.N
				if f.Idx < g.Idx || (f.Idx == g.Idx && f.Ord < g.Ord) {
					finds[sig] = f
				}
				finds[sig].N = tot
			} else {
				finds[sig] = f
			}
		}
	}
	sigs := make([]string, 0, len(finds))
	for s := range finds {
		sigs = append(sigs, s)
	}
	sort.Slice(sigs, func(i, j int) bool {
		a, b := finds[sigs[i]], finds[sigs[j]]
		if a.Idx != b.Idx {
			return a.Idx < b.Idx
		}
		return a.Sig < b.Sig
	})
	perSig := map[string]int{}
	for _, s := range sigs {
		f := finds[s]
		perSig[s] = f.N
		r.Report(f.Sig, fmt.Sprintf("%s [%d cases]", f.What, f.N), f.In, f.Observed, f.Expected)
	}
	r.Set("route_outcome_counts", counts)
	if len(perSig) > 0 {
		r.Set("cases_per_signature", perSig)
	}
	r.Set("types", nSpecs)
	r.Set("type_value_cases", nVals)
	r.Set("misfit_cases", len(us)-nVals)
	r.Set("method_holder_types", len(holders))
	r.Set("workers", n)
	r.Set("rule", fmt.Sprintf("every Go type built from %d leaf types (14 basic kinds, 14 named twins, time.Time, time.Duration, []byte, error, any, 4 named composites, map[NString]int) under <= %d constructors from {pointer, slice, array[2], map[string]T, struct{F T}, interface holding T} = %d types; every value from {zero, nil where legal, min, max, ordinary, empty} propagated through each constructor = %d (type, value) cases; each through the routes global (+typed back), field-read, field-write x {value from a Go field, script-built object}, method Echo(T) T x {same two sources} for the %d statically instantiated holder types; array refill (a full list, then a shorter list into a fresh holder of the same array type; nested arrays with a short second row: rejected or exactly [w, zero]); struct refill (a map with an ill-typed field, its keys visited in each of the 6 orders - the check is built with the map seam -, then a one-field map into the same struct type, also as slice elements: rejected or exactly that field); plus every type with <= %d constructors (%d) x %d possibly ill-fitting script objects written to a field / passed to a method (no-panic only); proxy histories: every sequence of <= 4 (thorough 5) steps over 26 operations on one Go object reached through a proxy (reads and writes of a pointer-to-struct field, a struct field, a string and a slice field, a Go method that replaces the pointer, a write through a second proxy of the same object, a nested object held and used later) against a plain Go model of the same steps - the script sees what Go holds, Go holds what the script wrote. distinct = distinct (route, outcome class, constructor chain, leaf class) tuples",
		len(leaves()), vd, nSpecs, nVals, len(holders), md, nMis, len(misfits)))
	r.Assumptions = []string{
		"composite values are one wrapping per element value (slice/array [v, zero], map {k: v}, struct {F: v}, &v, boxed v) plus nil/empty; not all combinations of element values",
		"nil and empty slices/maps count as equal; an interface-typed target compares by contents (script values do not remember integer width)",
		"method parameters: holder types must exist at compile time, so route `method` covers all leaf types, every iface(...) type (parameter type any) and a fixed list of composites, not every enumerated type",
		"NaN and -0 are not in the value pools",
		"a panic recovered by vm.Run into an error \"panic: ...\" is counted as a conversion panic (signature prefix vmpanic:), a panic that reaches the caller of risor.Eval as panic:",
	}
	r.Sample(caseIn{Route: "global", Type: "time.Duration", Value: "ord"})
	r.Sample(caseIn{Route: "field-write", Source: "obj", Type: "slice(ptr(int))", Value: "[&ord,0]"})
	r.Sample(caseIn{Route: "method", Source: "fld", Type: "map(struct(int))", Value: "{k:{F:max}}"})
	r.Sample(caseIn{Route: "misfit-write", Type: "array(int)", Value: "[1,2,3]"})
}

func replayOne(r *ev.Run, path string) {
	debug.SetMaxStack(64 << 20)
	var in caseIn
	if err := ev.ReadReplay(path, &in); err != nil {
		r.EngineError("cannot read replay: " + err.Error())
		return
	}
	s, err := specByPath(in.Type)
	if err != nil {
		r.EngineError(err.Error())
		return
	}
	a := newAcc()
	a.verbose = true
	fmt.Printf("replay: route=%s source=%s type=%s (%s) value=%s\n", in.Route, in.Source, in.Type, s.t, in.Value)
	var u unit
	if strings.HasPrefix(in.Route, "misfit-") {
		m := misfitByName(in.Value)
		if m == nil {
			r.EngineError("unknown misfit object " + in.Value)
			return
		}
		u = unit{s: s, mf: m}
	} else {
		found := false
		for _, nv := range s.values() {
			if nv.name == in.Value {
				u = unit{s: s, nv: nv}
				found = true
			}
		}
		if !found {
			r.EngineError("unknown value " + in.Value + " for type " + in.Type)
			return
		}
		fmt.Printf("  Go value: %s\n", showV(u.nv.v))
	}
	a.runUnit(u, in)
	r.Eval(a.Evals)
	for o := range a.Outcomes {
		r.Outcome(o)
	}
	r.Outcome("replay")
	r.Set("rule", "replay of one case")
	sigs := make([]string, 0, len(a.Finds))
	for s := range a.Finds {
		sigs = append(sigs, s)
	}
	sort.Strings(sigs)
	for _, s := range sigs {
		f := a.Finds[s]
		r.Report(f.Sig, f.What, f.In, f.Observed, f.Expected)
	}
	if len(sigs) == 0 {
		fmt.Println("  no violation on this tree")
	}
}
