package c08

import (
	"context"
	"fmt"
	"strings"

	"github.com/risor-io/risor"
	"github.com/risor-io/risor/object"

	"verif/internal/ev"
)

// Proxy histories: a Go object that stays on the Go side and is reached through a proxy is the one place
// where "crossing the boundary" is not a single conversion but a conversation - the script reads, the
// script writes, a Go method replaces a pointer, a second proxy of the same object writes, the script
// holds on to a nested object and reads it later. Every sequence of <= 4 (thorough 5) such steps runs as one
// script on a fresh Go object; the reference is a plain Go model of the same object executing the same
// steps. Oracle: every value the script observes equals the model's, and afterwards the real Go object
// equals the model object (what the script wrote is what Go reads).

type phEngine struct {
	Name string
	RPM  int
}

type phCar struct {
	Label  string
	Engine *phEngine
	Spare  phEngine
	Tags   []string
}

func (c *phCar) Refit(e *phEngine) *phEngine { old := c.Engine; c.Engine = e; return old }
func (c *phCar) Self() *phCar                { return c }
func (c *phCar) SetSpareRPM(n int)           { c.Spare.RPM = n }
func (c *phCar) DropEngine()                 { c.Engine = nil }

// Note takes any value.
func (c *phCar) Note(v interface{}) string { return fmt.Sprintf("%T", v) }

// Lookup has a context parameter (supplied by the proxy, not by the script) in front of a pointer and a
// string parameter.
func (c *phCar) Lookup(ctx context.Context, limit *int, name string) string {
	if limit == nil {
		return "nil:" + name + ":" + c.Label
	}
	return fmt.Sprintf("%d:%s:%s", *limit, name, c.Label)
}

// Pick has the context in the middle.
func (c *phCar) Pick(a int, ctx context.Context, e *phEngine, b string) string {
	if e == nil {
		return fmt.Sprintf("%d:nil:%s", a, b)
	}
	return fmt.Sprintf("%d:%s:%s", a, e.Name, b)
}

type phStep struct {
	Op string `json:"op"`
	K  int    `json:"k"` // the value this step writes (distinct per position)
}

type phReplay struct {
	ProxyHistory []phStep `json:"proxy_history"`
}

var phOps = []string{"read-engine", "read-spare", "read-label", "write-engine-rpm", "write-engine", "write-spare-rpm", "write-spare",
	"write-label", "go-refit", "other-proxy-write", "go-set-spare", "hold-engine", "read-held", "write-held", "go-drop-engine", "write-engine-nil", "read-tags", "append-tags", "read-lookup-nil", "read-lookup-value", "read-pick-nil", "read-pick-engine", "read-refused-nil-for-int", "read-refused-other-struct", "read-refused-function", "read-note-int"}

func phScript(h []phStep) string {
	var sb strings.Builder
	sb.WriteString("obs := []\nheld := nil\n")
	for _, s := range h {
		k := s.K
		switch s.Op {
		case "read-engine":
			sb.WriteString("obs.append(car.Engine == nil ? \"nil\" : [car.Engine.Name, car.Engine.RPM])\n")
		case "read-spare":
			sb.WriteString("obs.append([car.Spare.Name, car.Spare.RPM])\n")
		case "read-label":
			sb.WriteString("obs.append(car.Label)\n")
		case "write-engine-rpm":
			fmt.Fprintf(&sb, "if car.Engine != nil { car.Engine.RPM = %d }\n", k)
		case "write-engine":
			fmt.Fprintf(&sb, "car.Engine = {Name: \"w%d\", RPM: %d}\n", k, k)
		case "write-spare-rpm":
			fmt.Fprintf(&sb, "car.Spare.RPM = %d\n", k)
		case "write-spare":
			fmt.Fprintf(&sb, "car.Spare = {Name: \"s%d\", RPM: %d}\n", k, k)
		case "write-label":
			fmt.Fprintf(&sb, "car.Label = \"l%d\"\n", k)
		case "go-refit":
			fmt.Fprintf(&sb, "car.Refit({Name: \"g%d\", RPM: %d})\n", k, k)
		case "other-proxy-write":
			fmt.Fprintf(&sb, "car.Self().Engine = {Name: \"o%d\", RPM: %d}\n", k, k)
		case "go-set-spare":
			fmt.Fprintf(&sb, "car.SetSpareRPM(%d)\n", k)
		case "hold-engine":
			sb.WriteString("held = car.Engine\n")
		case "read-held":
			sb.WriteString("obs.append(held == nil ? \"nil\" : [held.Name, held.RPM])\n")
		case "write-held":
			fmt.Fprintf(&sb, "if held != nil { held.RPM = %d }\n", k)
		case "go-drop-engine":
			sb.WriteString("car.DropEngine()\n")
		case "write-engine-nil":
			sb.WriteString("car.Engine = nil\n")
		case "read-lookup-nil":
			sb.WriteString("obs.append(car.Lookup(nil, \"n\"))\n")
		case "read-lookup-value":
			fmt.Fprintf(&sb, "obs.append(car.Lookup(%d, \"n\"))\n", k)
		case "read-pick-nil":
			sb.WriteString("obs.append(car.Pick(3, nil, \"b\"))\n")
		case "read-pick-engine":
			sb.WriteString("obs.append(car.Engine == nil ? \"skip\" : car.Pick(3, car.Engine, \"b\"))\n")
		case "read-refused-nil-for-int":
			sb.WriteString("obs.append(try(func() { car.SetSpareRPM(nil)\n return \"accepted\" }, func(e) { return \"refused\" }))\n")
		case "read-refused-surplus-argument":
			sb.WriteString("obs.append(try(func() { car.SetSpareRPM(7, 8)\n return \"accepted\" }, func(e) { return \"refused\" }))\n")
		case "read-refused-other-struct":
			sb.WriteString("obs.append(try(func() { car.Refit(car)\n return \"accepted\" }, func(e) { return \"refused\" }))\n")
		case "read-refused-function":
			sb.WriteString("obs.append(try(func() { car.Note(func() { return 1 })\n return \"accepted\" }, func(e) { return \"refused\" }))\n")
		case "read-note-int":
			sb.WriteString("obs.append(car.Note(5))\n")
		case "read-tags":
			sb.WriteString("obs.append(car.Tags)\n")
		case "append-tags":
			fmt.Fprintf(&sb, "car.Tags = car.Tags + [\"t%d\"]\n", k)
		}
	}
	sb.WriteString("obs\n")
	return sb.String()
}

func phFresh() *phCar {
	return &phCar{Label: "l0", Engine: &phEngine{Name: "e0", RPM: 1}, Spare: phEngine{Name: "s0", RPM: 2}, Tags: []string{"t0"}}
}

// phModel executes the history on a plain Go object and renders what the script must observe.
func phModel(h []phStep) (obs []string, car *phCar) {
	car = phFresh()
	var held *phEngine
	eng := func(e *phEngine) string {
		if e == nil {
			return `"nil"`
		}
		return fmt.Sprintf("[%q, %d]", e.Name, e.RPM)
	}
	for _, s := range h {
		k := s.K
		switch s.Op {
		case "read-engine":
			obs = append(obs, eng(car.Engine))
		case "read-spare":
			obs = append(obs, eng(&car.Spare))
		case "read-label":
			obs = append(obs, fmt.Sprintf("%q", car.Label))
		case "write-engine-rpm":
			if car.Engine != nil {
				car.Engine.RPM = k
			}
		case "write-engine":
			car.Engine = &phEngine{fmt.Sprintf("w%d", k), k}
		case "write-spare-rpm":
			car.Spare.RPM = k
		case "write-spare":
			car.Spare = phEngine{fmt.Sprintf("s%d", k), k}
		case "write-label":
			car.Label = fmt.Sprintf("l%d", k)
		case "go-refit":
			car.Engine = &phEngine{fmt.Sprintf("g%d", k), k}
		case "other-proxy-write":
			car.Engine = &phEngine{fmt.Sprintf("o%d", k), k}
		case "go-set-spare":
			car.Spare.RPM = k
		case "hold-engine":
			held = car.Engine
		case "read-held":
			obs = append(obs, eng(held))
		case "write-held":
			if held != nil {
				held.RPM = k
			}
		case "go-drop-engine", "write-engine-nil":
			car.Engine = nil
		case "read-lookup-nil":
			obs = append(obs, fmt.Sprintf("%q", car.Lookup(context.Background(), nil, "n")))
		case "read-lookup-value":
			kk := k
			obs = append(obs, fmt.Sprintf("%q", car.Lookup(context.Background(), &kk, "n")))
		case "read-pick-nil":
			obs = append(obs, fmt.Sprintf("%q", car.Pick(3, context.Background(), nil, "b")))
		case "read-pick-engine":
			if car.Engine == nil {
				obs = append(obs, `"skip"`)
			} else {
				obs = append(obs, fmt.Sprintf("%q", car.Pick(3, context.Background(), car.Engine, "b")))
			}
		case "read-refused-nil-for-int", "read-refused-surplus-argument", "read-refused-other-struct", "read-refused-function":
			obs = append(obs, `"refused"`) // and the object is as it was
		case "read-note-int":
			obs = append(obs, `"int64"`)
		case "read-tags":
			q := make([]string, len(car.Tags))
			for i, t := range car.Tags {
				q[i] = fmt.Sprintf("%q", t)
			}
			obs = append(obs, "["+strings.Join(q, ", ")+"]")
		case "append-tags":
			car.Tags = append(append([]string{}, car.Tags...), fmt.Sprintf("t%d", k))
		}
	}
	return obs, car
}

func phShow(c *phCar) string {
	e := "nil"
	if c.Engine != nil {
		e = fmt.Sprintf("&{%s %d}", c.Engine.Name, c.Engine.RPM)
	}
	return fmt.Sprintf("{Label:%s Engine:%s Spare:{%s %d} Tags:%v}", c.Label, e, c.Spare.Name, c.Spare.RPM, c.Tags)
}

// phRun executes the history for real and compares. "" = agrees.
func phRun(h []phStep) (sig, what, observed, expected string) {
	want, model := phModel(h)
	car := phFresh()
	src := phScript(h)
	var res string
	var err error
	func() {
		defer func() {
			if p := recover(); p != nil {
				err = fmt.Errorf("GO PANIC: %v", p)
			}
		}()
		v, e := risor.Eval(context.Background(), src, risor.WithGlobals(map[string]any{"car": car}))
		if e != nil {
			err = e
			return
		}
		res = v.Inspect()
	}()
	exp := "[" + strings.Join(want, ", ") + "]"
	if err != nil {
		return "proxy-history:error", "the script failed: " + err.Error(), err.Error(), exp
	}
	if res != exp {
		return "proxy-history:script-sees-other-values", "the script observed other values than the Go object holds at those moments", res, exp
	}
	if phShow(car) != phShow(model) {
		return "proxy-history:go-sees-other-values", "after the script, the Go object differs from what the script wrote", phShow(car), phShow(model)
	}
	return "", "", res, exp
}

// phBad has a field of a kind that cannot cross the boundary.
type phBad struct {
	A int
	C chan int
	Z int
}

// A Go type that is refused is refused every time: the first failure must not leave a half-built type
// behind that a second attempt is answered with.
func refusedTypeStaysRefused(r *ev.Run) {
	var outcomes []string
	for i := 0; i < 3; i++ {
		p, err := object.NewProxy(&phBad{A: 4, Z: 5})
		switch {
		case err != nil:
			outcomes = append(outcomes, "error")
		default:
			_, okA := p.GetAttr("A")
			_, okZ := p.GetAttr("Z")
			outcomes = append(outcomes, fmt.Sprintf("proxy(A:%v Z:%v)", okA, okZ))
		}
	}
	r.Eval(3)
	r.Outcome("refused-type|" + strings.Join(outcomes, ","))
	for i := 1; i < len(outcomes); i++ {
		if outcomes[i] != outcomes[0] || outcomes[i] == "proxy(A:false Z:false)" {
			r.Report("refused-type:later-attempt-differs", "object.NewProxy on a struct with a chan field, three times: "+strings.Join(outcomes, ", "), map[string]any{"kind": "refused-type"}, strings.Join(outcomes, ", "), "the same answer every time")
			return
		}
	}
}

func proxyHistories(r *ev.Run) {
	refusedTypeStaysRefused(r)
	maxLen := 4
	if r.Thorough() {
		maxLen = 5
	}
	var hs [][]phStep
	var rec func(h []phStep, held bool)
	rec = func(h []phStep, held bool) {
		if len(h) > 0 {
			last := h[len(h)-1].Op
			if strings.HasPrefix(last, "read-") {
				hs = append(hs, append([]phStep{}, h...)) // a history is judged when it ends in an observation
			}
		}
		if len(h) == maxLen {
			return
		}
		for _, op := range phOps {
			if (op == "read-held" || op == "write-held") && !held {
				continue
			}
			if len(h) == maxLen-1 && !strings.HasPrefix(op, "read-") {
				continue
			}
			rec(append(h, phStep{op, 100 + 10*len(h)}), held || op == "hold-engine")
		}
	}
	rec(nil, false)
	type out struct{ sig, what, obs, exp string }
	outs := make([]out, len(hs))
	ev.ParFor(len(hs), func(i int) {
		s, w, o, e := phRun(hs[i])
		outs[i] = out{s, w, o, e}
		r.Eval(1)
	})
	classes := map[string]bool{}
	for i, o := range outs {
		if o.sig != "" {
			r.Report(o.sig, fmt.Sprintf("proxy history %v\n  %s\n  %s", hs[i], strings.ReplaceAll(phScript(hs[i]), "\n", "; "), o.what), phReplay{hs[i]}, ev.Clip(o.obs, 300), ev.Clip(o.exp, 300))
		}
		if !classes[o.exp] && len(classes) < 400 {
			classes[o.exp] = true
			r.Outcome("proxy-history|" + o.exp)
		}
	}
	r.Set("proxy_histories", len(hs))
	r.Set("proxy_history_operations", len(phOps))
	r.Set("proxy_history_max_length", maxLen)
	r.Sample(map[string]any{"family": "proxy histories", "script": phScript(hs[len(hs)/2])})
}

func replayProxyHistory(r *ev.Run, in phReplay) {
	fmt.Println(phScript(in.ProxyHistory))
	sig, what, obs, exp := phRun(in.ProxyHistory)
	fmt.Printf("observed %s\nexpected %s\n", obs, exp)
	if sig != "" {
		r.Report(sig, what, in, obs, exp)
	}
	r.Eval(1)
}
