package c08

import (
	"fmt"
	"math"
	"math/big"
	"reflect"
	"sort"
	"time"
)

// diff is the first difference found by a comparison: a short stable code (used in signatures) and a message.
type diff struct {
	Code string
	Msg  string
}

// sameContents decides comparison (i): does `got` (what Object.Interface() returned) carry the contents of
// the Go original? Representation changes the bridge makes on purpose are accepted:
// integers of any width compare by mathematical value, float32 widens to float64, slices and arrays compare
// element-wise whatever the element type ([]any vs []int), string-keyed maps key-wise, pointers and interfaces
// are looked through on both sides (nil <-> nil), nil and empty slices/maps are the same contents, structs
// compare field-wise by name (so *struct, struct and a proxy's pointer all qualify), errors by message.
// nil means equal.
func sameContents(got any, orig reflect.Value) *diff {
	return cmpC(reflect.ValueOf(got), orig, "")
}

func isErrVal(v reflect.Value) (error, bool) {
	for v.IsValid() && v.Kind() == reflect.Interface {
		if v.IsNil() {
			return nil, false
		}
		v = v.Elem()
	}
	if v.IsValid() && v.Type().Implements(errorType) && v.CanInterface() {
		if v.Kind() == reflect.Pointer && v.IsNil() {
			return nil, false
		}
		e, ok := v.Interface().(error)
		return e, ok
	}
	return nil, false
}

func strip(v reflect.Value) reflect.Value {
	for v.IsValid() && (v.Kind() == reflect.Pointer || v.Kind() == reflect.Interface) {
		if v.IsNil() {
			return reflect.Value{}
		}
		v = v.Elem()
	}
	return v
}

func isInt(k reflect.Kind) bool   { return k >= reflect.Int && k <= reflect.Int64 }
func isUint(k reflect.Kind) bool  { return k >= reflect.Uint && k <= reflect.Uintptr }
func isFloat(k reflect.Kind) bool { return k == reflect.Float32 || k == reflect.Float64 }

func bigOf(v reflect.Value) *big.Int {
	if isInt(v.Kind()) {
		return big.NewInt(v.Int())
	}
	return new(big.Int).SetUint64(v.Uint())
}

func cmpC(got, orig reflect.Value, path string) *diff {
	at := func(code, msg string) *diff {
		if path == "" {
			return &diff{code, msg}
		}
		return &diff{code, path + ": " + msg}
	}
	if oe, ok := isErrVal(orig); ok {
		ge, ok := isErrVal(got)
		if !ok {
			return at("error-lost", fmt.Sprintf("error %q became a non-error", oe.Error()))
		}
		if ge.Error() != oe.Error() {
			return at("error-text", fmt.Sprintf("error %q became %q", oe.Error(), ge.Error()))
		}
		return nil
	}
	got, orig = strip(got), strip(orig)
	if !orig.IsValid() {
		if !got.IsValid() {
			return nil
		}
		return at("nil-became-value", fmt.Sprintf("nil became %s", got.Type()))
	}
	ok := orig.Kind()
	if !got.IsValid() {
		if (ok == reflect.Slice || ok == reflect.Map) && orig.Len() == 0 {
			return nil
		}
		return at("value-became-nil", fmt.Sprintf("%s became nil", orig.Type()))
	}
	gk := got.Kind()
	switch {
	case isInt(ok) || isUint(ok):
		if !(isInt(gk) || isUint(gk)) {
			return at("int-kind", fmt.Sprintf("integer %s became %s", orig.Type(), got.Type()))
		}
		if bigOf(got).Cmp(bigOf(orig)) != 0 {
			code := "int-value"
			if isUint(ok) && orig.Uint() > math.MaxInt64 {
				code = "uint-above-maxint64"
			}
			return at(code, fmt.Sprintf("integer %s(%v) became %v", orig.Type(), orig.Interface(), got.Interface()))
		}
		return nil
	case isFloat(ok):
		if !isFloat(gk) {
			return at("float-kind", fmt.Sprintf("float %s became %s", orig.Type(), got.Type()))
		}
		if got.Float() != orig.Float() {
			return at("float-value", fmt.Sprintf("float %v became %v", orig.Interface(), got.Interface()))
		}
		return nil
	case ok == reflect.Bool:
		if gk != reflect.Bool || got.Bool() != orig.Bool() {
			return at("bool", fmt.Sprintf("bool %v became %v", orig.Interface(), got.Interface()))
		}
		return nil
	case ok == reflect.String:
		if gk != reflect.String || got.String() != orig.String() {
			return at("string", fmt.Sprintf("string %q became %s %q", orig.String(), got.Type(), fmt.Sprint(got.Interface())))
		}
		return nil
	case ok == reflect.Slice || ok == reflect.Array:
		if gk != reflect.Slice && gk != reflect.Array {
			return at("list-kind", fmt.Sprintf("%s became %s", orig.Type(), got.Type()))
		}
		if got.Len() != orig.Len() {
			return at("list-length", fmt.Sprintf("%s of length %d became length %d", orig.Type(), orig.Len(), got.Len()))
		}
		for i := 0; i < orig.Len(); i++ {
			if d := cmpC(got.Index(i), orig.Index(i), fmt.Sprintf("%s[%d]", path, i)); d != nil {
				return d
			}
		}
		return nil
	case ok == reflect.Map:
		if gk != reflect.Map || got.Type().Key().Kind() != reflect.String {
			return at("map-kind", fmt.Sprintf("%s became %s", orig.Type(), got.Type()))
		}
		keys := orig.MapKeys()
		sort.Slice(keys, func(i, j int) bool { return keys[i].String() < keys[j].String() })
		for _, k := range keys {
			gv := got.MapIndex(reflect.ValueOf(k.String()).Convert(got.Type().Key()))
			if !gv.IsValid() {
				if !strip(orig.MapIndex(k)).IsValid() {
					return at("map-key-with-nil-value-lost", fmt.Sprintf("key %q (nil value) lost", k.String()))
				}
				return at("map-key-lost", fmt.Sprintf("key %q lost", k.String()))
			}
			if d := cmpC(gv, orig.MapIndex(k), fmt.Sprintf("%s[%q]", path, k.String())); d != nil {
				return d
			}
		}
		if got.Len() != orig.Len() {
			return at("map-length", fmt.Sprintf("%s with %d keys became %d keys", orig.Type(), orig.Len(), got.Len()))
		}
		return nil
	case ok == reflect.Struct:
		if orig.Type() == timeType {
			if got.Type() != timeType {
				return at("time-kind", fmt.Sprintf("time.Time became %s", got.Type()))
			}
			if d := cmpTime(got, orig); d != "" {
				return at("time-value", d)
			}
			return nil
		}
		if gk != reflect.Struct {
			return at("struct-kind", fmt.Sprintf("%s became %s", orig.Type(), got.Type()))
		}
		for i := 0; i < orig.NumField(); i++ {
			f := orig.Type().Field(i)
			if !f.IsExported() {
				continue
			}
			gf := got.FieldByName(f.Name)
			if !gf.IsValid() {
				return at("field-lost", "field "+f.Name+" lost")
			}
			if d := cmpC(gf, orig.Field(i), path+"."+f.Name); d != nil {
				return d
			}
		}
		return nil
	}
	return at("unsupported", "unsupported kind "+ok.String())
}

func cmpTime(a, b reflect.Value) string {
	ta, tb := a.Interface().(time.Time), b.Interface().(time.Time)
	_, oa := ta.Zone()
	_, ob := tb.Zone()
	if !ta.Equal(tb) || oa != ob {
		return fmt.Sprintf("time %v became %v", tb, ta)
	}
	return ""
}

// sameTyped decides comparison (ii): `back` (a Go value produced by the typed path) equals the original.
// It is reflect.DeepEqual with three relaxations the statement does not exclude: a nil and an empty
// slice/map are equal, time.Time compares with Equal + zone offset, errors compare by identity or by
// (dynamic type, message). The static types must be identical. nil means equal.
func sameTyped(back, orig reflect.Value, path string) *diff {
	at := func(code, msg string) *diff {
		if path == "" {
			return &diff{code, msg}
		}
		return &diff{code, path + ": " + msg}
	}
	if !back.IsValid() {
		// an untyped nil handed back for a nilable original that is nil/empty
		switch orig.Kind() {
		case reflect.Pointer, reflect.Interface:
			if !strip(orig).IsValid() {
				return nil
			}
		case reflect.Slice, reflect.Map:
			if orig.Len() == 0 {
				return nil
			}
		}
		return at("value-became-nil", fmt.Sprintf("%s came back as untyped nil", orig.Type()))
	}
	if back.Type() != orig.Type() {
		return at("wrong-go-type("+wrongType(back.Type().String(), orig.Type().String())+")", fmt.Sprintf("type %s came back as %s", orig.Type(), back.Type()))
	}
	switch orig.Kind() {
	case reflect.Pointer:
		if orig.IsNil() || back.IsNil() {
			// the bridge flattens pointer chains: a chain that ends in nil at any depth is "nil" on both sides
			if strip(orig).IsValid() != strip(back).IsValid() {
				return at("nilness", fmt.Sprintf("nil-ness of %s changed (original nil: %v)", orig.Type(), orig.IsNil()))
			}
			return nil
		}
		return sameTyped(back.Elem(), orig.Elem(), path+"*")
	case reflect.Interface:
		if orig.IsNil() || back.IsNil() {
			if strip(orig).IsValid() != strip(back).IsValid() {
				return at("nilness", fmt.Sprintf("nil-ness of %s changed (original nil: %v)", orig.Type(), orig.IsNil()))
			}
			return nil
		}
		if oe, ok := isErrVal(orig); ok {
			be, ok := isErrVal(back)
			if ok && (be == oe || (reflect.TypeOf(be) == reflect.TypeOf(oe) && be.Error() == oe.Error())) {
				return nil
			}
			return at("error-identity", fmt.Sprintf("error %T(%q) came back as %T", oe, oe.Error(), back.Interface()))
		}
		// the target type is an interface: it does not determine the dynamic type, and script values do not
		// remember the width they came from (int(7) legitimately comes back as int64(7)): compare contents.
		return cmpC(back.Elem(), orig.Elem(), path)
	case reflect.Slice:
		if orig.Len() == 0 && back.Len() == 0 {
			return nil
		}
		fallthrough
	case reflect.Array:
		if back.Len() != orig.Len() {
			return at("list-length", fmt.Sprintf("length %d came back as %d", orig.Len(), back.Len()))
		}
		for i := 0; i < orig.Len(); i++ {
			if d := sameTyped(back.Index(i), orig.Index(i), fmt.Sprintf("%s[%d]", path, i)); d != nil {
				return d
			}
		}
		return nil
	case reflect.Map:
		keys := orig.MapKeys()
		sort.Slice(keys, func(i, j int) bool { return keys[i].String() < keys[j].String() })
		for _, k := range keys {
			bv := back.MapIndex(k)
			if !bv.IsValid() {
				if !strip(orig.MapIndex(k)).IsValid() {
					return at("map-key-with-nil-value-lost", fmt.Sprintf("key %q (nil value) lost", k.String()))
				}
				return at("map-key-lost", fmt.Sprintf("key %q lost", k.String()))
			}
			if d := sameTyped(bv, orig.MapIndex(k), fmt.Sprintf("%s[%q]", path, k.String())); d != nil {
				return d
			}
		}
		if back.Len() != orig.Len() {
			return at("map-length", fmt.Sprintf("%d keys came back as %d", orig.Len(), back.Len()))
		}
		return nil
	case reflect.Struct:
		if orig.Type() == timeType {
			if d := cmpTime(back, orig); d != "" {
				return at("time-value", d)
			}
			return nil
		}
		for i := 0; i < orig.NumField(); i++ {
			if !orig.Type().Field(i).IsExported() {
				continue
			}
			if d := sameTyped(back.Field(i), orig.Field(i), path+"."+orig.Type().Field(i).Name); d != nil {
				return d
			}
		}
		return nil
	default:
		if !reflect.DeepEqual(back.Interface(), orig.Interface()) {
			code := "value"
			if isUint(orig.Kind()) && orig.Uint() > math.MaxInt64 {
				code = "uint-above-maxint64"
			}
			return at(code, fmt.Sprintf("%s(%v) came back as %v", orig.Type(), orig.Interface(), back.Interface()))
		}
		return nil
	}
}
