package c08

import (
	"reflect"
	"time"
)

// recorder is what a method holder writes the received argument to. It is reached through an
// unexported field so that the bridge sees a type with exactly one attribute: the method Echo.
type recorder struct {
	calls int
	got   reflect.Value
}

// H is the method holder: Echo receives a T from the script and returns it.
type H[T any] struct{ rec *recorder }

func (h *H[T]) Echo(v T) T {
	h.rec.calls++
	p := reflect.New(reflect.TypeOf((*T)(nil)).Elem())
	p.Elem().Set(reflect.ValueOf(&v).Elem())
	h.rec.got = p.Elem()
	return v
}

type holderFactory func() (holder any, rec *recorder)

var holders = map[reflect.Type]holderFactory{}
var holderOrder []reflect.Type

func reg[T any]() {
	t := reflect.TypeOf((*T)(nil)).Elem()
	if _, dup := holders[t]; dup {
		return
	}
	holders[t] = func() (any, *recorder) {
		r := &recorder{}
		return &H[T]{rec: r}, r
	}
	holderOrder = append(holderOrder, t)
}

func init() {
	// every leaf type
	reg[bool]()
	reg[int]()
	reg[int8]()
	reg[int16]()
	reg[int32]()
	reg[int64]()
	reg[uint]()
	reg[uint8]()
	reg[uint16]()
	reg[uint32]()
	reg[uint64]()
	reg[float32]()
	reg[float64]()
	reg[string]()
	reg[NBool]()
	reg[NInt]()
	reg[NInt8]()
	reg[NInt16]()
	reg[NInt32]()
	reg[NInt64]()
	reg[NUint]()
	reg[NUint8]()
	reg[NUint16]()
	reg[NUint32]()
	reg[NUint64]()
	reg[NFloat32]()
	reg[NFloat64]()
	reg[NString]()
	reg[time.Time]()
	reg[time.Duration]()
	reg[[]byte]()
	reg[error]()
	reg[any]() // also serves every iface(T) spec: the parameter type is `any`, the argument a T
	reg[NBytes]()
	reg[NInts]()
	reg[NMap]()
	reg[NStruct]()
	reg[map[NString]int]()

	// depth 1: every constructor over int, and a spread of other element types
	reg[*int]()
	reg[[]int]()
	reg[[2]int]()
	reg[map[string]int]()
	reg[struct{ F int }]()
	reg[*uint64]()
	reg[[]uint64]()
	reg[*string]()
	reg[[]string]()
	reg[map[string]string]()
	reg[*float32]()
	reg[[]float32]()
	reg[[]float64]()
	reg[*bool]()
	reg[[]bool]()
	reg[*NInt]()
	reg[[]NInt]()
	reg[[2]NInt]()
	reg[map[string]NInt]()
	reg[struct{ F NInt }]()
	reg[*NString]()
	reg[[]NString]()
	reg[*time.Duration]()
	reg[[]time.Duration]()
	reg[map[string]time.Duration]()
	reg[*time.Time]()
	reg[[]time.Time]()
	reg[map[string]time.Time]()
	reg[struct{ F time.Time }]()
	reg[*[]byte]()
	reg[[][]byte]()
	reg[[]error]()
	reg[[]any]()
	reg[[2]any]()
	reg[map[string]any]()
	reg[struct{ F any }]()
	reg[*NStruct]()
	reg[[]NStruct]()
	reg[map[string]NStruct]()
	reg[*NInts]()
	reg[*NMap]()

	// depth 2
	reg[**int]()
	reg[*[]int]()
	reg[[]*int]()
	reg[[][]int]()
	reg[[][2]int]()
	reg[[2][]int]()
	reg[map[string]*int]()
	reg[map[string][]int]()
	reg[[]map[string]int]()
	reg[*map[string]int]()
	reg[*struct{ F int }]()
	reg[[]struct{ F int }]()
	reg[[]*struct{ F int }]()
	reg[map[string]struct{ F int }]()
	reg[struct{ F *int }]()
	reg[struct{ F []int }]()
	reg[struct{ F map[string]int }]()
	reg[struct{ F struct{ F int } }]()
	reg[[]*NInt]()
	reg[[]*time.Duration]()
	reg[[]*NStruct]()
	reg[map[string][]any]()
	reg[[]map[string]any]()

	// depth 3
	reg[[]*[]int]()
	reg[map[string][]*int]()
	reg[*[]*int]()
	reg[[][]*struct{ F int }]()
	reg[struct{ F []*int }]()
	reg[[]map[string][]int]()
}
