package c08

import (
	"errors"
	"fmt"
	"math"
	"reflect"
	"time"
)

// Named twins of the 14 basic kinds, and a few named composites.
type (
	NBool    bool
	NInt     int
	NInt8    int8
	NInt16   int16
	NInt32   int32
	NInt64   int64
	NUint    uint
	NUint8   uint8
	NUint16  uint16
	NUint32  uint32
	NUint64  uint64
	NFloat32 float32
	NFloat64 float64
	NString  string

	NBytes  []byte
	NInts   []int
	NMap    map[string]int
	NStruct struct{ A int }

	// types that contain themselves: through containers only (no converter can be built by building the
	// element's first), and through a struct (which the bridge registers before it looks at the fields)
	RecSlice []RecSlice
	RecMap   map[string]RecMap
	RecArr   []*[1]RecArr
	RecNode  struct {
		N    int
		Next *RecNode
		Kids []RecNode
	}
)

// MyErr is an error with contents, so that "the same error came back" is observable.
type MyErr struct{ Code int }

func (e *MyErr) Error() string { return fmt.Sprintf("myerr %d", e.Code) }

var (
	anyType   = reflect.TypeOf((*any)(nil)).Elem()
	errorType = reflect.TypeOf((*error)(nil)).Elem()
	timeType  = reflect.TypeOf(time.Time{})
	strType   = reflect.TypeOf("")
)

// namedVal is one value of a type, with a stable name used in replay files.
type namedVal struct {
	name string
	v    reflect.Value // of the static type of the spec
}

// spec is one enumerated Go type: a leaf, or a constructor applied to a spec.
type spec struct {
	path  string // e.g. "ptr(slice(NInt))"
	ctor  string // "" for leaves, else ptr|slice|array|map|struct|iface
	elem  *spec
	t     reflect.Type // static type (any for iface(T))
	depth int
	leaf  *leaf
}

type leaf struct {
	name  string
	class string // basic | named-basic | duration | time | bytes | named-composite | named-key-map | error | any
	t     reflect.Type
	vals  []namedVal
}

var ctors = []string{"ptr", "slice", "array", "map", "struct", "iface"}

func mk[T any](class, name string, names []string, vs ...T) *leaf {
	l := &leaf{name: name, class: class, t: reflect.TypeOf((*T)(nil)).Elem()}
	for i, v := range vs {
		rv := reflect.New(l.t).Elem()
		if any(v) != nil {
			rv.Set(reflect.ValueOf(v))
		}
		l.vals = append(l.vals, namedVal{names[i], rv})
	}
	return l
}

var (
	zmmo = []string{"zero", "min", "max", "ord"}
	zmo  = []string{"zero", "max", "ord"}
)

var errBoom = errors.New("boom")

func leaves() []*leaf {
	fz := time.FixedZone("X", 3600)
	return []*leaf{
		mk("basic", "bool", []string{"zero", "max"}, false, true),
		mk("basic", "int", zmmo, int(0), math.MinInt, math.MaxInt, -7),
		mk("basic", "int8", zmmo, int8(0), math.MinInt8, math.MaxInt8, -7),
		mk("basic", "int16", zmmo, int16(0), math.MinInt16, math.MaxInt16, -7),
		mk("basic", "int32", zmmo, int32(0), math.MinInt32, math.MaxInt32, -7),
		mk("basic", "int64", zmmo, int64(0), math.MinInt64, math.MaxInt64, -7),
		mk("basic", "uint", zmo, uint(0), math.MaxUint, 7),
		mk("basic", "uint8", zmo, uint8(0), math.MaxUint8, 9), // == byte
		mk("basic", "uint16", zmo, uint16(0), math.MaxUint16, 7),
		mk("basic", "uint32", zmo, uint32(0), math.MaxUint32, 7),
		mk("basic", "uint64", zmo, uint64(0), math.MaxUint64, 7),
		mk("basic", "float32", []string{"zero", "min", "max", "ord", "tiny"}, float32(0), -math.MaxFloat32, math.MaxFloat32, 1.5, math.SmallestNonzeroFloat32),
		mk("basic", "float64", []string{"zero", "min", "max", "ord", "tiny"}, float64(0), -math.MaxFloat64, math.MaxFloat64, -0.25, math.SmallestNonzeroFloat64),
		mk("basic", "string", []string{"zero", "ord", "raw"}, "", "héllo", "\xff\x00z"),

		mk("named-basic", "NBool", []string{"zero", "max"}, NBool(false), true),
		mk("named-basic", "NInt", zmmo, NInt(0), math.MinInt, math.MaxInt, -7),
		mk("named-basic", "NInt8", zmmo, NInt8(0), math.MinInt8, math.MaxInt8, -7),
		mk("named-basic", "NInt16", zmmo, NInt16(0), math.MinInt16, math.MaxInt16, -7),
		mk("named-basic", "NInt32", zmmo, NInt32(0), math.MinInt32, math.MaxInt32, -7),
		mk("named-basic", "NInt64", zmmo, NInt64(0), math.MinInt64, math.MaxInt64, -7),
		mk("named-basic", "NUint", zmo, NUint(0), math.MaxUint, 7),
		mk("named-basic", "NUint8", zmo, NUint8(0), math.MaxUint8, 9),
		mk("named-basic", "NUint16", zmo, NUint16(0), math.MaxUint16, 7),
		mk("named-basic", "NUint32", zmo, NUint32(0), math.MaxUint32, 7),
		mk("named-basic", "NUint64", zmo, NUint64(0), math.MaxUint64, 7),
		mk("named-basic", "NFloat32", zmmo, NFloat32(0), -math.MaxFloat32, math.MaxFloat32, 1.5),
		mk("named-basic", "NFloat64", zmmo, NFloat64(0), -math.MaxFloat64, math.MaxFloat64, -0.25),
		mk("named-basic", "NString", []string{"zero", "ord"}, NString(""), "héllo"),

		mk("time", "time.Time", []string{"zero", "ord", "max", "zone"}, time.Time{}, time.Unix(1700000000, 123456789).UTC(),
			time.Date(9999, 12, 31, 23, 59, 59, 0, time.UTC), time.Date(2001, 2, 3, 4, 5, 6, 7, fz)),
		mk("duration", "time.Duration", zmmo, time.Duration(0), math.MinInt64, math.MaxInt64, 1500),
		mk("bytes", "[]byte", []string{"nil", "empty", "ord", "max"}, []byte(nil), []byte{}, []byte("ab"), []byte{0, 255}),
		mk("error", "error", []string{"nil", "ord", "max"}, error(nil), errBoom, error(&MyErr{Code: 3})),
		mk("any", "any", []string{"nil", "ord", "max"}, any(nil), any(7), any("s")),

		mk("named-composite", "NBytes", []string{"nil", "ord"}, NBytes(nil), NBytes("xy")),
		mk("named-composite", "NInts", []string{"nil", "ord"}, NInts(nil), NInts{1, -2}),
		mk("named-composite", "NMap", []string{"nil", "ord"}, NMap(nil), NMap{"k": 1}),
		mk("named-composite", "NStruct", []string{"zero", "ord"}, NStruct{}, NStruct{A: 4}),
		mk("recursive", "RecSlice", []string{"nil", "ord"}, RecSlice(nil), RecSlice{nil, RecSlice{}}),
		mk("recursive", "RecMap", []string{"nil", "ord"}, RecMap(nil), RecMap{"k": RecMap{}}),
		mk("recursive", "RecArr", []string{"nil", "ord"}, RecArr(nil), RecArr{nil}),
		mk("recursive", "RecNode", []string{"zero", "ord"}, RecNode{}, RecNode{N: 1, Next: &RecNode{N: 2}, Kids: []RecNode{{N: 3}}}),
		// a string-keyed map whose key type is a named string (kind String, so the bridge accepts the type)
		mk("named-key-map", "map[NString]int", []string{"nil", "ord"}, map[NString]int(nil), map[NString]int{"k": 1}),
	}
}

func leafSpec(l *leaf) *spec { return &spec{path: l.name, t: l.t, leaf: l} }

func wrapSpec(ctor string, e *spec) *spec {
	s := &spec{path: ctor + "(" + e.path + ")", ctor: ctor, elem: e, depth: e.depth + 1}
	switch ctor {
	case "ptr":
		s.t = reflect.PointerTo(e.t)
	case "slice":
		s.t = reflect.SliceOf(e.t)
	case "array":
		s.t = reflect.ArrayOf(2, e.t)
	case "map":
		s.t = reflect.MapOf(strType, e.t)
	case "struct":
		s.t = reflect.StructOf([]reflect.StructField{{Name: "F", Type: e.t}})
	case "iface":
		s.t = anyType
	}
	return s
}

// allSpecs enumerates every type with at most maxDepth constructors, leaves first, in a fixed order.
func allSpecs(maxDepth int) []*spec {
	var out []*spec
	level := []*spec{}
	for _, l := range leaves() {
		level = append(level, leafSpec(l))
	}
	out = append(out, level...)
	for d := 1; d <= maxDepth; d++ {
		var next []*spec
		for _, e := range level {
			for _, c := range ctors {
				next = append(next, wrapSpec(c, e))
			}
		}
		out = append(out, next...)
		level = next
	}
	return out
}

// specByPath rebuilds one spec from its path (replay).
func specByPath(path string) (*spec, error) {
	for _, c := range ctors {
		p := c + "("
		if len(path) > len(p) && path[:len(p)] == p && path[len(path)-1] == ')' {
			e, err := specByPath(path[len(p) : len(path)-1])
			if err != nil {
				return nil, err
			}
			return wrapSpec(c, e), nil
		}
	}
	for _, l := range leaves() {
		if l.name == path {
			return leafSpec(l), nil
		}
	}
	return nil, fmt.Errorf("unknown type path %q", path)
}

// values enumerates the values of a spec: zero, nil where legal, and one wrapping of every value of the element type.
func (s *spec) values() []namedVal {
	if s.leaf != nil {
		return s.leaf.vals
	}
	ev := s.elem.values()
	var out []namedVal
	add := func(n string, v reflect.Value) { out = append(out, namedVal{n, v}) }
	switch s.ctor {
	case "ptr":
		add("nil", reflect.Zero(s.t))
		for _, e := range ev {
			p := reflect.New(s.elem.t)
			p.Elem().Set(e.v)
			add("&"+e.name, p)
		}
	case "slice":
		add("nil", reflect.Zero(s.t))
		add("empty", reflect.MakeSlice(s.t, 0, 0))
		for _, e := range ev {
			sl := reflect.MakeSlice(s.t, 2, 2)
			sl.Index(0).Set(e.v)
			add("["+e.name+",0]", sl)
		}
	case "array":
		for _, e := range ev {
			a := reflect.New(s.t).Elem()
			a.Index(0).Set(e.v)
			add("["+e.name+",0]", a)
		}
	case "map":
		add("nil", reflect.Zero(s.t))
		add("empty", reflect.MakeMap(s.t))
		for _, e := range ev {
			m := reflect.MakeMap(s.t)
			m.SetMapIndex(reflect.ValueOf("k"), e.v)
			add("{k:"+e.name+"}", m)
		}
	case "struct":
		for _, e := range ev {
			st := reflect.New(s.t).Elem()
			st.Field(0).Set(e.v)
			add("{F:"+e.name+"}", st)
		}
	case "iface":
		add("nil", reflect.Zero(s.t))
		for _, e := range ev {
			b := reflect.New(s.t).Elem()
			if e.v.Kind() == reflect.Interface {
				if !e.v.IsNil() {
					b.Set(e.v.Elem())
				}
			} else {
				b.Set(e.v)
			}
			add("<"+e.name+">", b)
		}
	}
	return out
}

// leafOf returns the leaf at the bottom of the constructor chain.
func (s *spec) leafOf() *leaf {
	for s.leaf == nil {
		s = s.elem
	}
	return s.leaf
}

// ctorChain returns the constructors outermost first, e.g. "ptr.slice".
func (s *spec) ctorChain() string {
	out := ""
	for s.leaf == nil {
		if out != "" {
			out += "."
		}
		out += s.ctor
		s = s.elem
	}
	if out == "" {
		return "leaf"
	}
	return out
}
