package c08

import (
	"fmt"
	"reflect"

	"github.com/risor-io/risor/object"
)

// Struct refill: a script map converted to a Go struct value sets the fields it names and leaves
// the others at their zero value, whatever was converted before - also when the conversion
// before it was rejected half way. The converter walks the script map in Go map order, so the
// check owns that order (map seam): for every order of the three keys a map with two fitting
// fields and one ill-typed field goes to a method taking the struct (rejected, or accepted with
// exactly those fields), then a map that names one field only. Accepted outcomes for the second
// call: a clean rejection, or exactly {Y: 5}.

// NPair is the three-field struct of the refill histories.
type NPair struct {
	X     int
	Label string
	Y     int
}

func init() {
	reg[NPair]()
	reg[[]NPair]()
}

func perms3() [][]int {
	return [][]int{{0, 1, 2}, {0, 2, 1}, {1, 0, 2}, {1, 2, 0}, {2, 0, 1}, {2, 1, 0}}
}

func (a *acc) routeStructRefill() {
	mp := func(kv ...any) object.Object {
		m := map[string]object.Object{}
		for i := 0; i+1 < len(kv); i += 2 {
			m[kv[i].(string)] = kv[i+1].(object.Object)
		}
		return object.NewMap(m)
	}
	bad := func() object.Object {
		return mp("X", object.NewInt(7), "Label", object.NewString("stale"), "Y", object.NewString("not a number"))
	}
	good := func() object.Object { return mp("Y", object.NewInt(5)) }
	want := reflect.ValueOf(NPair{Y: 5})
	for _, sliceForm := range []bool{false, true} {
		t := reflect.TypeOf(NPair{})
		if sliceForm {
			t = reflect.TypeOf([]NPair{})
		}
		mk, ok := holders[t]
		if !ok {
			continue
		}
		for _, p := range perms3() {
			in := caseIn{Route: "struct-refill", Type: t.String(), Value: fmt.Sprint(p)}
			wrap := func(o object.Object) object.Object {
				if sliceForm {
					return list(o)
				}
				return o
			}
			h, rec := mk()
			setStructOrder(p)
			a.Evals++
			o1 := eval("h.Echo(p)", map[string]any{"h": h, "p": wrap(bad())})
			setStructOrder(nil)
			if kind, text := o1.failure(); kind == "panic" || kind == "vmpanic" {
				a.fail(in, nil, kind, "method-arg", panicClass(text), "a map with an ill-typed field passed to a method taking "+t.String()+" panicked", text, "the value converted, or an error")
				continue
			}
			h2, rec2 := mk()
			_ = rec
			a.Evals++
			o2 := eval("h.Echo(p)", map[string]any{"h": h2, "p": wrap(good())})
			kind, text := o2.failure()
			switch {
			case kind == "panic" || kind == "vmpanic":
				a.fail(in, nil, kind, "method-arg", panicClass(text), "a one-field map passed to a method taking "+t.String()+" panicked", text, "the value converted, or an error")
			case kind != "":
				a.Counts["struct-refill|rejected"]++
			default:
				got := rec2.got
				if sliceForm && got.IsValid() && got.Kind() == reflect.Slice && got.Len() == 1 {
					got = got.Index(0)
				}
				if !got.IsValid() || !reflect.DeepEqual(got.Interface(), want.Interface()) {
					a.Counts["struct-refill|stale-fields"]++
					a.fail(in, nil, "altered", "struct-refill", "fields-of-an-earlier-conversion", fmt.Sprintf("after a rejected conversion of {X: 7, Label: \"stale\", Y: \"not a number\"} (fields visited in order %v), `h.Echo({\"Y\": 5})` handed Go a struct with other fields set", p),
						"Go received "+showV(got), showV(want)+", or an error")
				} else {
					a.Counts["struct-refill|ok"]++
				}
			}
		}
		// two ill-typed fields: the call is refused (or not) in the same words whichever field the converter meets first
		first := ""
		for pi, p := range perms3() {
			in := caseIn{Route: "struct-refill", Type: t.String(), Value: "two-bad " + fmt.Sprint(p)}
			two := mp("X", object.NewString("x is not a number"), "Label", object.NewString("fine"), "Y", list(object.NewInt(1)))
			if sliceForm {
				two = list(two)
			}
			h, _ := mk()
			setStructOrder(p)
			a.Evals++
			o := eval("h.Echo(p)", map[string]any{"h": h, "p": two})
			setStructOrder(nil)
			kind, text := o.failure()
			if kind == "panic" || kind == "vmpanic" {
				a.fail(in, nil, kind, "method-arg", panicClass(text), "a map with two ill-typed fields passed to a method taking "+t.String()+" panicked", text, "the value converted, or an error")
				break
			}
			outcome := kind + ": " + text
			if pi == 0 {
				first = outcome
			} else if outcome != first {
				a.fail(in, nil, "altered", "struct-refill", "error-follows-map-order", fmt.Sprintf("a map with two ill-typed fields passed to a method taking %s: the outcome depends on the order in which the fields are visited (order %v)", t.String(), p), outcome, first)
				break
			}
			a.Counts["struct-refill|two-bad|"+kind]++
		}
	}
}
