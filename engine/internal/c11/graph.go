package c11

import (
	"fmt"
	"reflect"
	"runtime"
	"sort"
	"strings"
	"unsafe"

	"github.com/risor-io/risor/object"
)

// ---------------------------------------------------------------- fingerprints

// fnName names the Go function behind a builtin (symbol name, never an address).
func fnName(fn object.BuiltinFunction) string {
	if fn == nil {
		return "nil"
	}
	f := runtime.FuncForPC(reflect.ValueOf(fn).Pointer())
	if f == nil {
		return "?"
	}
	return f.Name()
}

// fp is the identity of an object across separately built configurations:
// builtins by (registered key, Go function), modules by name, everything else
// by (type, printed value).
func fp(o object.Object) (s string) {
	defer func() {
		if e := recover(); e != nil {
			s = fmt.Sprintf("panic-in-fingerprint|%T", o)
		}
	}()
	if o == nil {
		return "<nil>"
	}
	switch v := o.(type) {
	case *object.Builtin:
		return "builtin|" + v.Key() + "|" + fnName(v.Value())
	case *object.Module:
		return "module|" + v.Name().Value()
	}
	s = o.Inspect()
	if len(s) > 160 {
		s = s[:160]
	}
	return string(o.Type()) + "|" + s
}

func isPtr(o object.Object) bool {
	return o != nil && reflect.ValueOf(o).Kind() == reflect.Ptr
}

// moduleMembers lists the attribute names a module registers (its builtins
// table and its globals index). The tables are unexported; they are read, never written.
func moduleMembers(m *object.Module) ([]string, error) {
	v := reflect.ValueOf(m).Elem()
	var out []string
	for _, f := range []string{"builtins", "globalsIndex"} {
		fv := v.FieldByName(f)
		if !fv.IsValid() || fv.Kind() != reflect.Map {
			return nil, fmt.Errorf("object.Module has no map field %q (layout changed)", f)
		}
		fv = reflect.NewAt(fv.Type(), unsafe.Pointer(fv.UnsafeAddr())).Elem()
		for _, k := range fv.MapKeys() {
			out = append(out, k.String())
		}
	}
	sort.Strings(out)
	return out, nil
}

// moduleHook names the Go function a module runs when the module itself is called (regexp("a+")), "" if it is not
// callable. The field is unexported; it is read, never written.
func moduleHook(m *object.Module) string {
	fv := reflect.ValueOf(m).Elem().FieldByName("callable")
	if !fv.IsValid() || fv.Kind() != reflect.Func || fv.IsNil() {
		return ""
	}
	f := runtime.FuncForPC(fv.Pointer())
	if f == nil {
		return "?"
	}
	return f.Name()
}

// ---------------------------------------------------------------- object graph

type gnode struct {
	obj   object.Object
	path  string // shortest access path in script syntax (a.b.c)
	fp    string
	synth bool            // synthesised on every access: merged on fingerprint, not expanded
	root  string          // global name when the node is a root
	names map[string]bool // registered names (global name, module.member) under which it is reached
	out   map[string]int
}

type gedge struct {
	from int
	attr string
	to   int
}

type graph struct {
	nodes  []*gnode
	edges  []gedge
	trans  int
	ptr    map[object.Object]int
	syn    map[string]int
	roots  map[string]int
	panics []string
	capped bool // more than maxNodes objects: expansion stopped (the closure is not a fixpoint)
}

const maxNodes = 200_000

func safeGetAttr(o object.Object, name string) (a object.Object, ok bool, panicked string) {
	defer func() {
		if e := recover(); e != nil {
			a, ok, panicked = nil, false, fmt.Sprint(e)
		}
	}()
	a, ok = o.GetAttr(name)
	return a, ok, ""
}

// buildGraph computes the closure of the objects reachable from globals under
// GetAttr over the alphabet. Breadth first, roots and attribute names in sorted
// order, so shortest paths are the same on every run.
func buildGraph(globals map[string]any, alphabet []string) *graph {
	g := &graph{ptr: map[object.Object]int{}, syn: map[string]int{}, roots: map[string]int{}}
	add := func(o object.Object, path string, synth bool) (int, bool) {
		if synth || !isPtr(o) {
			k := fp(o)
			if i, ok := g.syn[k]; ok {
				return i, false
			}
			g.nodes = append(g.nodes, &gnode{obj: o, path: path, fp: k, synth: true, names: map[string]bool{}})
			g.syn[k] = len(g.nodes) - 1
			return len(g.nodes) - 1, true
		}
		if i, ok := g.ptr[o]; ok {
			return i, false
		}
		g.nodes = append(g.nodes, &gnode{obj: o, path: path, fp: fp(o), names: map[string]bool{}, out: map[string]int{}})
		g.ptr[o] = len(g.nodes) - 1
		return len(g.nodes) - 1, true
	}
	var keys []string
	for k := range globals {
		keys = append(keys, k)
	}
	sort.Strings(keys)
	var queue []int
	for _, k := range keys {
		o, ok := globals[k].(object.Object)
		if !ok {
			o = object.FromGoType(globals[k])
			if o == nil {
				continue
			}
		}
		i, fresh := add(o, k, false)
		g.roots[k] = i
		g.nodes[i].names[k] = true
		if g.nodes[i].root == "" {
			g.nodes[i].root = k
		}
		if fresh {
			queue = append(queue, i)
		}
	}
	for len(queue) > 0 {
		i := queue[0]
		queue = queue[1:]
		n := g.nodes[i]
		if n.synth {
			continue
		}
		if len(g.nodes) > maxNodes {
			g.capped = true
			break
		}
		mod, isMod := n.obj.(*object.Module)
		for _, name := range alphabet {
			a, ok, pan := safeGetAttr(n.obj, name)
			if pan != "" {
				g.panics = append(g.panics, n.path+"."+name+": "+pan)
				continue
			}
			if !ok || a == nil {
				continue
			}
			g.trans++
			synth := true
			if isPtr(a) {
				b, ok2, _ := safeGetAttr(n.obj, name)
				synth = !ok2 || !isPtr(b) || a != b
			}
			j, fresh := add(a, n.path+"."+name, synth)
			g.edges = append(g.edges, gedge{i, name, j})
			n.out[name] = j
			if isMod && !strings.HasPrefix(name, "__") {
				reg := mod.Name().Value()
				if n.root != "" {
					reg = n.root
				}
				g.nodes[j].names[reg+"."+name] = true
			}
			if fresh && !g.nodes[j].synth {
				queue = append(queue, j)
			}
		}
	}
	return g
}

// resolve follows a registered name (global or global.member) from the roots.
func (g *graph) resolve(name string) (*gnode, bool) {
	parts := strings.SplitN(name, ".", 2)
	i, ok := g.roots[parts[0]]
	if !ok {
		return nil, false
	}
	if len(parts) == 1 {
		return g.nodes[i], true
	}
	j, ok := g.nodes[i].out[parts[1]]
	if !ok {
		return nil, false
	}
	return g.nodes[j], true
}

// signature is the set of (access path, fingerprint) pairs of the closure, sorted.
func (g *graph) signature() []string {
	var out []string
	for k, i := range g.roots {
		out = append(out, k+"\t"+g.nodes[i].fp)
	}
	for _, e := range g.edges {
		out = append(out, g.nodes[e.from].path+"."+e.attr+"\t"+g.nodes[e.to].fp)
	}
	sort.Strings(out)
	return out
}

func diffSig(want, got []string) string {
	w := map[string]bool{}
	for _, s := range want {
		w[s] = true
	}
	gm := map[string]bool{}
	for _, s := range got {
		gm[s] = true
	}
	var d []string
	for _, s := range want {
		if !gm[s] {
			d = append(d, "missing "+strings.ReplaceAll(s, "\t", " = "))
		}
	}
	for _, s := range got {
		if !w[s] {
			d = append(d, "extra "+strings.ReplaceAll(s, "\t", " = "))
		}
	}
	if len(d) > 6 {
		d = append(d[:6], fmt.Sprintf("... %d differences", len(d)))
	}
	return strings.Join(d, "; ")
}
