//go:build mapseam

package c11

import (
	"github.com/risor-io/risor/object"

	"fmt"
	"strings"
	"sync"

	"github.com/risor-io/risor/vseam"

	"verif/internal/gid"
)

// The harness owns Go's map iteration order: tools/mapseam rewrites every range over a Go map in
// risor's packages into a range over vseam.Range*(site, m) (build overlay, /repo untouched). The
// base order of every site is the sorted key order; a construction may deviate at one dynamic site.

const ownedOrders = true

type dynSite struct {
	Site string
	N    int
}

type orderRunner struct {
	record bool
	sites  []dynSite
	dev    map[int][]int // dynamic site index -> permutation of the base order
	cursor int
}

// runners maps a goroutine to the runner that decides the orders of the map ranges it executes;
// goroutines without a runner (the oracles, the other phases) get the base order.
var runners sync.Map

func init() {
	vseam.Choose = func(site string, n int, ranked bool) []int {
		v, ok := runners.Load(gid.Get())
		if !ok {
			return nil
		}
		rn := v.(*orderRunner)
		i := rn.cursor
		rn.cursor++
		if rn.record {
			rn.sites = append(rn.sites, dynSite{site, n})
			return nil
		}
		if p, ok := rn.dev[i]; ok && len(p) == n {
			return p
		}
		return nil
	}
}

func withRunner(rn *orderRunner, f func()) {
	g := gid.Get()
	runners.Store(g, rn)
	defer runners.Delete(g)
	f()
}

// orderDev is one assignment of iteration orders to the map ranges a construction executes.
type orderDev struct {
	Dev  map[int][]int `json:"deviating_dynamic_sites,omitempty"`
	Site string        `json:"site,omitempty"`
}

func (d orderDev) String() string {
	if d.Dev == nil {
		return "base order at every map range"
	}
	return fmt.Sprintf("order %v at map range %s", d.Dev, d.Site)
}

// buildOrders constructs the configuration once in the base order, recording the dynamic map
// ranges it executes, and returns the base order followed by every single-site deviation:
// every permutation for up to 4 keys; above that the reverse order (thorough: also three rotations and the two boundary swaps).
func (c cfgSpec) buildOrders(thorough bool) (devs []orderDev, sites int) {
	rn := &orderRunner{record: true}
	withRunner(rn, func() { c.build() })
	devs = []orderDev{{}}
	for si, s := range rn.sites {
		alts := alternatives(s.N, thorough)
		if !thorough && !strings.HasPrefix(s.Site, "./risor_") && len(alts) > 1 {
			alts = alts[len(alts)-1:] // quick: outside the configuration code itself only the reverse order
		}
		for _, alt := range alts {
			devs = append(devs, orderDev{map[int][]int{si: alt}, s.Site})
		}
	}
	return devs, len(rn.sites)
}

// buildWith constructs the configuration with the given orders.
func (c cfgSpec) buildWith(d orderDev) (cfg *risorConfig, globals map[string]any, repl object.Object, panicked string) {
	withRunner(&orderRunner{dev: d.Dev}, func() {
		cfg, globals, repl, panicked = c.build()
	})
	return
}

func alternatives(n int, thorough bool) [][]int {
	id := make([]int, n)
	for i := range id {
		id[i] = i
	}
	var out [][]int
	add := func(p []int) {
		same := true
		for i := range p {
			if p[i] != i {
				same = false
			}
		}
		if same {
			return
		}
		for _, q := range out {
			if fmt.Sprint(q) == fmt.Sprint(p) {
				return
			}
		}
		out = append(out, p)
	}
	if n <= 1 {
		return nil
	}
	if n <= 4 {
		var rec func(cur []int, used []bool)
		rec = func(cur []int, used []bool) {
			if len(cur) == n {
				add(append([]int{}, cur...))
				return
			}
			for i := 0; i < n; i++ {
				if !used[i] {
					used[i] = true
					rec(append(cur, i), used)
					used[i] = false
				}
			}
		}
		rec(nil, make([]bool, n))
		return out
	}
	rev := make([]int, n)
	for i := range rev {
		rev[i] = n - 1 - i
	}
	add(rev)
	if !thorough {
		return out // quick: larger maps (module tables) only reversed
	}
	rot := func(k int) []int {
		p := make([]int, n)
		for i := range p {
			p[i] = (i + k) % n
		}
		return p
	}
	add(rot(1))
	add(rot(n - 1))
	{
		add(rot(n / 2))
		sw := append([]int{}, id...)
		sw[0], sw[1] = sw[1], sw[0]
		add(sw)
		sw2 := append([]int{}, id...)
		sw2[n-1], sw2[n-2] = sw2[n-2], sw2[n-1]
		add(sw2)
	}
	return out
}
