package c11

import (
	"fmt"
	"sort"
	"strings"

	"github.com/risor-io/risor"
	"github.com/risor-io/risor/object"

	"verif/internal/ev"
)

// One host map, several configurations. A host that keeps its extra globals in one map and hands it to
// every configuration it builds (risor.WithGlobals(m)) must get independent configurations: what one of
// them adds (the default globals), removes (a denial) or replaces (an override) must show neither in
// the host's map nor in a configuration built from it later. Every ordered pair of configuration
// shapes over the same map, the map handed over as the first and as a later option.

type sharedShape struct {
	Name string
	Opts func(m map[string]any, first bool) []risor.Option
}

func sharedShapes() []sharedShape {
	with := func(m map[string]any, first bool, rest ...risor.Option) []risor.Option {
		if first {
			return append([]risor.Option{risor.WithGlobals(m)}, rest...)
		}
		return append(rest, risor.WithGlobals(m))
	}
	return []sharedShape{
		{"default+map", func(m map[string]any, f bool) []risor.Option { return with(m, f) }},
		{"no-defaults+map", func(m map[string]any, f bool) []risor.Option { return with(m, f, risor.WithoutDefaultGlobals()) }},
		{"deny-os+map", func(m map[string]any, f bool) []risor.Option { return with(m, f, risor.WithoutGlobal("os")) }},
		{"deny-json.marshal+map", func(m map[string]any, f bool) []risor.Option {
			return with(m, f, risor.WithoutGlobal("json.marshal"))
		}},
		{"override-len+map", func(m map[string]any, f bool) []risor.Option {
			return with(m, f, risor.WithGlobalOverride("len", object.NewBuiltin("c11_replacement", noop)))
		}},
	}
}

func globalsSig(g map[string]any) string {
	var ks []string
	for k, v := range g {
		s := k
		if o, ok := v.(object.Object); ok {
			s += "=" + fp(o)
			if m, ok := o.(*object.Module); ok {
				// members of a module, one level
				for _, a := range []string{"marshal", "exit", "getenv"} {
					if x, ok := m.GetAttr(a); ok {
						s += "," + a + ":" + fp(x)
					}
				}
			}
		}
		ks = append(ks, s)
	}
	sort.Strings(ks)
	return strings.Join(ks, " ")
}

func sharedHostMap(r *ev.Run) {
	shapes := sharedShapes()
	host := func() map[string]any {
		return map[string]any{"c11_host": object.NewBuiltin("c11_host", noop)}
	}
	n := 0
	for _, first := range []bool{true, false} {
		// what each shape gives on a map of its own
		alone := map[string]string{}
		for _, s := range shapes {
			alone[s.Name] = globalsSig(risor.NewConfig(s.Opts(host(), first)...).Globals())
		}
		for _, a := range shapes {
			for _, b := range shapes {
				m := host()
				before := globalsSig(m)
				ga := globalsSig(risor.NewConfig(a.Opts(m, first)...).Globals())
				gb := globalsSig(risor.NewConfig(b.Opts(m, first)...).Globals())
				ga2 := globalsSig(risor.NewConfig(a.Opts(m, first)...).Globals())
				n++
				r.Eval(1)
				in := map[string]any{"kind": "shared-host-map", "first": a.Name, "second": b.Name, "map_is_first_option": first}
				what := fmt.Sprintf("one host map handed to [%s] and then to [%s] (WithGlobals as the %s option)", a.Name, b.Name, map[bool]string{true: "first", false: "last"}[first])
				if after := globalsSig(m); after != before {
					r.Report("config-interference:host-map-changed", what+": the host's own map changed", in, ev.Clip(after, 200), before)
				}
				if ga != alone[a.Name] {
					r.Report("config-interference:shared-map", what+": the first configuration differs from the same configuration on a map of its own", in, ev.Clip(diffSig(strings.Fields(alone[a.Name]), strings.Fields(ga)), 200), "the same globals")
				}
				if gb != alone[b.Name] {
					r.Report("config-interference:shared-map", what+": the second configuration differs from the same configuration on a map of its own", in, ev.Clip(diffSig(strings.Fields(alone[b.Name]), strings.Fields(gb)), 200), "the same globals")
				}
				if ga2 != alone[a.Name] {
					r.Report("config-interference:shared-map", what+": the first configuration, built again afterwards, differs", in, ev.Clip(diffSig(strings.Fields(alone[a.Name]), strings.Fields(ga2)), 200), "the same globals")
				}
				r.Outcome("shared-host-map|" + a.Name + "|" + b.Name)
			}
		}
	}
	r.Set("shared_host_map_pairs", n)
}
