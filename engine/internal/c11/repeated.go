package c11

import (
	"fmt"
	"sort"
	"strings"

	"github.com/risor-io/risor/object"

	"verif/internal/ev"
)

// Deny lists of several names. risor keeps the deny list in a Go map and applies
// the entries in that map's iteration order, which the runtime randomises. The check
// is built with the map seam (order_seam.go): the harness decides the order of every
// map range a construction executes, and every configuration is constructed once per
// order (base order plus every single-site deviation). Every permutation of a name
// list is also its own configuration (the permutation is the insertion order).
// `repetitions` is only the fallback for a build without the seam.

const repetitions = 32

// primary forms: the access paths that do not go through another member of the module
var primaryForms = map[string]bool{
	"ident": true, "ident-in-func": true, "import": true, "import-as": true,
	"attr": true, "attr-in-func": true, "getattr": true, "from-import": true,
	"from-import-as": true, "import-attr": true, "import-as-attr": true,
}

func permutations(l []string) [][]string {
	if len(l) <= 1 {
		return [][]string{append([]string{}, l...)}
	}
	var out [][]string
	for i := range l {
		rest := append(append([]string{}, l[:i]...), l[i+1:]...)
		for _, p := range permutations(rest) {
			out = append(out, append([]string{l[i]}, p...))
		}
	}
	return out
}

// selections returns every ordered selection of k distinct names of the pool.
func selections(pool []string, k int) [][]string {
	if k == 0 {
		return [][]string{{}}
	}
	var out [][]string
	for i := range pool {
		rest := append(append([]string{}, pool[:i]...), pool[i+1:]...)
		for _, s := range selections(rest, k-1) {
			out = append(out, append([]string{pool[i]}, s...))
		}
	}
	return out
}

func (u *universe) sortedModules() []string {
	var mods []string
	for m := range u.members {
		mods = append(mods, m)
	}
	sort.Strings(mods)
	return mods
}

func (u *universe) pick(pref string, fallback string) string {
	if u.byName[pref] != nil {
		return pref
	}
	return fallback
}

// unresolvable returns the three spellings of names that resolve to nothing:
// no such module, a nested path below a missing member, a missing member of an existing module.
func (u *universe) unresolvable() []string {
	mods := u.sortedModules()
	m1 := u.pick("os", mods[0])
	m2 := u.pick("strings", mods[len(mods)-1])
	out := []string{"nosuch.thing", m1 + ".nosuch.deeper", m2 + ".c11_no_such_member"}
	if u.byName["nosuch"] != nil {
		return nil
	}
	for _, s := range out {
		if u.byName[s] != nil {
			return nil
		}
	}
	return out
}

// repeatedFamilies builds the deny-list families (a), (b), (c).
func (u *universe) repeatedFamilies(thorough bool) (cfgs []cfgSpec, sizes map[string]int, unres []string) {
	sizes = map[string]int{}
	unres = u.unresolvable()
	if unres == nil {
		return nil, sizes, nil
	}
	add := func(family string, deny []string) {
		cfgs = append(cfgs, cfgSpec{Deny: deny, Variadic: true, Family: family})
		sizes[family]++
	}
	// (a) every name of U together with each unresolvable spelling, both insertion orders
	for _, n := range u.names {
		for _, s := range unres {
			add("unresolvable+name", []string{s, n.Name})
			add("unresolvable+name", []string{n.Name, s})
		}
	}
	// (b) module, one of its members, one name outside the module; every insertion order
	mods := u.sortedModules()
	for mi, m := range mods {
		m2 := mods[(mi+1)%len(mods)]
		m3 := mods[(mi+2)%len(mods)]
		others := []string{u.pick("len", u.names[0].Name), m2, m3 + "." + u.members[m3][0]}
		for xi, x := range u.members[m] {
			for oi, o := range others {
				if !thorough && oi != xi%len(others) {
					continue
				}
				for _, p := range permutations([]string{m, m + "." + x, o}) {
					add("module+member+other", p)
				}
			}
		}
	}
	// (c) lists of 3 and 4 names over a pool of plain, dotted and unresolvable names, every position
	mA := u.pick("os", mods[0])
	mB := u.pick("math", mods[len(mods)-1])
	pool := []string{
		u.pick("len", u.names[0].Name), mA,
		u.pick(mA+".exit", mA+"."+u.members[mA][0]), u.pick(mB+".PI", mB+"."+u.members[mB][0]),
	}
	pool = append(pool, unres...)
	isUnres := map[string]bool{}
	for _, s := range unres {
		isUnres[s] = true
	}
	for _, k := range []int{3, 4} {
		if k == 4 && !thorough {
			continue
		}
		for _, sel := range selections(pool, k) {
			nu := 0
			for _, s := range sel {
				if isUnres[s] {
					nu++
				}
			}
			if nu == 0 || nu == len(sel) {
				continue
			}
			add("mixed-list", sel)
		}
	}
	// (d) a refused replacement next to accepted ones: an override of a module member with a value risor cannot
	// represent (a Go func) is refused when the configuration is built. Whatever becomes of that one name (it is
	// denied here as well, so it has to be gone), the other names of the same configuration are served as
	// configured: the denied ones are gone, the accepted replacements are installed - in whichever order the
	// override map is walked
	for mi, m := range mods {
		if len(u.members[m]) < 2 || (!thorough && mi%3 != 0) {
			continue
		}
		m2 := mods[(mi+1)%len(mods)]
		top := u.pick("len", u.names[0].Name)
		x, y, z := m+"."+u.members[m][0], m+"."+u.members[m][1], m2+"."+u.members[m2][0]
		for _, first := range []bool{false, true} {
			cfgs = append(cfgs, cfgSpec{Deny: []string{top, x}, Refused: []string{x}, Override: []string{y, z}, Repl: "builtin", Variadic: true, OverrideFirst: first, Family: "refused-override"})
			sizes["refused-override"]++
			cfgs = append(cfgs, cfgSpec{Deny: []string{x, m2}, Refused: []string{x}, Override: []string{y, top}, Repl: "builtin", OverrideFirst: first, Family: "refused-override"})
			sizes["refused-override"]++
		}
	}
	return cfgs, sizes, unres
}

// nameShape lists the global names and the member names of every module global:
// all a deny list can change about a configuration.
func nameShape(globals map[string]any) string {
	ks := make([]string, 0, len(globals))
	for k := range globals {
		ks = append(ks, k)
	}
	sort.Strings(ks)
	var b strings.Builder
	for _, k := range ks {
		b.WriteString(k)
		if m, ok := globals[k].(*object.Module); ok {
			mem, _ := moduleMembers(m)
			b.WriteByte('(')
			b.WriteString(strings.Join(mem, ","))
			b.WriteByte(')')
		}
		b.WriteByte(';')
	}
	return b.String()
}

type repeatedStats struct {
	states, trans        int
	constructions        int
	sites                int
	closures             int
	shapes               int
	violatingConstructed int
}

// checkRepeated constructs the configuration reps times. Each construction gets the closure
// oracle (fullEach) or, in the quick tier, the closure oracle on the first construction and on
// every construction whose name shape has not been closed yet for this configuration. The
// script attempts for the resolvable denied names run on the first construction of every
// distinct shape, on that very Config; one form per target also goes through risor.Eval.
func (u *universe) checkRepeated(r *ev.Run, report reporter, c cfgSpec, thorough, fullEach, verbose bool) (st repeatedStats) {
	seen := map[string]int{}
	var order []string
	devs, nsites := c.buildOrders(thorough)
	st.sites = nsites
	wrap := func(bad *bool, d orderDev) reporter {
		return func(sig, what string, in caseIn, observed, expected string) {
			*bad = true
			in.Kind, in.Order = "repeated", &d
			report(sig, what+" [deny list applied in Go map order; "+d.String()+"]", in, observed, expected)
		}
	}
	var targets []string
	for _, d := range c.Deny {
		if u.byName[d] != nil {
			targets = append(targets, d)
		}
	}
	for k, d := range devs {
		cfg, globals, repl, pan := c.buildWith(d)
		in := caseIn{Kind: "repeated", Cfg: c, Order: &devs[k]}
		if pan != "" {
			report("c11-panic", "building "+c.String()+" panicked: "+pan, in, "panic", "a Config")
			return
		}
		st.constructions++
		bad := false
		sh := nameShape(globals)
		_, known := seen[sh]
		if !known {
			order = append(order, sh)
		}
		seen[sh]++
		if fullEach || !known {
			s, t := u.closureOracle(r, wrap(&bad, d), c, in, globals, repl, false)
			st.states += s
			st.trans += t
			st.closures++
		}
		if !known {
			for _, t := range targets {
				viaEval := k == 0 // the first applicable form of each target also goes through risor.Eval once
				for _, ai := range u.byTarget[t] {
					a := u.attempts[ai]
					if a.F0 == "" || !primaryForms[a.Form] {
						continue
					}
					u.checkScriptOn(r, wrap(&bad, d), c, cfg, a, false)
					r.Eval(1)
					if viaEval {
						viaEval = false
						u.checkScriptOn(r, wrap(&bad, d), c, nil, a, false)
						r.Eval(1)
					}
				}
			}
		}
		if bad {
			st.violatingConstructed++
		}
		r.Eval(1)
	}
	st.shapes = len(seen)
	r.Outcome(fmt.Sprintf("repeated|%s|shapes=%d", c.kind(), len(seen)))
	if verbose {
		fmt.Printf("%s: %d constructions, %d distinct name shapes, %d closures, %d violating constructions\n", c.String(), st.constructions, st.shapes, st.closures, st.violatingConstructed)
		base := ""
		for i, sh := range order {
			if i == 0 {
				base = sh
				fmt.Printf("  shape #1: %d constructions\n", seen[sh])
				continue
			}
			fmt.Printf("  shape #%d: %d constructions; differs from shape #1 by %s\n", i+1, seen[sh], shapeDiff(base, sh))
		}
	}
	return st
}

func shapeDiff(a, b string) string {
	as, bs := map[string]bool{}, map[string]bool{}
	for _, x := range strings.Split(a, ";") {
		as[x] = true
	}
	for _, x := range strings.Split(b, ";") {
		bs[x] = true
	}
	var d []string
	for x := range as {
		if !bs[x] {
			d = append(d, "-"+ev.Clip(x, 60))
		}
	}
	for x := range bs {
		if !as[x] {
			d = append(d, "+"+ev.Clip(x, 60))
		}
	}
	sort.Strings(d)
	return strings.Join(d, " ")
}

// mapOrderProbe observes this runtime's iteration order on maps filled like risor's deny
// list (k sequential insertions into an empty map[string]bool): how many distinct orders
// appear in 4096 iterations and whether the insertion order itself is among the common ones.
func mapOrderProbe() (out map[string]any, insertionOrderSeen bool) {
	out = map[string]any{}
	insertionOrderSeen = true
	names := []string{"nosuch.thing", "os.exit", "len", "math.PI"}
	for k := 2; k <= 4; k++ {
		m := map[string]bool{}
		for _, n := range names[:k] {
			m[n] = true
		}
		want := strings.Join(names[:k], ",")
		orders := map[string]int{}
		for i := 0; i < 4096; i++ {
			var o []string
			for n := range m {
				o = append(o, n)
			}
			orders[strings.Join(o, ",")]++
		}
		fact := 1
		for i := 2; i <= k; i++ {
			fact *= i
		}
		// "common": at least half of the uniform share 1/k!
		common := orders[want]*2*fact >= 4096
		if !common {
			insertionOrderSeen = false
		}
		out[fmt.Sprintf("k%d", k)] = map[string]any{"distinct_orders_in_4096_iterations": len(orders), "insertion_order_share_at_least_half_of_uniform": common}
	}
	return out, insertionOrderSeen
}
