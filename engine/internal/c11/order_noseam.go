//go:build !mapseam

package c11

import "github.com/risor-io/risor/object"

// Without the map seam (a build that does not go through /verif/run) Go's map order is not owned:
// every configuration is constructed `repetitions` times instead and the run is reported as capped.

const ownedOrders = false

type orderDev struct {
	Dev  map[int][]int `json:"deviating_dynamic_sites,omitempty"`
	Site string        `json:"site,omitempty"`
}

func (d orderDev) String() string { return "Go's own map order" }

func (c cfgSpec) buildOrders(thorough bool) (devs []orderDev, sites int) {
	return make([]orderDev, repetitions), 0
}

func (c cfgSpec) buildWith(d orderDev) (cfg *risorConfig, globals map[string]any, repl object.Object, panicked string) {
	cfg, globals, repl, panicked = c.build()
	return
}
