// Package c11 decides property C11: scripts can reach only the globals the host
// configuration allows.
//
// Explicit-state search. For every configuration of a finite family (deny / override
// each name of the universe U extracted from an unrestricted Config, no default
// globals, deny+override, pairs of denials) it computes
//
//	(a) the closure of the objects reachable from cfg.Globals() under GetAttr over
//	    a finite attribute alphabet (all name components of U + __module__,
//	    __name__, spawn) and checks that no object registered under a removed name
//	    is in it and that an overridden name resolves to the replacement;
//	(b) every script-level access attempt for the removed / overridden names
//	    (identifier, import, from-import, attribute, getattr, back-references through
//	    every path of the baseline closure that reaches the module), evaluated with
//	    risor.Eval under that configuration, against the result of the same script
//	    under the default configuration.
//
// Independence: sequences (restricted, default) and (default, restricted, default)
// must leave every default configuration with the baseline closure.
package c11

import (
	"context"
	"fmt"
	"os"
	"sort"
	"strings"
	"sync"
	"sync/atomic"
	"time"

	"github.com/risor-io/risor"
	"github.com/risor-io/risor/compiler"
	"github.com/risor-io/risor/object"
	"github.com/risor-io/risor/parser"
	"github.com/risor-io/risor/vm"

	"verif/internal/ev"
)

// ---------------------------------------------------------------- configurations

type cfgSpec struct {
	Deny          []string `json:"deny,omitempty"`
	Override      []string `json:"override,omitempty"`
	Refused       []string `json:"refused_override,omitempty"` // dotted names overridden with a value risor refuses (a Go func)
	Repl          string   `json:"repl,omitempty"`             // replacement kind: builtin | module
	NoDefaults    bool     `json:"no_defaults,omitempty"`
	OverrideFirst bool     `json:"override_first,omitempty"` // option order
	Host          bool     `json:"host_global,omitempty"`    // adds the host global c11_host
	Variadic      bool     `json:"variadic,omitempty"`       // WithoutGlobals(a, b) instead of two WithoutGlobal
	Family        string   `json:"family,omitempty"`         // deny-list family (built repeatedly: the list is applied in Go map order)
	Listeners     bool     `json:"listeners_allowed,omitempty"` // WithListenersAllowed (what the CLI always passes)
	PreparedVM    bool     `json:"prepared_vm,omitempty"`    // the script runs through risor.WithVM on a VM created with the default configuration (vm.New) that has never run
	ReuseVM       bool     `json:"reuse_vm,omitempty"`       // the script runs through risor.WithVM on a VM that has already run under the default configuration
}

func (c cfgSpec) kind() string {
	switch {
	case c.Family != "":
		return c.Family
	case c.NoDefaults && c.Host:
		return "no-defaults+host"
	case c.NoDefaults:
		return "no-defaults"
	case len(c.Deny) == 1 && len(c.Override) == 1 && c.Deny[0] == c.Override[0]:
		return "deny+override:" + c.Repl
	case len(c.Deny) > 0 && len(c.Override) > 0:
		return "deny-a+override-b"
	case len(c.Deny) == 1:
		return "deny"
	case len(c.Deny) > 1:
		return fmt.Sprintf("deny-%d", len(c.Deny))
	case len(c.Override) > 0:
		return "override:" + c.Repl
	}
	return "default"
}

func (c cfgSpec) String() string {
	var p []string
	if c.NoDefaults {
		p = append(p, "WithoutDefaultGlobals")
	}
	if c.Listeners {
		p = append(p, "WithListenersAllowed")
	}
	if c.Host {
		p = append(p, "WithGlobal(c11_host)")
	}
	if c.Variadic && len(c.Deny) > 0 {
		p = append(p, "WithoutGlobals("+strings.Join(c.Deny, ", ")+")")
	} else {
		for _, d := range c.Deny {
			p = append(p, "WithoutGlobal("+d+")")
		}
	}
	for _, o := range c.Override {
		p = append(p, "WithGlobalOverride("+o+", "+c.Repl+" c11_replacement)")
	}
	for _, o := range c.Refused {
		p = append(p, "WithGlobalOverride("+o+", a Go func)")
	}
	if c.ReuseVM {
		p = append(p, "[on a VM that already ran under the default configuration]")
	}
	if c.PreparedVM {
		p = append(p, "[on a VM created with the default configuration that has not run yet]")
	}
	if len(p) == 0 {
		return "default"
	}
	if c.OverrideFirst {
		p = append(p, "[override option first]")
	}
	return strings.Join(p, " ")
}

func noop(ctx context.Context, args ...object.Object) object.Object { return object.Nil }

func newRepl(kind string) object.Object {
	if kind == "module" {
		return object.NewBuiltinsModule("c11_replacement", map[string]object.Object{})
	}
	return object.NewBuiltin("c11_replacement", noop)
}

// options builds the risor options of a configuration; repl is the replacement
// object (nil when nothing is overridden).
func (c cfgSpec) options() (opts []risor.Option, repl object.Object) {
	if c.NoDefaults {
		opts = append(opts, risor.WithoutDefaultGlobals())
	}
	if c.Listeners {
		opts = append(opts, risor.WithListenersAllowed())
	}
	if c.Host {
		opts = append(opts, risor.WithGlobal("c11_host", object.NewBuiltin("c11_host", noop)))
	}
	var deny, over []risor.Option
	if c.Variadic {
		deny = append(deny, risor.WithoutGlobals(c.Deny...))
	} else {
		for _, d := range c.Deny {
			deny = append(deny, risor.WithoutGlobal(d))
		}
	}
	if len(c.Override) > 0 {
		repl = newRepl(c.Repl)
		for _, o := range c.Override {
			over = append(over, risor.WithGlobalOverride(o, repl))
		}
	}
	for _, o := range c.Refused {
		over = append(over, risor.WithGlobalOverride(o, func(s string) string { return s }))
	}
	if c.OverrideFirst {
		opts = append(append(opts, over...), deny...)
	} else {
		opts = append(append(opts, deny...), over...)
	}
	if c.PreparedVM {
		// a host that prepares its VM ahead of time, with the default configuration, and runs nothing on it yet
		dcfg := risor.NewConfig()
		if tree, err := parser.Parse(context.Background(), "1"); err == nil {
			if code, err := compiler.Compile(tree, dcfg.CompilerOpts()...); err == nil {
				opts = append(opts, risor.WithVM(vm.New(code, dcfg.VMOpts()...)))
			}
		}
	}
	if c.ReuseVM {
		// a host that keeps one VM: it has evaluated something under the default configuration before
		if m, err := vm.NewEmpty(); err == nil {
			risor.Eval(context.Background(), "import math\n1", risor.WithVM(m))
			opts = append(opts, risor.WithVM(m))
		}
	}
	return opts, repl
}

// build constructs the Config and forces its initialisation.
func (c cfgSpec) build() (cfg *risor.Config, globals map[string]any, repl object.Object, panicked string) {
	defer func() {
		if e := recover(); e != nil {
			panicked = fmt.Sprint(e)
		}
	}()
	opts, repl := c.options()
	cfg = risor.NewConfig(opts...)
	globals = cfg.Globals()
	return cfg, globals, repl, ""
}

// ---------------------------------------------------------------- universe

type uname struct {
	Name, Mod, Attr string
	FP              string
	IsModule        bool
}

type attempt struct {
	Form   string // ident, ident-in-func, import, attr, getattr, from-import, backref-attr, ...
	Group  string // mechanism: ident | attr | import
	Script string
	Target string // the name of U the script tries to reach
	Direct bool   // the script's value is the object registered under Target itself (not a member of it)
	Via    string // another name of U the access path passes through ("" if none)
	F0     string // fingerprint of the script's value under the default configuration
}

type universe struct {
	names    []*uname
	byName   map[string]*uname
	members  map[string][]string // module -> member attributes
	alphabet []string
	base     *graph
	baseSig  []string
	fpNames  map[string][]string // baseline fingerprint -> names of U carrying it
	inPaths  map[string][]string // module -> access paths of the baseline closure that end at it
	attempts []attempt
	byTarget map[string][]int
	notAppl  []string
	aliases  []string

	thoroughRepeated bool
}

func loadUniverse(r *ev.Run) *universe {
	u := &universe{byName: map[string]*uname{}, members: map[string][]string{}, fpNames: map[string][]string{}, inPaths: map[string][]string{}, byTarget: map[string][]int{}}
	globals := risor.NewConfig().Globals()
	alpha := map[string]bool{"__module__": true, "__name__": true, "spawn": true}
	var tops []string
	for k := range globals {
		tops = append(tops, k)
	}
	sort.Strings(tops)
	for _, k := range tops {
		o, ok := globals[k].(object.Object)
		if !ok {
			r.EngineError(fmt.Sprintf("default global %q is not an object.Object (%T)", k, globals[k]))
			return nil
		}
		alpha[k] = true
		m, isMod := o.(*object.Module)
		u.add(&uname{Name: k, IsModule: isMod})
		if isMod {
			mem, err := moduleMembers(m)
			if err != nil {
				r.EngineError(err.Error())
				return nil
			}
			u.members[k] = mem
			for _, a := range mem {
				alpha[a] = true
				u.add(&uname{Name: k + "." + a, Mod: k, Attr: a})
			}
		}
	}
	for a := range alpha {
		u.alphabet = append(u.alphabet, a)
	}
	sort.Strings(u.alphabet)
	u.base = buildGraph(globals, u.alphabet)
	if u.base.capped {
		r.EngineError("baseline closure exceeds 200000 objects")
		return nil
	}
	u.baseSig = u.base.signature()
	for _, n := range u.names {
		nd, ok := u.base.resolve(n.Name)
		if !ok {
			r.EngineError("baseline closure does not resolve " + n.Name)
			return nil
		}
		n.FP = nd.fp
		u.fpNames[n.FP] = append(u.fpNames[n.FP], n.Name)
	}
	// every path of the baseline closure that ends at a module (shortest path of the parent + one edge)
	for _, e := range u.base.edges {
		to := u.base.nodes[e.to]
		if _, isMod := to.obj.(*object.Module); isMod && to.root != "" {
			u.inPaths[to.root] = append(u.inPaths[to.root], u.base.nodes[e.from].path+"."+e.attr)
		}
	}
	for m := range u.inPaths {
		sort.Strings(u.inPaths[m])
	}
	// aliases: distinct registered names whose builtins wrap the same Go function
	byFn := map[string][]string{}
	for _, n := range u.names {
		if nd, _ := u.base.resolve(n.Name); nd != nil {
			if b, ok := nd.obj.(*object.Builtin); ok {
				f := fnName(b.Value())
				if !isClosureName(f) {
					byFn[f] = append(byFn[f], n.Name)
				}
			}
		}
	}
	for f, ns := range byFn {
		if len(ns) > 1 {
			u.aliases = append(u.aliases, strings.Join(ns, " = ")+"  ("+f+")")
		}
	}
	sort.Strings(u.aliases)
	u.genAttempts()
	return u
}

// isClosureName reports whether a Go symbol is an anonymous function (several
// distinct closures share one symbol, so they say nothing about aliasing).
func isClosureName(f string) bool {
	i := strings.LastIndex(f, ".func")
	if i < 0 {
		return false
	}
	for _, c := range f[i+5:] {
		if (c < '0' || c > '9') && c != '.' {
			return false
		}
	}
	return true
}

func (u *universe) add(n *uname) {
	u.names = append(u.names, n)
	u.byName[n.Name] = n
}

func (u *universe) genAttempts() {
	add := func(form, group, target string, direct bool, script string, via ...string) {
		a := attempt{Form: form, Group: group, Script: script, Target: target, Direct: direct}
		if len(via) > 0 {
			a.Via = via[0]
		}
		u.attempts = append(u.attempts, a)
	}
	// via: m.y.__module__ passes through the registered name m.y
	viaOf := func(p string) string {
		if parts := strings.Split(p, "."); len(parts) >= 2 {
			return parts[0] + "." + parts[1]
		}
		return ""
	}
	for _, n := range u.names {
		if n.Mod == "" {
			g := n.Name
			add("ident", "ident", g, true, g)
			add("ident-in-func", "ident", g, true, "func c11_f() { return "+g+" }\nc11_f()")
			if n.IsModule {
				add("import", "import", g, true, "import "+g+"\n"+g)
				add("import-as", "import", g, true, "import "+g+" as c11_z\nc11_z")
				for _, p := range u.inPaths[g] {
					add("backref", "attr", g, true, p, viaOf(p))
					add("backref-getattr", "attr", g, true, getattrChain(p), viaOf(p))
				}
				for _, y := range u.members[g] {
					add("from-import-member", "import", g, false, "from "+g+" import "+y+"\n"+y)
					add("from-import-member-module", "import", g, true, "from "+g+" import "+y+"\n"+y+".__module__", g+"."+y)
				}
			}
			continue
		}
		m, x := n.Mod, n.Attr
		t := n.Name
		add("attr", "attr", t, true, m+"."+x)
		add("attr-in-func", "attr", t, true, "func c11_f() { return "+m+"."+x+" }\nc11_f()")
		add("getattr", "attr", t, true, `getattr(`+m+`, "`+x+`")`)
		add("from-import", "import", t, true, "from "+m+" import "+x+"\n"+x)
		add("from-import-as", "import", t, true, "from "+m+" import "+x+" as c11_z\nc11_z")
		add("import-attr", "import", t, true, "import "+m+"\n"+m+"."+x)
		add("import-as-attr", "import", t, true, "import "+m+" as c11_z\nc11_z."+x)
		for _, p := range u.inPaths[m] {
			// a back-reference that passes through another removed name (or through the target itself:
			// m.x.__module__.x) need not survive: it must only not yield the original
			add("backref-attr", "attr", t, true, p+"."+x, viaOf(p))
			add("backref-getattr", "attr", t, true, `getattr(`+getattrChain(p)+`, "`+x+`")`, viaOf(p))
			// p = m.y.__module__ : the same back-reference starting from an imported member
			if parts := strings.Split(p, "."); len(parts) == 3 && parts[0] == m && parts[2] == "__module__" {
				add("from-import-backref", "import", t, true, "from "+m+" import "+parts[1]+" as c11_z\nc11_z.__module__."+x, viaOf(p))
			}
		}
	}
	for i, a := range u.attempts {
		u.byTarget[a.Target] = append(u.byTarget[a.Target], i)
	}
}

// getattrChain renders a.b.c as getattr(getattr(a, "b"), "c").
func getattrChain(p string) string {
	parts := strings.Split(p, ".")
	s := parts[0]
	for _, a := range parts[1:] {
		s = `getattr(` + s + `, "` + a + `")`
	}
	return s
}

// ---------------------------------------------------------------- evaluation

var evals int64

type evalRes struct {
	obj      object.Object
	err      error
	panicked string
}

func evalScript(src string, opts []risor.Option) (res evalRes) {
	atomic.AddInt64(&evals, 1)
	defer func() {
		if e := recover(); e != nil {
			res = evalRes{panicked: fmt.Sprint(e)}
		}
	}()
	o, err := risor.Eval(context.Background(), src, opts...)
	return evalRes{obj: o, err: err}
}

// evalOnConfig runs a script on an already constructed Config: the body of
// risor.Eval after NewConfig (parse, compile with cfg.CompilerOpts, run with cfg.VMOpts).
func evalOnConfig(cfg *risor.Config, src string) (res evalRes) {
	atomic.AddInt64(&evals, 1)
	defer func() {
		if e := recover(); e != nil {
			res = evalRes{panicked: fmt.Sprint(e)}
		}
	}()
	ctx := context.Background()
	tree, err := parser.Parse(ctx, src)
	if err != nil {
		return evalRes{err: err}
	}
	main, err := compiler.Compile(tree, cfg.CompilerOpts()...)
	if err != nil {
		return evalRes{err: err}
	}
	o, err := vm.Run(ctx, main, cfg.VMOpts()...)
	return evalRes{obj: o, err: err}
}

func errClass(err error) string {
	s := err.Error()
	if strings.HasPrefix(s, "compile error") {
		return "compile error"
	}
	if i := strings.Index(s, ":"); i > 0 && i < 40 {
		return s[:i]
	}
	if len(s) > 40 {
		s = s[:40]
	}
	return s
}

// baselineAttempts evaluates every attempt under the default configuration. An
// attempt that does not succeed there is not an access path and is dropped.
func (u *universe) baselineAttempts(r *ev.Run) {
	ev.ParFor(len(u.attempts), func(i int) {
		a := &u.attempts[i]
		res := evalScript(a.Script, nil)
		if res.panicked != "" {
			c := caseIn{Kind: "script", Script: a.Script, Target: a.Target, Form: a.Form}
			r.Report("c11-panic", fmt.Sprintf("default configuration: %q panicked: %s", a.Script, res.panicked), c, "panic", "value or error")
			return
		}
		if res.err != nil || res.obj == nil {
			return
		}
		a.F0 = fp(res.obj)
	})
	r.Eval(len(u.attempts))
	na := map[string]bool{}
	for _, a := range u.attempts {
		if a.F0 == "" {
			na[a.Form+" "+a.Target] = true
		}
	}
	for k := range na {
		u.notAppl = append(u.notAppl, k)
	}
	sort.Strings(u.notAppl)
}

// ---------------------------------------------------------------- one case

// reporter files a failing case. The parallel phase collects the cases and files
// them in job order, so the witness kept per signature is the same on every run.
type reporter func(sig, what string, in caseIn, observed, expected string)

func direct(r *ev.Run) reporter {
	return func(sig, what string, in caseIn, observed, expected string) {
		r.Report(sig, what, in, observed, expected)
	}
}

type pendingReport struct {
	job                           int
	sig, what, observed, expected string
	in                            caseIn
}

type risorConfig = risor.Config

type caseIn struct {
	Kind   string    `json:"kind"` // closure | script | sequence | sequence-script | repeated
	Cfg    cfgSpec   `json:"config"`
	Script string    `json:"script,omitempty"`
	Target string    `json:"target,omitempty"`
	Form   string    `json:"form,omitempty"`
	Seq    []cfgSpec `json:"sequence,omitempty"`
	Reps   int       `json:"repetitions,omitempty"`
	Order  *orderDev `json:"map_orders,omitempty"`
}

// effective returns the names whose original objects the configuration removes:
// denied and overridden names plus the members of removed / overridden modules.
func (u *universe) effective(c cfgSpec) (removed map[string]bool, denied, overridden map[string]bool) {
	removed, denied, overridden = map[string]bool{}, map[string]bool{}, map[string]bool{}
	mark := func(n string) {
		removed[n] = true
		if un := u.byName[n]; un != nil && un.IsModule {
			for _, a := range u.members[n] {
				removed[n+"."+a] = true
			}
		}
	}
	if c.NoDefaults {
		for _, n := range u.names {
			removed[n.Name] = true
			denied[n.Name] = true
		}
	}
	for _, d := range c.Deny {
		denied[d] = true
		mark(d)
	}
	for _, o := range c.Override {
		overridden[o] = true
		mark(o)
	}
	return
}

// checkClosure is part (a) for one configuration.
func (u *universe) checkClosure(r *ev.Run, report reporter, c cfgSpec, verbose bool) (states, trans int) {
	_, globals, repl, pan := c.build()
	in := caseIn{Kind: "closure", Cfg: c}
	if pan != "" {
		report("c11-panic", "building "+c.String()+" panicked: "+pan, in, "panic", "a Config")
		return 0, 0
	}
	return u.closureOracle(r, report, c, in, globals, repl, verbose)
}

// closureOracle computes the closure of one constructed configuration and applies the oracle of part (a).
func (u *universe) closureOracle(r *ev.Run, report reporter, c cfgSpec, in caseIn, globals map[string]any, repl object.Object, verbose bool) (states, trans int) {
	g := buildGraph(globals, u.alphabet)
	if g.capped {
		r.Cap("closure of " + c.String() + " exceeds 200000 objects; expansion stopped")
	}
	for _, p := range g.panics {
		report("c11-panic", c.String()+": GetAttr panicked at "+p, in, "panic", "attribute or not found")
	}
	removed, denied, overridden := u.effective(c)
	if verbose {
		fmt.Printf("closure of %s: %d objects, %d GetAttr edges, %d roots\n", c.String(), len(g.nodes), g.trans, len(g.roots))
	}
	for _, v := range g.nodes {
		if repl != nil && v.obj == repl {
			continue
		}
		cands := u.fpNames[v.fp]
		if len(cands) == 0 {
			continue
		}
		legit := false
		for q := range v.names {
			if !removed[q] && u.byName[q] != nil && u.byName[q].FP == v.fp {
				legit = true // registered under an allowed name with the same fingerprint: indistinguishable
			}
		}
		for _, n := range cands {
			if !removed[n] {
				continue
			}
			switch {
			case v.names[n] && overridden[n]:
				report("closure-override-not-installed", fmt.Sprintf("%s: the name %s still resolves to the original %s", c.String(), n, v.fp), in, v.fp, "the replacement")
			case v.names[n]:
				report("closure-denied-name-resolves", fmt.Sprintf("%s: the name %s still resolves to %s", c.String(), n, v.fp), in, v.path+" = "+v.fp, "not reachable")
			case !legit:
				report("closure-removed-object-reachable", fmt.Sprintf("%s: the object registered as %s (%s) is reachable through %s", c.String(), n, v.fp, v.path), in, v.path+" = "+v.fp, "not reachable")
			}
			if verbose {
				fmt.Printf("  removed %s: object %s reachable at %s (names %v, legit alias %v)\n", n, v.fp, v.path, keys(v.names), legit)
			}
		}
	}
	// a module that can be called runs one of its own member functions: with the member denied or overridden, the call
	// is an access path to the function that was registered under the removed name like any other
	for _, v := range g.nodes {
		m, isMod := v.obj.(*object.Module)
		if !isMod {
			continue
		}
		hook := moduleHook(m)
		if hook == "" {
			continue
		}
		for n := range removed {
			un := u.byName[n]
			if un == nil || un.Mod != m.Name().Value() || !strings.HasSuffix(un.FP, "|"+hook) {
				continue
			}
			report("closure-removed-function-called-by-module", fmt.Sprintf("%s: calling the module %s itself still runs %s, the function registered as %s", c.String(), v.path, hook, n), in, v.path+"(...) runs "+hook, "not reachable, or the replacement")
		}
	}
	for o := range overridden {
		nd, ok := g.resolve(o)
		switch {
		case ok && nd.obj != repl:
			report("closure-override-not-installed", fmt.Sprintf("%s: %s resolves to %s, not to the replacement", c.String(), o, nd.fp), in, nd.fp, "the replacement")
		case !ok && !denied[o]:
			report("closure-override-missing", fmt.Sprintf("%s: %s does not resolve at all", c.String(), o), in, "not found", "the replacement")
		}
		if verbose {
			fmt.Printf("  override %s: resolves=%v replacement=%v\n", o, ok, ok && nd.obj == repl)
		}
	}
	if c.NoDefaults {
		want := 0
		if c.Host {
			want = 1
		}
		if len(g.roots) != want {
			report("closure-no-defaults-not-empty", fmt.Sprintf("%s: %d globals remain: %v", c.String(), len(g.roots), ev.Clip(strings.Join(keys2(g.roots), ","), 200)), in, fmt.Sprint(len(g.roots)), fmt.Sprint(want))
		}
	}
	r.Outcome(fmt.Sprintf("closure|%s|%d-roots-delta", c.kind(), len(g.roots)-len(u.base.roots)))
	return len(g.nodes), g.trans
}

func keys(m map[string]bool) []string {
	var out []string
	for k := range m {
		out = append(out, k)
	}
	sort.Strings(out)
	return out
}

func keys2(m map[string]int) []string {
	var out []string
	for k := range m {
		out = append(out, k)
	}
	sort.Strings(out)
	return out
}

// checkScript is part (b) for one configuration and one attempt.
func (u *universe) checkScript(r *ev.Run, report reporter, c cfgSpec, a attempt, verbose bool) {
	u.checkScriptOn(r, report, c, nil, a, verbose)
}

// checkScriptOn evaluates the attempt with risor.Eval under the options of c (built == nil)
// or on an already constructed Config of c (built != nil; only for configurations without overrides).
func (u *universe) checkScriptOn(r *ev.Run, report reporter, c cfgSpec, built *risor.Config, a attempt, verbose bool) {
	if a.F0 == "" {
		return
	}
	var res evalRes
	var repl object.Object
	if built != nil {
		res = evalOnConfig(built, a.Script)
	} else {
		var opts []risor.Option
		opts, repl = c.options()
		res = evalScript(a.Script, opts)
	}
	in := caseIn{Kind: "script", Cfg: c, Script: a.Script, Target: a.Target, Form: a.Form}
	removed, denied, overridden := u.effective(c)
	// the replacement is demanded on paths that end at the overridden name and pass through no other removed name
	demand := a.Direct && overridden[a.Target] && !denied[a.Target] && (a.Via == "" || !removed[a.Via])
	class := ""
	switch {
	case res.panicked != "":
		class = "panic"
		report("c11-panic", fmt.Sprintf("%s: %q panicked: %s", c.String(), a.Script, res.panicked), in, "panic", "value or error")
	case res.err != nil:
		class = errClass(res.err)
		// a failing path is what a denial asks for; under an override the direct paths must observe the replacement
		if demand {
			_, replIsModule := repl.(*object.Module)
			importOfNonModule := a.Group == "import" && u.byName[a.Target].IsModule && !replIsModule
			if !importOfNonModule {
				report("override-path-fails:"+a.Group, fmt.Sprintf("%s: %q fails (%s) instead of yielding the replacement", c.String(), a.Script, ev.Clip(res.err.Error(), 120)), in, res.err.Error(), "the replacement")
			}
		}
	case repl != nil && res.obj == repl:
		class = "ok:replacement"
		if !overridden[a.Target] {
			class = "ok:replacement-elsewhere"
		}
	default:
		f := fp(res.obj)
		switch {
		case f == a.F0:
			class = "ok:same-as-default"
			if overridden[a.Target] && !denied[a.Target] {
				report("override-not-observed:"+a.Group, fmt.Sprintf("%s: %q still yields the original %s", c.String(), a.Script, f), in, f, "the replacement")
			} else {
				report("script-reaches-removed:"+a.Group, fmt.Sprintf("%s: %q still yields %s", c.String(), a.Script, f), in, f, "compile error or runtime error")
			}
		case demand:
			class = "ok:other"
			report("override-not-observed:"+a.Group, fmt.Sprintf("%s: %q yields %s, not the replacement", c.String(), a.Script, f), in, f, "the replacement")
		default:
			class = "ok:other"
			r.Add("removed_attempt_other_result", 1)
		}
	}
	r.Outcome("script|" + c.kind() + "|" + a.Form + "|" + class)
	if verbose {
		if res.err != nil {
			fmt.Printf("  %q -> error %q\n", a.Script, ev.Clip(res.err.Error(), 160))
		} else {
			fmt.Printf("  %q -> %s (replacement: %v; default yields %s)\n", a.Script, fp(res.obj), repl != nil && res.obj == repl, a.F0)
		}
	}
}

// ---------------------------------------------------------------- independence

// runSequence builds the configurations in order and then requires every default
// configuration of the sequence to have the baseline closure.
func (u *universe) runSequence(r *ev.Run, seq []cfgSpec, verbose bool) (states, trans int) {
	in := caseIn{Kind: "sequence", Seq: seq}
	var built []map[string]any
	for _, c := range seq {
		_, globals, _, pan := c.build()
		if pan != "" {
			r.Report("c11-panic", "building "+c.String()+" panicked: "+pan, in, "panic", "a Config")
			return
		}
		built = append(built, globals)
	}
	var names []string
	for _, c := range seq {
		names = append(names, c.String())
	}
	for i, c := range seq {
		if c.kind() != "default" {
			continue
		}
		g := buildGraph(built[i], u.alphabet)
		if g.capped {
			r.Cap("closure of a default configuration exceeds 200000 objects; expansion stopped")
		}
		states += len(g.nodes)
		trans += g.trans
		d := diffSig(u.baseSig, g.signature())
		if verbose {
			fmt.Printf("sequence %v: default configuration #%d differs from the baseline: %q\n", names, i+1, d)
		}
		if d != "" {
			r.Report("config-interference:closure", fmt.Sprintf("after building [%s] the default configuration #%d differs from the baseline: %s", strings.Join(names, " ; "), i+1, d), in, d, "baseline closure")
		}
		r.Outcome(fmt.Sprintf("sequence|len%d|pos%d|same=%v", len(seq), i+1, d == ""))
	}
	return
}

// runSequenceScript evaluates a script under the restricted configuration and then
// under the default one; the default result must be the baseline result.
func (u *universe) runSequenceScript(r *ev.Run, c cfgSpec, a attempt, verbose bool) {
	if a.F0 == "" {
		return
	}
	opts, _ := c.options()
	evalScript(a.Script, opts)
	res := evalScript(a.Script, nil)
	got := ""
	switch {
	case res.panicked != "":
		got = "panic: " + res.panicked
	case res.err != nil:
		got = "error: " + res.err.Error()
	default:
		got = fp(res.obj)
	}
	if verbose {
		fmt.Printf("Eval under %s, then default Eval of %q -> %s (baseline %s)\n", c.String(), a.Script, got, a.F0)
	}
	if got != a.F0 {
		in := caseIn{Kind: "sequence-script", Cfg: c, Script: a.Script, Target: a.Target, Form: a.Form}
		r.Report("config-interference:script", fmt.Sprintf("after an Eval under %s the default Eval of %q yields %s", c.String(), a.Script, ev.Clip(got, 120)), in, got, a.F0)
	}
	r.Outcome(fmt.Sprintf("sequence-script|%s|same=%v", c.kind(), got == a.F0))
}

// ---------------------------------------------------------------- the check

func Check(r *ev.Run, replay string) {
	t0 := time.Now()
	u := loadUniverse(r)
	if u == nil {
		return
	}
	if replay != "" {
		replayOne(r, u, replay)
		return
	}
	u.baselineAttempts(r)
	r.Assumptions = []string{
		"reachability is closure under GetAttr (what LoadAttr, getattr and from-import use) plus the import table; values obtained by *calling* a reachable builtin are not followed",
		"identity across separately built configurations: builtins by (Key(), Go function symbol), modules by name, other values by (type, Inspect()); a different object wrapping the same Go function under another registered name is an alias, not a violation",
		"attribute objects synthesised on each access (x.spawn, __name__, methods of string constants) are merged on their fingerprint and not expanded",
		"the universe is the default global set of this build; modules that need extra Go modules (aws, k8s, ...) are not part of DefaultGlobals",
	}
	var states, trans int64
	addST := func(s, t int) {
		atomic.AddInt64(&states, int64(s))
		atomic.AddInt64(&trans, int64(t))
	}
	addST(len(u.base.nodes), u.base.trans)

	// baseline: the closure model agrees with the VM on every edge of the baseline closure
	u.validateBaseline(r)

	// configurations
	var singles, all []cfgSpec
	for _, n := range u.names {
		singles = append(singles, cfgSpec{Deny: []string{n.Name}})
	}
	for _, n := range u.names {
		singles = append(singles, cfgSpec{Override: []string{n.Name}, Repl: "builtin"})
	}
	singles = append(singles, cfgSpec{NoDefaults: true}, cfgSpec{NoDefaults: true, Host: true})
	// the option that changes what the http module is built with, next to each way of taking http away
	singles = append(singles, cfgSpec{NoDefaults: true, Listeners: true}, cfgSpec{NoDefaults: true, Host: true, Listeners: true},
		cfgSpec{Deny: []string{"http"}, Listeners: true}, cfgSpec{Override: []string{"http"}, Repl: "builtin", Listeners: true}, cfgSpec{Override: []string{"http"}, Repl: "module", Listeners: true})
	for _, n := range u.names {
		if n.Mod == "http" {
			singles = append(singles, cfgSpec{Deny: []string{n.Name}, Listeners: true}, cfgSpec{Override: []string{n.Name}, Repl: "builtin", Listeners: true})
		}
	}
	// a host that keeps one VM (risor.WithVM): the VM has run under the default configuration, the
	// script under test then runs on it with a whole module denied / without the defaults
	for _, n := range u.names {
		if n.IsModule {
			singles = append(singles, cfgSpec{Deny: []string{n.Name}, ReuseVM: true})
			singles = append(singles, cfgSpec{Deny: []string{n.Name}, PreparedVM: true})
		}
	}
	singles = append(singles, cfgSpec{NoDefaults: true, ReuseVM: true}, cfgSpec{NoDefaults: true, PreparedVM: true})
	all = append(all, singles...)
	for _, n := range u.names {
		all = append(all, cfgSpec{Override: []string{n.Name}, Repl: "module"})
		all = append(all, cfgSpec{Deny: []string{n.Name}, Override: []string{n.Name}, Repl: "builtin"})
		all = append(all, cfgSpec{Deny: []string{n.Name}, Override: []string{n.Name}, Repl: "builtin", OverrideFirst: true})
	}
	pairs := 0
	closureOnlyFrom := -1 // configurations from this index on get part (a) only
	if r.Thorough() {
		var mods []string
		for m := range u.members {
			mods = append(mods, m)
		}
		sort.Strings(mods)
		for _, m := range mods {
			mem := u.members[m]
			for i := range mem {
				// the module itself together with one member
				all = append(all, cfgSpec{Deny: []string{m, m + "." + mem[i]}, Variadic: true})
				pairs++
				for j := range mem {
					if i < j {
						all = append(all, cfgSpec{Deny: []string{m + "." + mem[i], m + "." + mem[j]}, Variadic: true})
						pairs++
					}
					if i != j {
						all = append(all, cfgSpec{Deny: []string{m + "." + mem[i]}, Override: []string{m + "." + mem[j]}, Repl: "builtin"})
						pairs++
					}
				}
			}
		}
		// a top-level name together with each name registered for the same Go function (alias pairs)
		for _, al := range u.aliasPairs() {
			all = append(all, cfgSpec{Deny: []string{al[0], al[1]}, Variadic: true})
			pairs++
		}
		// every remaining pair of denials over U (different modules / top-level names): closure only
		closureOnlyFrom = len(all)
		for i, a := range u.names {
			for _, b := range u.names[i+1:] {
				if a.Mod != "" && a.Mod == b.Mod || a.IsModule && b.Mod == a.Name || b.IsModule && a.Mod == b.Name {
					continue
				}
				all = append(all, cfgSpec{Deny: []string{a.Name, b.Name}})
				pairs++
			}
		}
	}

	if os.Getenv("VERIF_C11_TIMING") != "" {
		fmt.Fprintf(os.Stderr, "c11: baseline done at %.1fs\n", time.Since(t0).Seconds())
	}
	// independence, sequentially (configurations that share state must not be exercised in parallel)
	seqs := 0
	before := r.NumViolations()
	for _, c := range singles {
		s, t := u.runSequence(r, []cfgSpec{c, {}}, false)
		addST(s, t)
		s, t = u.runSequence(r, []cfgSpec{{}, c, {}}, false)
		addST(s, t)
		seqs += 2
		r.Eval(2)
		if len(c.Deny)+len(c.Override) == 1 {
			target := append(append([]string{}, c.Deny...), c.Override...)[0]
			if ids := u.byTarget[target]; len(ids) > 0 {
				u.runSequenceScript(r, c, u.attempts[ids[0]], false)
				seqs++
				r.Eval(1)
			}
		}
		if r.NumViolations() > before+3 {
			break
		}
	}
	sharedHostMap(r)
	r.Set("sequences", seqs)
	if os.Getenv("VERIF_C11_TIMING") != "" {
		fmt.Fprintf(os.Stderr, "c11: independence phase done at %.1fs\n", time.Since(t0).Seconds())
	}
	if r.NumViolations() > before {
		// shared state between configurations: exercising them in parallel would race inside risor
		r.Set("parallel_phases_skipped", "configurations interfere; per-configuration phases not run")
		r.Cap("per-configuration phases skipped after interference between configurations was found")
		u.finish(r, states, trans, len(all), pairs)
		return
	}

	// per configuration: closure + script attempts
	type job struct {
		cfg int
		att int // -1: closure
	}
	var jobs []job
	for ci, c := range all {
		jobs = append(jobs, job{ci, -1})
		if closureOnlyFrom >= 0 && ci >= closureOnlyFrom {
			continue
		}
		removed, _, _ := u.effective(c)
		var targets []string
		if c.NoDefaults {
			for _, n := range u.names {
				targets = append(targets, n.Name)
			}
		} else {
			targets = append(append(targets, c.Deny...), c.Override...)
		}
		seen := map[int]bool{}
		for _, t := range targets {
			if !removed[t] {
				continue
			}
			for _, ai := range u.byTarget[t] {
				if !seen[ai] && u.attempts[ai].F0 != "" {
					seen[ai] = true
					jobs = append(jobs, job{ci, ai})
				}
			}
		}
	}
	var pmu sync.Mutex
	var pending []pendingReport
	ev.ParFor(len(jobs), func(i int) {
		j := jobs[i]
		c := all[j.cfg]
		report := func(sig, what string, in caseIn, observed, expected string) {
			pmu.Lock()
			pending = append(pending, pendingReport{i, sig, what, observed, expected, in})
			pmu.Unlock()
		}
		if j.att < 0 {
			s, t := u.checkClosure(r, report, c, false)
			addST(s, t)
			r.Eval(1)
			return
		}
		u.checkScript(r, report, c, u.attempts[j.att], false)
		r.Eval(1)
	})
	sort.SliceStable(pending, func(a, b int) bool { return pending[a].job < pending[b].job })
	for _, p := range pending {
		r.Report(p.sig, p.what, p.in, p.observed, p.expected)
	}
	if os.Getenv("VERIF_C11_TIMING") != "" {
		fmt.Fprintf(os.Stderr, "c11: per-configuration phase done at %.1fs\n", time.Since(t0).Seconds())
	}

	// deny lists of several names (applied by risor in Go map order): every configuration built repeatedly
	rcfgs, rsizes, unres := u.repeatedFamilies(r.Thorough())
	if unres == nil {
		r.EngineError("the unresolvable spellings collide with names of U")
		return
	}
	probe, _ := mapOrderProbe()
	if !ownedOrders {
		r.Cap("built without the map seam: Go's map order is not owned, every deny-list configuration was only constructed repeatedly")
	}
	var rmu sync.Mutex
	var rtot repeatedStats
	maxShapes := 0
	pending = nil
	ev.ParFor(len(rcfgs), func(i int) {
		report := func(sig, what string, in caseIn, observed, expected string) {
			pmu.Lock()
			pending = append(pending, pendingReport{i, sig, what, observed, expected, in})
			pmu.Unlock()
		}
		st := u.checkRepeated(r, report, rcfgs[i], r.Thorough(), r.Thorough(), false)
		addST(st.states, st.trans)
		rmu.Lock()
		rtot.constructions += st.constructions
		rtot.closures += st.closures
		rtot.sites += st.sites
		if st.shapes > maxShapes {
			maxShapes = st.shapes
		}
		rmu.Unlock()
	})
	sort.SliceStable(pending, func(a, b int) bool { return pending[a].job < pending[b].job })
	for _, p := range pending {
		r.Report(p.sig, p.what, p.in, p.observed, p.expected)
	}
	r.Set("repeated_deny_lists", map[string]any{
		"configurations":                           len(rcfgs),
		"by_family":                                rsizes,
		"unresolvable_spellings":                   unres,
		"map_order_owned_by_harness":               ownedOrders,
		"dynamic_map_range_sites_visited":          rtot.sites,
		"constructions":                            rtot.constructions,
		"closures":                                 rtot.closures,
		"max_distinct_shapes_of_one_configuration": maxShapes,
		"map_order_probe":                          probe,
	})
	u.thoroughRepeated = r.Thorough()
	if os.Getenv("VERIF_C11_TIMING") != "" {
		fmt.Fprintf(os.Stderr, "c11: repeated deny lists done at %.1fs\n", time.Since(t0).Seconds())
	}
	r.Sample(caseIn{Kind: "repeated", Cfg: cfgSpec{Deny: []string{"nosuch.thing", "os.exit"}, Variadic: true, Family: "unresolvable+name"}})
	r.Sample(caseIn{Kind: "closure", Cfg: cfgSpec{Deny: []string{"os.exit"}}})
	r.Sample(caseIn{Kind: "script", Cfg: cfgSpec{Deny: []string{"os.exit"}}, Script: "os.getenv.__module__.exit", Target: "os.exit", Form: "backref-attr"})
	r.Sample(caseIn{Kind: "script", Cfg: cfgSpec{Override: []string{"os.getenv"}, Repl: "builtin"}, Script: "from os import getenv\ngetenv", Target: "os.getenv", Form: "from-import"})
	r.Sample(caseIn{Kind: "sequence", Seq: []cfgSpec{{}, {Deny: []string{"os"}}, {}}})
	u.finish(r, states, trans, len(all), pairs)
}

func (u *universe) aliasPairs() [][2]string {
	var out [][2]string
	for _, al := range u.aliases {
		names := strings.Split(strings.SplitN(al, "  (", 2)[0], " = ")
		for i := range names {
			for j := i + 1; j < len(names); j++ {
				out = append(out, [2]string{names[i], names[j]})
			}
		}
	}
	return out
}

// validateBaseline evaluates every edge of the baseline closure as a script under
// the default configuration; the VM must yield the object the closure holds.
func (u *universe) validateBaseline(r *ev.Run) {
	type pe struct{ path, fp string }
	var ps []pe
	for k, i := range u.base.roots {
		ps = append(ps, pe{k, u.base.nodes[i].fp})
	}
	for _, e := range u.base.edges {
		to := u.base.nodes[e.to]
		if _, dyn := to.obj.(object.AttrResolver); dyn {
			continue // resolved by the VM at load time: the script sees the resolved value
		}
		ps = append(ps, pe{u.base.nodes[e.from].path + "." + e.attr, to.fp})
	}
	sort.Slice(ps, func(i, j int) bool { return ps[i].path < ps[j].path })
	mism := make([]string, len(ps))
	ev.ParFor(len(ps), func(i int) {
		res := evalScript(ps[i].path, nil)
		got := ""
		switch {
		case res.panicked != "":
			got = "panic " + res.panicked
		case res.err != nil:
			got = "error " + res.err.Error()
		default:
			got = fp(res.obj)
		}
		if got != ps[i].fp {
			mism[i] = fmt.Sprintf("closure model and VM disagree under the default configuration: %s is %s in the closure, the script yields %s", ps[i].path, ps[i].fp, ev.Clip(got, 160))
		}
		r.Outcome("baseline-edge|" + strings.SplitN(ps[i].fp, "|", 2)[0])
	})
	for _, m := range mism {
		if m != "" {
			r.EngineError(m)
			break
		}
	}
	r.Eval(len(ps))
	r.Set("baseline_paths_validated", len(ps))
}

func (u *universe) finish(r *ev.Run, states, trans int64, ncfg, pairs int) {
	mods, consts := 0, 0
	for _, n := range u.names {
		if n.IsModule {
			mods++
		}
		if n.Mod != "" && !strings.HasPrefix(n.FP, "builtin|") {
			consts++
		}
	}
	appl := 0
	for _, a := range u.attempts {
		if a.F0 != "" {
			appl++
		}
	}
	ambiguous := []string{}
	for f, ns := range u.fpNames {
		if len(ns) > 1 {
			ambiguous = append(ambiguous, strings.Join(ns, " = ")+"  ("+f+")")
		}
	}
	sort.Strings(ambiguous)
	r.Set("states", atomic.LoadInt64(&states))
	r.Set("transitions", atomic.LoadInt64(&trans))
	r.Set("traces_validated_against_impl", atomic.LoadInt64(&evals))
	r.Set("universe", map[string]int{"names": len(u.names), "modules": mods, "module_members": len(u.names) - len(u.base.roots), "non_builtin_members": consts, "top_level": len(u.base.roots)})
	r.Set("alphabet", len(u.alphabet))
	r.Set("baseline_closure", map[string]int{"objects": len(u.base.nodes), "getattr_edges": u.base.trans})
	r.Set("configurations", ncfg)
	r.Set("pair_configurations", pairs)
	r.Set("attempt_scripts", map[string]int{"generated": len(u.attempts), "access_paths_under_default": appl})
	r.Set("attempts_not_applicable", clipList(u.notAppl, 40))
	r.Set("aliases", u.aliases)
	r.Set("indistinguishable_names", ambiguous)
	rule := "U = every global name and every module.member of an unrestricted risor.NewConfig(); configurations: WithoutGlobal(n), WithGlobalOverride(n, builtin), WithGlobalOverride(n, module), WithoutGlobal(n)+WithGlobalOverride(n) in both option orders for every n in U, WithoutDefaultGlobals, WithoutDefaultGlobals+one host global"
	if r.Thorough() {
		rule += "; every pair of denials inside one module, module+member, deny a + override b for every ordered pair inside one module, every pair of alias names (all with script attempts); every other pair of denials over U (closure only)"
	}
	rule += "; per configuration: full GetAttr closure from cfg.Globals() over the attribute alphabet (fixpoint) and every script attempt for the removed names (identifier, in function, import, import-as, from-import, from-import-as, attribute, getattr, back-references through every baseline path that reaches the module) evaluated with risor.Eval; independence: sequences (R, default) and (default, R, default) for every single denial / override / no-defaults R, built sequentially, plus Eval(R) then Eval(default); one host map handed with WithGlobals to every ordered pair of five configuration shapes (default, no defaults, a denied global, a denied module member, an override), as the first and as the last option: the host map stays as it was and every configuration equals the one built on a map of its own. distinct = (configuration kind, attempt form, outcome class) tuples"
	rule += "; deny lists of several names: (a) WithoutGlobals(u, n) and (n, u) for every n in U and 3 unresolvable spellings u (no such module / nested path below a missing member / missing member of an existing module), (b) every insertion order of (m, m.x, other) for every module m and member x"
	if u.thoroughRepeated {
		rule += " and 3 names outside m"
	} else {
		rule += " and 1 of 3 names outside m (rotating)"
	}
	rule += ", (c) every ordered selection of " + map[bool]string{true: "3 and of 4", false: "3"}[u.thoroughRepeated] + " names from a pool of 2 plain, 2 dotted and 3 unresolvable names that mixes resolvable and unresolvable ones. risor applies the deny list in the iteration order of a Go map: the check is built with the map seam (tools/mapseam rewrites every range over a Go map in risor's packages into the virtual package vseam, build overlay only), so the harness owns that order: every configuration is constructed in the base (sorted) order and once for every single-site deviation at every map range the construction executes (every permutation for <= 4 keys - this covers every application order of every deny list here; quick: outside risor_config.go/risor_globals.go/risor_options.go only the reverse order; for larger maps the reverse order, thorough also three rotations and both boundary swaps); every permutation of a list is also its own configuration (insertion order)"
	if u.thoroughRepeated {
		rule += ", with the full closure oracle on every construction"
	} else {
		rule += "; quick tier: the full closure oracle on the first construction and on every construction whose name shape (global names + member names of every module, i.e. all a deny list can change) was not closed yet for that configuration"
	}
	rule += "; the primary script attempts for the resolvable denied names run on the first construction of every distinct shape on that very Config (parse, compile with cfg.CompilerOpts, vm.Run with cfg.VMOpts = the body of risor.Eval) and, one form per target, through risor.Eval. Unresolvable names are a documented no-op and carry no demand"
	r.Set("rule", rule)
}

func clipList(l []string, n int) []string {
	if len(l) > n {
		return append(append([]string{}, l[:n]...), fmt.Sprintf("... %d in total", len(l)))
	}
	return l
}

// ---------------------------------------------------------------- replay

func replayOne(r *ev.Run, u *universe, path string) {
	var in caseIn
	if err := ev.ReadReplay(path, &in); err != nil {
		r.EngineError("replay: " + err.Error())
		return
	}
	fmt.Printf("replay: kind=%s config=%s\n", in.Kind, in.Cfg.String())
	switch in.Kind {
	case "closure":
		u.checkClosure(r, direct(r), in.Cfg, true)
	case "script", "sequence-script":
		a := attempt{Form: in.Form, Script: in.Script, Target: in.Target, Direct: true, Group: "attr"}
		found := false
		for _, b := range u.attempts {
			if b.Script == in.Script && b.Target == in.Target {
				a, found = b, true
				break
			}
		}
		_ = found
		if res := evalScript(a.Script, nil); res.err == nil && res.obj != nil {
			a.F0 = fp(res.obj)
		}
		fmt.Printf("  default configuration: %q -> %s\n", a.Script, a.F0)
		if in.Kind == "script" {
			u.checkScript(r, direct(r), in.Cfg, a, true)
		} else {
			u.runSequenceScript(r, in.Cfg, a, true)
		}
	case "sequence":
		u.runSequence(r, in.Seq, true)
	case "repeated":
		// every order of every map range the construction executes, full closure each time
		for i := range u.attempts {
			a := &u.attempts[i]
			for _, d := range in.Cfg.Deny {
				if a.Target == d && primaryForms[a.Form] {
					if res := evalScript(a.Script, nil); res.err == nil && res.obj != nil {
						a.F0 = fp(res.obj)
					}
				}
			}
		}
		u.checkRepeated(r, direct(r), in.Cfg, true, true, true)
	default:
		r.EngineError("replay: unknown kind " + in.Kind)
	}
	r.Eval(1)
	r.Outcome("replay")
	r.Outcome("replay2")
}
