package c17

import (
	"bytes"
	"context"
	"fmt"
	"strings"
	"time"

	"github.com/risor-io/risor/compiler"
	"github.com/risor-io/risor/parser"

	"verif/internal/ev"
	"verif/internal/rt"
)

// Code built incrementally: one compiler is fed several inputs (the REPL way), some of which it
// rejects; the accumulated code is then marshalled. Every sequence of <= 3 pieces over a small
// alphabet of accepted and rejected inputs (rejected at the top level, inside a function literal,
// inside a named function, inside a block). Oracle as for whole programs: unmarshalling never
// fails, re-marshalling gives the same bytes, the reloaded code runs like the original.

var sessionPieces = []string{
	"x := 1",
	"x = x + 1",
	"func f(a) { return a + x }",
	"g := func(b) { return func() { return b * 2 } }",
	"[f(1), g(2)()]",
	"undefined_name",
	"h := func() { return undefined_name }",
	"func k() { if true { q := func() { undefined_name } } }",
	"if true { y := 2; undefined_name }",
	"const c = 3\nc = 4",
	"x",
	"func __main__(n) { if n == 0 { return 0 }\n return __main__(n - 1) + 1 }",
	"__main__(3)",
}

func sessions(maxLen int) [][]int {
	var out [][]int
	var rec func(cur []int)
	rec = func(cur []int) {
		if len(cur) > 0 {
			out = append(out, append([]int{}, cur...))
		}
		if len(cur) == maxLen {
			return
		}
		for i := range sessionPieces {
			rec(append(cur, i))
		}
	}
	rec(nil)
	return out
}

// session compiles the pieces on one compiler and checks the accumulated code of the last accepted piece.
// perPiece: every piece is compiled by a new compiler that continues the code of the accepted ones
// (compiler.WithCode), the way a host that keeps only the code object between requests does.
func session(r *ev.Run, env *rt.Env, seq []int, perPiece bool) {
	var names []string
	for _, i := range seq {
		names = append(names, sessionPieces[i])
	}
	label := strings.Join(names, " ;; ")
	if perPiece {
		label = "[a new compiler per piece] " + label
	}
	rep := func(kind, what string) {
		r.Report("C17:session:"+kind, "incremental session ["+label+"]\n  "+what, replayIn{"session", label}, what, "")
	}
	defer func() {
		if p := recover(); p != nil {
			rep("gopanic", fmt.Sprint(p))
		}
	}()
	c, err := compiler.New(compiler.WithGlobalNames(env.Names))
	if err != nil {
		r.EngineError(err.Error())
		return
	}
	var code *compiler.Code
	accepted := 0
	for _, i := range seq {
		tree, err := parser.Parse(context.Background(), sessionPieces[i])
		if err != nil {
			continue
		}
		if perPiece && code != nil {
			c, err = compiler.New(compiler.WithGlobalNames(env.Names), compiler.WithCode(code))
			if err != nil {
				r.EngineError(err.Error())
				return
			}
		}
		if cc, err := c.Compile(tree); err == nil {
			code = cc
			accepted++
		}
	}
	r.Eval(1)
	if code == nil {
		r.Outcome("session|nothing-accepted")
		return
	}
	b1, err := safeMarshal(code)
	if err != nil {
		rep("marshal-fails", err.Error())
		return
	}
	c2, err := safeUnmarshal(b1)
	if err != nil {
		rep("unmarshal-fails", "UnmarshalCode rejects what MarshalCode produced for the accumulated code: "+err.Error())
		return
	}
	if b2, err := safeMarshal(c2); err != nil || !bytes.Equal(b1, b2) {
		rep("remarshal-differs", "marshal(unmarshal(b)) != b: "+firstDiff(b1, b2))
	}
	env.Reset()
	o1 := env.RunCode(code, nil, 5*time.Second)
	o1.Release()
	env.Reset()
	o2 := env.RunCode(c2, nil, 5*time.Second)
	o2.Release()
	r.Outcome(fmt.Sprintf("session|accepted=%d|%s|%s", accepted, o1.Stage, ev.Clip(o1.Val, 30)))
	if o1.Stage != o2.Stage || o1.Class != o2.Class || (o1.Stage == "ok" && o1.Val != o2.Val && !strings.Contains(o1.Val, "func")) {
		rep("behaviour-differs", fmt.Sprintf("original %s (%s %q) vs reloaded %s (%s %q)", o1.Stage, o1.Val, o1.ErrText, o2.Stage, o2.Val, o2.ErrText))
	}
}
