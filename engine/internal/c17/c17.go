// Package c17: serialised bytecode behaves exactly like the code it was made from.
// Every program of the shared corpus (all C01/C02 families + constant kinds) is compiled,
// marshalled, unmarshalled and executed side by side with the original.
package c17

import (
	"bytes"
	"fmt"
	"strings"
	"sync/atomic"
	"time"
	"unicode/utf8"

	"github.com/risor-io/risor/compiler"

	"verif/internal/c01"
	"verif/internal/diffo"
	"verif/internal/ev"
	"verif/internal/progen"
	"verif/internal/rt"
)

type replayIn struct {
	Fam string `json:"family"`
	Src string `json:"source"`
}

func safeMarshal(c *compiler.Code) (b []byte, err error) {
	defer func() {
		if r := recover(); r != nil {
			err = fmt.Errorf("GO PANIC in MarshalCode: %v", r)
		}
	}()
	return compiler.MarshalCode(c)
}

func safeUnmarshal(b []byte) (c *compiler.Code, err error) {
	defer func() {
		if r := recover(); r != nil {
			err = fmt.Errorf("GO PANIC in UnmarshalCode: %v", r)
		}
	}()
	return compiler.UnmarshalCode(b)
}

func features(src string, prog progen.Program) string {
	var f []string
	if prog.Prog != nil {
		if ft := diffo.Features(prog.Prog); ft != "" {
			f = append(f, ft)
		}
	}
	if prog.Tag != "" {
		f = append(f, prog.Tag)
	}
	if hasNonUTF8Literal(src) {
		f = append(f, "non-utf8-string-constant")
	}
	return strings.Join(f, ",")
}

// hasNonUTF8Literal: the source contains an octal escape that produces a byte >= 0x80 which
// does not form valid UTF-8 together with its neighbours (decided on the decoded literal).
func hasNonUTF8Literal(src string) bool {
	for i := 0; i+3 < len(src); i++ {
		if src[i] == '\\' && src[i+1] >= '2' && src[i+1] <= '3' && isOct(src[i+2]) && isOct(src[i+3]) {
			// decode the maximal run of octal escapes starting here
			var run []byte
			j := i
			for j+3 < len(src)+0 && j+3 <= len(src)-1+0 && src[j] == '\\' && src[j+1] >= '0' && src[j+1] <= '3' && isOct(src[j+2]) && isOct(src[j+3]) {
				run = append(run, (src[j+1]-'0')<<6|(src[j+2]-'0')<<3|(src[j+3]-'0'))
				j += 4
			}
			if !utf8.Valid(run) {
				return true
			}
			i = j - 1
		}
	}
	return false
}

func isOct(c byte) bool { return c >= '0' && c <= '7' }

type stats struct{ compiled, rejected, ran int64 }

func one(r *ev.Run, env *rt.Env, p progen.Program, st *stats, verbose bool) {
	src := p.Src()
	env.Reset()
	c1, _ := env.Compile(src)
	if c1 == nil {
		atomic.AddInt64(&st.rejected, 1)
		return
	}
	atomic.AddInt64(&st.compiled, 1)
	r.Eval(1)
	ft := features(src, p)
	rep := func(kind, what, obs, exp string) {
		sig := "C17:" + kind
		if ft != "" {
			sig += ":" + ft
		}
		r.Report(sig, src+"\n  "+what, replayIn{p.Fam, src}, obs, exp)
		if verbose {
			fmt.Println("  ", kind, what)
		}
	}
	b1, err := safeMarshal(c1)
	if err != nil {
		if strings.Contains(err.Error(), "nested too deeply") {
			// the marshaller declines: no data, nothing that could fail to load
			r.Outcome(p.Fam + "|marshal-declined-depth")
			return
		}
		rep("marshal-fails", err.Error(), err.Error(), "bytes")
		return
	}
	b1b, _ := safeMarshal(c1)
	if !bytes.Equal(b1, b1b) {
		rep("marshal-not-deterministic", "two MarshalCode calls on one code object differ", "", "")
	}
	// a second compilation of the same source gives the same bytes
	if cB, _ := env.Compile(src); cB != nil {
		if bB, err := safeMarshal(cB); err == nil && !bytes.Equal(b1, bB) {
			rep("compile-not-deterministic", "compiling the same source twice gives different marshalled bytes: "+firstDiff(b1, bB), "", "")
		}
	}
	c2, err := safeUnmarshal(b1)
	if err != nil {
		rep("unmarshal-fails", "UnmarshalCode rejects what MarshalCode produced: "+err.Error(), err.Error(), "code")
		return
	}
	b2, err := safeMarshal(c2)
	if err != nil {
		rep("remarshal-fails", err.Error(), err.Error(), "bytes")
	} else if !bytes.Equal(b1, b2) {
		rep("remarshal-differs", "marshal(unmarshal(b)) != b: "+firstDiff(b1, b2), "", "")
	}
	// run both
	o1 := env.RunCode(c1, p.Names, 5*time.Second)
	o1.Release()
	env.Reset()
	o2 := env.RunCode(c2, p.Names, 5*time.Second)
	o2.Release()
	atomic.AddInt64(&st.ran, 1)
	r.Outcome(p.Fam + "|" + o1.Stage + "|" + o1.Class + "|" + ev.Clip(o1.Val, 30))
	if o1.Class == "timeout" || o2.Class == "timeout" {
		return // non-terminating programs of the corpus: nothing to compare
	}
	d := ""
	switch {
	case o1.Stage != o2.Stage:
		d = fmt.Sprintf("original %s (%s %q) vs reloaded %s (%s %q)", o1.Stage, o1.Val, o1.ErrText, o2.Stage, o2.Val, o2.ErrText)
	case o1.Stage == "run" && (o1.Class != o2.Class || o1.UserMsg != o2.UserMsg):
		d = fmt.Sprintf("original error %q vs reloaded error %q", o1.ErrText, o2.ErrText)
	case o1.Stage == "ok" && o1.Val != o2.Val && !strings.Contains(o1.Val, "func"):
		d = fmt.Sprintf("original value %s vs reloaded value %s", o1.Val, o2.Val)
	case fmt.Sprint(o1.Log) != fmt.Sprint(o2.Log):
		d = fmt.Sprintf("original output %q vs reloaded output %q", o1.Log, o2.Log)
	}
	if d != "" {
		rep("behaviour-differs", d, d, "identical behaviour")
	}
	// after both have run: the original still marshals to the same bytes, and the bytes load
	// into code that behaves the same as the first load did (a run must not leave anything
	// behind in a code object or in state shared between loads)
	if b1c, err := safeMarshal(c1); err != nil || !bytes.Equal(b1, b1c) {
		rep("marshal-differs-after-run", "MarshalCode of the original gives other bytes after the code has been run: "+firstDiff(b1, b1c), "", "")
	}
	if c3, err := safeUnmarshal(b1); err != nil {
		rep("unmarshal-fails", "a second UnmarshalCode of the same bytes fails: "+err.Error(), err.Error(), "code")
	} else {
		env.Reset()
		o3 := env.RunCode(c3, p.Names, 5*time.Second)
		o3.Release()
		env.Reset()
		o4 := env.RunCode(c2, p.Names, 5*time.Second) // the first load, run a second time on a fresh VM
		o4.Release()
		for _, pair := range []struct {
			name string
			o    rt.Outcome
		}{{"a second load of the same bytes", o3}, {"the reloaded code run a second time", o4}} {
			o := pair.o
			if o.Class == "timeout" {
				continue
			}
			if o.Stage != o2.Stage || o.Class != o2.Class || o.UserMsg != o2.UserMsg || (o.Stage == "ok" && o.Val != o2.Val && !strings.Contains(o2.Val, "func")) || fmt.Sprint(o.Log) != fmt.Sprint(o2.Log) {
				dd := fmt.Sprintf("%s: %s (%s %q %q) vs first run of the reloaded code %s (%s %q %q)", pair.name, o.Stage, o.Val, o.ErrText, o.Log, o2.Stage, o2.Val, o2.ErrText, o2.Log)
				rep("reload-not-repeatable", dd, dd, "identical behaviour")
			}
		}
	}
	if verbose {
		fmt.Printf("  original: %s %s %q %q\n  reloaded: %s %s %q %q\n", o1.Stage, o1.Val, o1.ErrText, o1.Log, o2.Stage, o2.Val, o2.ErrText, o2.Log)
	}
}

func firstDiff(a, b []byte) string {
	n := len(a)
	if len(b) < n {
		n = len(b)
	}
	i := 0
	for i < n && a[i] == b[i] {
		i++
	}
	lo := i - 30
	if lo < 0 {
		lo = 0
	}
	hiA, hiB := i+40, i+40
	if hiA > len(a) {
		hiA = len(a)
	}
	if hiB > len(b) {
		hiB = len(b)
	}
	return fmt.Sprintf("at byte %d: ...%s vs ...%s", i, a[lo:hiA], b[lo:hiB])
}

func Check(r *ev.Run, replay string) {
	st := &stats{}
	if replay != "" {
		var in replayIn
		if err := ev.ReadReplay(replay, &in); err != nil {
			r.EngineError(err.Error())
			return
		}
		fmt.Println(in.Src)
		if in.Fam == "session" {
			label, perPiece := in.Src, false
			if strings.HasPrefix(label, "[a new compiler per piece] ") {
				label, perPiece = strings.TrimPrefix(label, "[a new compiler per piece] "), true
			}
			var seq []int
			for _, piece := range strings.Split(label, " ;; ") {
				for i, p := range sessionPieces {
					if p == piece {
						seq = append(seq, i)
					}
				}
			}
			session(r, rt.NewEnv(nil), seq, perPiece)
			r.Outcome("replay")
			return
		}
		one(r, rt.NewEnv(nil), progen.Program{Fam: in.Fam, Raw: in.Src}, st, true)
		r.Outcome("replay")
		return
	}
	var n int32
	c01.Pool(func(y func(progen.Program)) {
		progen.Corpus(r.Thorough(), y)
		progen.F7(y)
		if r.Thorough() {
			progen.F2(5, progen.F2CtrlUnderSwitchInLoop, y)
		}
	}, func(env *rt.Env, p progen.Program) {
		if atomic.AddInt32(&n, 1)%4001 == 1 {
			r.Sample(map[string]string{"family": p.Fam, "source": p.Src()})
		}
		one(r, env, p, st, false)
	})
	// blocks nested thousands of levels deep: the symbol tables are marshalled as a tree as deep as the nesting,
	// which encoding/json writes at any depth and reads down to 10000 levels only
	{
		var deep []progen.Program
		for _, open := range []struct{ name, open, close string }{{"for", "for false { ", " }"}, {"if", "if true { ", " }"}, {"else", "if false { } else { ", " }"}, {"range", "for i := range 0 { ", " }"}, {"switch", "switch 1 { default: ", " }"}} {
			for _, n := range []int{500, 1600, 2499, 2500, 2600, 3400, 4990, 4999} {
				deep = append(deep, progen.Program{Fam: "deep-" + open.name, Raw: strings.Repeat(open.open, n) + "y := 1" + strings.Repeat(open.close, n) + "\n7"})
			}
		}
		envs := make([]*rt.Env, 16)
		ev.ParFor(16, func(w int) {
			envs[w] = rt.NewEnv(nil)
			for i := w; i < len(deep); i += 16 {
				one(r, envs[w], deep[i], st, false)
			}
		})
		r.Set("deeply_nested_programs", len(deep))
	}
	// forward jumps of every distance in a window around 65535 words, the largest a two-byte operand holds (and the
	// value the compiler writes as a placeholder before it knows the distance): a conditional body, and an else
	// branch, sized by statements of three words and of two
	{
		var far []progen.Program
		for n := 21836; n <= 21848; n++ {
			for k := 0; k <= 2; k++ {
				body := strings.Repeat("x\n", n) + strings.Repeat("nil\n", k)
				far = append(far, progen.Program{Fam: "far-jump-if", Raw: "x := 1\nc := false\nif c {\n" + body + "}\n7"},
					progen.Program{Fam: "far-jump-if-taken", Raw: "x := 1\nc := true\nif c {\n" + body + "}\n7"},
					progen.Program{Fam: "far-jump-else", Raw: "x := 1\nc := true\nif c {\nx\n} else {\n" + body + "}\n7"})
			}
		}
		envs := make([]*rt.Env, 16)
		ev.ParFor(16, func(w int) {
			envs[w] = rt.NewEnv(nil)
			for i := w; i < len(far); i += 16 {
				one(r, envs[w], far[i], st, false)
			}
		})
		r.Set("far_jump_programs", len(far))
	}
	r.Set("programs_compiled", int(st.compiled))
	r.Set("programs_rejected_by_compiler_skipped", int(st.rejected))
	r.Set("programs_run_side_by_side", int(st.ran))
	// code accumulated by one compiler over several inputs
	{
		ss := sessions(3)
		envs := make([]*rt.Env, 16)
		ev.ParFor(16, func(w int) {
			envs[w] = rt.NewEnv(nil)
			for i := w; i < len(ss); i += 16 {
				session(r, envs[w], ss[i], false)
				session(r, envs[w], ss[i], true)
			}
		})
		r.Set("incremental_sessions", len(ss))
	}
	r.Set("rule", "every program of the shared corpus (control skeletons, operators, functions, scoping, containers/strings, errors/defer, closures to depth 3/5, every constant kind and escape): compile, MarshalCode twice (deterministic), compile again (same bytes), UnmarshalCode (never fails), MarshalCode again (same bytes), run original and reloaded code on fresh VMs (same value, error class/message, output); afterwards the original marshals to the same bytes again, and a second load of the bytes and a second run of the first load behave like the first run; plus the code accumulated by one compiler over every sequence of <= 3 inputs from an 11-piece alphabet (accepted inputs and inputs rejected at the top level, inside a function literal, a named function, a block): marshal, unmarshal, re-marshal, run both; plus five block forms nested 500..4999 levels deep (the marshaller may decline, what it produces must load) and 117 programs whose forward jumps cover every distance in a window around 65535 words; distinct = distinct (family, outcome) pairs")
}
