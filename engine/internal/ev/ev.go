// Package ev holds what every check shares: the evidence writer, violation /
// known-finding reporting with replay files, and a small parallel-for.
package ev

import (
	"encoding/json"
	"fmt"
	"os"
	"os/exec"
	"path/filepath"
	"runtime"
	"sort"
	"strconv"
	"sync"
	"time"
)

// Home is the verification tree the check was started from (set by the run wrapper).
var Home = func() string {
	if d := os.Getenv("VERIF_HOME"); d != "" {
		return d
	}
	return "/verif"
}()

// Root is where evidence/ and replays/ are written (VERIF_OUT redirects it for experiments on scratch copies).
var Root = func() string {
	if d := os.Getenv("VERIF_OUT"); d != "" {
		return d
	}
	return Home
}()

// RepoDir is the risor tree the binary was built from.
var RepoDir = func() string {
	if d := os.Getenv("VERIF_REPO_DIR"); d != "" {
		return d
	}
	return "/repo"
}()

// Run is the state of one check invocation.
type Run struct {
	ID    string
	Tier  string // quick | thorough
	Level string // exploration | model_checking
	Seed  int

	start time.Time
	mu    sync.Mutex

	Cov         map[string]any
	Assumptions []string
	samples     []any
	distinct    map[string]struct{}
	evals       int64

	violations  []Violation
	knownHits   map[string]int
	knownFirst  map[string]string
	known       []Finding
	engineError string
	capsHit     []string
	exhaustive  bool
}

type Violation struct {
	Sig      string `json:"signature"`
	What     string `json:"what"`
	Replay   any    `json:"replay"`
	Observed string `json:"observed,omitempty"`
	Expected string `json:"expected,omitempty"`
	path     string
}

type Finding struct {
	ID        string `json:"id"`
	Property  string `json:"property"`
	Signature string `json:"signature"`
	Where     string `json:"where"`
	Witness   string `json:"witness"`
	What      string `json:"what"`
}

type findingsFile struct {
	Findings []Finding `json:"findings"`
	Fixed    []string  `json:"fixed"`
}

func New(id, tier, level string) *Run {
	seed, _ := strconv.Atoi(os.Getenv("VERIF_SEED"))
	r := &Run{ID: id, Tier: tier, Level: level, Seed: seed, start: time.Now(),
		Cov: map[string]any{}, distinct: map[string]struct{}{}, knownHits: map[string]int{}, knownFirst: map[string]string{}, exhaustive: true}
	b, err := os.ReadFile(filepath.Join(Home, "known_findings.json"))
	if err == nil {
		var ff findingsFile
		if err := json.Unmarshal(b, &ff); err != nil {
			r.EngineError("known_findings.json does not parse: " + err.Error())
		}
		for _, f := range ff.Findings {
			if f.Property == id {
				r.known = append(r.known, f)
			}
		}
	}
	return r
}

func (r *Run) Thorough() bool { return r.Tier == "thorough" }

// Eval counts n evaluated cases.
func (r *Run) Eval(n int) {
	r.mu.Lock()
	r.evals += int64(n)
	r.mu.Unlock()
}

// Outcome records one canonical outcome key (distinct_nontrivial counts the distinct ones).
func (r *Run) Outcome(key string) {
	r.mu.Lock()
	if len(r.distinct) < 2_000_000 {
		r.distinct[key] = struct{}{}
	}
	r.mu.Unlock()
}

func (r *Run) Sample(s any) {
	r.mu.Lock()
	if len(r.samples) < 12 {
		r.samples = append(r.samples, s)
	}
	r.mu.Unlock()
}

func (r *Run) Add(key string, n int) {
	r.mu.Lock()
	v, _ := r.Cov[key].(int)
	r.Cov[key] = v + n
	r.mu.Unlock()
}

func (r *Run) Set(key string, v any) {
	r.mu.Lock()
	r.Cov[key] = v
	r.mu.Unlock()
}

func (r *Run) Cap(what string) {
	r.mu.Lock()
	r.capsHit = append(r.capsHit, what)
	r.exhaustive = false
	r.mu.Unlock()
}

func (r *Run) EngineError(msg string) {
	r.mu.Lock()
	if r.engineError == "" {
		r.engineError = msg
	}
	r.mu.Unlock()
}

// Report files a failing case. sig is the structural signature used to match
// known findings; a signature not listed in known_findings.json is a violation.
func (r *Run) Report(sig, what string, replay any, observed, expected string) {
	r.mu.Lock()
	defer r.mu.Unlock()
	for _, k := range r.known {
		if sigMatch(k.Signature, sig) {
			r.knownHits[k.ID]++
			if _, ok := r.knownFirst[k.ID]; !ok {
				r.knownFirst[k.ID] = what
			}
			return
		}
	}
	for _, v := range r.violations {
		if v.Sig == sig && len(r.violations) >= 1 {
			// keep one replay per signature, count the rest
			c, _ := r.Cov["violating_cases"].(int)
			r.Cov["violating_cases"] = c + 1
			return
		}
	}
	c, _ := r.Cov["violating_cases"].(int)
	r.Cov["violating_cases"] = c + 1
	r.violations = append(r.violations, Violation{Sig: sig, What: what, Replay: replay, Observed: observed, Expected: expected})
}

func (r *Run) NumViolations() int {
	r.mu.Lock()
	defer r.mu.Unlock()
	return len(r.violations)
}

// Finish writes the evidence file, prints KNOWN-FINDING / VIOLATION lines and exits.
func (r *Run) Finish() {
	r.mu.Lock()
	defer r.mu.Unlock()
	os.MkdirAll(filepath.Join(Root, "evidence"), 0o755)
	os.MkdirAll(filepath.Join(Root, "replays"), 0o755)
	cov := r.Cov
	if _, ok := cov["evaluations"]; !ok {
		cov["evaluations"] = r.evals
	}
	if _, ok := cov["distinct_nontrivial"]; !ok {
		cov["distinct_nontrivial"] = len(r.distinct)
	}
	if len(r.samples) == 0 {
		r.samples = append(r.samples, "no sample recorded")
	}
	if f := os.Getenv("VERIF_DUMP_OUTCOMES"); f != "" {
		ks := make([]string, 0, len(r.distinct))
		for k := range r.distinct {
			ks = append(ks, k)
		}
		sort.Strings(ks)
		b, _ := json.Marshal(ks)
		os.WriteFile(f, b, 0o644)
	}
	cov["samples"] = r.samples
	cov["exhaustive"] = r.exhaustive
	if len(r.capsHit) > 0 {
		cov["caps_hit"] = r.capsHit
	}
	ids := make([]string, 0, len(r.knownHits))
	for id := range r.knownHits {
		ids = append(ids, id)
	}
	sort.Strings(ids)
	if len(ids) > 0 {
		cov["known_finding_hits"] = r.knownHits
	}
	for i := range r.violations {
		v := &r.violations[i]
		v.path = filepath.Join(Root, "replays", fmt.Sprintf("%s-%d.json", r.ID, i+1))
		b, _ := json.MarshalIndent(map[string]any{"property": r.ID, "signature": v.Sig, "what": v.What, "input": v.Replay, "observed": v.Observed, "expected": v.Expected}, "", " ")
		os.WriteFile(v.path, b, 0o644)
	}
	if r.engineError != "" {
		cov["engine_error"] = r.engineError
	}
	e := map[string]any{
		"property_id": r.ID, "tier": r.Tier, "seed": r.Seed, "level": r.Level,
		"coverage": cov, "assumptions": r.Assumptions,
		"wall_s":     float64(int(time.Since(r.start).Seconds()*100)) / 100,
		"violations": len(r.violations),
	}
	if r.Assumptions == nil {
		e["assumptions"] = []string{}
	}
	b, err := json.MarshalIndent(e, "", " ")
	if err != nil {
		fmt.Println("ENGINE-ERROR evidence does not marshal:", err)
		os.Exit(2)
	}
	if err := os.WriteFile(filepath.Join(Root, "evidence", r.ID+".json"), append(b, '\n'), 0o644); err != nil {
		fmt.Println("ENGINE-ERROR cannot write evidence:", err)
		os.Exit(2)
	}
	for _, id := range ids {
		for _, k := range r.known {
			if k.ID == id {
				fmt.Printf("KNOWN-FINDING: property=%s %s %s (%d cases; first: %s)\n", r.ID, k.ID, k.What, r.knownHits[id], clip(oneLine(r.knownFirst[id]), 200))
			}
		}
	}
	fmt.Printf("%s %s: evaluations=%v distinct=%v exhaustive=%v wall=%.1fs", r.ID, r.Tier, cov["evaluations"], cov["distinct_nontrivial"], r.exhaustive, time.Since(r.start).Seconds())
	if s, ok := cov["states"]; ok {
		fmt.Printf(" states=%v transitions=%v", s, cov["transitions"])
	}
	fmt.Println()
	if len(r.violations) > 0 {
		// a violation that was found (and, in the scheduler checks, confirmed by a replay) stands even if
		// another part of the exploration ran into an engine error
		for _, v := range r.violations {
			fmt.Printf("VIOLATION property=%s replay=%s\n  %s: %s\n", r.ID, v.path, v.Sig, clip(v.What, 400))
		}
		if r.engineError != "" {
			fmt.Println("ENGINE-ERROR (in addition to the violations above)", r.engineError)
		}
		os.Exit(1)
	}
	if r.engineError != "" {
		fmt.Println("ENGINE-ERROR", r.engineError)
		os.Exit(2)
	}
	os.Exit(0)
}

func clip(s string, n int) string {
	if len(s) > n {
		return s[:n] + "..."
	}
	return s
}

func Clip(s string, n int) string { return clip(s, n) }

// ParFor runs f(i) for i in [0,n) on all cores, in chunks.
func ParFor(n int, f func(i int)) {
	w := runtime.NumCPU()
	if w > n {
		w = n
	}
	if w < 1 {
		w = 1
	}
	var wg sync.WaitGroup
	var mu sync.Mutex
	next := 0
	chunk := n / (w * 8)
	if chunk < 1 {
		chunk = 1
	}
	for k := 0; k < w; k++ {
		wg.Add(1)
		go func() {
			defer wg.Done()
			for {
				mu.Lock()
				lo := next
				next += chunk
				mu.Unlock()
				if lo >= n {
					return
				}
				hi := lo + chunk
				if hi > n {
					hi = n
				}
				for i := lo; i < hi; i++ {
					f(i)
				}
			}
		}()
	}
	wg.Wait()
}

// ReadReplay loads the "input" of a replay file into v.
func ReadReplay(path string, v any) error {
	b, err := os.ReadFile(path)
	if err != nil {
		return err
	}
	var w struct {
		Input json.RawMessage `json:"input"`
	}
	if err := json.Unmarshal(b, &w); err != nil {
		return err
	}
	return json.Unmarshal(w.Input, v)
}

// sigMatch compares a known-finding signature with a reported one; the known
// signature may contain one '*' standing for any text without ':' (one field).
func sigMatch(pattern, sig string) bool {
	i := -1
	for k := 0; k < len(pattern); k++ {
		if pattern[k] == '*' {
			i = k
			break
		}
	}
	if i < 0 {
		return pattern == sig
	}
	pre, suf := pattern[:i], pattern[i+1:]
	if len(sig) < len(pre)+len(suf) || sig[:len(pre)] != pre || sig[len(sig)-len(suf):] != suf {
		return false
	}
	mid := sig[len(pre) : len(sig)-len(suf)]
	for k := 0; k < len(mid); k++ {
		if mid[k] == ':' {
			return false
		}
	}
	return true
}

func oneLine(s string) string {
	b := []byte(s)
	for i, c := range b {
		if c == '\n' {
			b[i] = ' '
		}
	}
	return string(b)
}

// ------------------------------------------------------------------ sharding over worker processes

type partial struct {
	Evals       int64             `json:"evals"`
	Distinct    []string          `json:"distinct"`
	Ints        map[string]int    `json:"ints"`
	Samples     []any             `json:"samples"`
	Violations  []Violation       `json:"violations"`
	KnownHits   map[string]int    `json:"known_hits"`
	KnownFirst  map[string]string `json:"known_first"`
	Caps        []string          `json:"caps"`
	EngineError string            `json:"engine_error"`
}

// Sharded runs work(shard, n) in n worker processes (the same binary with the same arguments) and
// merges their counts, outcomes, samples, caps and reports into r. Checks whose engine relies on
// process-global hooks (the controlled scheduler) use it to spread independent scenarios over the
// cores. Integer coverage keys set with Add are summed; Set values must be set by the caller after
// Sharded returns.
func (r *Run) Sharded(n int, work func(shard, n int)) {
	if s := os.Getenv("VERIF_SHARD"); s != "" {
		var shard, total int
		fmt.Sscanf(s, "%d/%d", &shard, &total)
		work(shard, total)
		r.mu.Lock()
		p := partial{Evals: r.evals, Ints: map[string]int{}, Samples: r.samples, Violations: r.violations, KnownHits: r.knownHits, KnownFirst: r.knownFirst, Caps: r.capsHit, EngineError: r.engineError}
		for k := range r.distinct {
			p.Distinct = append(p.Distinct, k)
		}
		for k, v := range r.Cov {
			if i, ok := v.(int); ok {
				p.Ints[k] = i
			}
		}
		r.mu.Unlock()
		b, _ := json.Marshal(p)
		os.WriteFile(os.Getenv("VERIF_SHARD_OUT"), b, 0o644)
		os.Exit(0)
	}
	dir, err := os.MkdirTemp("", "verif-shards-")
	if err != nil {
		r.EngineError(err.Error())
		return
	}
	defer os.RemoveAll(dir)
	var wg sync.WaitGroup
	outs := make([]string, n)
	errs := make([]string, n)
	// at most 16 worker processes at a time: a check may ask for more (smaller) shards than
	// cores to bound the memory of one worker
	slots := make(chan struct{}, 16)
	for i := 0; i < n; i++ {
		wg.Add(1)
		go func(i int) {
			defer wg.Done()
			slots <- struct{}{}
			defer func() { <-slots }()
			outs[i] = filepath.Join(dir, fmt.Sprintf("s%d.json", i))
			cmd := exec.Command(os.Args[0], os.Args[1:]...)
			cmd.Env = append(os.Environ(), fmt.Sprintf("VERIF_SHARD=%d/%d", i, n), "VERIF_SHARD_OUT="+outs[i])
			b, err := cmd.CombinedOutput()
			if err != nil {
				errs[i] = fmt.Sprintf("shard %d: %v: %s", i, err, clip(string(b), 2000))
			}
		}(i)
	}
	wg.Wait()
	for i := 0; i < n; i++ {
		if errs[i] != "" {
			r.EngineError(errs[i])
			continue
		}
		b, err := os.ReadFile(outs[i])
		if err != nil {
			r.EngineError(fmt.Sprintf("shard %d wrote no result: %v", i, err))
			continue
		}
		var p partial
		if err := json.Unmarshal(b, &p); err != nil {
			r.EngineError(fmt.Sprintf("shard %d result: %v", i, err))
			continue
		}
		r.mu.Lock()
		r.evals += p.Evals
		for _, k := range p.Distinct {
			r.distinct[k] = struct{}{}
		}
		for k, v := range p.Ints {
			if k == "violating_cases" {
				continue
			}
			old, _ := r.Cov[k].(int)
			r.Cov[k] = old + v
		}
		for _, s := range p.Samples {
			if len(r.samples) < 12 {
				r.samples = append(r.samples, s)
			}
		}
		for k, v := range p.KnownHits {
			r.knownHits[k] += v
			if _, ok := r.knownFirst[k]; !ok {
				r.knownFirst[k] = p.KnownFirst[k]
			}
		}
		if len(p.Caps) > 0 {
			r.capsHit = append(r.capsHit, p.Caps...)
			r.exhaustive = false
		}
		if p.EngineError != "" && r.engineError == "" {
			r.engineError = p.EngineError
		}
		r.mu.Unlock()
		for _, v := range p.Violations {
			r.Report(v.Sig, v.What, v.Replay, v.Observed, v.Expected)
		}
	}
}
