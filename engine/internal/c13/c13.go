// Package c13: rooted filesystems and mounts cannot be escaped by any path string.
//
// Bounded-exhaustive enumeration of every path over a 7-segment alphabet
// (0..N segments, absolute/relative, with/without trailing separator) against
//
//	A. os.ResolvePath (pure containment, component-wise),
//	B. localfs.Filesystem: every FS operation on a real temp tree with sentinels outside the base,
//	C. VirtualOS mount selection, observed through recording filesystems, every FS operation,
//	   both arguments of two-path operations, against an independent component-wise oracle.
package c13

import (
	"context"
	"fmt"
	"io"
	"io/fs"
	"os"
	"path/filepath"
	"sort"
	"strings"
	"sync"

	ros "github.com/risor-io/risor/os"
	"github.com/risor-io/risor/os/localfs"

	"verif/internal/ev"
)

var segsA = []string{"", ".", "..", "a", "b", "..a", "a.."}

// genPaths enumerates all paths with 0..n segments over segs, x leading "/" x trailing "/".
func genPaths(segs []string, n int) []string {
	seen := map[string]struct{}{}
	var out []string
	var rec func(parts []string)
	rec = func(parts []string) {
		p := strings.Join(parts, "/")
		for _, pre := range []string{"", "/"} {
			for _, suf := range []string{"", "/"} {
				s := pre + p + suf
				if _, ok := seen[s]; !ok {
					seen[s] = struct{}{}
					out = append(out, s)
				}
			}
		}
		if len(parts) == n {
			return
		}
		for _, s := range segs {
			rec(append(append([]string{}, parts...), s))
		}
	}
	rec(nil)
	return out
}

// within reports whether p is base or component-wise below base (both cleaned).
func within(base, p string) bool {
	base = filepath.Clean(base)
	p = filepath.Clean(p)
	if p == base {
		return true
	}
	if base == "/" {
		return strings.HasPrefix(p, "/")
	}
	return strings.HasPrefix(p, base+"/")
}

func Check(r *ev.Run, replay string) {
	if replay != "" {
		replayOne(r, replay)
		return
	}
	nA, nB, nC := 5, 3, 4
	if r.Thorough() {
		nA, nB, nC = 6, 4, 5
	}
	r.Assumptions = []string{
		"segment alphabet {'', '.', '..', 'a', 'b', '..a', 'a..'}; random Unicode segments are not enumerated",
		"host symlinks planted inside the base are out of scope (property statement)",
		"localfs effects are observed on a real temp tree; a path that escapes to a location holding no sentinel and causing no error would only be caught by part A",
	}
	partA(r, nA)
	partB(r, nB)
	partC(r, nC)
	nD := 3
	if r.Thorough() {
		nD = 4
	}
	partD(r, nD)
	nE := 3
	partE(r, nE)
	partF(r)
	r.Set("rule", fmt.Sprintf("every path string with 0..N segments over the 7-segment alphabet x leading/trailing separator; A: ResolvePath x 4 bases (N=%d); B: localfs x 14 operations x 3 bases on a real tree (N=%d; two-path ops: every path in each position against fixed partners + all pairs over short paths); C: VirtualOS x 7 mount tables x 4 cwds x 14 operations with recording filesystems (N=%d); D: every history of <= %d steps over {Stat, Remove, Rename on 4 relative and 1 absolute path, Chdir to 5 directories} on one VirtualOS per mount table, each step judged against the working directory of that moment; E: every history of <= 3 steps over 34 (thorough 48) operations on one based localfs on a real tree (symlinks created at three depths, renames that move links and directories to other depths, reads/writes/removals/listings through the links): nothing outside the base is read or changed; F: VirtualOS.MkdirTemp x 6 mount tables x 6 temporary directories x 9 patterns (refused, or one Mkdir by the mount the temporary directory lies in, at its place inside that mount, under a name without separators, and that path returned). distinct = distinct (part, operation, outcome class, resolved location) tuples", nA, nB, nC, nD))
}

// ---------------------------------------------------------------- part A

func partA(r *ev.Run, n int) {
	paths := genPaths(segsA, n)
	bases := []string{"/T/base", "T/base", "/T/base/", "/T/base/../base", "/T"}
	for _, base := range bases {
		cb := filepath.Clean(base)
		ev.ParFor(len(paths), func(i int) {
			p := paths[i]
			res, err := ros.ResolvePath(cb, p, "op")
			r.Eval(1)
			if err != nil {
				r.Outcome("A|err|" + cb)
				return
			}
			r.Outcome("A|ok|" + filepath.Clean(res))
			if !within(cb, res) {
				r.Report("resolvepath-escape", fmt.Sprintf("ResolvePath(%q, %q) = %q lies outside the base", cb, p, res),
					map[string]any{"part": "A", "base": cb, "path": p}, res, "a path inside "+cb+" or an error")
			}
		})
	}
	r.Add("resolvepath_cases", len(paths)*len(bases))
	r.Sample(map[string]any{"part": "A", "base": "/T/base", "path": paths[len(paths)/2]})
}

// ---------------------------------------------------------------- part B

const marker = "OUTSIDE-SENTINEL"

type tree struct {
	root string // absolute temp root T
}

func (t tree) buildOutside() error {
	for _, d := range []string{"a", "a/a", "base", "base-private"} {
		if err := os.MkdirAll(filepath.Join(t.root, d), 0o755); err != nil {
			return err
		}
	}
	for _, f := range []string{"outside.txt", "b", "a/b", "a/a/b", "base-private/s.txt"} {
		if err := os.WriteFile(filepath.Join(t.root, f), []byte(marker), 0o644); err != nil {
			return err
		}
	}
	return nil
}

func (t tree) buildInside() {
	b := filepath.Join(t.root, "base")
	os.RemoveAll(b)
	os.MkdirAll(filepath.Join(b, "a", "a"), 0o755)
	os.WriteFile(filepath.Join(b, "b"), []byte("in-b"), 0o644)
	os.WriteFile(filepath.Join(b, "a", "b"), []byte("in-ab"), 0o644)
	os.WriteFile(filepath.Join(b, "keep"), []byte("in-keep"), 0o644)
}

// snapshot lists everything under dir except skip (relative names, types and contents).
func snapshot(dir, skip string) string {
	var sb strings.Builder
	filepath.WalkDir(dir, func(p string, d fs.DirEntry, err error) error {
		if skip != "" && p == skip {
			if err == nil && d.IsDir() {
				return filepath.SkipDir // the base directory itself (even its removal) is inside
			}
			return nil
		}
		if err != nil {
			sb.WriteString("ERR " + p + "\n")
			return nil
		}
		if skip != "" && p == skip {
			return filepath.SkipDir // the base directory itself (even its removal) is inside
		}
		switch {
		case d.IsDir():
			sb.WriteString("D " + p + "\n")
		case d.Type()&fs.ModeSymlink != 0:
			l, _ := os.Readlink(p)
			sb.WriteString("L " + p + " -> " + l + "\n")
		default:
			b, _ := os.ReadFile(p)
			sb.WriteString("F " + p + " " + string(b) + "\n")
		}
		return nil
	})
	return sb.String()
}

var opsB = []string{"Create", "Mkdir", "MkdirAll", "Open", "OpenFile", "ReadFile", "Remove", "RemoveAll", "Stat", "WriteFile", "ReadDir", "WalkDir", "Rename", "Symlink"}

// doOp performs op on fsys and returns an outcome class plus any data read (for the leak oracle).
func doOp(fsys ros.FS, op, p, q string) (class string, read string) {
	var err error
	switch op {
	case "Create":
		var f ros.File
		f, err = fsys.Create(p)
		if err == nil {
			f.Write([]byte("w"))
			f.Close()
		}
	case "MkdirTemp":
		// not part of the FS interface, but a method of the rooted filesystem that scripts reach through
		// os.mkdir_temp; the directory argument may be empty ("the default place")
		mt, ok := fsys.(interface {
			MkdirTemp(dir, pattern string) (string, error)
		})
		if !ok {
			return "unsupported", ""
		}
		read, err = mt.MkdirTemp(p, "t")
	case "Mkdir":
		err = fsys.Mkdir(p, 0o755)
	case "MkdirAll":
		err = fsys.MkdirAll(p, 0o755)
	case "Open":
		var f ros.File
		f, err = fsys.Open(p)
		if err == nil {
			b, _ := io.ReadAll(f)
			read = string(b)
			f.Close()
		}
	case "OpenFile":
		var f ros.File
		f, err = fsys.OpenFile(p, ros.O_RDWR|ros.O_CREATE, 0o644)
		if err == nil {
			b, _ := io.ReadAll(f)
			read = string(b)
			f.Write([]byte("w"))
			f.Close()
		}
	case "ReadFile":
		var b []byte
		b, err = fsys.ReadFile(p)
		read = string(b)
	case "Remove":
		err = fsys.Remove(p)
	case "RemoveAll":
		err = fsys.RemoveAll(p)
	case "Stat":
		_, err = fsys.Stat(p)
	case "WriteFile":
		err = fsys.WriteFile(p, []byte("w"), 0o644)
	case "ReadDir":
		var es []ros.DirEntry
		es, err = fsys.ReadDir(p)
		for _, e := range es {
			read += e.Name() + ","
		}
	case "WalkDir":
		cnt := 0
		err = fsys.WalkDir(p, func(path string, d fs.DirEntry, err error) error {
			cnt++
			if cnt > 64 {
				return filepath.SkipAll
			}
			read += path + ","
			return nil
		})
	case "Rename":
		err = fsys.Rename(p, q)
	case "Symlink":
		err = fsys.Symlink(p, q)
	}
	if err != nil {
		return "err", read
	}
	return "ok", read
}

type caseB struct {
	Part string `json:"part"`
	Base string `json:"base"`
	Op   string `json:"op"`
	P    string `json:"p"`
	Q    string `json:"q,omitempty"`
}

func partB(r *ev.Run, n int) {
	paths := genPaths(segsA, n)
	pairN := 1
	if r.Thorough() {
		pairN = 2
	}
	small := genPaths(segsA, pairN)
	tmpRoot := ""
	if st, err := os.Stat("/dev/shm"); err == nil && st.IsDir() {
		tmpRoot = "/dev/shm"
	}
	scratch, err := os.MkdirTemp(tmpRoot, "verif-c13-")
	if err != nil {
		r.EngineError("mkdirtemp: " + err.Error())
		return
	}
	defer os.RemoveAll(scratch)
	// build the work list
	var cases []caseB
	for _, base := range []string{"abs", "abs/", "abs/../base"} {
		for _, op := range append([]string{"MkdirTemp"}, opsB...) {
			switch op {
			case "Rename", "Symlink":
				for _, p := range paths {
					cases = append(cases, caseB{"B", base, op, p, "keep2"}, caseB{"B", base, op, "keep", p})
				}
				for _, p := range small {
					for _, q := range small {
						cases = append(cases, caseB{"B", base, op, p, q})
					}
				}
			default:
				for _, p := range paths {
					cases = append(cases, caseB{"B", base, op, p, ""})
				}
			}
			for _, p := range hostSpellings {
				switch op {
				case "Rename", "Symlink":
					cases = append(cases, caseB{"B", base, op, p, "keep2"}, caseB{"B", base, op, "keep", p})
				default:
					cases = append(cases, caseB{"B", base, op, p, ""})
				}
			}
		}
	}
	nw := 16
	var wg sync.WaitGroup
	for w := 0; w < nw; w++ {
		wg.Add(1)
		go func(w int) {
			defer wg.Done()
			t := tree{root: filepath.Join(scratch, fmt.Sprintf("w%d", w), "T")}
			workB(r, t, map[string]string{"abs": "<BASE>", "abs/": "<BASE>/", "abs/../base": "<BASE>/../base"}, cases, w, nw, scratch)
		}(w)
	}
	wg.Wait()
	// relative bases: the process stands in the base directory (or next to it) and the filesystem is rooted at ".",
	// "./", "a/..", "base", "./base/", "a/../base". One worker, after the others (the working directory belongs to the process);
	// the host's directory for temporary files is pointed at a directory of the tree outside the base, so that a
	// temporary directory created "at the host's default place" shows up as a change outside the base.
	var relCases []caseB
	relPaths := append(genPaths(segsA, pairN+1), "", ".", "./", "/", "//", "a/..", "/a/b/../..", "a/../.", "..", "../base", "/..")
	for _, base := range []string{"rel:.", "rel:./", "rel:a/..", "up:base", "up:./base/", "up:a/../base"} {
		for _, op := range append([]string{"MkdirTemp"}, opsB...) {
			for _, p := range relPaths {
				switch op {
				case "Rename", "Symlink":
					relCases = append(relCases, caseB{"B", base, op, p, "keep2"}, caseB{"B", base, op, "keep", p})
				default:
					relCases = append(relCases, caseB{"B", base, op, p, ""})
				}
			}
		}
	}
	if cwd0, err := os.Getwd(); err == nil {
		t := tree{root: filepath.Join(scratch, "rel", "T")}
		tmp0, hadTmp := os.LookupEnv("TMPDIR")
		os.MkdirAll(filepath.Join(t.root, "hosttmp"), 0o755)
		os.Setenv("TMPDIR", filepath.Join(t.root, "hosttmp"))
		workB(r, t, map[string]string{"rel:.": ".", "rel:./": "./", "rel:a/..": "a/..", "up:base": "base", "up:./base/": "./base/", "up:a/../base": "a/../base"}, relCases, 0, 1, scratch)
		os.Chdir(cwd0)
		if hadTmp {
			os.Setenv("TMPDIR", tmp0)
		} else {
			os.Unsetenv("TMPDIR")
		}
	}
	cases = append(cases, relCases...)
	r.Add("localfs_op_cases", len(cases))
	r.Sample(cases[len(cases)/3])
}

// workB runs the cases start, start+step, ... on one real tree. bases maps the name of a base layout to the string
// given to WithBase (<BASE> = the absolute base directory; a layout named "rel:" is built and used with the base
// directory as the working directory of the process, "up:" with its parent).
func workB(r *ev.Run, t tree, bases map[string]string, cases []caseB, start, step int, scratch string) {
	if err := t.buildOutside(); err != nil {
		r.EngineError(err.Error())
		return
	}
	t.buildInside()
	basedir := filepath.Join(t.root, "base")
	os.MkdirAll(filepath.Join(t.root, "hosttmp"), 0o755)
	outside0 := snapshot(t.root, basedir)
	inside0 := snapshot(basedir, "")
	cwdOf := func(name string) string {
		switch {
		case strings.HasPrefix(name, "rel:"):
			return basedir
		case strings.HasPrefix(name, "up:"):
			return t.root
		}
		return ""
	}
	fss := map[string]ros.FS{}
	for name, b := range bases {
		if d := cwdOf(name); d != "" {
			if err := os.Chdir(d); err != nil {
				r.EngineError(err.Error())
				return
			}
		}
		f, err := localfs.New(context.Background(), localfs.WithBase(strings.Replace(b, "<BASE>", basedir, 1)))
		if err != nil {
			r.EngineError(err.Error())
			return
		}
		fss[name] = f
	}
	for i := start; i < len(cases); i += step {
		c := cases[i]
		if d := cwdOf(c.Base); d != "" {
			os.Chdir(d)
		}
		class, read := runB(fss[c.Base], c, basedir)
		r.Eval(1)
		r.Outcome("B|" + c.Op + "|" + class + "|" + ev.Clip(strings.ReplaceAll(read, t.root, "T"), 40))
		// (a directory listing that names outside.txt has listed the parent of the base; a path argument
		// that itself spells the name proves nothing when it comes back in a walk or an error)
		if strings.Contains(read, marker) || (strings.Contains(read, "outside.txt") && !strings.Contains(c.P, "outside.txt")) {
			r.Report("localfs-read-outside", fmt.Sprintf("localfs(base=%s).%s(%q) returned content from outside the base: %q", c.Base, c.Op, c.P, ev.Clip(read, 80)), c, read, "content from inside the base or an error")
		}
		if c.Op == "MkdirTemp" && class == "ok" {
			created := read
			if d := cwdOf(c.Base); d != "" && !filepath.IsAbs(created) {
				created = filepath.Join(d, created)
			}
			if !within(basedir, created) {
				r.Report("localfs-mkdirtemp-outside", fmt.Sprintf("localfs(base=%s).MkdirTemp(%q, \"t\") created %q, outside the base", c.Base, c.P, strings.ReplaceAll(read, scratch, "<scratch>")), c, read, "a directory inside the base, or an error")
			}
			os.RemoveAll(created)
		}
		if c.Op == "WalkDir" {
			for _, v := range strings.Split(read, ",") {
				if v != "" && filepath.IsAbs(v) && !within(basedir, v) {
					r.Report("localfs-walk-outside", fmt.Sprintf("localfs.WalkDir(%q) visited %q outside the base", c.P, v), c, v, "paths inside the base")
				}
			}
		}
		if out := snapshot(t.root, basedir); out != outside0 {
			r.Report("localfs-write-outside", fmt.Sprintf("localfs(base=%s).%s(%q,%q) changed the tree outside the base", c.Base, c.Op, c.P, c.Q), c, diffLines(outside0, out), "tree outside the base unchanged")
			os.RemoveAll(t.root)
			t.buildOutside()
			os.MkdirAll(filepath.Join(t.root, "hosttmp"), 0o755)
			t.buildInside()
		}
		if _, err := os.Lstat(basedir); err != nil || snapshot(basedir, "") != inside0 {
			t.buildInside()
		}
	}
}

// hostSpellings: paths that begin with the host spelling of the base directory itself (a script learns it
// from error messages and from the paths WalkDir reports) - the base, entries inside it, a sibling whose
// name merely starts like the base, and ways out of it. <BASE> is replaced by the worker's base directory.
var hostSpellings = []string{"<BASE>", "<BASE>/", "<BASE>/b", "<BASE>/new", "<BASE>-private/s.txt", "<BASE>-private/new", "<BASE>-private",
	"<BASE>/../outside.txt", "<BASE>/../new", "<BASE>../outside.txt", "<BASE>/a/../../b", "<BASE>/../base-private/s.txt"}

func runB(fsys ros.FS, c caseB, basedir string) (class, read string) {
	defer func() {
		if e := recover(); e != nil {
			class, read = "panic", fmt.Sprint(e)
		}
	}()
	return doOp(fsys, c.Op, strings.ReplaceAll(c.P, "<BASE>", basedir), strings.ReplaceAll(c.Q, "<BASE>", basedir))
}

func diffLines(a, b string) string {
	am := map[string]bool{}
	for _, l := range strings.Split(a, "\n") {
		am[l] = true
	}
	var out []string
	for _, l := range strings.Split(b, "\n") {
		if !am[l] {
			out = append(out, "+"+l)
		}
		delete(am, l)
	}
	for l := range am {
		out = append(out, "-"+l)
	}
	sort.Strings(out)
	return ev.Clip(strings.Join(out, "; "), 400)
}

// ---------------------------------------------------------------- part C

type recFS struct {
	name string
	log  *[]string
}

func (f recFS) rec(op, p string) error {
	*f.log = append(*f.log, f.name+"|"+op+"|"+p)
	return fmt.Errorf("recorded")
}
func (f recFS) Create(n string) (ros.File, error)         { return nil, f.rec("Create", n) }
func (f recFS) Mkdir(n string, _ ros.FileMode) error      { return f.rec("Mkdir", n) }
func (f recFS) MkdirAll(n string, _ ros.FileMode) error   { return f.rec("MkdirAll", n) }
func (f recFS) Open(n string) (ros.File, error)           { return nil, f.rec("Open", n) }
func (f recFS) ReadFile(n string) ([]byte, error)         { return nil, f.rec("ReadFile", n) }
func (f recFS) Remove(n string) error                     { return f.rec("Remove", n) }
func (f recFS) RemoveAll(n string) error                  { return f.rec("RemoveAll", n) }
func (f recFS) Stat(n string) (ros.FileInfo, error)       { return nil, f.rec("Stat", n) }
func (f recFS) ReadDir(n string) ([]ros.DirEntry, error)  { return nil, f.rec("ReadDir", n) }
func (f recFS) WalkDir(n string, _ ros.WalkDirFunc) error { return f.rec("WalkDir", n) }
func (f recFS) WriteFile(n string, _ []byte, _ ros.FileMode) error {
	return f.rec("WriteFile", n)
}
func (f recFS) OpenFile(n string, _ int, _ ros.FileMode) (ros.File, error) {
	return nil, f.rec("OpenFile", n)
}
func (f recFS) Rename(a, b string) error {
	f.rec("Rename", a)
	return f.rec("Rename", b)
}
func (f recFS) Symlink(a, b string) error {
	f.rec("Symlink", a)
	return f.rec("Symlink", b)
}

var segsC = []string{"", ".", "..", "a", "b", "tmp", "tmpfoo"}

type caseC struct {
	Part   string   `json:"part"`
	Mounts []string `json:"mounts"`
	Cwd    string   `json:"cwd"`
	Op     string   `json:"op"`
	P      string   `json:"p"`
	Q      string   `json:"q,omitempty"`
}

// expectMount is the independent oracle: the longest component-wise prefix.
func expectMount(mounts []string, cwd, p string) (best, rem string) {
	abs := p
	if !filepath.IsAbs(abs) {
		abs = filepath.Join(cwd, abs)
	}
	abs = filepath.Clean(abs)
	for _, m := range mounts {
		if m == "/" || abs == m || strings.HasPrefix(abs, m+"/") {
			if len(m) > len(best) {
				best = m
			}
		}
	}
	if best == "" {
		return "", ""
	}
	rem = strings.Trim(strings.TrimPrefix(abs, best), "/")
	return best, rem
}

func normRel(s string) string {
	s = strings.Trim(filepath.Clean("/"+s), "/")
	return s
}

func partC(r *ev.Run, n int) {
	paths := genPaths(segsC, n)
	small := genPaths(segsC, 2)
	mountSets := [][]string{{"/"}, {"/tmp"}, {"/tmp", "/tmp/a"}, {"/tmp", "/tmpfoo"}, {"/a", "/a/b"}, {"/", "/a"}, {"/tmp/a"}}
	cwds := []string{"/", "/tmp", "/a/b", "/tmp/a/.."}
	type job struct {
		ms  []string
		cwd string
	}
	var jobs []job
	for _, ms := range mountSets {
		for _, cwd := range cwds {
			jobs = append(jobs, job{ms, cwd})
		}
	}
	var total int64
	var mu sync.Mutex
	ev.ParFor(len(jobs), func(j int) {
		ms, cwd := jobs[j].ms, jobs[j].cwd
		var log []string
		mounts := map[string]*ros.Mount{}
		for _, m := range ms {
			mounts[m] = &ros.Mount{Source: recFS{name: m, log: &log}, Target: m}
		}
		vos := ros.NewVirtualOS(context.Background(), ros.WithMounts(mounts), ros.WithCwd(cwd))
		cnt := 0
		one := func(op, p, q string) {
			cnt++
			log = log[:0]
			c := caseC{"C", ms, cwd, op, p, q}
			class, _ := runB(vos, caseB{Op: op, P: p, Q: q}, "")
			if class == "panic" {
				r.Report("virtualos-panic", fmt.Sprintf("VirtualOS.%s(%q,%q) panicked", op, p, q), c, "panic", "value or error")
				return
			}
			args := []string{p}
			if op == "Rename" || op == "Symlink" {
				args = []string{p, q}
			}
			wantM := make([]string, len(args))
			wantR := make([]string, len(args))
			allMounted := true
			for i, a := range args {
				wantM[i], wantR[i] = expectMount(ms, cwd, a)
				if wantM[i] == "" {
					allMounted = false
				}
			}
			cross := len(args) == 2 && wantM[0] != wantM[1]
			if !allMounted || cross {
				r.Outcome("C|" + op + "|refused")
				if len(log) != 0 {
					r.Report("virtualos-unmounted-served", fmt.Sprintf("mounts %v cwd %q: %s(%q,%q) must be refused (no mount / across mounts) but reached %v", ms, cwd, op, p, q, log), c, strings.Join(log, ";"), "refusal")
				}
				return
			}
			// ReadFile is served through Open on the mount.
			if len(log) != len(args) {
				r.Report("virtualos-not-served", fmt.Sprintf("mounts %v cwd %q: %s(%q,%q) expected %d recorded calls, got %v", ms, cwd, op, p, q, len(args), log), c, strings.Join(log, ";"), "served by mount "+wantM[0])
				return
			}
			for i := range args {
				parts := strings.SplitN(log[i], "|", 3)
				gotM, gotR := parts[0], parts[2]
				r.Outcome("C|" + op + "|" + gotM + "|" + normRel(gotR))
				if gotM != wantM[i] {
					r.Report("virtualos-wrong-mount", fmt.Sprintf("mounts %v cwd %q: %s arg %d %q served by mount %q as %q; longest component-wise prefix is %q", ms, cwd, op, i, args[i], gotM, gotR, wantM[i]), c, gotM+" "+gotR, wantM[i]+" "+wantR[i])
					continue
				}
				hasDotDot := false
				for _, s := range strings.Split(gotR, "/") {
					if s == ".." {
						hasDotDot = true
					}
				}
				if hasDotDot || normRel(gotR) != wantR[i] {
					r.Report("virtualos-wrong-relpath", fmt.Sprintf("mounts %v cwd %q: %s arg %d %q -> mount %q relative %q, want %q", ms, cwd, op, i, args[i], gotM, gotR, wantR[i]), c, gotR, wantR[i])
				}
			}
		}
		for _, op := range opsB {
			if op == "Rename" || op == "Symlink" {
				for _, p := range paths {
					one(op, p, "/tmp/x")
					one(op, "/tmp/x", p)
					one(op, p, "x")
				}
				for _, p := range small {
					for _, q := range small {
						one(op, p, q)
					}
				}
				continue
			}
			for _, p := range paths {
				one(op, p, "")
			}
		}
		mu.Lock()
		total += int64(cnt)
		mu.Unlock()
		r.Eval(cnt)
	})
	r.Add("virtualos_cases", int(total))
	r.Sample(caseC{"C", []string{"/tmp", "/tmpfoo"}, "/", "Stat", paths[len(paths)/2], ""})
}

// ---------------------------------------------------------------- replay

func replayOne(r *ev.Run, path string) {
	var in map[string]any
	if err := ev.ReadReplay(path, &in); err != nil {
		r.EngineError("replay: " + err.Error())
		return
	}
	fmt.Printf("replay input: %v\n", in)
	switch in["part"] {
	case "A":
		res, err := ros.ResolvePath(in["base"].(string), in["path"].(string), "op")
		fmt.Printf("ResolvePath -> %q, %v\n", res, err)
		r.Eval(1)
		if err == nil && !within(in["base"].(string), res) {
			r.Report("resolvepath-escape", "escape", in, res, "")
		}
	case "C":
		var ms []string
		for _, m := range in["mounts"].([]any) {
			ms = append(ms, m.(string))
		}
		var log []string
		mounts := map[string]*ros.Mount{}
		for _, m := range ms {
			mounts[m] = &ros.Mount{Source: recFS{name: m, log: &log}, Target: m}
		}
		cwd, _ := in["cwd"].(string)
		vos := ros.NewVirtualOS(context.Background(), ros.WithMounts(mounts), ros.WithCwd(cwd))
		q, _ := in["q"].(string)
		doOp(vos, in["op"].(string), in["p"].(string), q)
		wm, wr := expectMount(ms, cwd, in["p"].(string))
		fmt.Printf("recorded %v; oracle: mount %q rel %q\n", log, wm, wr)
		r.Eval(1)
		if len(log) > 0 && !strings.HasPrefix(log[0], wm+"|") {
			r.Report("virtualos-wrong-mount", "wrong mount on replay", in, log[0], wm)
		}
	case "E":
		var c caseE
		if err := ev.ReadReplay(path, &c); err != nil {
			r.EngineError("replay: " + err.Error())
			return
		}
		scratch, _ := os.MkdirTemp("", "verif-c13e-")
		defer os.RemoveAll(scratch)
		t := tree{root: filepath.Join(scratch, "T")}
		t.buildOutside()
		t.buildInside()
		basedir := filepath.Join(t.root, "base")
		fsys, _ := localfs.New(context.Background(), localfs.WithBase(basedir))
		sig, what := runE(t, fsys, snapshot(t.root, basedir), c.Steps, true)
		fmt.Printf("oracle: %s %s\n", sig, what)
		r.Eval(1)
		if sig != "" {
			r.Report(sig, what, c, what, "")
		}
	case "D":
		var c caseD
		if err := ev.ReadReplay(path, &c); err != nil {
			r.EngineError("replay: " + err.Error())
			return
		}
		sig, what := runD(c.Mounts, c.Steps, true)
		fmt.Printf("oracle: %s %s\n", sig, what)
		r.Eval(1)
		if sig != "" {
			r.Report(sig, what, c, what, "")
		}
	default:
		fmt.Println("part B replays: re-run the check; the case is listed in the replay file")
	}
	r.Outcome("replay")
	r.Outcome("replay2")
}
