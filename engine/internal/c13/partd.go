package c13

import (
	"context"
	"fmt"
	"path/filepath"
	"strings"

	ros "github.com/risor-io/risor/os"

	"verif/internal/ev"
)

// Part D: histories on one VirtualOS. Parts A-C give every path to a fresh (or never changing)
// object; here the working directory changes between operations, so that anything the OS keeps
// from one lookup to the next (a memo of the last resolution, a cleaned cwd) is exercised:
// every sequence of <= 3 (thorough 4) steps over {Stat, Remove, Rename on 4 relative and 1
// absolute path} and {Chdir to 5 directories}, for every mount table. Oracle per step: the
// mount and the mount-relative path expected for the working directory of that moment.

type stepD struct {
	Op string `json:"op"`
	P  string `json:"p"`
	Q  string `json:"q,omitempty"`
}

type caseD struct {
	Part   string   `json:"part"`
	Mounts []string `json:"mounts"`
	Steps  []stepD  `json:"steps"`
}

func alphabetD() []stepD {
	var out []stepD
	for _, p := range []string{"x", "a/x", "../x", "tmp/x", "/tmp/x"} {
		out = append(out, stepD{"Stat", p, ""}, stepD{"Remove", p, ""})
	}
	out = append(out, stepD{"Rename", "x", "x2"}, stepD{"Rename", "x", "a/x"}, stepD{"Rename", "../x", "x"})
	for _, d := range []string{"/", "/tmp", "/a", "/a/b", "/tmpfoo"} {
		out = append(out, stepD{"Chdir", d, ""})
	}
	// relative directories: the new working directory is the old one composed with the argument
	for _, d := range []string{"a", "b", "..", "tmp", "./a/", "../tmp"} {
		out = append(out, stepD{"Chdir", d, ""})
	}
	return out
}

// runD executes one history and returns the first violation ("" if none) and its signature.
func runD(ms []string, steps []stepD, verbose bool) (sig, what string) {
	var log []string
	mounts := map[string]*ros.Mount{}
	for _, m := range ms {
		mounts[m] = &ros.Mount{Source: recFS{name: m, log: &log}, Target: m}
	}
	vos := ros.NewVirtualOS(context.Background(), ros.WithMounts(mounts), ros.WithCwd("/"))
	cwd := "/"
	for i, s := range steps {
		if s.Op == "Chdir" {
			vos.Chdir(s.P)
			if filepath.IsAbs(s.P) {
				cwd = s.P
			} else {
				cwd = filepath.Join(cwd, s.P)
			}
			continue
		}
		log = log[:0]
		class, _ := runB(vos, caseB{Op: s.Op, P: s.P, Q: s.Q}, "")
		if verbose {
			fmt.Printf("step %d: cwd %q %s(%q,%q) -> %s, recorded %v\n", i, cwd, s.Op, s.P, s.Q, class, log)
		}
		if class == "panic" {
			return "virtualos-panic", fmt.Sprintf("step %d %s(%q) panicked", i, s.Op, s.P)
		}
		args := []string{s.P}
		if s.Op == "Rename" {
			args = []string{s.P, s.Q}
		}
		wantM, wantR := make([]string, len(args)), make([]string, len(args))
		mounted := true
		for k, a := range args {
			wantM[k], wantR[k] = expectMount(ms, cwd, a)
			if wantM[k] == "" {
				mounted = false
			}
		}
		if !mounted || (len(args) == 2 && wantM[0] != wantM[1]) {
			if len(log) != 0 {
				return "virtualos-history-unmounted-served", fmt.Sprintf("step %d: with cwd %q %s(%q,%q) must be refused but reached %v", i, cwd, s.Op, s.P, s.Q, log)
			}
			continue
		}
		if len(log) != len(args) {
			return "virtualos-history-not-served", fmt.Sprintf("step %d: with cwd %q %s(%q,%q) expected %d recorded calls on mount %q, got %v", i, cwd, s.Op, s.P, s.Q, len(args), wantM[0], log)
		}
		for k := range args {
			parts := strings.SplitN(log[k], "|", 3)
			if parts[0] != wantM[k] || normRel(parts[2]) != wantR[k] {
				return "virtualos-history-wrong-location", fmt.Sprintf("step %d: with cwd %q %s argument %q reached mount %q as %q; expected mount %q, %q", i, cwd, s.Op, args[k], parts[0], parts[2], wantM[k], wantR[k])
			}
		}
	}
	return "", ""
}

func partD(r *ev.Run, maxLen int) {
	alpha := alphabetD()
	mountSets := [][]string{{"/"}, {"/tmp"}, {"/tmp", "/tmp/a"}, {"/tmp", "/tmpfoo"}, {"/a", "/a/b"}, {"/", "/a"}, {"/tmp/a"}}
	var hist [][]stepD
	var rec func(h []stepD)
	rec = func(h []stepD) {
		if len(h) > 0 && h[len(h)-1].Op != "Chdir" {
			hist = append(hist, append([]stepD{}, h...)) // a history ends with an operation
		}
		if len(h) == maxLen {
			return
		}
		for _, a := range alpha {
			rec(append(h, a))
		}
	}
	rec(nil)
	ev.ParFor(len(mountSets), func(mi int) {
		ms := mountSets[mi]
		for _, h := range hist {
			sig, what := runD(ms, h, false)
			if sig != "" {
				r.Report(sig, fmt.Sprintf("mounts %v, history %v: %s", ms, h, what), caseD{"D", ms, h}, what, "every step served by the mount of the working directory of that moment")
			}
			r.Outcome(fmt.Sprintf("D|len%d|%s", len(h), sig))
		}
		r.Eval(len(hist))
	})
	r.Add("virtualos_histories", len(hist)*len(mountSets))
}
