package c13

import (
	"context"
	"fmt"
	"os"
	"path/filepath"
	"strings"

	ros "github.com/risor-io/risor/os"
	"github.com/risor-io/risor/os/localfs"

	"verif/internal/ev"
)

// Part E: histories on one based local filesystem over a real tree. Parts A-B give every path to
// single operations; what an operation leaves behind (a link, a moved directory) is only exercised
// by sequences: every history of <= 3 steps over symlink creation, renames that move links and
// directories to other depths, and reads / writes / removals / listings through the links. After
// every step nothing outside the base may have changed and no read may return outside content.

type stepE struct {
	Op string `json:"op"`
	P  string `json:"p"`
	Q  string `json:"q,omitempty"`
}

type caseE struct {
	Part  string  `json:"part"`
	Steps []stepE `json:"steps"`
}

func alphabetE(thorough bool) []stepE {
	var out []stepE
	links := []string{"a/a/l", "a/l", "l"}
	targets := []string{"b", "a/b", "a", "keep"}
	if !thorough {
		targets = []string{"b", "a"}
	}
	for _, t := range targets {
		for _, l := range links {
			out = append(out, stepE{"Symlink", t, l})
		}
	}
	moves := []string{"a/a/l", "a/l", "l", "a/a", "a/x"}
	for _, p := range moves {
		for _, q := range moves {
			if p != q {
				out = append(out, stepE{"Rename", p, q})
			}
		}
	}
	for _, p := range []string{"a/a/l", "a/l", "l", "b"} {
		out = append(out, stepE{"WriteFile", p, ""}, stepE{"ReadFile", p, ""})
		if thorough {
			out = append(out, stepE{"Remove", p, ""})
		}
	}
	if thorough {
		for _, p := range links {
			out = append(out, stepE{"ReadDir", p, ""})
		}
		out = append(out, stepE{"MkdirAll", "a/x", ""})
	}
	return out
}

// runE executes one history on a fresh inside tree; it returns the first violation.
func runE(t tree, fsys ros.FS, outside0 string, steps []stepE, verbose bool) (sig, what string) {
	t.buildInside()
	basedir := filepath.Join(t.root, "base")
	for i, s := range steps {
		class, read := runB(fsys, caseB{Op: s.Op, P: s.P, Q: s.Q}, "")
		if verbose {
			fmt.Printf("step %d: %s(%q,%q) -> %s %q\n", i, s.Op, s.P, s.Q, class, ev.Clip(read, 60))
		}
		if class == "panic" {
			return "localfs-history-panic", fmt.Sprintf("step %d %s(%q,%q) panicked: %s", i, s.Op, s.P, s.Q, read)
		}
		if strings.Contains(read, marker) || strings.Contains(read, "outside.txt") {
			return "localfs-history-read-outside", fmt.Sprintf("step %d: %s(%q) returned content from outside the base: %q", i, s.Op, s.P, ev.Clip(read, 80))
		}
		if out := snapshot(t.root, basedir); out != outside0 {
			os.RemoveAll(t.root)
			t.buildOutside()
			return "localfs-history-write-outside", fmt.Sprintf("step %d: %s(%q,%q) changed the tree outside the base: %s", i, s.Op, s.P, s.Q, ev.Clip(diffLines(outside0, out), 200))
		}
	}
	return "", ""
}

func partE(r *ev.Run, maxLen int) {
	alpha := alphabetE(r.Thorough())
	var hist [][]stepE
	var rec func(h []stepE)
	rec = func(h []stepE) {
		if len(h) > 0 {
			hist = append(hist, append([]stepE{}, h...))
		}
		if len(h) == maxLen {
			return
		}
		for _, a := range alpha {
			rec(append(h, a))
		}
	}
	rec(nil)
	tmpRoot := ""
	if st, err := os.Stat("/dev/shm"); err == nil && st.IsDir() {
		tmpRoot = "/dev/shm"
	}
	scratch, err := os.MkdirTemp(tmpRoot, "verif-c13e-")
	if err != nil {
		r.EngineError("mkdirtemp: " + err.Error())
		return
	}
	defer os.RemoveAll(scratch)
	const nw = 16
	ev.ParFor(nw, func(w int) {
		t := tree{root: filepath.Join(scratch, fmt.Sprintf("w%d", w), "T")}
		if err := t.buildOutside(); err != nil {
			r.EngineError(err.Error())
			return
		}
		t.buildInside()
		basedir := filepath.Join(t.root, "base")
		outside0 := snapshot(t.root, basedir)
		fsys, err := localfs.New(context.Background(), localfs.WithBase(basedir))
		if err != nil {
			r.EngineError(err.Error())
			return
		}
		n := 0
		for i := w; i < len(hist); i += nw {
			sig, what := runE(t, fsys, outside0, hist[i], false)
			if sig != "" {
				r.Report(sig, fmt.Sprintf("localfs history %v: %s", hist[i], what), caseE{"E", hist[i]}, what, "nothing outside the base is read or changed")
			}
			r.Outcome(fmt.Sprintf("E|len%d|%s", len(hist[i]), sig))
			n++
		}
		r.Eval(n)
	})
	r.Add("localfs_histories", len(hist))
}
