package c13

import (
	"context"
	"fmt"
	"path/filepath"
	"strings"

	ros "github.com/risor-io/risor/os"

	"verif/internal/ev"
)

// mkFS is the recording filesystem with a Mkdir that succeeds (so that MkdirTemp gets as far as returning a path).
type mkFS struct{ recFS }

func (f mkFS) Mkdir(n string, _ ros.FileMode) error {
	f.rec("Mkdir", n)
	return nil
}

// Part F: VirtualOS.MkdirTemp. The temporary directory of a virtual OS is a path like any other: it lies in the
// mount whose mount point is its longest prefix, at some place inside that mount. For every mount table, every
// temporary directory of a small set and every pattern of a small set (plain, empty, with separators, with ".."):
// the call is refused, or the directory is created by that mount, at the temporary directory's place inside it,
// under a single new name - and the path returned is the temporary directory joined with that name.
func partF(r *ev.Run) {
	mountSets := [][]string{{"/"}, {"/tmp"}, {"/", "/tmp"}, {"/", "/var", "/var/tmp"}, {"/var"}, {"/a", "/a/b"}}
	tmps := []string{"/tmp", "/var/tmp", "/", "/a/b/t", "/nowhere/t", "/var"}
	patterns := []string{"x", "", "x-*", "a/b", "/../../../zz", "..", "../zz", "a\\b", "x/"}
	n := 0
	for _, ms := range mountSets {
		for _, tmp := range tmps {
			for _, pat := range patterns {
				n++
				r.Eval(1)
				var log []string
				mounts := map[string]*ros.Mount{}
				for _, m := range ms {
					mounts[m] = &ros.Mount{Source: mkFS{recFS{name: m, log: &log}}, Target: m}
				}
				vos := ros.NewVirtualOS(context.Background(), ros.WithMounts(mounts), ros.WithCwd("/"), ros.WithTmp(tmp))
				in := map[string]any{"part": "F", "mounts": ms, "tmp": tmp, "pattern": pat}
				got, err := func() (s string, err error) {
					defer func() {
						if e := recover(); e != nil {
							err = fmt.Errorf("panic: %v", e)
						}
					}()
					return vos.MkdirTemp("", pat)
				}()
				if err != nil && strings.HasPrefix(err.Error(), "panic:") {
					r.Report("virtualos-panic", fmt.Sprintf("mounts %v tmp %q: MkdirTemp(\"\", %q) panicked: %v", ms, tmp, pat, err), in, err.Error(), "a path or an error")
					continue
				}
				wantM, wantR := expectMount(ms, "/", tmp)
				if len(log) == 0 {
					r.Outcome("F|refused")
					continue
				}
				r.Outcome("F|served")
				parts := strings.SplitN(log[0], "|", 3)
				name := filepath.Base(normRel(parts[2]))
				switch {
				case len(log) != 1 || parts[1] != "Mkdir":
					r.Report("virtualos-mkdirtemp-other-calls", fmt.Sprintf("mounts %v tmp %q: MkdirTemp(\"\", %q) made the calls %v", ms, tmp, pat, log), in, strings.Join(log, "; "), "one Mkdir")
				case wantM == "":
					r.Report("virtualos-unmounted-served", fmt.Sprintf("mounts %v: the temporary directory %q lies under no mount but MkdirTemp reached %v", ms, tmp, log), in, log[0], "refused")
				case parts[0] != wantM:
					r.Report("virtualos-wrong-mount", fmt.Sprintf("mounts %v tmp %q: MkdirTemp(\"\", %q) reached mount %q, the temporary directory lies in %q", ms, tmp, pat, parts[0], wantM), in, log[0], wantM)
				case normRel(filepath.Dir("/"+normRel(parts[2]))) != normRel(wantR):
					r.Report("virtualos-mkdirtemp-wrong-place", fmt.Sprintf("mounts %v tmp %q: MkdirTemp(\"\", %q) created %q in mount %q; the temporary directory is %q inside that mount", ms, tmp, pat, parts[2], parts[0], wantR), in, parts[2], wantR+"/<new name>")
				case strings.ContainsAny(pat, "/\\"):
					r.Report("virtualos-mkdirtemp-pattern-with-separator", fmt.Sprintf("mounts %v tmp %q: MkdirTemp(\"\", %q) handed the mount the name %q", ms, tmp, pat, parts[2]), in, parts[2], "refused: the pattern is part of one name")
				case err == nil && got != filepath.Join(tmp, name):
					r.Report("virtualos-mkdirtemp-returns-other-path", fmt.Sprintf("mounts %v tmp %q: MkdirTemp(\"\", %q) created %q but returned %q", ms, tmp, pat, parts[2], got), in, got, filepath.Join(tmp, name))
				}
			}
		}
	}
	r.Add("virtualos_mkdirtemp_cases", n)
}
