// Package c01: execution of a program matches its source-level meaning.
// Bounded-exhaustive enumeration of the program families of internal/progen,
// each program run through the real lexer/parser/compiler/VM and through the
// reference interpreter internal/refsem.
package c01

import (
	"context"
	"fmt"
	"strings"

	"github.com/risor-io/risor/ast"
	"github.com/risor-io/risor/parser"

	"sync"
	"sync/atomic"
	"verif/internal/astdump"

	"verif/internal/diffo"
	"verif/internal/ev"
	"verif/internal/lang"
	"verif/internal/progen"
	"verif/internal/refsem"
	"verif/internal/rt"
)

const Budget = 20000

type replayIn struct {
	Fam  string   `json:"family"`
	Src  string   `json:"source"`
	Post []string `json:"host_calls,omitempty"`
	Meta string   `json:"case,omitempty"`
}

// pool runs f over programs streamed from gen on all cores.
func Pool(gen func(yield func(progen.Program)), f func(env *rt.Env, p progen.Program)) {
	ch := make(chan progen.Program, 1024)
	var wg sync.WaitGroup
	for w := 0; w < 16; w++ {
		wg.Add(1)
		go func() {
			defer wg.Done()
			env := rt.NewEnv(nil)
			for p := range ch {
				f(env, p)
			}
		}()
	}
	gen(func(p progen.Program) { ch <- p })
	close(ch)
	wg.Wait()
}

// One runs one program through model and implementation and reports.
func One(r *ev.Run, env *rt.Env, p progen.Program, stats *Stats) {
	src := p.Src()
	budget := Budget
	if strings.HasPrefix(p.Fam, "F10") {
		budget = 100 * Budget // the size-boundary programs are long, not loops
	}
	m := refsem.RunPost(p.Prog, p.Post, budget)
	if m.NonTerm {
		atomic.AddInt64(&stats.NonTerm, 1)
		return
	}
	if m.Unspec {
		atomic.AddInt64(&stats.Unspec, 1)
		return
	}
	o := env.EvalPost(src, p.Names, p.Post)
	r.Eval(1)
	kind, detail := diffo.Compare(m, o, p.Names)
	if kind == "invalid-accepted" {
		// the statement speaks about well-formed programs only: counted, not a violation
		atomic.AddInt64(&stats.InvalidAccepted, 1)
		kind = ""
	}
	if kind == "timeout" {
		o = env.Eval(src, p.Names)
		kind, detail = diffo.Compare(m, o, p.Names)
	}
	switch {
	case m.Rejected:
		atomic.AddInt64(&stats.Rejected, 1)
		r.Outcome(p.Fam + "|rejected|" + m.RejectWhy)
	case m.Err != nil:
		atomic.AddInt64(&stats.Errors, 1)
		r.Outcome(p.Fam + "|err|" + m.Err.Class + "|" + fmt.Sprint(len(m.Log)))
	default:
		atomic.AddInt64(&stats.Values, 1)
		r.Outcome(p.Fam + "|val|" + ev.Clip(m.Val, 40) + "|" + ev.Clip(fmt.Sprint(m.Log), 60))
	}
	if kind == "" {
		return
	}
	sig := p.Fam + ":" + kind
	if ft := diffo.Features(p.Prog); ft != "" {
		sig += ":" + ft
	}
	if p.Tag != "" {
		sig += ":" + p.Tag
	}
	r.Report(sig, fmt.Sprintf("%s\n  %s", src, detail), replayIn{p.Fam, src, p.Post, p.Meta}, detail, "agreement with the reference interpreter")
}

// OneShape checks the parse tree of a flat operator sequence against the model's parse.
func OneShape(r *ev.Run, p progen.Program) {
	src := p.Src()
	want := progen.Dump(p.Prog[len(p.Prog)-1].A[0])
	r.Eval(1)
	got, perr := parseDump(src)
	r.Outcome("F1shape|" + want)
	if perr != "" {
		r.Report("F1shape:valid-rejected:"+shapeClass(src), fmt.Sprintf("%s\n  the rules give %s; the parser says: %s", src, want, perr), replayIn{p.Fam, src, nil, ""}, perr, want)
		return
	}
	if got != want {
		r.Report("F1shape:wrong-tree:"+shapeClass(src), fmt.Sprintf("%s\n  parsed as %s, the precedence rules give %s", src, got, want), replayIn{p.Fam, src, nil, ""}, got, want)
	}
}

func shapeClass(src string) string {
	for i := 0; i < len(src); i++ {
		if src[i] == '?' {
			return "ternary"
		}
	}
	return "infix"
}

func parseDump(src string) (dump, perr string) {
	defer func() {
		if e := recover(); e != nil {
			perr = fmt.Sprint("GO PANIC: ", e)
		}
	}()
	prog, err := parser.Parse(context.Background(), src)
	if err != nil {
		return "", err.Error()
	}
	sts := prog.Statements()
	if len(sts) != 1 {
		return "", fmt.Sprintf("parsed into %d statements", len(sts))
	}
	var n ast.Node = sts[0]
	d, ok := astdump.Expr(n)
	if !ok {
		return d, ""
	}
	return d, ""
}

type Stats struct {
	NonTerm, Unspec, Rejected, Errors, Values, InvalidAccepted int64
}

func Check(r *ev.Run, replay string) {
	if replay != "" {
		var in replayIn
		if err := ev.ReadReplay(replay, &in); err != nil {
			r.EngineError(err.Error())
			return
		}
		o := rt.NewEnv(nil).EvalPost(in.Src, nil, in.Post)
		fmt.Printf("source:\n%s\nimplementation: stage=%s value=%s err=%q log=%q\n", in.Src, o.Stage, o.Val, o.ErrText, o.Log)
		r.Eval(1)
		r.Outcome("replay")
		r.Outcome("replay2")
		return
	}
	st := &Stats{}
	var sampled int32
	run := func(env *rt.Env, p progen.Program) {
		if atomic.AddInt32(&sampled, 1)%5003 == 1 {
			r.Sample(map[string]string{"family": p.Fam, "source": p.Src()})
		}
		One(r, env, p, st)
	}
	// F2 control skeletons
	maxAll, maxFiltered := 4, 5
	if r.Thorough() {
		maxAll, maxFiltered = 5, 6
	}
	for n := 1; n <= maxFiltered; n++ {
		filter := progen.F2All
		if n > maxAll {
			filter = progen.F2CtrlUnderSwitchInLoop
		}
		Pool(func(y func(progen.Program)) { progen.F2(n, filter, y) }, run)
	}
	// F1 operators: parse shapes, then values
	shapeOps, valOps, valPool := 3, 2, 6
	if r.Thorough() {
		shapeOps, valOps, valPool = 4, 3, 5
	}
	Pool(func(y func(progen.Program)) { progen.F1Shapes(shapeOps, y) }, func(env *rt.Env, p progen.Program) { OneShape(r, p) })
	for n := 1; n <= valOps; n++ {
		pool := progen.ValuePool(9)
		if n == 2 {
			pool = progen.ValuePool(valPool + 1)
		}
		if n >= 3 {
			pool = progen.ValuePool(valPool)
		}
		Pool(func(y func(progen.Program)) { progen.F1Values(n, pool, y) }, run)
	}
	Pool(func(y func(progen.Program)) { progen.F1Prefix(progen.ValuePool(9), y) }, run)
	// F3 functions, F4 scoping, F5 containers and strings, F6 errors
	f4ops := 2
	if r.Thorough() {
		f4ops = 3
	}
	Pool(func(y func(progen.Program)) { progen.F3(y) }, run)
	Pool(func(y func(progen.Program)) { progen.F4(f4ops, y) }, run)
	Pool(func(y func(progen.Program)) { progen.F4c(f4ops+1, y) }, run)
	Pool(func(y func(progen.Program)) { progen.F5(y) }, run)
	Pool(func(y func(progen.Program)) { progen.F6(y) }, run)
	Pool(func(y func(progen.Program)) { progen.F8(false, y) }, run)
	Pool(func(y func(progen.Program)) { progen.F9(y) }, run)
	Pool(func(y func(progen.Program)) { progen.F10(y) }, run)
	Pool(func(y func(progen.Program)) { progen.F2Operand(y) }, run)
	Pool(func(y func(progen.Program)) { progen.F8(true, y) }, run)
	r.Set("f4_max_operations", f4ops)
	r.Set("f1_shape_max_operators", shapeOps)
	r.Set("f1_value_max_operators", valOps)
	r.Set("f2_node_budget_all", maxAll)
	r.Set("f2_node_budget_ctrl_under_switch_in_loop", maxFiltered)
	r.Set("invalid_programs_accepted_by_impl_not_a_violation", int(st.InvalidAccepted))
	r.Set("model_rejected", int(st.Rejected))
	r.Set("model_errors", int(st.Errors))
	r.Set("model_values", int(st.Values))
	r.Set("excluded_nonterminating", int(st.NonTerm))
	r.Set("excluded_outside_sheet", int(st.Unspec))
	r.Set("rule", "every program of each family up to its node budget (see DESIGN 3.3 E1), rendered to source, run through the real lexer/parser/compiler/VM and through the reference interpreter; distinct = distinct (family, model outcome) pairs")
	_ = lang.Src
}
