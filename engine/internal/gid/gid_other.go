//go:build !amd64

// Package gid identifies the calling goroutine.
package gid

import (
	"bytes"
	"runtime"
	"strconv"
)

// Get returns the calling goroutine's id.
func Get() int64 {
	var buf [64]byte
	n := runtime.Stack(buf[:], false)
	b := buf[:n]
	b = b[len("goroutine "):]
	b = b[:bytes.IndexByte(b, ' ')]
	id, _ := strconv.ParseInt(string(b), 10, 64)
	return id
}
