//go:build amd64

// Package gid identifies the calling goroutine.
package gid

func getg() uintptr

// Get returns the address of the calling goroutine's g structure: unique among live goroutines.
func Get() int64 { return int64(getg()) }
