#include "textflag.h"

// func getg() uintptr
// Returns the address of the running goroutine's g structure (from thread-local storage).
TEXT ·getg(SB),NOSPLIT,$0-8
	MOVQ (TLS), BX
	MOVQ BX, ret+0(FP)
	RET
