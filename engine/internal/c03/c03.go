// Package c03: no source text or script can crash or panic the embedding process.
//
// Bounded-exhaustive enumeration in crash-isolating worker processes (a child that dies is a
// finding in itself: the parent knows which input was in flight):
//
//	soup     every token sequence of <= 3 (thorough 4) tokens over a 68-token alphabet
//	edits    every single-token deletion / duplication of every program of the function, container
//	         and error families (run, not only compiled)
//	hostile  every default-global callable and every method name x hostile argument tuples (cyclic
//	         containers, extreme integers, NaN, invalid UTF-8, closed channel, ...), plus operators
//	         and interpolation on all pairs of hostile values
//	nesting  each bracketing / prefix construct nested 10 .. 10^6 deep
//	shared   (thorough) container kind x operation pair x spawn form x ordering: scripts whose
//	         goroutines share one container, free-running under Go's race detector
//	slots    every statement/expression form as a template of slots x a few fillers per slot
//	         (absent, doubled, wrong kind), alone and after a prelude defining the names used
//
// Each input goes through parser.Parse, Program.String, compiler.Compile, risor.Eval (short
// deadline, virtual OS, no exec/network) and the Error()/FriendlyErrorMessage() of whatever error
// came back. Oracle: the child survives and the harness's recover() sees nothing.
package c03

import (
	"bufio"
	"context"
	"encoding/json"
	"fmt"
	"os"
	"os/exec"
	"reflect"
	"regexp"
	"runtime/debug"
	"sort"
	"strconv"
	"strings"
	"sync"
	"time"
	"unsafe"

	"github.com/risor-io/risor"
	"github.com/risor-io/risor/compiler"
	"github.com/risor-io/risor/errz"
	"github.com/risor-io/risor/object"
	ros "github.com/risor-io/risor/os"
	"github.com/risor-io/risor/parser"

	"verif/internal/ev"
	"verif/internal/lang"
	"verif/internal/progen"
)

var soupToks = []string{"x", "1", "1.5", `"s"`, "'t{x}'", "`b`", "true", "nil", "func", "return", "if", "else", "for", "range", "in", "not", "switch", "case", "default", "break", "continue", "import", "from", "as", "const", "go", "defer",
	"(", ")", "[", "]", "{", "}", ",", ":", ";", "\n", ".", "=", ":=", "+", "-", "*", "==", "<", "!", "&&", "|", "?", "<-", "++", "+=", "/*", "\"", "\x00", "0x",
	// template strings with unusual interpolations (lexed as one token, parsed by a nested parser)
	"'{}'", "'{ }'", "'{#}'", "'a{// c}b'", "'{/* c */}'", "'{1}{'", "'{{'", "'{x;y}'", "'{\n}'", "'{'", "'{)}'", "'{x :=}'"}

// ------------------------------------------------------------------ input spaces

type space struct {
	name string
	n    int
	at   func(i int) string
}

func soupSpace(maxLen int) space {
	k := len(soupToks)
	// index -> sequence: lengths 1..maxLen in order
	offs := []int{0}
	pow := 1
	for l := 1; l <= maxLen; l++ {
		pow *= k
		offs = append(offs, offs[l-1]+pow)
	}
	return space{"soup", offs[maxLen], func(i int) string {
		l := 1
		for i >= offs[l] {
			l++
		}
		i -= offs[l-1]
		parts := make([]string, l)
		for p := l - 1; p >= 0; p-- {
			parts[p] = soupToks[i%k]
			i /= k
		}
		return strings.Join(parts, " ")
	}}
}

func editSpace(thorough bool) space {
	var srcs []string
	n := 0
	add := func(p progen.Program) {
		n++
		if p.Raw != "" || (!thorough && n%6 != 0) {
			return
		}
		toks := p.Tokens()
		if len(toks) > 150 {
			return
		}
		ins := []string{"\n"}
		if thorough {
			ins = []string{"\n", ";", ",", ":", "(", ")", "{", "}"}
		}
		for i := range toks {
			cp := append(append([]lang.Tok{}, toks[:i]...), toks[i+1:]...)
			srcs = append(srcs, lang.Source(cp))
			cp = append(append(append([]lang.Tok{}, toks[:i+1]...), toks[i]), toks[i+1:]...)
			srcs = append(srcs, lang.Source(cp))
			// insertion before token i: a line break (thorough: also separators and brackets) where
			// the grammar may not expect one
			for _, t := range ins {
				cp = append(append(append([]lang.Tok{}, toks[:i]...), lang.Tok{T: t, NL: t == "\n"}), toks[i:]...)
				srcs = append(srcs, lang.Source(cp))
			}
		}
	}
	progen.F3(add)
	progen.F5(add)
	progen.F6(add)
	progen.C02Corpus(false, add)
	return space{"edits", len(srcs), func(i int) string { return srcs[i] }}
}

var hostilePrelude = map[string]string{
	"h_cyc":     "h_cyc := [1]\nh_cyc.append(h_cyc)",
	"h_mcyc":    "h_mcyc := {\"a\": 1}\nh_mcyc[\"self\"] = h_mcyc",
	"h_cyc2":    "h_cyc2 := [1]\nh_cyc2.append(h_cyc2)\nh_cyc2.append(h_cyc2)",
	"h_mcyc2":   "h_mcyc2 := {}\nh_mcyc2[\"a\"] = h_mcyc2\nh_mcyc2[\"b\"] = h_mcyc2",
	"h_itcyc":   "h_itcyc := []\nh_itcyc.append(iter(h_itcyc))\nh_itcyc.append(iter(h_itcyc))",
	"h_lm":      "h_lm := [0]\nh_lmm := {\"l\": h_lm}\nh_lm.append(h_lmm)",
	"h_deep":    "h_deep := []\nfor i := range 3000 { h_deep = [h_deep] }",
	"h_max":     "h_max := 9223372036854775807",
	"h_min":     "h_min := -9223372036854775807 - 1",
	"h_neg":     "h_neg := -1",
	"h_zero":    "h_zero := 0",
	"h_64k":     "h_64k := 65536",
	"h_nan":     "h_nan := math.inf() - math.inf()",
	"h_inf":     "h_inf := math.inf()",
	"h_empty":   "h_empty := \"\"",
	"h_badutf":  "h_badutf := \"\\377\\200\"",
	"h_long":    "h_long := strings.repeat(\"a\", 70000)",
	"h_nil":     "h_nil := nil",
	"h_closed":  "h_closed := chan(1)\nh_closed.close()",
	"h_err":     "h_err := try(func() { error(\"e\") }, func(e) { return e })",
	"h_builtin": "h_builtin := len",
	"h_iter":    "h_iter := iter([1])\nh_iter.next()\nh_iter.next()",
	"h_set":     "h_set := {1, \"a\"}",
	"h_fn":      "h_fn := func(a) { return a(a) }",
	"h_bytes":   "h_bytes := byte_slice([0, 255])",
}

func hostileNames() []string {
	var ns []string
	for k := range hostilePrelude {
		ns = append(ns, k)
	}
	sort.Strings(ns)
	return ns
}

// callables lists every default-global callable as a script expression ("len", "strings.split", ...),
// minus the ones the statement exempts (explicit exit, external commands) and the network modules.
func callables() []string {
	var out []string
	skipMods := map[string]bool{"exec": true, "http": true, "net": true, "dns": true}
	skip := map[string]bool{"os.exit": true, "exit": true, "fetch": true, "cancel": true}
	for name, v := range risor.DefaultGlobals() {
		switch o := v.(type) {
		case *object.Module:
			if skipMods[name] {
				continue
			}
			for _, attr := range moduleAttrs(o) {
				if !skip[name+"."+attr] {
					out = append(out, name+"."+attr)
				}
			}
		case *object.Builtin:
			if !skip[name] && !strings.Contains(name, "dns") && !strings.Contains(name, "http") {
				out = append(out, name)
			}
		}
	}
	sort.Strings(out)
	return out
}

func moduleAttrs(m *object.Module) []string {
	rv := reflect.ValueOf(m).Elem()
	f := rv.FieldByName("builtins")
	if !f.IsValid() || f.Kind() != reflect.Map {
		return nil
	}
	f = reflect.NewAt(f.Type(), unsafe.Pointer(f.UnsafeAddr())).Elem()
	var out []string
	for _, k := range f.MapKeys() {
		if _, ok := f.MapIndex(k).Interface().(*object.Builtin); ok {
			out = append(out, k.String())
		}
	}
	sort.Strings(out)
	return out
}

var caseLabel = regexp.MustCompile(`case "([a-z_0-9]+)"`)

// methodNames collects the attribute names of the builtin types from the GetAttr switches of the tree being checked.
func methodNames() []string {
	set := map[string]bool{}
	files, _ := os.ReadDir(ev.RepoDir + "/object")
	for _, f := range files {
		if !strings.HasSuffix(f.Name(), ".go") || strings.HasSuffix(f.Name(), "_test.go") {
			continue
		}
		b, err := os.ReadFile(ev.RepoDir + "/object/" + f.Name())
		if err != nil {
			continue
		}
		for _, m := range caseLabel.FindAllStringSubmatch(string(b), -1) {
			set[m[1]] = true
		}
	}
	var out []string
	for k := range set {
		out = append(out, k)
	}
	sort.Strings(out)
	return out
}

func hostileSpace(thorough bool) space {
	hs := hostileNames()
	fns := callables()
	ms := methodNames()
	var srcs []string
	script := func(uses []string, expr string) string {
		var sb strings.Builder
		seen := map[string]bool{}
		for _, u := range uses {
			if !seen[u] {
				seen[u] = true
				sb.WriteString(hostilePrelude[u] + "\n")
			}
		}
		sb.WriteString("r := try(func() { return " + expr + " }, func(e) { return string(e) })\ntry(func() { return string(r) }, \"x\")\ntry(func() { return r == r }, \"x\")\n")
		return sb.String()
	}
	for _, f := range fns {
		srcs = append(srcs, script(nil, f+"()"))
		for _, a := range hs {
			srcs = append(srcs, script([]string{a}, f+"("+a+")"))
			if thorough {
				for _, b := range hs {
					srcs = append(srcs, script([]string{a, b}, f+"("+a+", "+b+")"))
				}
			} else {
				srcs = append(srcs, script([]string{a}, f+"("+a+", "+a+")"))
				srcs = append(srcs, script([]string{a}, f+"(1, "+a+")"))
				srcs = append(srcs, script([]string{a}, f+"(\"s\", "+a+")"))
			}
		}
	}
	for _, m := range ms {
		for _, recv := range hs {
			srcs = append(srcs, script([]string{recv}, recv+"."+m+"()"))
			srcs = append(srcs, script([]string{recv}, recv+"."+m))
			for _, a := range hs {
				if !thorough && a != recv && a != "h_max" && a != "h_nil" && a != "h_cyc" && a != "h_neg" {
					continue
				}
				srcs = append(srcs, script([]string{recv, a}, recv+"."+m+"("+a+")"))
				if thorough {
					srcs = append(srcs, script([]string{recv, a}, recv+"."+m+"("+a+", "+a+")"))
				}
			}
		}
	}
	ops := []string{"==", "!=", "<", ">=", "in", "+", "*", "&&"}
	for _, a := range hs {
		srcs = append(srcs, script([]string{a}, "'{"+a+"}'"))
		srcs = append(srcs, script([]string{a}, "string("+a+")"))
		srcs = append(srcs, script([]string{a}, "json.marshal("+a+")"))
		srcs = append(srcs, script([]string{a}, "["+a+"]["+a+"]"))
		srcs = append(srcs, script([]string{a}, "{"+a+"}"))
		srcs = append(srcs, script([]string{a}, "{\"k\": "+a+"}."+a))
		srcs = append(srcs, script([]string{a}, "-"+a))
		srcs = append(srcs, script([]string{a}, a+"["+a+":"+a+"]"))
		srcs = append(srcs, script([]string{a}, "for x in "+a+" { }"))
		srcs = append(srcs, a2(a, a+"()"))
		for _, b := range hs {
			for _, o := range ops {
				srcs = append(srcs, script([]string{a, b}, a+" "+o+" "+b))
			}
			srcs = append(srcs, script([]string{a, b}, "["+a+"] == ["+b+"]"))
			srcs = append(srcs, script([]string{a, b}, "sorted(["+a+", "+b+"])"))
			srcs = append(srcs, script([]string{a, b}, a+"["+b+"]"))
		}
	}
	return space{"hostile", len(srcs), func(i int) string { return srcs[i] }}
}

func a2(a, expr string) string {
	return hostilePrelude[a] + "\ntry(func() { return " + expr + " }, \"x\")\n"
}

func nestingSpace(thorough bool) space {
	type fam struct{ open, mid, close string }
	fams := []fam{{"(", "1", ")"}, {"[", "1", "]"}, {"{\"a\":", "1", "}"}, {"!", "true", ""}, {"-", "1", ""}, {"if true {", "1", "}"}, {"f(", "1", ")"}, {"func() {", "1", "}"},
		{"x[", "0", "]"}, {"1 + ", "1", ""}, {"a.", "b", ""}, {"{", "1", "}"}, {"for {", "break", "}"}, {"switch 1 { case 1:", "1", "}"}, {"'{", "1", "}'"}, {"try(", "1", ")"}, {"x := ", "1", ""},
		// chains that the parser builds in a loop, not by recursion: the tree is as deep as the chain is long
		{"", "x", ".a"}, {"", "x", "[0]"}, {"", "f", "()"}, {"", "x", " | f"}, {"", "1", " + 1"}, {"", "x", " == x"}, {"", "true", " && true"}, {"", "x", ".a()"}}
	depths := []int{10, 100, 1000}
	if thorough {
		depths = append(depths, 10000, 100000, 1000000)
	}
	var srcs []string
	for _, f := range fams {
		for _, d := range depths {
			srcs = append(srcs, strings.Repeat(f.open, d)+f.mid+strings.Repeat(f.close, d))
		}
		// quick: the forms that nest through the parser's own recursion also at 10^6 (complete and
		// truncated): the parser's depth limit has to stop every one of them; the chains that
		// the parser builds iteratively ("1 + ", "a.", "x := ") take minutes at that size and
		// stay in the thorough tier
		if f.open != "x := " {
			if !thorough {
				srcs = append(srcs, strings.Repeat(f.open, 1000000)+f.mid+strings.Repeat(f.close, 1000000))
			}
			if f.open != "" {
				srcs = append(srcs, strings.Repeat(f.open, 1000000))
			} else {
				srcs = append(srcs, f.mid+strings.Repeat(f.close, 4000000))
			}
		}
	}
	// repetition rather than nesting: constructs that follow one another a million times. Nothing here
	// is deep, so every one of them has to come back with a result or an ordinary error; what the parser
	// or the lexer handles by one level of recursion per repetition (an else-if chain, comment after
	// comment) dies of stack exhaustion instead
	type rep struct{ head, unit, tail string }
	reps := []rep{{"if false { 1 }", " else if false { 1 }", ""}, {"if false { 1 }", " else if false { 1 }", " else { 2 }"}, {"", "/**/", "1"}, {"1", "/**/", ""}, {"1", " /* c */ ", "+ 1"},
		{"1", "\n", ""}, {"", "\n", "1"}, {"1", ";", ""}, {"1", "# c\n", "1"}, {"1", "// c\n", "1"}, {"1", "\n/**/", ""}, {"1", "/**/\n", ""}, {"1", "/**/# c\n", ""},
		{"[1", ", 1", "]"}, {"[1", ",\n1", "]"}, {"f(1", ", 1", ")"}, {"{1: 1", ", 1: 1", "}"}, {"{1", ", 1", "}"}, {"func(a", ", a", ") { }"}, {"func(a", ", b=1", ") { }"}, {"switch 1 {", " case 1: 1\n", "}"}, {"switch 1 { case 1", ", 1", ": 1 }"},
		{"'", "{1}", "'"}, {"'", "x{1}", "'"}, {"a", ", a", " = [1]"}, {"a", ", a", " := [1]"}, {"from a import b", ", b", ""}, {"from a", ".a", " import b"}, {"import a", ".a", ""},
		{"1", " ? 1 : 1", ""}, {"", "true ? 1 : ", "1"}, {"x", "++", ""}, {"", "go ", "f()"}, {"", "defer ", "f()"}, {"", "return ", "1"}, {"", "<-", "c"}, {"", "c <- ", "1"}, {"", "x in ", "x"}, {"x", " in x", ""}, {"x", " not in x", ""},
		{"", "x = ", "1"}, {"", "x += ", "1"}, {"", "const x = ", "1"}, {"", "var x = ", "1"}, {"x", "[0:1]", ""}, {"x", "[:]", ""}, {"f", "(f)", ""}, {"1", "\n+ 1", ""}, {"x", "\n.a", ""}, {"{", "\n", "}"}, {"[", "\n", "]"}, {"f(", "\n", ")"}, {"func() {", "\n", "}"},
		{"x := 1", "\nx := 1", ""}, {"", "{ }\n", ""}, {"", "if true { }\n", ""}, {"", "func f() { }\n", ""}, {"\"", "\\n", "\""}, {"`", "\n", "`"}, {"0", "0", ""}, {"1.", "0", ""}, {"x", "x", ""}, {"", "\t ", "1"}}
	for _, f := range reps {
		for _, d := range depths {
			srcs = append(srcs, f.head+strings.Repeat(f.unit, d)+f.tail)
		}
		big := 1000000
		if f.unit == "0" {
			// the lexer collects a number literal by string concatenation: quadratic, minutes at 10^6 digits
			big = 100000
		}
		if !thorough {
			srcs = append(srcs, f.head+strings.Repeat(f.unit, big)+f.tail)
		}
		srcs = append(srcs, f.head+strings.Repeat(f.unit, big))
	}
	return space{"nesting", len(srcs), func(i int) string { return srcs[i] }}
}

// deepValueSpace: values that a three-line loop nests millions of levels deep - a list in a list in a list ..., the
// same with maps, and the two alternating - handed to everything that walks a value: conversion to a string,
// printing, interpolation, error formatting, equality and ordering against a second such value, membership, sorting,
// JSON, copying, hashing. None of the values contains itself; what is at stake is whether walking a value costs native
// stack in proportion to its depth (Go's limit is 1 GB, as in a real embedding process).
func deepValueSpace(thorough bool) space {
	const depth = 3000000
	shapes := map[string]string{
		"list": "dv_x = [dv_x]",
		"map":  "dv_x = {\"k\": dv_x}",
		"both": "dv_x = i % 2 == 0 ? [dv_x] : {\"k\": dv_x}",
	}
	build := func(name, step string) string {
		return name + " := []\nfor i := range " + strconv.Itoa(depth) + " { " + strings.ReplaceAll(step, "dv_x", name) + " }\n"
	}
	one := []string{"len(string(dv_x))", "print(dv_x)", "len('{dv_x}')", "error(\"%v\", dv_x)", "len(sprintf(\"%v\", dv_x))", "len(json.marshal(dv_x))", "type(dv_x)", "len(dv_x)",
		"dv_x == dv_x", "[dv_x] == [dv_x]", "dv_x in [1, dv_x]", "{dv_x}", "len(dv_x.copy())", "hash(dv_x)", "try(func() { error(dv_x) }, func(e) { return len(string(e)) })", "dv_x"}
	two := []string{"dv_x == dv_y", "dv_x != dv_y", "dv_x < dv_y", "dv_x in [dv_y]", "[dv_y].index(dv_x)", "sorted([dv_x, dv_y])", "{\"a\": dv_x} == {\"a\": dv_y}", "[1, dv_y].count(dv_x)"}
	var srcs []string
	for _, sh := range []string{"list", "map", "both"} {
		for _, c := range one {
			srcs = append(srcs, build("dv_x", shapes[sh])+c)
		}
		for _, c := range two {
			srcs = append(srcs, build("dv_x", shapes[sh])+build("dv_y", shapes[sh])+c)
		}
	}
	return space{"deepvalue", len(srcs), func(i int) string { return srcs[i] }}
}

// stackLimitSpace: the same small construct executed at every depth in a window around the VM's limits (1024 frames,
// 1024 operand slots): a function that keeps one operand pending per level recurses N levels down and runs the
// construct there, for every N from 985 to 1035 - so that the construct meets the stack exactly full, one below and
// one above, whichever way its own needs add up. Reached through Eval and, via a second function, through risor.Call.
// What comes back is a value or an error; a Go panic that escapes, or a dead process, is what the limits must not cause.
func stackLimitSpace(thorough bool) space {
	leaves := []string{"a, b, c, d := [1, 2, 3, 4]\nreturn a", "a, b := \"x y\".split(\" \")\nreturn a", "return [1, 2, 3, 4, 5, 6, 7, 8][0]", "return len([1, 2, 3])", "return '{n}{n}'",
		"x := 0\nfor i := range 3 { x += i }\nreturn x", "return try(func() { return 1 })", "defer len([1])\nreturn 1", "return {\"a\": 1, \"b\": 2}[\"a\"]",
		"return [1, 2, 3].map(func(v) { return v })[0]", "return sorted([3, 1, 2])[0]", "return 1 | string", "return func(a, b, c) { return a }(1, 2, 3)", "x := [1, 2]\nx[0] += 1\nreturn x[0]",
		"switch n { case 0: return 1 }\nreturn 2", "return 1 in [1, 2]", "c := chan(1)\nc <- 1\nreturn <-c", "return [9, 8, 7][1:][0]", "return error(\"leaf\")"}
	// values that arrive without having been pushed one by one: unpacking 2..16 values from the result of a call
	for _, k := range []int{2, 3, 4, 5, 8, 16} {
		var names, words []string
		for i := 0; i < k; i++ {
			names = append(names, fmt.Sprintf("u%d", i))
			words = append(words, fmt.Sprintf("w%d", i))
		}
		leaves = append(leaves, strings.Join(names, ", ")+" := \""+strings.Join(words, " ")+"\".split(\" \")\nreturn u0")
	}
	var srcs []string
	for _, leaf := range leaves {
		for n := 985; n <= 1035; n++ {
			srcs = append(srcs, "func f(n) {\nif n == 0 {\n"+leaf+"\n}\nreturn 1 + f(n - 1)\n}\nfunc g(a) { return f("+strconv.Itoa(n)+") }\ntry(func() { return f("+strconv.Itoa(n)+") }, func(e) { return -1 })")
		}
	}
	return space{"stacklimit", len(srcs), func(i int) string { return srcs[i] }}
}

func spaceByName(name string, thorough bool) space {
	switch name {
	case "nesting":
		return nestingSpace(thorough)
	case "deepvalue":
		return deepValueSpace(thorough)
	case "stacklimit":
		return stackLimitSpace(thorough)
	case "hostile":
		return hostileSpace(thorough)
	case "edits":
		return editSpace(thorough)
	case "slots":
		return slotSpace()
	case "edits2":
		return edits2Space(thorough)
	case "volume":
		return volumeSpace()
	}
	l := 3
	if thorough {
		l = 4
	}
	return soupSpace(l)
}

func spaces(thorough bool) []space {
	l := 3
	if thorough {
		l = 4
	}
	return []space{nestingSpace(thorough), deepValueSpace(thorough), stackLimitSpace(thorough), hostileSpace(thorough), editSpace(thorough), edits2Space(thorough), slotSpace(), volumeSpace(), soupSpace(l)}
}

// ------------------------------------------------------------------ one input (runs in the worker)

type finding struct {
	Index int    `json:"i"`
	Stage string `json:"stage"`
	Panic string `json:"panic"`
}

// evalDeadline is the deadline of the Eval stage (the deep-value space needs seconds to build its values).
var evalDeadline = 15 * time.Millisecond

var denied = []string{"exec", "http", "net", "dns", "os.exit", "exit", "fetch"}

func one(src string) (stage, pan string) {
	stage = "parse"
	defer func() {
		if r := recover(); r != nil {
			pan = fmt.Sprint(r)
		}
	}()
	ctx := context.Background()
	touch := func(err error) {
		_ = err.Error()
		if fe, ok := err.(errz.FriendlyError); ok {
			_ = fe.FriendlyErrorMessage()
		}
	}
	prog, err := parser.Parse(ctx, src)
	if err != nil {
		stage = "format-parse-error"
		touch(err)
		return "", ""
	}
	stage = "ast-string"
	_ = prog.String()
	stage = "compile"
	cfg := risor.NewConfig(risor.WithoutGlobals(denied...))
	if _, err := compiler.Compile(prog, cfg.CompilerOpts()...); err != nil {
		stage = "format-compile-error"
		touch(err)
		return "", ""
	}
	stage = "eval"
	c2, cancel := context.WithTimeout(ctx, evalDeadline)
	defer cancel()
	vos := ros.NewVirtualOS(c2)
	v, err := risor.Eval(c2, src, risor.WithOS(vos), risor.WithoutGlobals(denied...), risor.WithConcurrency())
	if err != nil {
		stage = "format-eval-error"
		touch(err)
		return "", ""
	}
	stage = "result-inspect"
	if v != nil {
		_ = v.Type()
	}
	// the third entry point of the embedding API: run the code, fetch a global by name, call it.
	// Every name the compiler knows is tried (the first four), whether or not it holds a function.
	stage = "call-api"
	if code, err := compiler.Compile(prog, cfg.CompilerOpts()...); err == nil {
		names := code.GlobalNames()
		tried := 0
		for i := len(names) - 1; i >= 0 && tried < 4; i-- {
			if _, builtin := cfg.Globals()[names[i]]; builtin {
				continue
			}
			tried++
			// without arguments, with one and with two (a function is only entered with the number it takes)
			for _, args := range [][]object.Object{nil, {object.NewInt(1)}, {object.NewInt(1), object.NewInt(2)}} {
				c3, cancel3 := context.WithTimeout(ctx, 15*time.Millisecond)
				_, err := risor.Call(c3, code, names[i], args, risor.WithOS(ros.NewVirtualOS(c3)), risor.WithoutGlobals(denied...), risor.WithConcurrency())
				cancel3()
				if err != nil {
					touch(err)
				}
			}
		}
	}
	return "", ""
}

// Worker is the child process: it announces every index before running it.
func Worker(args []string) {
	thorough := args[0] == "thorough"
	name := args[1]
	from, _ := strconv.Atoi(args[2])
	to, _ := strconv.Atoi(args[3])
	if name == "deepvalue" {
		evalDeadline = 60 * time.Second
	}
	if name != "nesting" && name != "deepvalue" {
		// infinite recursion dies faster; no finite recursion of these spaces comes near 32 MB.
		// The nesting space keeps Go's default limit (1 GB): only what would kill a real
		// embedding process is a finding.
		debug.SetMaxStack(32 << 20)
	}
	debug.SetGCPercent(400)
	// the materialised space itself is ~300 MB live in the thorough tier; with 400 % the heap would peak at
	// five times that, next to the address-space limit the parent sets: collect earlier instead
	debug.SetMemoryLimit(1200 << 20)
	sp := spaceByName(name, thorough)
	out := os.Stdout
	for i := from; i < to && i < sp.n; i++ {
		fmt.Fprintf(out, "I %d\n", i)
		t0 := time.Now()
		stage, pan := one(sp.at(i))
		if slowLog && time.Since(t0) > 8*time.Millisecond {
			fmt.Fprintf(os.Stderr, "SLOW %v %q\n", time.Since(t0), ev.Clip(sp.at(i), 150))
		}
		if pan != "" {
			b, _ := json.Marshal(finding{i, stage, pan})
			fmt.Fprintf(out, "F %s\n", b)
		}
	}
	fmt.Fprintln(out, "DONE")
}

// ------------------------------------------------------------------ parent

type replayIn struct {
	Space  string `json:"space"`
	Index  int    `json:"index"`
	Source string `json:"source"`
}

func classify(src, text string) string {
	switch {
	case strings.Contains(text, "stack overflow"), strings.Contains(text, "goroutine stack exceeds"):
		return "fatal-stack-overflow"
	case strings.Contains(text, "concurrent map"):
		return "fatal-concurrent-map-access"
	case strings.Contains(text, "out of memory"), strings.Contains(text, "cannot allocate"):
		return "out-of-memory"
	case strings.Contains(text, "nil pointer"):
		return "nil-dereference"
	case strings.Contains(text, "index out of range"), strings.Contains(text, "slice bounds"):
		return "index-out-of-range"
	case strings.Contains(text, "interface conversion"):
		return "interface-conversion"
	}
	return "other"
}

func Check(r *ev.Run, replay string) {
	if replay != "" {
		var in replayIn
		if err := ev.ReadReplay(replay, &in); err != nil {
			r.EngineError(err.Error())
			return
		}
		fmt.Printf("%s #%d: %q\n", in.Space, in.Index, ev.Clip(in.Source, 400))
		self := os.Getenv("VERIF_SELF")
		tmp, _ := os.CreateTemp("", "c03-replay-")
		tmp.WriteString(in.Source)
		tmp.Close()
		defer os.Remove(tmp.Name())
		cmd := exec.Command(self, "c03-one", tmp.Name())
		out, err := cmd.CombinedOutput()
		fmt.Printf("child: err=%v output=%s\n", err, ev.Clip(string(out), 1500))
		if err != nil || strings.Contains(string(out), "PANIC") {
			r.Report("replayed", "reproduced", in, ev.Clip(string(out), 300), "")
		}
		r.Eval(1)
		r.Outcome("a")
		r.Outcome("b")
		return
	}
	self := os.Getenv("VERIF_SELF")
	if self == "" {
		r.EngineError("VERIF_SELF not set (run through /verif/run)")
		return
	}
	tier := "quick"
	if r.Thorough() {
		tier = "thorough"
	}
	sps := spaces(r.Thorough())
	type job struct {
		sp       space
		from, to int
	}
	var jobs []job
	for _, sp := range sps {
		if only := os.Getenv("VERIF_C03_SPACE"); only != "" && only != sp.name {
			continue
		}
		chunk := sp.n/64 + 1
		if sp.name == "nesting" {
			chunk = 4
		}
		if sp.name == "deepvalue" {
			chunk = 1 // every input builds values of several hundred MB: one per child
		}
		for f := 0; f < sp.n; f += chunk {
			t := f + chunk
			if t > sp.n {
				t = sp.n
			}
			jobs = append(jobs, job{sp, f, t})
		}
		r.Set("inputs_"+sp.name, sp.n)
		r.Sample(map[string]any{"space": sp.name, "size": sp.n, "example": ev.Clip(sp.at(sp.n/2), 200)})
	}
	var mu sync.Mutex
	next := 0
	hangs, ooms, deaths := 0, 0, 0
	var skipped []string
	var wg sync.WaitGroup
	for w := 0; w < 16; w++ {
		wg.Add(1)
		go func() {
			defer wg.Done()
			for {
				mu.Lock()
				if next >= len(jobs) {
					mu.Unlock()
					return
				}
				j := jobs[next]
				next++
				mu.Unlock()
				from := j.from
				for from < j.to {
					last, done, stderr, fs, hung := runWorker(self, tier, j.sp.name, from, j.to)
					for _, f := range fs {
						src := j.sp.at(f.Index)
						r.Report("C03:panic-escapes:"+f.Stage+":"+classify(src, f.Panic), fmt.Sprintf("%s #%d %q\n  panic in %s: %s", j.sp.name, f.Index, ev.Clip(src, 300), f.Stage, ev.Clip(f.Panic, 300)), replayIn{j.sp.name, f.Index, clipSrc(src)}, f.Panic, "a value or an error")
					}
					n := last - from + 1
					if done {
						n = j.to - from
					}
					if n > 0 {
						r.Eval(n)
					}
					if done {
						break
					}
					if last < from {
						last = from // died before announcing: blame the first input
					}
					src := j.sp.at(last)
					mu.Lock()
					switch {
					case hung:
						hangs++
					default:
						deaths++
					}
					mu.Unlock()
					if hung {
						r.Add("inputs_without_progress_for_60s_skipped", 1)
						mu.Lock()
						skipped = append(skipped, fmt.Sprintf("%s #%d %q", j.sp.name, last, ev.Clip(src, 80)))
						mu.Unlock()
					} else {
						cls := classify(src, stderr)
						if cls == "out-of-memory" && bigData(src) {
							mu.Lock()
							ooms++
							mu.Unlock()
							r.Add("memory_exhausted_by_data_size_exempt", 1)
						} else {
							if cls == "fatal-stack-overflow" && (strings.Contains(src, "h_cyc") || strings.Contains(src, "h_mcyc") || strings.Contains(src, "h_lm") || strings.Contains(src, "h_deep") || strings.Contains(src, "h_itcyc")) {
								// which method recurses tells the known ways (Equals, Compare, Interface, MarshalJSON
								// have no guard against cycles) from a new one (Inspect has a guard)
								cls += ":cyclic-container:" + firstRisorMethod(stderr)
							} else if cls == "fatal-stack-overflow" && j.sp.name == "deepvalue" {
								cls += ":deep-value:" + recurringRisorMethod(stderr)
							} else if fn := firstRisorFrame(stderr); fn != "" {
								cls += ":" + fn
							}
							r.Report("C03:process-dies:"+j.sp.name+":"+cls, fmt.Sprintf("%s #%d %q\n  the process died: %s", j.sp.name, last, ev.Clip(src, 300), ev.Clip(firstLines(stderr, 4), 400)), replayIn{j.sp.name, last, clipSrc(src)}, ev.Clip(stderr, 600), "the child survives")
						}
					}
					from = last + 1
				}
				r.Outcome(fmt.Sprintf("%s|%d", j.sp.name, j.from))
			}
		}()
	}
	wg.Wait()
	if only := os.Getenv("VERIF_C03_SPACE"); r.Thorough() && (only == "" || only == "shared") {
		sharedSupplement(r)
	}
	r.Set("worker_deaths", deaths)
	if len(skipped) > 0 {
		sort.Strings(skipped)
		r.Set("skipped_inputs", skipped)
	}
	r.Set("rule", "soup: every sequence of <= 3 (thorough 4) tokens over a 68-token alphabet; edits: every single-token deletion and duplication, and the insertion of a line break (thorough: also of ; , : ( ) { }) at every token gap, of every program of the function/container/error/closure families (every 6th program in quick); edits2: every ordered pair of single-token edits (delete, insert or replace by one of 7 - thorough 15 - separator and bracket tokens) of 42 one-statement seeds, one per syntactic form, each with a parenthesised operand; hostile: every default-global callable (exec, network modules and exit excluded) x hostile argument tuples (arity 0-2; thorough all pairs), every method name x hostile receiver x hostile argument, operators/interpolation/indexing on all pairs of 22 hostile values; volume: every default-global callable and every method of six receiver kinds called 300 times in one process with 300 distinct strings / integers in each argument position; nesting: 25 constructs nested or chained 10..10^3 deep (prefix and bracket forms through the parser's recursion, operator / attribute / index / call / pipe chains through its loop), 24 of them also 10^6 deep (chains 4 x 10^6), complete and truncated (thorough: all at 10..10^6), and 63 constructs repeated 10..10^6 times one after the other (else-if chains, comments, line breaks, separators, elements, parameters, cases, template segments, targets, prefixes, suffixes, digits); deepvalue: lists, maps and both alternating nested 3 x 10^6 deep by a loop, handed to 24 consumers that walk a value (string conversion, printing, interpolation, error formatting, ==, <, in, index, count, sorted, JSON, copy, hash), alone and against a second such value; stacklimit: 25 small constructs executed at every recursion depth from 985 to 1035 with one operand pending per level, through Eval and risor.Call; slots: 25 templates (unbounded recursion through every call path, a function literal with a compile error inside every kind of block, for, if, switch, func, call, index/slice, assignment, import/from, go/defer, map, list, operators, jumps in and out of context, string escapes/interpolations, channel operations, attributes, pipes, range and for-in headers, try, comments, number literals, ++/--) x every combination of 2-15 fillers per slot, each alone and after a prelude that defines the names; shared (thorough): map/set/list x every ordered pair of 5-10 operations x go/spawn x {unordered, thread.wait() first, channel hand-off first}, each scenario free-running in its own child built with -race - a report through the Go runtime map routines on an unordered scenario is the access pattern behind the fatal error concurrent map writes, ordered scenarios must be silent. Every input runs parse, String, compile, Eval (15 ms deadline, virtual OS), risor.Call of up to four of its global names, and the error formatters in a worker child; distinct = worker batches completed")
}

var frameRe = regexp.MustCompile(`github.com/risor-io/risor/([a-zA-Z0-9_/]+)\.(\(\*?[A-Za-z0-9_]+\)\.)?([A-Za-z0-9_]+)`)

// firstRisorFrame names the first risor function in a fatal error's stack dump.
func firstRisorFrame(stderr string) string {
	m := frameRe.FindStringSubmatch(stderr)
	if m == nil {
		return ""
	}
	return m[1] + "." + strings.Trim(m[2], "()*.") + "." + m[3]
}

// firstRisorMethod is the bare name of the first risor function in the stack dump.
func firstRisorMethod(stderr string) string {
	m := frameRe.FindStringSubmatch(stderr)
	if m == nil {
		return "unknown"
	}
	return m[3]
}

// recurringRisorMethod names the method of risor's object package that occurs most often in the (clipped) stack dump
// of a stack overflow: the one that recurses. Which function happens to be on top when the limit is hit varies; when
// the dump shows no risor frame at all the recursion is inside a Go library that was handed the value (fmt).
func recurringRisorMethod(stderr string) string {
	count := map[string]int{}
	for _, m := range frameRe.FindAllStringSubmatch(stderr, -1) {
		if strings.HasPrefix(m[1], "object") && m[2] != "" {
			count[m[3]]++
		}
	}
	best, n := "go-library", 0
	for k, v := range count {
		if v > n || (v == n && k < best) {
			best, n = k, v
		}
	}
	return best
}

func clipSrc(s string) string {
	if len(s) > 4000 {
		return s[:2000] + "...[" + strconv.Itoa(len(s)) + " bytes]..." + s[len(s)-1000:]
	}
	return s
}

func bigData(src string) bool {
	return strings.Contains(src, "h_max") || strings.Contains(src, "h_min") || strings.Contains(src, "h_64k") || strings.Contains(src, "h_long") || strings.Contains(src, "h_deep") || len(src) > 100000
}

func firstLines(s string, n int) string {
	ls := strings.Split(s, "\n")
	if len(ls) > n {
		ls = ls[:n]
	}
	return strings.Join(ls, " | ")
}

// runWorker runs one child over [from,to) and reports how far it got.
func runWorker(self, tier, name string, from, to int) (last int, done bool, stderr string, fs []finding, hung bool) {
	last = from - 1
	limit := 4000000
	if name == "nesting" || name == "deepvalue" {
		limit = 14000000
	}
	cmd := exec.Command("/bin/sh", "-c", fmt.Sprintf("ulimit -v %d; exec %s c03-worker %s %s %d %d", limit, self, tier, name, from, to))
	cmd.Env = append(os.Environ(), "GOMAXPROCS=2")
	pipe, _ := cmd.StdoutPipe()
	var errb strings.Builder
	cmd.Stderr = &limitedWriter{w: &errb, n: 8192}
	if err := cmd.Start(); err != nil {
		return last, false, err.Error(), nil, false
	}
	progress := make(chan struct{}, 1)
	finished := make(chan struct{})
	go func() {
		sc := bufio.NewScanner(pipe)
		sc.Buffer(make([]byte, 1<<20), 1<<22)
		for sc.Scan() {
			l := sc.Text()
			switch {
			case strings.HasPrefix(l, "I "):
				last, _ = strconv.Atoi(l[2:])
				select {
				case progress <- struct{}{}:
				default:
				}
			case strings.HasPrefix(l, "F "):
				var f finding
				if json.Unmarshal([]byte(l[2:]), &f) == nil {
					fs = append(fs, f)
				}
			case l == "DONE":
				done = true
			}
		}
		close(finished)
	}()
	window := 60 * time.Second
	if name == "nesting" || name == "deepvalue" {
		window = 300 * time.Second
	}
	timer := time.NewTimer(window)
	for {
		select {
		case <-progress:
			if !timer.Stop() {
				select {
				case <-timer.C:
				default:
				}
			}
			timer.Reset(window)
		case <-finished:
			cmd.Wait()
			return last, done, errb.String(), fs, false
		case <-timer.C:
			cmd.Process.Kill()
			<-finished
			cmd.Wait()
			return last, false, errb.String(), fs, true
		}
	}
}

type limitedWriter struct {
	w *strings.Builder
	n int
}

func (l *limitedWriter) Write(p []byte) (int, error) {
	if l.n > 0 {
		k := len(p)
		if k > l.n {
			k = l.n
		}
		l.w.Write(p[:k])
		l.n -= k
	}
	return len(p), nil
}

// One runs a single source file (replay).
func One(args []string) {
	b, err := os.ReadFile(args[0])
	if err != nil {
		fmt.Println(err)
		os.Exit(2)
	}
	debug.SetMaxStack(256 << 20)
	stage, pan := one(string(b))
	if pan != "" {
		fmt.Printf("PANIC in %s: %s\n", stage, pan)
		os.Exit(1)
	}
	fmt.Println("survived")
}

func init() {
	if os.Getenv("VERIF_C03_SLOW") != "" {
		slowLog = true
	}
}

var slowLog bool
