package c03

import (
	"sort"
	"strings"
)

// edits2: every ordered PAIR of single-token edits of short seed programs. One edit of a well-formed
// program leaves the parser one step from a state it was written for; the states nobody wrote code for
// need two (an operand replaced by a line break AND a stray closing bracket: `[1, (\n))]`). Seeds are one
// statement each, one per syntactic form, written with a parenthesised operand so that the pair
// "bracket + separator" is in reach everywhere. Edits: delete a token, insert one of the edit tokens
// before a token (or at the end), replace a token by one of the edit tokens.

var edits2Seeds = []string{
	`[ 1 , ( 2 ) ]`,
	`f ( 1 , ( 2 ) )`,
	`x := ( 1 + 2 ) * 3`,
	`m := { "a" : ( 1 ) , "b" : 2 }`,
	`s := { 1 , ( 2 ) }`,
	`x [ ( 0 ) ]`,
	`x [ 0 : ( 1 ) ]`,
	`x [ ( 0 ) : ]`,
	`if ( a ) { b } else { c }`,
	`for i := range ( 3 ) { i }`,
	`for i := 0 ; i < ( 3 ) ; i ++ { i }`,
	`for _ , v := range ( l ) { v }`,
	`switch ( x ) { case 1 , ( 2 ) : y
 default : z }`,
	`func ( a , b = ( 1 ) ) { return ( a ) } ( 1 )`,
	`func g ( a ) { defer f ( ( a ) ) }`,
	`a ? ( b ) : c`,
	`"a" | ( f ) | g ( 1 )`,
	`x . y ( ( 1 ) ) . z`,
	`try ( func ( ) { ( 1 ) } , func ( e ) { e } )`,
	`go f ( ( 1 ) )`,
	`x = ( 1 )`,
	`x += ( 1 )`,
	`a , b := ( f ( ) )`,
	`a , b = [ ( 1 ) , 2 ]`,
	`! ( a ) && - ( 1 ) < 2`,
	`ch <- ( 1 )`,
	`v := <- ( ch )`,
	`a in ( b )`,
	`a not in ( b )`,
	`const c = ( 1 )`,
	`import a as b`,
	`from a import ( b , c as d )`,
	`from a . b import c`,
	`x := 'a{ ( 1 ) }b'`,
	`x := if ( a ) { 1 } else { 2 }`,
	`x := switch ( a ) { case 1 : 2 }`,
	`for { break }`,
	`func ( ) { for { continue } }`,
	`x ++`,
	`[ 1 , 2 ] [ 0 ] . f`,
	`f ( ) ( ) [ 0 ]`,
	`x := func ( a ) { return func ( ) { return a } }`,
}

func edits2Tokens(thorough bool) []string {
	if thorough {
		return []string{"\n", "(", ")", ",", ";", ":", "[", "]", "{", "}", ".", "|", "=", ":=", "x"}
	}
	return []string{"\n", "(", ")", ",", ";", "]", "}"}
}

func joinToks(t []string) string {
	var sb strings.Builder
	for i, s := range t {
		if i > 0 && s != "\n" && t[i-1] != "\n" {
			sb.WriteByte(' ')
		}
		sb.WriteString(s)
	}
	return sb.String()
}

func singleEdits(t []string, ins []string) [][]string {
	var out [][]string
	for i := range t {
		out = append(out, append(append([]string{}, t[:i]...), t[i+1:]...))
		for _, x := range ins {
			if x != t[i] {
				cp := append([]string{}, t...)
				cp[i] = x
				out = append(out, cp)
			}
		}
	}
	for i := 0; i <= len(t); i++ {
		for _, x := range ins {
			out = append(out, append(append(append([]string{}, t[:i]...), x), t[i:]...))
		}
	}
	return out
}

func edits2Space(thorough bool) space {
	ins := edits2Tokens(thorough)
	seen := map[string]struct{}{}
	for _, seed := range edits2Seeds {
		toks := strings.Split(strings.ReplaceAll(seed, "\n", " \n "), " ")
		var t []string
		for _, x := range toks {
			if x != "" {
				t = append(t, x)
			}
		}
		for _, e1 := range singleEdits(t, ins) {
			seen[joinToks(e1)] = struct{}{}
			for _, e2 := range singleEdits(e1, ins) {
				seen[joinToks(e2)] = struct{}{}
			}
		}
	}
	srcs := make([]string, 0, len(seen))
	for s := range seen {
		srcs = append(srcs, s)
	}
	sort.Strings(srcs)
	return space{"edits2", len(srcs), func(i int) string { return srcs[i] }}
}
