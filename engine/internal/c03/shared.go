package c03

import (
	"fmt"
	"os"
	"os/exec"
	"sort"
	"strings"
	"sync"

	"verif/internal/ev"
)

// The shared space (thorough): scripts whose goroutines share one container. The statement names
// "concurrent map write" among the faults that must never terminate the process. Whether two
// accesses can overlap does not depend on the schedule that happens to run, so the deciding run
// is the free-running one under Go's race detector, which reports every pair of accesses that no
// happens-before edge orders: every scenario = container kind x (operation of the spawned
// function, operation of the spawner) x spawn form x ordering (none / thread.wait() first /
// channel hand-off first). A report whose stacks go through the Go runtime's map routines is an
// access pattern the runtime answers with "fatal error: concurrent map writes" (or "read and
// write") when the accesses do overlap. Ordered scenarios must be silent (they also show that
// the detector sees risor's own synchronisation).

type SharedScenario struct {
	Name      string `json:"name"`
	Container string `json:"container"`
	Ordering  string `json:"ordering"`
	Src       string `json:"source"`
	Write     bool   `json:"has_write"`
}

type sharedOp struct {
	name, code string
	write      bool
}

var sharedOps = map[string][]sharedOp{
	"map": {
		{"set-item", `c["a"] = 1`, true}, {"set-other-item", `c["b"] = 2`, true}, {"get-item", `c["k"]`, false},
		{"iterate", `for k in c { k }`, false}, {"keys", `keys(c)`, false}, {"delete", `delete(c, "k")`, true},
		{"update", `c.update({"z": 3})`, true}, {"in", `"k" in c`, false}, {"len", `len(c)`, false}, {"string", `string(c)`, false},
	},
	"set": {
		{"add", `c.add(1)`, true}, {"add-other", `c.add(2)`, true}, {"in", `7 in c`, false},
		{"iterate", `for k in c { k }`, false}, {"remove", `c.remove(7)`, true}, {"len", `len(c)`, false}, {"string", `string(c)`, false},
	},
	"list": {
		{"append", `c.append(1)`, true}, {"set-item", `c[0] = 2`, true}, {"get-item", `c[0]`, false},
		{"iterate", `for k in c { k }`, false}, {"len", `len(c)`, false},
	},
}

var sharedInit = map[string]string{"map": `c := {"k": 0}`, "set": `c := {7}`, "list": `c := [7]`}

// SharedScenarios enumerates the space.
func SharedScenarios() []SharedScenario {
	var out []SharedScenario
	for _, cont := range []string{"map", "set", "list"} {
		ops := sharedOps[cont]
		for _, a := range ops {
			for _, b := range ops {
				for _, form := range []string{"go", "spawn"} {
					for _, ord := range []string{"none", "wait", "channel"} {
						if form == "go" && ord == "wait" {
							continue // a go statement yields no thread to wait for
						}
						var sb strings.Builder
						sb.WriteString(sharedInit[cont] + "\n")
						sb.WriteString("done := chan(1)\n")
						body := "func() { " + a.code + "; done <- 1 }"
						if form == "go" {
							sb.WriteString("go " + body + "()\nt := nil\n")
						} else {
							sb.WriteString("t := spawn(" + body + ")\n")
						}
						switch ord {
						case "wait":
							sb.WriteString("t.wait()\n")
						case "channel":
							sb.WriteString("<-done\n")
						}
						sb.WriteString(b.code + "\n")
						if ord != "channel" {
							sb.WriteString("<-done\n")
						}
						if form == "spawn" && ord != "wait" {
							sb.WriteString("t.wait()\n")
						}
						sb.WriteString("len(c)\n")
						out = append(out, SharedScenario{
							Name:      fmt.Sprintf("%s:%s/%s:%s:%s", cont, a.name, b.name, form, ord),
							Container: cont, Ordering: ord, Src: sb.String(), Write: a.write || b.write,
						})
					}
				}
			}
		}
	}
	return out
}

// sharedSupplement builds cmd/c03race with -race and runs every scenario in its own child.
func sharedSupplement(r *ev.Run) {
	bin := ev.Home + "/.work/bin/c03race"
	args := []string{"build", "-race", "-tags", "verif"}
	if mf := os.Getenv("VERIF_MODFLAG"); mf != "" {
		args = append(args, mf)
		bin += "-alt"
	}
	args = append(args, "-o", bin, "./cmd/c03race")
	cmd := exec.Command("go", args...)
	cmd.Dir = ev.Home + "/engine"
	cmd.Env = append(os.Environ(), "GOFLAGS=-mod=mod", "GOPROXY=off", "GOSUMDB=off", "GOTOOLCHAIN=local", "GOWORK=off", "CGO_ENABLED=1")
	if out, err := cmd.CombinedOutput(); err != nil {
		r.EngineError("shared space: -race build failed: " + ev.Clip(string(out), 600))
		return
	}
	scs := SharedScenarios()
	r.Set("inputs_shared", len(scs))
	type res struct {
		mapRace, otherRace, died bool
		text                     string
	}
	results := make([]res, len(scs))
	var mu sync.Mutex
	ev.ParFor(len(scs), func(i int) {
		c := exec.Command(bin, fmt.Sprint(i))
		c.Env = append(os.Environ(), "GORACE=halt_on_error=0 exitcode=0")
		out, err := c.CombinedOutput()
		text := string(out)
		var rs res
		for _, rep := range strings.Split(text, "WARNING: DATA RACE")[1:] {
			if strings.Contains(rep, "runtime.map") {
				rs.mapRace = true
				if rs.text == "" {
					rs.text = "WARNING: DATA RACE" + rep
				}
			} else {
				rs.otherRace = true
			}
		}
		if err != nil || strings.Contains(text, "fatal error:") || !strings.Contains(text, "RESULT ") {
			rs.died = true
			rs.text = text
		}
		mu.Lock()
		results[i] = rs
		mu.Unlock()
		r.Eval(1)
	})
	counts := map[string]int{}
	for i, sc := range scs {
		rs := results[i]
		key := sc.Container + "|" + sc.Ordering + "|"
		in := replayIn{"shared", i, sc.Src}
		switch {
		case rs.died:
			key += "died"
			r.Report("C03:process-dies:shared:"+classify(sc.Src, rs.text)+":"+sc.Container, fmt.Sprintf("shared #%d %s\n  %s\n  the process died: %s", i, sc.Name, strings.ReplaceAll(sc.Src, "\n", "; "), ev.Clip(firstLines(rs.text, 4), 400)), in, ev.Clip(rs.text, 600), "the child survives")
		case rs.mapRace && sc.Ordering == "none":
			key += "go-map-race"
			r.Report("C03:unsynchronised-go-map:"+sc.Container, fmt.Sprintf("shared #%d %s\n  %s\n  two goroutines of one script access the Go map behind a %s without synchronisation; when such accesses overlap the Go runtime terminates the process with 'fatal error: concurrent map writes' / 'concurrent map read and map write'\n  %s", i, sc.Name, strings.ReplaceAll(sc.Src, "\n", "; "), sc.Container, ev.Clip(rs.text, 900)), in, ev.Clip(rs.text, 600), "no pair of unordered accesses to a Go map")
		case rs.mapRace:
			key += "go-map-race-although-ordered"
			r.Report("C03:go-map-race-although-ordered:"+sc.Ordering+":"+sc.Container, fmt.Sprintf("shared #%d %s\n  %s\n  the script orders the two accesses (%s) and the race detector still reports them as unordered\n  %s", i, sc.Name, strings.ReplaceAll(sc.Src, "\n", "; "), sc.Ordering, ev.Clip(rs.text, 900)), in, ev.Clip(rs.text, 600), "no report")
		case rs.otherRace:
			key += "race-not-on-a-go-map"
		default:
			key += "silent"
		}
		counts[key]++
		r.Outcome("shared|" + key)
	}
	var keys []string
	for k := range counts {
		keys = append(keys, k)
	}
	sort.Strings(keys)
	summary := map[string]int{}
	for _, k := range keys {
		summary[k] = counts[k]
	}
	r.Set("shared_scenarios_by_outcome", summary)
	r.Sample(map[string]any{"space": "shared", "size": len(scs), "example": scs[len(scs)/3]})
}
