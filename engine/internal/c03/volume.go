package c03

import "fmt"

// The volume space: one callable, many DISTINCT arguments, one process. A single call - however hostile its
// argument - never fills anything; what is keyed by an argument value (a cache of compiled patterns, parsed
// layouts, interned names) only reaches its capacity, its eviction path or its growth path after hundreds
// of different values. Every default-global callable and every method of six receiver kinds is called 300
// times in a loop with 300 different strings (and integers) in each argument position, each call under try.

func volumeSpace() space {
	var srcs []string
	loop := func(pre, call string) string {
		return pre + "for i := range 300 {\n  s := \"v\" + string(i)\n  try(func() { return " + call + " })\n}\n"
	}
	for _, f := range callables() {
		srcs = append(srcs,
			loop("", f+"(s)"), loop("", f+"(s, \"x\")"), loop("", f+"(\"x\", s)"), loop("", f+"(s, s)"),
			loop("", f+"(i)"), loop("", f+"(i, 1)"), loop("", f+"(1, i)"), loop("", f+"(\"a\" + s + \"*\", \"a\" + s)"))
	}
	recvs := []string{`"abc v1 v2"`, `[1, "v1", 2]`, `{"v1": 1, "a": 2}`, `{1, "v1"}`, `byte_slice([118, 49])`, `regexp.compile("v[0-9]+")`}
	for _, m := range methodNames() {
		for k, rv := range recvs {
			pre := fmt.Sprintf("o := %s\n", rv)
			srcs = append(srcs, loop(pre, "o."+m+"(s)"), loop(pre, "o."+m+"(i)"))
			if k == 0 || k == 5 {
				srcs = append(srcs, loop(pre, "o."+m+"(s, s)"), loop(pre, "o."+m+"(s, i)"))
			}
		}
	}
	return space{"volume", len(srcs), func(i int) string { return srcs[i] }}
}
