package c03

import "strings"

// The slots space: every statement and expression form of the grammar written as a template of
// slots, each slot ranging over a few fillers that include "absent", "doubled" and "wrong kind";
// the space is the cartesian product per template. Unlike the token soup (every sequence of <= 4
// tokens) it reaches the long forms - a three-part for loop without a condition, a switch with
// two malformed clauses, a function with a defaulted and a variadic parameter - that need 8..15
// tokens. Every input is run alone and after a prelude that defines the names it uses.

type template struct {
	name  string
	slots [][]string
}

var slotTemplates = []template{
	{"for", [][]string{{"for"},
		{"", "i := 0", "x", "i, j := range [1]", "var i = 0", "i"},
		{"", ";", ";;", "\n"},
		{"", "i < 3", "x", "i := range [1]", "range [1]", "in [1]"},
		{"", ";", ";;", "\n"},
		{"", "i++", "x = 1", "x", "func() {}", "break"},
		{"{ break }", "{}", "", "{ continue }"}}},
	{"if", [][]string{{"if"},
		{"", "z := 1;", ";", "x;"},
		{"", "true", "x", "z := 1", "(", "!"},
		{"{ 1 }", "{}", "", "{"},
		{"", "else", "else { 2 }", "else if", "else if true { 3 }", "else else", "else { 2 } else { 3 }"}}},
	{"switch", [][]string{{"switch"},
		{"", "x", "z := 1;", "x;", "1"},
		{"{", ""},
		{"", "case 1:", "case 1, 2:", "case:", "default:", "case z := 1:", "case 1"},
		{"", "1", "break", "continue", "z := 1", "fallthrough"},
		{"", "case 1:", "case 1, 2:", "case:", "default:", "case z := 1:", "case 1"},
		{"", "1", "break"},
		{"}", ""}}},
	{"func", [][]string{{"func"},
		{"", "g", "1"},
		{"(", ""},
		{"", "a", "a = 1", "a = x", "a = [1]", "a...", "1", "="},
		{",", ""},
		{"", "b", "b = 2", "a", "..."},
		{")", ""},
		{"{ return a }", "{}", "", "{ return", "{ return }", "{ return if }"},
		{"", "()", "(1)", "(1, 2, 3)"}}},
	{"call", [][]string{
		{"len", "f", "x.y", "1", "func(a) { return a }", "x.append", "y.keys"},
		{"("},
		{"", "1", "x...", "a=1", ",", "[1]..."},
		{"", ","},
		{"", "2", "...", ")"},
		{")", ""}}},
	{"index", [][]string{
		{"x", "[1,2,3]", "\"abc\"", "{\"a\":1}", "1"},
		{"["},
		{"", "0", "-1", "\"a\"", "x", ":"},
		{":", ""},
		{"", "1", "-1", ":"},
		{":", ""},
		{"", "1"},
		{"]", ""},
		{"", " = 1", " += 1", "++", ".x", "()"}}},
	{"assign", [][]string{
		{"", "var", "const"},
		{"x", "x, z", "x.y", "x[0]", "1", "x, 1", "[x, z]", "x.y, z"},
		{"=", ":=", "+=", "++", "<-", "=="},
		{"", "1", "1, 2", "[1, 2]", "x", "func() {}", "range [1]", "1,"}}},
	{"import", [][]string{
		{"import", "from"},
		{"", "math", "math.abs", "\"math\"", "\"a/b\"", "\"../a\"", "1", "a/b"},
		{"", "as", "import", "as as", "import ("},
		{"", "m", "m, n", "abs as m", "abs as m, n", "(abs, m)", "(abs", "*"},
		{"", "as q", ")", ","}}},
	{"go-defer", [][]string{
		{"go", "defer", "func() { go", "func() { defer"},
		{"", "f()", "f", "func() {}()", "func() {}", "x.append(1)", "x.append", "(f())", "{ f() }", "1", "f()()", "go f()", "defer f()", "return"},
		{"", "}", "}()"}}},
	{"map", [][]string{{"{"},
		{"", "1", "\"a\"", "x", "a:", "...x"},
		{":", ""},
		{"", "1", "{", "}"},
		{",", "", ",,"},
		{"", "2", "\"b\": 2", ":"},
		{"}", ""}}},
	{"list", [][]string{{"["},
		{"", "1", ",", "1,", "...x", "1 2", "[", "for", "1,\n"},
		{"", "2", ",", "]"},
		{"]", ""},
		{"", "[0]", ".x", "()", "[", " in x", " not in"}}},
	{"operators", [][]string{
		{"1", "x", "", "f"},
		{"?", "in", "not in", "|", "not", "&&", "?:", "<-", "**", "<<"},
		{"", "2", "x", "f"},
		{"", ":", "?", "in", "|"},
		{"", "3", "x ? 1 : 2", "f(4)"}}},
	{"jumps", [][]string{
		{"", "func() {", "for {", "switch 1 { case 1:", "if true {", "func() { for {", "for i := range 2 { func() {"},
		{"return", "return 1", "return 1, 2", "return if", "break", "continue", "break 1", "continue x", "return return", "defer", "go"},
		{"", "}", "} }", "}()", "}() }"}}},
	{"strings", [][]string{
		{"'", "\"", "`"},
		{"", "a", "{", "{x", "{x}", "{x}}", "\\", "\\q", "\\x", "\\xZZ", "\\u12", "\\u{", "\\0", "\\777", "\n"},
		{"", "{1 +}", "{'a'}", "{f(}", "{ }"},
		{"'", "\"", "`", ""}}},
	{"chan", [][]string{
		{"c := chan(1);", "c := chan();", ""},
		{"c", "x", "<-", ""},
		{"<-", "<- <-", ""},
		{"1", "c", "f()", "1 + 2", ""},
		{";", ""},
		{"<-c", "close(c)", "c <-", "", "<-c; <-c"}}},
	{"attr", [][]string{
		{"x", "y", "f", "1", "\"s\"", "math"},
		{".", "?.", ".."},
		{"a", "append", "1", "", "(", "keys"},
		{"", "(", "()", "(1)", " = 1", " += 1", ".b", ".b()", ".b = 2", "++"}}},
	{"pipe", [][]string{
		{"x", "f", "1"}, {"|"},
		{"f", "len", "f(1)", "x", "", "1"},
		{"", "|", "| f", "| len | f", "| x.append"}}},
	{"range", [][]string{
		{"for", ""},
		{"", "i :=", "i, j :=", "i, j, k :=", "i =", "var i =", "i, j ="},
		{"range"},
		{"", "x", "y", "3", "f", "\"ab\"", "nil", "range x"},
		{"{ i }", "{}", ""}}},
	{"for-in", [][]string{
		{"for"},
		{"i", "i, j", "1", ""},
		{"in", "not in"},
		{"x", "y", "3", "", "\"ab\"", "f"},
		{"{ i }", "{}", ""}}},
	{"try", [][]string{
		{"try("},
		{"", "f", "func() { error(\"e\") }", "1", "x.nope"},
		{",", ""},
		{"", "func(e) { return e }", "2", "func() {}", "func(a, b) {}"},
		{",", ""},
		{"", "3", "f"},
		{")", ""}}},
	{"comments", [][]string{
		{"", "x"},
		{"//", "#", "/*", "/* */", "/**/", "*/", "#!"},
		{"", "c", "\n", "*/", "/*"},
		{"", "1", "\n1"}}},
	{"numbers", [][]string{
		{"", "-", "+", "!"},
		{"0", "0x", "0b", "0o", "1e", "1.", ".5", "1_0", "9223372036854775808", "1e999", "0x8000000000000000", "007", "08", "1.2.3", "1..2", "0xg", "1e+"},
		{"", "e5", ".x", "x", "++", "()", "[0]"}}},
	{"compile-error-in-literal", [][]string{
		// a function literal that fails to compile, inside every kind of block: the compiler has to
		// unwind its scopes and code objects correctly from wherever the error happens
		{"", "if true {", "for i := range 2 {", "for v in [1] {", "for i := 0; i < 1; i++ {", "for {", "switch 1 { case 1:", "func() {", "try(func() {", "z := [1]; for v in z {", "if false { } else {"},
		{"func() { nope }", "g := func() { nope }", "func() { break }()", "func(a=nope) {}", "func() { const c = 1; c = 2 }", "func() { return func() { nope2 } }", "func h() { nope }", "func() { x := 1; x := 2 }", "func() { continue }"},
		{"", "}", "}()", "})", "; break }"}}},
	{"recursion", [][]string{
		// unbounded recursion through every path a call can take: each must end in an error, not in the
		// death of the process (the frame limit only sees calls whose frame is still active)
		{"func r(a) {"},
		{"r(a)", "return r(a)", "defer r(a)", "return [a].map(r)", "[a].each(r)", "return [a].filter(r)", "return try(func() { return r(a) })",
			"return try(func() { error(\"e\") }, func(e) { return r(a) })", "return sorted([2, 1], func(x, y) { return r(x) })", "return a | r",
			"return r(a) + 1", "return func() { return r(a) }()", "defer func() { r(a) }()", "for { r(a) }", "return '{r(a)}'", "return {\"k\": r(a)}",
			"return [r(a)]", "return r(r(a))", "defer r(a); defer r(a)", "return r2(a) }\nfunc r2(a) { defer r(a)", "return y.each(func(k, v) { r(a) })"},
		{"}\n"},
		{"0", "r(1)", "try(func() { r(1) })", "[1].map(r)", "x.each(r)", "func() { defer r(1) }()", "1 | r", "try(func() { r(1) }, func(e) { return r(2) })",
			"l := []\nl.append(l.each)\nl.each(l.each)", "l := []\nl.append(l.map)\nl.map(l.map)", "l := []\nl.append(l.filter)\nl.filter(l.filter)",
			"l := []\nl.append(l.each)\ncall(l.each, l.each)", "l := []\nl.append(l.map)\nl.each(l.map)"}}},
	{"incdec", [][]string{
		{"x", "x.y", "x[0]", "1", "", "z := 1; z"},
		{"++", "--"},
		{"", "++", "x", ";", "; z"}}},
	{"multiline-token", [][]string{
		// tokens that span lines (raw strings, template strings, block comments), complete and truncated, at
		// several columns and in places where the grammar takes them and where it does not: the error then
		// points at a token whose end lies on a later line and to the LEFT of its start
		{"", "x := ", "text := ", "        f(", "[1, ", "x.", "x := 1 +", "if ", "func ", "for i := range ", "{\"k\": "},
		{"`a`", "`first line\nsec`", "`first line\nsec", "`\n`", "`\n", "`aaaaaaaa\n", "`aaaaaaaa\n\nb`", "'first {x}\nsec'", "'first {x}\nsec", "'a{\n1}b'", "'a{`\n`}b'",
			"\"first line\nsec\"", "\"first line\nsec", "/* a\nb */", "/* a\nb", "`first line\r\nsec", "`\n\n\n", "`é\né"},
		{"", ")", "]", " + 1", " 1", "`", " {", "\n", "}", ".y", "(", " `b\nc`", " `b\nc"}}},
}

const slotPrelude = "x := [1, 2, 3]\ny := {\"a\": 1}\nf := func(a=0, b=0) { return a }\n"

func slotSpace() space {
	var srcs []string
	for _, t := range slotTemplates {
		idx := make([]int, len(t.slots))
		for {
			parts := make([]string, 0, len(idx))
			for s, i := range idx {
				if f := t.slots[s][i]; f != "" {
					parts = append(parts, f)
				}
			}
			sep := " "
			if t.name == "strings" {
				sep = ""
			}
			src := strings.Join(parts, sep)
			srcs = append(srcs, src, slotPrelude+src)
			k := len(idx) - 1
			for k >= 0 {
				idx[k]++
				if idx[k] < len(t.slots[k]) {
					break
				}
				idx[k] = 0
				k--
			}
			if k < 0 {
				break
			}
		}
	}
	return space{"slots", len(srcs), func(i int) string { return srcs[i] }}
}
