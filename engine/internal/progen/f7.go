package progen

import "fmt"

// F7 streams raw-source programs exercising every kind of constant the compiler
// can store (used by the serialisation and layout checks; there is no model
// outcome for them, they are compared differentially).
func F7(yield func(Program)) {
	raw := func(src string) { yield(Program{Fam: "F7const", Raw: src}) }
	escapes := []string{`\a`, `\b`, `\f`, `\n`, `\r`, `\t`, `\v`, `\\`, `\e`, `\"`, `\x41`, `\x00`, `\xff`, `é`, `€`, `\U0001F600`,
		`\000`, `\001`, `\101`, `\177`, `\200`, `\277`, `\300`, `\302\251`, `\377`, `\303`, `a\377b`, `\360\237\230\200`}
	for _, e := range escapes {
		raw(fmt.Sprintf("s := \"%s\"\n[s, len(s), s == \"%s\", s + \"x\"]", e, e))
		raw(fmt.Sprintf("func f(a=\"%s\") { return [a, len(a)] }\nf()", e))
		raw(fmt.Sprintf("m := {\"k\": \"%s\"}\n[m, m[\"k\"] == \"%s\"]", e, e))
		if e != `\"` {
			raw(fmt.Sprintf("s := 'x%sy{1 + 1}'\n[s, len(s)]", e))
		}
	}
	for _, n := range []string{"0", "1", "9223372036854775807", "0x10", "0xff", "0b101", "0o17", "017", "1.5", "0.1", "100.0", "1.0e3", "3.14159265358979", "0.000001", "123456789.123456789"} {
		raw(fmt.Sprintf("x := %s\n[x, x + 1, type(x)]", n))
		raw(fmt.Sprintf("func f(a=%s) { return a }\n[f(), f(2)]", n))
	}
	raw("[true, false, nil]")
	raw("`raw {not} a template \\n`")
	raw("x := 2\n'{x}{x + 1}{ [x] }'")
	raw("func outer(a, b=1, c=\"s\", d=true, e=1.5) {\n func mid(x) {\n  func inner(y) { return [a, b, c, d, e, x, y] }\n  return inner(x + 1)\n }\n return mid(a)\n}\n[outer(1), outer(1, 2, \"t\", false, 2.5)]")
	raw("func __main__() { return 7 }\n__main__()")
	raw("f := func named(n) { if n == 0 { return 0 }; return n + named(n - 1) }\nf(4)")
	raw("const k = 10\nfunc g() { return k * 2 }\ng()")
	raw("x := [1, 2.5, \"s\", true, nil, [1], {\"a\": 1}, {1, 2}]\nx")
	raw("import math\nmath.sqrt(16.0)")
	raw("from strings import to_upper\nto_upper(\"a\")")
	raw("c := chan(1)\nc <- 5\n<-c")
	raw("t := spawn(func(a) { return a * 2 }, 21)\nt.wait()")
	raw("for i, v := range [1, 2] { print(i, v) }\nswitch 2 { case 1, 2: print(\"a\") default: print(\"d\") }")
	raw("x := 5\nx |= 2")
}
