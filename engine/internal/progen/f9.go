package progen

import (
	"fmt"

	. "verif/internal/lang"
)

// F9 wide programs: many sibling scopes. Scope tables, constant pools and name tables are indexed
// by position; anything that treats an index as text ("1" is a prefix of "10"), packs it into a
// narrow field or sizes a table by a small default shows only past 10, 16 or 100 siblings.
func F9(yield func(Program)) {
	for _, n := range []int{11, 12, 17, 33, 101} {
		// n sibling named functions, the last ones called
		var st []*N
		for i := 0; i < n; i++ {
			st = append(st, FuncDecl(fmt.Sprintf("f%d", i), P("a"), Return(Bin("+", Id("a"), Int(int64(i))))))
		}
		st = append(st, Expr(List(callE(fmt.Sprintf("f%d", n-1), Int(1000)), callE(fmt.Sprintf("f%d", n-2), Int(2000)), callE("f1", Int(3000)), callE("f0", Int(4000)))))
		yield(Program{Fam: "F9wide", Prog: st, Meta: fmt.Sprintf("%d sibling functions", n)})
		// n sibling blocks, then a closure over a variable declared before them
		st = []*N{Var("x", Int(0))}
		for i := 0; i < n; i++ {
			st = append(st, If(Bool(true), []*N{Var("y", Int(int64(i))), Assign(Id("x"), "+=", Id("y"))}, nil))
		}
		st = append(st, Var("g", Func("", nil, Return(Bin("+", Id("x"), Int(1))))), Expr(List(callE("g"), Id("x"))))
		yield(Program{Fam: "F9wide", Prog: st, Names: []string{"x"}, Meta: fmt.Sprintf("%d sibling blocks then a closure", n)})
		// n sibling function literals inside one function, each capturing the parameter
		var lits []*N
		for i := 0; i < n; i++ {
			lits = append(lits, Func("", nil, Return(Bin("+", Id("p"), Int(int64(i))))))
		}
		yield(Program{Fam: "F9wide", Prog: []*N{
			FuncDecl("mk", P("p"), Return(List(lits...))),
			Var("fs", callE("mk", Int(100))),
			Expr(List(Call(Index(Id("fs"), Int(int64(n-1)))), Call(Index(Id("fs"), Int(10))), Call(Index(Id("fs"), Int(1))))),
		}, Meta: fmt.Sprintf("%d sibling closures in one function", n)})
		// n distinct constants and n distinct attribute names
		var elems []*N
		var kv []*N
		for i := 0; i < n; i++ {
			elems = append(elems, Str(fmt.Sprintf("s%d", i)))
			kv = append(kv, Str(fmt.Sprintf("k%d", i)), Int(int64(i*7)))
		}
		yield(Program{Fam: "F9wide", Prog: []*N{Var("m", Map(kv...)), Expr(List(Index(List(elems...), Int(int64(n-1))), Attr(Id("m"), fmt.Sprintf("k%d", n-1)), Attr(Id("m"), "k10"), Attr(Id("m"), "k1")))},
			Meta: fmt.Sprintf("%d constants and attribute names", n)})
	}
}
