package progen

import (
	"fmt"

	. "verif/internal/lang"
)

// C02Width: closures by the NUMBER of variables they capture. A maker declares n variables, creates a closure over
// all n of them (it adds one to each and returns them), then declares m more and creates a second closure over
// those - the second one made after the first, with another set of variables. Two instances of the maker; every
// closure is called, the first again after the others. n and m run over the small sizes at which an implementation
// changes representation (1, 2, 3, 7, 8, 9, 15, 16, 17 x 1, 2, 8, 9). What is remembered per closure must be that
// closure's own: the list of its captured variables is not a buffer the next closure may fill.
func C02Width(yield func(Program)) {
	fn := func(p []Param, body ...*N) *N { return Func("", p, body...) }
	for _, n := range []int{1, 2, 3, 7, 8, 9, 15, 16, 17} {
		for _, m := range []int{1, 2, 8, 9} {
			for _, route := range []string{"direct", "callback", "vmcall"} {
				var body []*N
				var vs, ws []*N
				var incs []*N
				for i := 0; i < n; i++ {
					name := fmt.Sprintf("v%d", i)
					body = append(body, Var(name, Bin("+", Id("start"), Int(int64(i)))))
					vs = append(vs, Id(name))
					incs = append(incs, Set1(name, Bin("+", Id(name), Int(1))))
				}
				body = append(body, Var("a", fn(nil, append(incs, Return(List(vs...)))...)))
				for i := 0; i < m; i++ {
					name := fmt.Sprintf("w%d", i)
					body = append(body, Var(name, Bin("*", Id("start"), Int(int64(10+i)))))
					ws = append(ws, Id(name))
				}
				body = append(body, Var("b", fn(nil, Return(List(ws...)))), Return(List(Id("a"), Id("b"))))
				st := []*N{FuncDecl("mk", P("start"), body...), Var("p", callE("mk", Int(100))), Var("q", callE("mk", Int(500)))}
				call := func(inst string, k int64) *N {
					f := Index(Id(inst), Int(k))
					if route == "callback" {
						return Index(Meth(List(Int(0)), "map", fn(P("z"), Return(Call(f)))), Int(0))
					}
					return Call(f)
				}
				var post []string
				if route == "vmcall" {
					st = append(st, Var("pa", Index(Id("p"), Int(0))), Var("qb", Index(Id("q"), Int(1))))
					post = []string{"pa", "qb", "pa"}
				}
				st = append(st, emitE(call("p", 0)), emitE(call("p", 1)), emitE(call("q", 0)), emitE(call("q", 1)), emitE(call("p", 0)), emitE(call("q", 0)))
				yield(Program{Fam: "C02width", Prog: st, Post: post, Meta: fmt.Sprintf("closure over %d variables, then one over %d others, route %s", n, m, route)})
			}
		}
	}
}
