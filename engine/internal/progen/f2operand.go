package progen

import (
	"fmt"

	. "verif/internal/lang"
)

// F2Operand: break and continue taken while the operands of an enclosing expression are pending. An
// if-expression may hold statements, so `[1, 2, if c { break }]` leaves two list elements on the
// operand stack when the loop is left; the jump has to drop them like it drops a pending switch value.
// Loop kinds x {break, continue} x the position of the if-expression (list element, call argument,
// right operand, index, map value) x whether the jump is taken on the first or a later iteration.
func F2Operand(yield func(Program)) {
	type loopK struct {
		name string
		mk   func(body ...*N) *N
	}
	loops := []loopK{
		{"range-list", func(b ...*N) *N { return ForRangeKV("_", "v", List(Int(1), Int(2), Int(3)), b...) }},
		{"range-count", func(b ...*N) *N { return ForRange("v", Int(3), b...) }},
		{"for3", func(b ...*N) *N { return For3(Var("v", Int(0)), Bin("<", Id("v"), Int(3)), Inc("v", "++"), b...) }},
		{"for-in", func(b ...*N) *N { return ForIn("v", List(Int(1), Int(2), Int(3)), b...) }},
	}
	for _, lp := range loops {
		for _, ctl := range []string{"break", "continue"} {
			for _, when := range []int64{1, 2} {
				jump := Break()
				if ctl == "continue" {
					jump = Continue()
				}
				cond := func() *N { return Bin("==", Id("v"), Int(when)) }
				ife := func() *N { return IfExpr(cond(), []*N{jump}, []*N{Expr(Id("v"))}) }
				positions := map[string]func() *N{
					"list-element":   func() *N { return List(Int(7), Int(8), ife()) },
					"call-argument":  func() *N { return callE("add", Int(7), ife()) },
					"right-operand":  func() *N { return Bin("+", Int(7), ife()) },
					"index":          func() *N { return Index(List(Int(5), Int(6), Int(7), Int(8)), ife()) },
					"map-value":      func() *N { return Map(Str("a"), Int(7), Str("b"), ife()) },
					"nested-element": func() *N { return List(Int(7), List(Int(8), ife())) },
				}
				for _, pn := range []string{"list-element", "call-argument", "right-operand", "index", "map-value", "nested-element"} {
					st := []*N{
						Var("add", Func("", P("a", "b"), Return(Bin("+", Id("a"), Id("b"))))),
						Var("seen", List()),
						lp.mk(Var("r", positions[pn]()), Expr(Meth(Id("seen"), "append", Id("r")))),
						// an enclosing loop must find its own iterator where it left it
						ForRange("k", Int(2), lp.mk(Var("r", positions[pn]()), Expr(Meth(Id("seen"), "append", Id("r"))))),
						Expr(Id("seen")),
					}
					yield(Program{Fam: "F2operand", Prog: st, Meta: fmt.Sprintf("%s %s in %s when v == %d", lp.name, ctl, pn, when)})
				}
			}
		}
	}
}
