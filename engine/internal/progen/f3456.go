package progen

import (
	"fmt"

	. "verif/internal/lang"
)

func emitN(k int64) *N        { return Expr(Call(Id("emit"), Int(k))) }
func emitE(e *N) *N           { return Expr(Call(Id("emit"), e)) }
func callE(f string, a ...*N) *N { return Call(Id(f), a...) }
func prog(fam string, names []string, st ...*N) Program {
	return Program{Fam: fam, Prog: st, Names: names}
}

// ------------------------------------------------------------------ F3 functions

// F3 streams the function family: defaults x arity, last-statement forms,
// recursion depths, forward references, named functions inside functions and loops.
func F3(yield func(Program)) {
	lits := func() []*N { return []*N{Int(7), Float(1.5), Str("s"), Bool(true), Nil()} }
	// parameters 0..3, the last k of them defaulted, called with 0..4 arguments
	for np := 0; np <= 3; np++ {
		for nd := 0; nd <= np; nd++ {
			for di := range lits() {
				if nd == 0 && di > 0 {
					continue
				}
				for na := 0; na <= 4; na++ {
					var ps []Param
					var body []*N
					for i := 0; i < np; i++ {
						p := Param{Name: fmt.Sprintf("p%d", i)}
						if i >= np-nd {
							p.Def = lits()[(di+i)%5]
						}
						ps = append(ps, p)
						body = append(body, Id(p.Name))
					}
					var args []*N
					for i := 0; i < na; i++ {
						args = append(args, Int(int64(10+i)))
					}
					yield(prog("F3def", nil, FuncDecl("f", ps, Expr(List(body...))), Expr(Call(Id("f"), args...))))
					if nd > 0 {
						// the same signature on a closure (it captures a local of its maker), called directly,
						// after the maker returned, and as a pipe stage
						cbody := []*N{Expr(List(append(CloneBlock(body), Id("k"))...))}
						mk := FuncDecl("mk", nil, Var("k", Int(99)), Var("g", Func("", ps, cbody...)), Return(List(Call(Id("g"), CloneBlock(args)...), Id("g"))))
						yield(prog("F3defclosure", nil, mk, Var("r", callE("mk")), Expr(List(Index(Id("r"), Int(0)), Call(Index(Id("r"), Int(1)), CloneBlock(args)...)))))
					}
				}
			}
		}
	}
	// last-statement forms: what a function (and a block) yields
	lasts := []func() []*N{
		func() []*N { return []*N{Expr(Int(5))} },
		func() []*N { return []*N{Var("y", Int(5))} },
		func() []*N { return []*N{Var("y", Int(5)), Set1("y", Int(6))} },
		func() []*N { return []*N{Var("y", Int(5)), Inc("y", "++")} },
		func() []*N { return []*N{Var("y", List(Int(1))), Assign(Index(Id("y"), Int(0)), "=", Int(5))} },
		func() []*N { return []*N{Const("c", Int(5))} },
		func() []*N { return []*N{MultiVar([]string{"a", "b"}, List(Int(1), Int(2)))} },
		func() []*N { return []*N{If(Bool(true), []*N{Expr(Int(3))}, nil)} },
		func() []*N { return []*N{If(Bool(false), []*N{Expr(Int(3))}, nil)} },
		func() []*N { return []*N{If(Bool(false), []*N{Expr(Int(3))}, []*N{Expr(Int(4))})} },
		func() []*N { return []*N{If(Bool(true), []*N{Var("z", Int(3))}, nil)} },
		func() []*N { return []*N{Switch(Int(1), Case{Vals: []*N{Int(1)}, Body: []*N{Expr(Int(7))}})} },
		func() []*N { return []*N{Switch(Int(2), Case{Vals: []*N{Int(1)}, Body: []*N{Expr(Int(7))}})} },
		func() []*N { return []*N{Switch(Int(2), Case{Vals: []*N{Int(1)}, Body: []*N{Expr(Int(7))}}, Case{Default: true, Body: []*N{Expr(Int(8))}})} },
		func() []*N { return []*N{Switch(Int(1), Case{Vals: []*N{Int(1)}})} },
		func() []*N { return []*N{ForRange("i", Int(2), Expr(Id("i")))} },
		func() []*N { return []*N{ForInf(Break())} },
		func() []*N { return []*N{Return(Int(9))} },
		func() []*N { return []*N{Return(nil)} },
		func() []*N { return []*N{Expr(Int(1)), Expr(Int(2))} },
		func() []*N { return []*N{emitN(1)} },
		func() []*N { return []*N{Expr(Str("s"))} },
		func() []*N { return []*N{Expr(Nil())} },
		func() []*N { return []*N{Expr(Tern(Bool(true), Int(1), Int(2)))} },
	}
	for i, l := range lasts {
		_ = i
		// as function body
		yield(prog("F3last", nil, FuncDecl("f", nil, l()...), Expr(List(callE("f")))))
		// as function literal called in place
		yield(prog("F3last", nil, Expr(List(Call(Func("", nil, l()...))))))
		// nested block as last statement of a function
		yield(prog("F3last", nil, FuncDecl("f", nil, If(Bool(true), l(), nil)), Expr(List(callE("f")))))
		// value of an if-expression / switch-expression whose block ends this way
		if l()[len(l())-1].K != SReturn {
			yield(prog("F3last", []string{"v"}, Var("v", IfExpr(Bool(true), l(), []*N{Expr(Int(0))})), Expr(List(Id("v")))))
			// at top level: the program's value
			yield(prog("F3last", nil, l()...))
		}
	}
	// recursion depth 0..5, three shapes
	for d := int64(0); d <= 5; d++ {
		yield(prog("F3rec", nil,
			FuncDecl("f", P("n"), If(Bin("==", Id("n"), Int(0)), []*N{Return(Int(0))}, nil), Return(Bin("+", Id("n"), callE("f", Bin("-", Id("n"), Int(1)))))),
			Expr(callE("f", Int(d)))))
		yield(prog("F3rec", nil,
			FuncDecl("fib", P("n"), If(Bin("<", Id("n"), Int(2)), []*N{Return(Id("n"))}, nil), Expr(Bin("+", callE("fib", Bin("-", Id("n"), Int(1))), callE("fib", Bin("-", Id("n"), Int(2)))))),
			Expr(callE("fib", Int(d+3)))))
		// mutual recursion with a forward reference between top-level functions
		yield(prog("F3rec", nil,
			FuncDecl("even", P("n"), If(Bin("==", Id("n"), Int(0)), []*N{Return(Bool(true))}, nil), Return(callE("odd", Bin("-", Id("n"), Int(1))))),
			FuncDecl("odd", P("n"), If(Bin("==", Id("n"), Int(0)), []*N{Return(Bool(false))}, nil), Return(callE("even", Bin("-", Id("n"), Int(1))))),
			Expr(List(callE("even", Int(d)), callE("odd", Int(d))))))
		// recursion through a named function literal
		yield(prog("F3rec", nil,
			Var("g", Func("h", P("n"), Expr(Tern(Bin("==", Id("n"), Int(0)), Int(1), Bin("*", Id("n"), callE("h", Bin("-", Id("n"), Int(1)))))))),
			Expr(callE("g", Int(d)))))
	}
	// named functions declared inside functions, blocks and loops (each is a statement: must be stack-neutral)
	inner := func() *N { return FuncDecl("g", P("a"), Expr(Bin("*", Id("a"), Int(2)))) }
	yield(prog("F3named", nil, FuncDecl("outer", nil, inner(), Return(callE("g", Int(4)))), Expr(callE("outer"))))
	yield(prog("F3named", nil, FuncDecl("outer", nil, inner(), inner2(), Return(Bin("+", callE("g", Int(4)), callE("h", Int(1))))), Expr(callE("outer"))))
	for _, mk := range []func(body ...*N) *N{
		func(b ...*N) *N { return ForRange("i", Int(3), b...) },
		func(b ...*N) *N { return For3(Var("i", Int(0)), Bin("<", Id("i"), Int(3)), Inc("i", "++"), b...) },
		func(b ...*N) *N { return ForIn("i", List(Int(0), Int(1), Int(2)), b...) },
		func(b ...*N) *N { return ForRangeKV("k", "i", List(Int(0), Int(1), Int(2)), b...) },
		func(b ...*N) *N {
			return If(Bool(true), append([]*N{Var("i", Int(1))}, b...), nil)
		},
		func(b ...*N) *N {
			return Switch(Int(1), Case{Vals: []*N{Int(1)}, Body: append([]*N{Var("i", Int(1))}, b...)})
		},
	} {
		yield(prog("F3named", nil, mk(inner(), emitE(callE("g", Id("i")))), emitN(99)))
		yield(prog("F3named", nil, FuncDecl("outer", nil, mk(inner(), emitE(callE("g", Id("i")))), Return(Int(5))), Expr(callE("outer"))))
		yield(prog("F3named", nil, mk(inner(), inner2(), emitE(Bin("+", callE("g", Id("i")), callE("h", Id("i")))))))
	}
	// a named function as a non-final top-level statement followed by many statements
	yield(prog("F3named", nil, inner(), inner2(), emitE(callE("g", Int(1))), emitE(callE("h", Int(1))), Expr(Int(3))))
	// function values: passed, returned, stored
	yield(prog("F3val", nil, FuncDecl("ap", P("f", "x"), Expr(callE("f", Id("x")))), Expr(callE("ap", Func("", P("v"), Expr(Bin("+", Id("v"), Int(1)))), Int(4)))))
	yield(prog("F3val", nil, FuncDecl("mk", nil, Return(Func("", P("v"), Expr(Bin("*", Id("v"), Int(3)))))), Expr(Call(callE("mk"), Int(5)))))
	yield(prog("F3val", nil, Var("fs", List(Func("", nil, Expr(Int(1))), Func("", nil, Expr(Int(2))))), Expr(Bin("+", Call(Index(Id("fs"), Int(0))), Call(Index(Id("fs"), Int(1)))))))
	yield(prog("F3val", nil, Var("m", Map(Str("f"), Func("", P("a", "b"), Expr(Bin("+", Bin("*", Id("a"), Int(10)), Id("b")))))), Expr(Meth(Id("m"), "f", Int(1), Int(2)))))
}

func inner2() *N { return FuncDecl("h", P("a"), Expr(Bin("+", Id("a"), Int(100)))) }

// ------------------------------------------------------------------ F4 scoping

// F4 streams every placement of up to maxOps operations on the name x over an
// 11-slot skeleton of nested blocks and functions.
func F4(maxOps int, yield func(Program)) {
	ops := []func(k int64) *N{
		func(k int64) *N { return Var("x", Int(k)) },
		func(k int64) *N { return Set1("x", Int(k)) },
		func(k int64) *N { return emitE(Id("x")) },
		func(k int64) *N { return Inc("x", "++") },
		func(k int64) *N { return Const("x", Int(k)) },
		func(k int64) *N { return Assign(Id("x"), "+=", Int(k)) },
	}
	const slots = 11
	build := func(fill map[int]*N) Program {
		s := func(i int) []*N {
			if n, ok := fill[i]; ok {
				return []*N{n}
			}
			return nil
		}
		cat := func(parts ...[]*N) []*N {
			var out []*N
			for _, p := range parts {
				out = append(out, p...)
			}
			return out
		}
		inner := If(Bool(true), cat(s(2), []*N{emitN(102)}), nil)
		b1 := If(Bool(true), cat(s(1), []*N{inner}, s(3)), nil)
		g := FuncDecl("g", nil, cat(s(8), []*N{emitN(108)})...)
		f := FuncDecl("f", nil, cat(s(5), []*N{If(Bool(true), cat(s(6), []*N{emitN(106)}), nil)}, s(7), []*N{g, Expr(callE("g"))}, s(9), []*N{Return(Int(1))})...)
		st := cat(s(0), []*N{b1}, s(4), []*N{f, Expr(callE("f"))}, s(10), []*N{emitN(110)})
		return Program{Fam: "F4", Prog: st}
	}
	var rec func(start, left int, fill map[int]*N)
	rec = func(start, left int, fill map[int]*N) {
		if len(fill) > 0 {
			cp := map[int]*N{}
			for k, v := range fill {
				cp[k] = Clone(v)
			}
			yield(build(cp))
		}
		if left == 0 {
			return
		}
		for i := start; i < slots; i++ {
			for oi, op := range ops {
				fill[i] = op(int64(10*i + oi))
				rec(i+1, left-1, fill)
				delete(fill, i)
			}
		}
	}
	rec(0, maxOps, map[int]*N{})
}

// F4c streams the closure variant of F4: the name x is a local of the enclosing function f and
// every placement of up to maxOps operations on x goes into the inner function g, whose body has
// two consecutive top-level slots, two levels of nested blocks, a loop body and a trailing slot.
// A capture of f's x, a later shadowing declaration in g and uses from deeper blocks all meet
// here; f prints its own x after calling g, so a write through the wrong binding shows.
func F4c(maxOps int, yield func(Program)) {
	ops := []func(k int64) *N{
		func(k int64) *N { return Var("x", Int(k)) },
		func(k int64) *N { return Set1("x", Int(k)) },
		func(k int64) *N { return emitE(Id("x")) },
		func(k int64) *N { return Inc("x", "++") },
		func(k int64) *N { return Assign(Id("x"), "+=", Int(k)) },
		func(k int64) *N { return Var("y", Id("x")) },
		// the enclosing function has a second local z: multi-target assignments to both captured
		// variables, in either order (which of them the closure mentions first decides their cell order)
		func(k int64) *N { return MultiSet([]string{"x", "z"}, List(Id("z"), Id("x"))) },
		func(k int64) *N { return MultiSet([]string{"z", "x"}, List(Int(k), Id("z"))) },
		func(k int64) *N { return emitE(Id("z")) },
	}
	const slots = 7
	build := func(fill map[int]*N) Program {
		s := func(i int) []*N {
			if n, ok := fill[i]; ok {
				return []*N{n}
			}
			return nil
		}
		cat := func(parts ...[]*N) []*N {
			var out []*N
			for _, p := range parts {
				out = append(out, p...)
			}
			return out
		}
		deep := If(Bool(true), cat(s(3), []*N{emitN(103)}), nil)
		blk := If(Bool(true), cat(s(2), []*N{deep}, s(4)), nil)
		loop := ForRange("i", Int(2), cat(s(5), []*N{emitN(105)})...)
		g := FuncDecl("g", nil, cat(s(0), s(1), []*N{blk, loop}, s(6), []*N{emitN(106)})...)
		f := FuncDecl("f", nil, Var("x", Int(1)), Var("z", Int(5)), g, Expr(callE("g")), emitE(List(Id("x"), Id("z"))), Expr(callE("g")), emitE(List(Id("x"), Id("z"))), Return(Id("x")))
		return Program{Fam: "F4c", Prog: []*N{f, Expr(callE("f"))}}
	}
	var rec func(start, left int, fill map[int]*N)
	rec = func(start, left int, fill map[int]*N) {
		if len(fill) > 0 {
			cp := map[int]*N{}
			for k, v := range fill {
				cp[k] = Clone(v)
			}
			yield(build(cp))
		}
		if left == 0 {
			return
		}
		for i := start; i < slots; i++ {
			for oi, op := range ops {
				fill[i] = op(int64(10*i + oi))
				rec(i+1, left-1, fill)
				delete(fill, i)
			}
		}
	}
	rec(0, maxOps, map[int]*N{})
}

// ------------------------------------------------------------------ F5 containers and strings

func F5(yield func(Program)) {
	// index and slice: every index in [-len-2, len+2] for lengths 0..3
	lists := []*N{List(), List(Int(10)), List(Int(10), Int(20)), List(Int(10), Int(20), Int(30))}
	strs := []*N{Str(""), Str("a"), Str("aé"), Str("aé€")}
	for li := 0; li < 4; li++ {
		for _, cont := range []*N{lists[li], strs[li]} {
			n := int64(li)
			for i := -n - 2; i <= n+2; i++ {
				yield(prog("F5index", nil, Var("c", Clone(cont)), Expr(Index(Id("c"), Int(i)))))
				yield(prog("F5slice", nil, Var("c", Clone(cont)), Expr(Slice(Id("c"), Int(i), nil))))
				yield(prog("F5slice", nil, Var("c", Clone(cont)), Expr(Slice(Id("c"), nil, Int(i)))))
				for j := -n - 2; j <= n+2; j++ {
					yield(prog("F5slice", nil, Var("c", Clone(cont)), Expr(Slice(Id("c"), Int(i), Int(j)))))
				}
				if cont.K == EList {
					yield(prog("F5setitem", []string{"c"}, Var("c", Clone(cont)), Assign(Index(Id("c"), Int(i)), "=", Int(99)), Expr(Id("c"))))
					yield(prog("F5setitem", []string{"c"}, Var("c", Clone(cont)), Assign(Index(Id("c"), Int(i)), "+=", Int(1)), Expr(Id("c"))))
				}
			}
		}
	}
	// literals: evaluation order and duplicate keys with side-effecting values
	e := func(k int64) *N { return callE("ev", Int(k)) }
	evDecl := func() *N { return FuncDecl("ev", P("k"), emitE(Id("k")), Return(Bin("*", Id("k"), Int(10)))) }
	keys := []string{"a", "b"}
	for _, k1 := range keys {
		for _, k2 := range keys {
			yield(prog("F5maplit", []string{"m"}, evDecl(), Var("m", Map(Str(k1), e(1), Str(k2), e(2))), Expr(Id("m"))))
			for _, k3 := range keys {
				yield(prog("F5maplit", []string{"m"}, evDecl(), Var("m", Map(Str(k1), e(1), Str(k2), e(2), Str(k3), e(3))), Expr(Id("m"))))
				yield(prog("F5maplit", []string{"m"}, evDecl(), Var("m", Map(Id(k1), e(1), Str(k2), e(2), Id(k3), e(3))), Expr(callE("keys", Id("m")))))
			}
		}
	}
	yield(prog("F5lit", nil, evDecl(), Expr(List(e(1), e(2), e(3)))))
	yield(prog("F5lit", nil, evDecl(), Expr(List(List(e(1)), Map(Str("k"), e(2)), e(3)))))
	yield(prog("F5lit", nil, evDecl(), Expr(callE("ev", Bin("+", e(1), e(2))))))
	yield(prog("F5lit", nil, evDecl(), Expr(Bin("+", Bin("*", e(1), e(2)), e(3)))))
	yield(prog("F5lit", nil, evDecl(), Expr(Index(List(e(1), e(2)), Bin("-", e(1), Int(10))))))
	yield(prog("F5lit", nil, Expr(Map())))
	yield(prog("F5lit", nil, Expr(List())))
	yield(prog("F5lit", nil, Var("s", Set(Int(1), Int(2), Int(2), Int(1))), Expr(callE("len", Id("s")))))
	// compound assignment evaluates its target once
	for _, op := range []string{"=", "+=", "-=", "*=", "/="} {
		idx := func() *N { return Call(Func("", nil, Inc("i", "++"), Return(Int(0)))) }
		yield(prog("F5compound", []string{"x", "i"}, Var("x", List(Int(10), Int(20))), Var("i", Int(0)), Assign(Index(Id("x"), idx()), op, Int(5)), Expr(List(Id("x"), Id("i")))))
		// nested targets: every sub-expression of the target is evaluated exactly once
		grid := func() *N { return Var("g", List(List(Int(10), Int(20)), List(Int(30), Int(40)))) }
		gm := func() *N { return Var("g", List(Map(Str("k"), Int(10)), Map(Str("k"), Int(30)))) }
		mg := func() *N { return Var("g", Map(Str("a"), List(Int(10), Int(20)))) }
		yield(prog("F5compound", []string{"g", "i"}, grid(), Var("i", Int(0)), Assign(Index(Index(Id("g"), idx()), Int(1)), op, Int(5)), Expr(List(Id("g"), Id("i")))))
		yield(prog("F5compound", []string{"g", "i"}, grid(), Var("i", Int(0)), Assign(Index(Index(Id("g"), Int(1)), idx()), op, Int(5)), Expr(List(Id("g"), Id("i")))))
		yield(prog("F5compound", []string{"g", "i"}, grid(), Var("i", Int(0)), Assign(Index(Index(Id("g"), idx()), idx()), op, Int(5)), Expr(List(Id("g"), Id("i")))))
		yield(prog("F5compound", []string{"g", "i"}, gm(), Var("i", Int(0)), Assign(Attr(Index(Id("g"), idx()), "k"), op, Int(5)), Expr(List(Id("g"), Id("i")))))
		yield(prog("F5compound", []string{"g", "i"}, mg(), Var("i", Int(0)), Assign(Index(Attr(Id("g"), "a"), idx()), op, Int(5)), Expr(List(Id("g"), Id("i")))))
		yield(prog("F5compound", []string{"g", "i"}, grid(), Var("i", Int(0)), FuncDecl("row", nil, Inc("i", "++"), Return(Index(Id("g"), Int(1)))), Assign(Index(callE("row"), Int(0)), op, Int(5)), Expr(List(Id("g"), Id("i")))))
		yield(prog("F5compound", []string{"g", "i"}, grid(), Var("i", Int(0)), Assign(Index(Index(Id("g"), Int(0)), Int(1)), op, idx()), Expr(List(Id("g"), Id("i")))))
		yield(prog("F5compound", []string{"m"}, Var("m", Map(Str("a"), Int(6))), Assign(Attr(Id("m"), "a"), op, Int(2)), Expr(Id("m"))))
		yield(prog("F5compound", []string{"m"}, Var("m", Map(Str("a"), Int(6))), Assign(Index(Id("m"), Str("a")), op, Int(2)), Expr(Id("m"))))
		yield(prog("F5compound", []string{"v"}, Var("v", Int(6)), Assign(Id("v"), op, Int(2)), Expr(Id("v"))))
		yield(prog("F5compound", []string{"v"}, Var("v", Float(6.5)), Assign(Id("v"), op, Int(2)), Expr(Id("v"))))
		if op == "=" || op == "+=" {
			yield(prog("F5compound", []string{"v"}, Var("v", Str("s")), Assign(Id("v"), op, Str("t")), Expr(Id("v"))))
			yield(prog("F5compound", []string{"v"}, Var("v", List(Int(1))), Assign(Id("v"), op, List(Int(2))), Expr(Id("v"))))
		}
	}
	// interpolation with nested expressions of every printable type
	vals := []*N{Int(3), Float(1.5), Str("s"), Bool(true), Nil(), List(Int(1), Str("x")), Id("mm"), Bin("+", Int(1), Int(2)), callE("len", Str("hé")), Index(List(Int(7)), Int(0)), Tern(Bool(false), Int(1), Int(2)), Id("y")}
	for _, v := range vals {
		yield(prog("F5interp", nil, Var("y", Int(42)), Var("mm", Map(Str("k"), Int(1))), Expr(Interp(Str("a"), Clone(v), Str("b")))))
		for _, w := range vals {
			yield(prog("F5interp", nil, Var("y", Int(42)), Var("mm", Map(Str("k"), Int(1))), Expr(Interp(Clone(v), Str("-"), Clone(w)))))
		}
	}
	yield(prog("F5interp", nil, Expr(Interp(Str("plain")))))
	yield(prog("F5interp", nil, Expr(Interp())))
	// pipes
	inc := func() *N { return Func("", P("a"), Expr(Bin("+", Id("a"), Int(1)))) }
	add := func() *N { return Func("", P("a", "b"), Expr(Bin("+", Bin("*", Id("a"), Int(10)), Id("b")))) }
	yield(prog("F5pipe", nil, Var("inc", inc()), Expr(Pipe(Int(1), Id("inc")))))
	yield(prog("F5pipe", nil, Var("inc", inc()), Expr(Pipe(Int(1), Id("inc"), Id("inc"), Id("inc")))))
	yield(prog("F5pipe", nil, Var("add", add()), Expr(Pipe(Int(1), Call(Id("add"), Int(2))))))
	yield(prog("F5pipe", nil, Var("add", add()), Var("inc", inc()), Expr(Pipe(Int(1), Call(Id("add"), Int(2)), Id("inc"), Call(Id("add"), Int(3))))))
	yield(prog("F5pipe", nil, Var("m", Map(Str("f"), add())), Expr(Pipe(Int(1), Meth(Id("m"), "f", Int(2))))))
	yield(prog("F5pipe", nil, Expr(Pipe(List(Int(3), Int(1), Int(2)), Id("sorted"), Id("len")))))
	yield(prog("F5pipe", nil, Expr(Pipe(Str("hé"), Id("len"), Id("string")))))
	yield(prog("F5pipe", nil, Var("inc", inc()), Var("r", Pipe(Bin("+", Int(1), Int(2)), Id("inc"))), Expr(Id("r"))))
	yield(prog("F5pipe", nil, FuncDecl("ev", P("k"), emitE(Id("k")), Return(Func("", P("a"), Expr(Bin("+", Id("a"), Id("k")))))), Expr(Pipe(callE("n"), callE("ev", Int(1)), callE("ev", Int(2))))))
	// multi-assignment and swap
	for n := 2; n <= 3; n++ {
		for ln := 0; ln <= 4; ln++ {
			var names []string
			var items []*N
			for i := 0; i < n; i++ {
				names = append(names, fmt.Sprintf("v%d", i))
			}
			for i := 0; i < ln; i++ {
				items = append(items, Int(int64(i+1)))
			}
			yield(prog("F5multi", names, MultiVar(names, List(items...)), Expr(List(idsOf(names)...))))
			var decl []*N
			for _, nm := range names {
				decl = append(decl, Var(nm, Int(0)))
			}
			yield(prog("F5multi", names, append(decl, MultiSet(names, List(items...)), Expr(List(idsOf(names)...)))...))
		}
	}
	// unpacking from the other containers, right-sized and not, at the top level, in a loop body
	// (the statement has to be stack-neutral whether it succeeds or fails under try) and in a function
	others := []*N{Str(""), Str("x"), Str("xy"), Str("xyz"), Str("h\u00e9!z"), Map(), Map(Str("k"), Int(1)), Map(Str("b"), Int(1), Str("a"), Int(2)), Map(Str("c"), Int(1), Str("b"), Int(2), Str("a"), Int(3)), Int(2), Nil(), Float(1.5)}
	for _, o := range others {
		for n := 2; n <= 3; n++ {
			names := []string{"v0", "v1", "v2"}[:n]
			yield(prog("F5multi", names, MultiVar(names, Clone(o)), Expr(List(idsOf(names)...))))
			var decl []*N
			for _, nm := range names {
				decl = append(decl, Var(nm, Int(0)))
			}
			yield(prog("F5multi", names, append(decl, MultiSet(names, Clone(o)), Expr(List(idsOf(names)...)))...))
			body := Expr(callE("try", Func("", nil, MultiVar(names, Clone(o)), Return(List(idsOf(names)...))), Int(-1)))
			yield(prog("F5multi", nil, ForRange("i", Int(3), emitE(body.A[0]))))
			yield(prog("F5multi", nil, FuncDecl("f", P("c"), MultiVar(names, Id("c")), Return(List(idsOf(names)...))), Expr(callE("try", Func("", nil, Return(callE("f", Clone(o)))), Int(-1))), Expr(callE("try", Func("", nil, Return(callE("f", Clone(o)))), Int(-2)))))
		}
	}
	yield(prog("F5multi", []string{"a", "b"}, Var("a", Int(1)), Var("b", Int(2)), MultiSet([]string{"a", "b"}, List(Id("b"), Id("a"))), Expr(List(Id("a"), Id("b")))))
	yield(prog("F5multi", []string{"a", "b", "c"}, Var("a", Int(1)), Var("b", Int(2)), Var("c", Int(3)), MultiSet([]string{"a", "b", "c"}, List(Id("c"), Id("a"), Id("b"))), Expr(List(Id("a"), Id("b"), Id("c")))))
	// in / not in over containers
	conts := []*N{List(Int(1), Str("a"), Float(2.0)), Map(Str("a"), Int(1)), Str("abc"), List()}
	items := []*N{Int(1), Int(2), Str("a"), Str("b"), Float(1.0), Nil(), Str("bc"), Str("")}
	for _, c := range conts {
		for _, it := range items {
			yield(prog("F5in", nil, Expr(List(Bin("in", Clone(it), Clone(c)), Bin("not in", Clone(it), Clone(c))))))
		}
	}
	// iteration forms over every iterable kind
	its := []*N{Int(0), Int(3), List(), List(Int(5), Int(6)), Str(""), Str("hé"), Map(), Map(Str("b"), Int(1), Str("a"), Int(2))}
	for _, it := range its {
		iv := func() *N { return Var("it", Clone(it)) }
		yield(prog("F5iter", nil, iv(), ForRange("k", Id("it"), emitE(Id("k")))))
		yield(prog("F5iter", nil, iv(), ForRangeKV("k", "v", Id("it"), emitE(List(Id("k"), Id("v"))))))
		yield(prog("F5iter", nil, iv(), ForIn("v", Id("it"), emitE(Id("v")))))
		yield(prog("F5iter", nil, iv(), ForRangeOnly(Id("it"), emitN(1))))
		if it.K != EMap {
			yield(prog("F5iter", nil, ForRange("k", Clone(it), emitE(Id("k")))))
			yield(prog("F5iter", nil, ForIn("v", Clone(it), emitE(Id("v")))))
		}
	}
}

func idsOf(names []string) []*N {
	out := make([]*N, len(names))
	for i, n := range names {
		out[i] = Id(n)
	}
	return out
}

// ------------------------------------------------------------------ F6 errors

func F6(yield func(Program)) {
	elems := []func() *N{
		func() *N { return Func("", nil, emitN(1), Expr(callE("error", Str("e1")))) },
		func() *N { return Func("", nil, emitN(2), Expr(Index(List(Int(1)), Int(5)))) },
		func() *N { return Func("", nil, emitN(3), Expr(Int(7))) },
		func() *N { return Func("", P("e"), emitN(4), Expr(callE("string", Id("e")))) },
		func() *N { return Func("", P("e"), emitN(5), Expr(callE("error", Str("e2")))) },
		func() *N { return Func("", P("e"), emitN(6), Expr(Int(9))) },
		func() *N { return Int(5) },
		func() *N { return Func("", nil, emitN(7), Expr(Index(Map(Str("a"), Int(1)), Str("zz")))) },
		func() *N { return Func("", nil, emitN(8), Expr(Bin("+", Int(1), Str("a")))) },
		func() *N { return Func("", nil, emitN(9), Return(nil)) },
	}
	var rec func(cur []int, n int)
	rec = func(cur []int, n int) {
		if len(cur) == n {
			var args []*N
			userOnly := true
			for _, i := range cur {
				args = append(args, elems[i]())
			}
			_ = userOnly
			yield(prog("F6try", nil, Var("r", Call(Id("try"), args...)), Expr(List(Id("r"), callE("n")))))
			return
		}
		for i := range elems {
			// string(e) of a non-user error is implementation text: the handler that stringifies
			// only follows a user error
			if i == 3 && (len(cur) == 0 || cur[len(cur)-1] != 0 && cur[len(cur)-1] != 4) {
				continue
			}
			rec(append(append([]int{}, cur...), i), n)
		}
	}
	for n := 1; n <= 3; n++ {
		rec(nil, n)
	}
	// raised errors escaping the program at different depths
	yield(prog("F6raise", nil, emitN(1), Expr(callE("error", Str("top"))), emitN(2)))
	yield(prog("F6raise", nil, FuncDecl("f", nil, emitN(1), Expr(callE("error", Str("in f"))), emitN(2)), emitN(0), Expr(callE("f")), emitN(3)))
	yield(prog("F6raise", nil, FuncDecl("g", nil, Expr(callE("error", Str("deep")))), FuncDecl("f", nil, Expr(callE("g")), emitN(2)), Expr(callE("f"))))
	yield(prog("F6raise", nil, Var("x", callE("error", Str("in decl"))), Expr(Int(5))))
	yield(prog("F6raise", nil, Expr(Meth(List(Int(1), Int(2)), "map", Func("", P("v"), emitE(Id("v")), Expr(callE("error", Str("cb"))))))))
	yield(prog("F6raise", nil, Expr(callE("try", Func("", nil, Expr(Meth(List(Int(1), Int(2)), "map", Func("", P("v"), emitE(Id("v")), Expr(callE("error", Str("cb"))))))), Func("", P("e"), Expr(callE("string", Id("e"))))))))
	for _, bad := range []*N{Index(List(Int(1)), Int(5)), Index(Map(), Str("k")), Bin("+", Int(1), Str("a")), Bin("/", Int(1), Int(0)), Bin("%", Int(1), Int(0)), Pre("-", Str("a")), Bin("<", Int(1), Str("a")), Call(Func("", P("a"), Expr(Id("a")))), Call(Int(3)), MultiVarExpr()} {
		yield(prog("F6kind", nil, emitN(1), asStmt(Clone(bad)), emitN(2)))
		yield(prog("F6kind", nil, FuncDecl("f", nil, emitN(1), asStmt(Clone(bad)), emitN(2)), Expr(callE("f")), emitN(3)))
	}
	// a call that fails while operands are pending, caught by try in the middle of an expression
	fails := []func() *N{
		func() *N { return Func("", nil, Return(List(Int(7), Bin("<", Int(1), Str("a"))))) },
		func() *N { return Func("", nil, Return(Bin("+", Int(7), Index(List(Int(1)), Int(5))))) },
		func() *N { return Func("", nil, Return(callE("g3", Int(7), Int(8), callE("error", Str("x"))))) },
		func() *N { return Func("", nil, Var("x", Index(List(Int(8), Int(9)), Int(7))), Return(Id("x"))) },
		func() *N { return Func("", nil, ForRange("i", Int(3), Expr(List(Id("i"), Index(List(Int(1)), Int(5))))), Return(Int(1))) },
		func() *N {
			return Func("", nil, Switch(Int(4), Case{Vals: []*N{Int(4)}, Body: []*N{Expr(List(Int(6), callE("error", Str("y"))))}}), Return(Int(1)))
		},
		func() *N { return Func("", nil, Return(Int(3))) },
	}
	g3 := func() *N { return FuncDecl("g3", P("a", "b", "c"), Return(List(Id("a"), Id("b"), Id("c")))) }
	for _, fb := range fails {
		for _, hv := range []func() *N{func() *N { return Str("E") }, func() *N { return Func("", P("e"), Return(Str("H"))) }} {
			t := func() *N { return callE("try", fb(), hv()) }
			yield(prog("F6pending", nil, g3(), Expr(List(Int(0), t()))))
			yield(prog("F6pending", nil, g3(), Expr(List(Int(0), t(), t(), Int(9)))))
			yield(prog("F6pending", nil, g3(), Expr(Bin("+", Str("p"), t()))))
			yield(prog("F6pending", nil, g3(), Expr(callE("g3", Int(1), t(), Int(3)))))
			yield(prog("F6pending", nil, g3(), Expr(Map(Str("k"), Int(0), Str("v"), t()))))
			yield(prog("F6pending", []string{"r"}, g3(), Var("r", List()), ForRange("i", Int(3), Expr(Meth(Id("r"), "append", List(Id("i"), t())))), Expr(Id("r"))))
			yield(prog("F6pending", nil, g3(), FuncDecl("w", nil, Var("a", Int(1)), Var("b", List(Id("a"), t())), Return(List(Id("a"), Id("b")))), Expr(callE("w"))))
		}
	}
	// defer
	d := func(k int64) *N { return Defer(callE("emit", Int(k))) }
	yield(prog("F6defer", nil, FuncDecl("f", nil, d(1), d(2), d(3), emitN(0), Return(Int(5))), Expr(List(callE("f"), callE("n")))))
	yield(prog("F6defer", nil, FuncDecl("f", P("c"), d(1), If(Id("c"), []*N{Return(Int(1))}, nil), d(2), Return(Int(2))), Expr(List(callE("f", Bool(true)), callE("f", Bool(false))))))
	yield(prog("F6defer", nil, FuncDecl("f", nil, ForRange("i", Int(3), Defer(callE("emit", Id("i")))), emitN(9)), Expr(callE("f"))))
	yield(prog("F6defer", nil, FuncDecl("f", nil, Var("x", Int(1)), Defer(Call(Func("", nil, Set1("x", Int(2)), emitE(Id("x"))))), Return(Id("x"))), Expr(callE("f"))))
	yield(prog("F6defer", nil, FuncDecl("f", nil, Var("x", Int(1)), Defer(callE("emit", Id("x"))), Set1("x", Int(2)), Return(Id("x"))), Expr(callE("f"))))
	yield(prog("F6defer", nil, FuncDecl("f", nil, d(1), Expr(callE("error", Str("boom"))), d(2)), Expr(callE("try", Id("f"), Func("", P("e"), emitN(7), Expr(callE("string", Id("e"))))))))
	yield(prog("F6defer", nil, FuncDecl("f", nil, d(1), Expr(Index(List(), Int(0)))), Expr(callE("f"))))
	yield(prog("F6defer", nil, FuncDecl("f", nil, Defer(Call(Func("", nil, Expr(callE("error", Str("in defer")))))), Return(Int(1))), Expr(callE("f"))))
	yield(prog("F6defer", nil, FuncDecl("g", nil, d(1), Return(Int(1))), FuncDecl("f", nil, d(2), Return(Bin("+", callE("g"), Int(1)))), Expr(callE("f"))))
	yield(prog("F6defer", nil, Expr(Call(Func("", nil, d(1), emitN(0)))), emitN(2)))
	yield(prog("F6defer", nil, d(1)))
	// every sequence of 1..3 deferred calls over the callee kinds (builtin, named script function,
	// function literal, method of a captured list), ended by a normal return and by an error:
	// all of them run, last registered first
	kinds := []func(k int64) *N{
		func(k int64) *N { return Defer(callE("emit", Int(k))) },
		func(k int64) *N { return Defer(callE("note", Int(k))) },
		func(k int64) *N { return Defer(Call(Func("", nil, emitE(Bin("+", Int(k), Int(100)))))) },
		func(k int64) *N { return Defer(Meth(Id("l"), "append", Int(k))) },
	}
	var seqs func(cur []*N, n int)
	seqs = func(cur []*N, n int) {
		if len(cur) > 0 {
			body := append([]*N{}, CloneBlock(cur)...)
			yield(prog("F6defer", []string{"l"}, Var("l", List()), FuncDecl("note", P("k"), emitE(Bin("*", Id("k"), Int(10)))),
				FuncDecl("f", nil, append(body, emitN(0), Return(Int(5)))...), Expr(List(callE("f"), Id("l")))))
			// the same with the return inside a range loop and inside a switch case, the call used as
			// the second operand of an addition and repeated
			body3 := append([]*N{}, CloneBlock(cur)...)
			yield(prog("F6defer", []string{"l"}, Var("l", List()), FuncDecl("note", P("k"), emitE(Bin("*", Id("k"), Int(10)))),
				FuncDecl("f", nil, append(body3, ForRange("i", Int(3), If(Bin("==", Id("i"), Int(1)), []*N{Return(Int(7))}, nil)), Return(Int(9)))...),
				Expr(List(Bin("+", Int(100), callE("f")), Bin("+", Int(200), callE("f")), Id("l")))))
			body4 := append([]*N{}, CloneBlock(cur)...)
			yield(prog("F6defer", []string{"l"}, Var("l", List()), FuncDecl("note", P("k"), emitE(Bin("*", Id("k"), Int(10)))),
				FuncDecl("f", P("a"), append(body4, Switch(Id("a"), Case{Vals: []*N{Int(1)}, Body: []*N{Return(Int(8))}}, Case{Default: true, Body: []*N{emitN(3)}}), Return(Int(9)))...),
				Expr(List(Bin("+", Int(100), callE("f", Int(1))), Bin("+", Int(200), callE("f", Int(2))), Id("l")))))
			body2 := append([]*N{}, CloneBlock(cur)...)
			yield(prog("F6defer", []string{"l"}, Var("l", List()), FuncDecl("note", P("k"), emitE(Bin("*", Id("k"), Int(10)))),
				FuncDecl("f", nil, append(body2, emitN(0), Expr(Index(List(), Int(3))))...), Expr(List(callE("try", Id("f"), Int(-1)), Id("l")))))
		}
		if n == 0 {
			return
		}
		for _, mk := range kinds {
			seqs(append(append([]*N{}, cur...), mk(int64(len(cur)+1))), n-1)
		}
	}
	seqs(nil, 3)
	yield(prog("F6defer", nil, ForRange("i", Int(2), d(1))))
}

// MultiVarExpr is a statement-level error producer used as an expression statement placeholder:
// unpacking a list of the wrong length.
func MultiVarExpr() *N { return MultiVar([]string{"u1", "u2"}, List(Int(1), Int(2), Int(3))) }

func asStmt(n *N) *N {
	if n.K >= SExpr {
		return n
	}
	return Expr(n)
}

// Corpus streams the programs shared by the checks that quantify over "all
// programs of C01's generators" (C04, C05, C17, C20): every family except the
// largest control-skeleton and operator budgets.
func Corpus(thorough bool, yield func(Program)) {
	f2max, f4ops := 3, 2
	if thorough {
		f2max, f4ops = 4, 3
	}
	for n := 1; n <= f2max; n++ {
		F2(n, F2All, yield)
	}
	F1Values(1, ValuePool(9), yield)
	F1Prefix(ValuePool(6), yield)
	F3(yield)
	F4(f4ops, yield)
	F4c(2, yield)
	F5(yield)
	F6(yield)
	C02Corpus(thorough, yield)
	F8(false, yield)
	if thorough {
		F8(true, yield)
	}
	F9(yield)
	F2Operand(yield)
}
