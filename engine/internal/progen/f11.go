package progen

import "fmt"

// F11: a statement where a call takes an argument. The parser accepts any node in an argument list (it parses
// f(a=1) as an assignment, for a keyword-argument syntax that does not exist yet); whatever the compiler makes of
// it, the call must not be compiled with an argument that pushes no value - it would take its operands from
// whatever lies below on the stack. Raw sources (the reference interpreter has no such construct): these programs
// are judged by the height search and by the step conformance alone.
func F11(yield func(Program)) {
	stmts := []string{"x = 2", "x += 1", "l[0] = 5", "x := 7", "for i := range 2 { }", "import math", "c <- 1", "x++", "const k = 1", "a, b = [1, 2]", "return", "if true { }"}
	ctxs := []string{"len(%s)", "f(%s)", "f(1, %s)", "f(%s, 1)", "l.append(%s)", "[f(%s)]", "for i := range 2 { f(%s) }", "go f(%s)", "defer f(%s)", "1 | f(%s)", "f(f(%s))", "try(func() { return f(%s) })", "func() { f(%s) }()", "x = f(%s)", "l[f(%s)]", "'{f(%s)}'"}
	for _, st := range stmts {
		for _, cx := range ctxs {
			src := "x := 1\na := 1\nb := 2\nl := [1, 2]\nc := chan(1)\nf := func(p=0, q=0) { return p }\n" + fmt.Sprintf(cx, st) + "\nx"
			yield(Program{Fam: "F11stmtarg", Raw: src, Meta: "statement as a call argument: " + st + " in " + cx})
		}
	}
}

// F12: template strings by the number of fragments that contribute a value - none ('{}', '{ }', '{}{}'), one, two,
// with text before, between and after - in every place a value can stand. A template leaves exactly one value,
// however many of its interpolations are empty.
func F12(yield func(Program)) {
	tmpls := []string{"'{}'", "'{ }'", "'{}{}'", "'a{}'", "'{}a'", "'{x}'", "'{x}{}'", "'{}{x}'", "''", "'{{}}'", "'{}{x}{}'", "'{}a{}'", "'{x}{x}'", "'a'", "'{x}a{x}'"}
	ctxs := []string{"%s", "y := %s", "len(%s)", "[%s, 1]", "[1, %s]", "if %s == \"\" { y = 2 }", "for i := range 3 { %s }", "for i := range 3 { y = %s }", "for v in [1, 2] { len(%s) }",
		"f(%s)", "f(1, %s)", "f(%s, 1)", "{\"k\": %s}", "switch %s { case \"\": y = 3 }", "func() { return %s }()", "%s + \"z\"", "x | f(%s)", "try(func() { return %s })"}
	for _, tm := range tmpls {
		for _, cx := range ctxs {
			src := "x := 1\ny := 0\nf := func(p=0, q=0) { return p }\n" + fmt.Sprintf(cx, tm) + "\n[x, y]"
			yield(Program{Fam: "F12template", Raw: src, Meta: "template " + tm + " in " + cx})
		}
	}
}
