package progen

import (
	"fmt"

	. "verif/internal/lang"
)

// C02Host: the host enters the ENCLOSING function from Go (vm.Get + vm.Call), not merely a closure the script
// has already made. The maker creates two closures over one of its variables, keeps one in a global list and
// returns the other; the host then calls what it got back, twice, and a script function that uses the kept one.
// Every sequence of 2..3 host steps over: call the maker and its result; call the maker with surplus arguments
// (refused before it is entered); call the user of the kept closures; call a closure that the script itself made
// at top level before the host came in. The maker optionally has more locals than a frame holds inline, and
// optionally calls its own closure before it returns.
func C02Host(yield func(Program)) {
	fn := func(p []Param, body ...*N) *N { return Func("", p, body...) }
	steps := []string{"mk!", "mk?", "use", "top", "mk2!"}
	var seqs [][]string
	var rec func(cur []string)
	rec = func(cur []string) {
		if len(cur) >= 2 {
			seqs = append(seqs, append([]string{}, cur...))
		}
		if len(cur) == 3 {
			return
		}
		for _, s := range steps {
			rec(append(cur, s))
		}
	}
	rec(nil)
	for _, big := range []bool{false, true} {
		for _, callsOwn := range []bool{false, true} {
			for _, seq := range seqs {
				var body []*N
				if big {
					body = append(body, padLocals()...)
				}
				body = append(body,
					Var("n", Bin("+", Id("start"), Int(100))),
					Var("inc", fn(nil, Set1("n", Bin("+", Id("n"), Int(1))), Return(Id("n")))),
					Var("get", fn(nil, Return(Id("n")))),
					Expr(Meth(Id("keep"), "append", Id("get"))))
				if callsOwn {
					body = append(body, Expr(callE("inc")))
				}
				body = append(body, Return(Id("inc")))
				st := []*N{
					Var("keep", List()),
					FuncDecl("mk", P("start"), body...),
					// a second maker: two levels, the returned closure uses a variable of each
					FuncDecl("mk2", P("a"), Var("outer", Bin("+", Id("a"), Int(7))),
						Return(fn(P("b"), Set1("outer", Bin("+", Id("outer"), Int(1))), Return(Bin("+", Id("outer"), Id("b")))))),
					FuncDecl("use", P("x"), Var("out", List()), ForIn("g", Id("keep"), Expr(Meth(Id("out"), "append", callE("g")))), Return(Id("out"))),
					Var("top", callE("mk", Int(5))),
					emitE(callE("top")),
				}
				yield(Program{Fam: "C02host", Prog: st, Post: seq, Meta: fmt.Sprintf("host-enters-maker big-frame=%v calls-own=%v steps=%v", big, callsOwn, seq)})
			}
		}
	}
}
