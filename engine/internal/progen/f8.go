package progen

import (
	"fmt"

	. "verif/internal/lang"
)

// F8 compositions: every expression-bearing slot of every statement and expression form
// (contexts) filled with every side-effecting expression form (inners), directly and through
// every value-preserving wrapper (depth 2). The per-feature families F1-F6 exercise each
// construct with simple operands; defects of the "target evaluated twice", "operand left on
// the stack", "wrong branch value" kind live where two constructs meet. Every inner evaluates
// to 1 and announces each evaluation through t(k), so order, count and value are all observed.
// The order between the sub-expressions of an assignment target and the assigned value is not
// fixed by the rules (risor evaluates the value first): no program has side effects on both sides.

func f8prelude() []*N {
	return []*N{
		FuncDecl("t", P("k"), emitE(Id("k")), Return(Id("k"))),
		Var("l", List(Int(10), Int(20), Int(30), Int(40))),
		Var("m", Map(Str("a"), Int(1), Str("b"), Int(2))),
		Var("inc", Func("", P("a"), Return(Bin("+", Id("a"), Int(1))))),
		Var("add", Func("", P("a", "b"), Return(Bin("+", Bin("*", Id("a"), Int(10)), Id("b"))))),
		Var("same", Func("", P("a"), Return(Id("a")))),
		Var("x", Int(0)),
	}
}

func tk(k int64) *N { return callE("t", Int(k)) }

// braces reports whether rendering e produces a brace: template strings cannot hold one inside
// an interpolation.
func braces(e *N) bool {
	if e == nil {
		return false
	}
	switch e.K {
	case EMap, ESet, EFunc, EIfExpr, EInterp:
		return true
	}
	for _, a := range e.A {
		if braces(a) {
			return true
		}
	}
	return false
}

// nestedTernary reports a ternary inside a ternary (at any depth, parentheses included): the
// language rejects those.
func nestedTernary(e *N, inside bool) bool {
	if e == nil {
		return false
	}
	if e.K == ETern {
		if inside {
			return true
		}
		inside = true
	}
	for _, a := range e.A {
		if nestedTernary(a, inside) {
			return true
		}
	}
	lists := [][]*N{e.Body, e.Else, {e.Init, e.Post}}
	for _, c := range e.Cases {
		lists = append(lists, c.Vals, c.Body)
	}
	for _, l := range lists {
		for _, a := range l {
			if nestedTernary(a, inside) {
				return true
			}
		}
	}
	return false
}

// operand puts a non-primary expression in parentheses where the surrounding form is a prefix
// operator (range binds like a prefix operator: range a - b is (range a) - b).
func operand(e *N) *N {
	switch e.K {
	case EBin, ETern, EPipe, EPre, EIfExpr:
		return Group(e)
	}
	return lead(e)
}

// lead guards an expression that is rendered where an opening brace would be read as a block,
// a template escape or a loop body: a leading map literal is put in parentheses.
func lead(e *N) *N {
	for n := e; n != nil; {
		switch n.K {
		case EMap, ESet:
			return Group(e)
		case EBin, EIndex, EAttr, ECall, EMeth, ETern, EPipe, ESlice:
			n = n.A[0]
		default:
			return e
		}
	}
	return e
}

type f8inner struct {
	name string
	mk   func() *N
}

type f8wrap struct {
	name string
	mk   func(h *N) *N
}

type f8ctx struct {
	name  string
	names []string
	mk    func(h func() *N) []*N
}

func f8inners() []f8inner {
	return []f8inner{
		{"call", func() *N { return tk(1) }},
		{"list-index", func() *N { return Index(List(Int(5), tk(1)), Int(1)) }},
		{"map-index", func() *N { return Index(Map(Str("a"), tk(1)), Str("a")) }},
		{"map-attr", func() *N { return Attr(Map(Str("a"), tk(1)), "a") }},
		{"ternary", func() *N { return Tern(Bin(">", tk(1), Int(0)), tk(1), tk(0)) }},
		{"iife", func() *N { return Call(Func("", nil, Return(tk(1)))) }},
		{"sub", func() *N { return Bin("-", tk(2), tk(1)) }},
		{"and-or", func() *N { return Call(Id("len"), List(Bin("||", Bin(">", tk(0), Int(0)), Bin(">", tk(1), Int(0))))) }},
		{"pipe", func() *N { return Pipe(tk(0), Id("inc")) }},
		{"try", func() *N { return callE("try", Func("", nil, Return(tk(1)))) }},
		{"try-handler", func() *N {
			return callE("try", Func("", nil, Expr(callE("error", Str("e")))), Func("", P("e"), Return(tk(1))))
		}},
		{"interp-len", func() *N { return callE("len", Interp(tk(1))) }},
		{"if-expr", func() *N {
			return IfExpr(Bin(">", tk(1), Int(0)), []*N{Expr(tk(1))}, []*N{Expr(tk(0))})
		}},
		{"index-of-global", func() *N { return Bin("/", Index(Id("l"), tk(0)), Int(10)) }},
	}
}

func f8wraps() []f8wrap {
	return []f8wrap{
		{"group", func(h *N) *N { return Group(h) }},
		{"list-index", func(h *N) *N { return Index(List(tk(7), h), Int(1)) }},
		{"map-index", func(h *N) *N { return Index(Map(Str("a"), h), Str("a")) }},
		{"iife", func(h *N) *N { return Call(Func("", nil, Return(h))) }},
		{"pipe", func(h *N) *N { return Pipe(h, Id("same")) }},
		{"plus-zero", func(h *N) *N { return Bin("+", Int(0), h) }},
		{"ternary-then", func(h *N) *N { return Tern(Bool(true), h, tk(6)) }},
		{"ternary-else", func(h *N) *N { return Tern(Bool(false), tk(6), h) }},
		{"try", func(h *N) *N { return callE("try", Func("", nil, Return(h))) }},
		{"len-list", func(h *N) *N { return Bin("-", callE("len", List(h, tk(8))), Int(1)) }},
		{"interp-len", func(h *N) *N {
			if braces(h) {
				return nil
			}
			return callE("len", Interp(h))
		}},
		{"neg-neg", func(h *N) *N { return Pre("-", Group(Pre("-", h))) }},
		{"call-arg", func(h *N) *N { return callE("same", h) }},
		{"second-arg", func(h *N) *N { return Bin("-", callE("add", tk(7), h), Int(70)) }},
		{"if-expr", func(h *N) *N { return IfExpr(Bin(">", lead(h), Int(0)), []*N{Expr(Int(1))}, []*N{Expr(Int(0))}) }},
		{"index-into", func(h *N) *N { return Bin("-", Index(Id("l"), h), Int(19)) }},
	}
}

func f8contexts() []f8ctx {
	ex := func(e *N) []*N { return []*N{Expr(e)} }
	return []f8ctx{
		{"var", []string{"v"}, func(h func() *N) []*N { return []*N{Var("v", h()), Expr(Id("v"))} }},
		{"assign", []string{"x"}, func(h func() *N) []*N { return []*N{Set1("x", h()), Expr(Id("x"))} }},
		{"compound", []string{"x"}, func(h func() *N) []*N { return []*N{Assign(Id("x"), "+=", h()), Expr(Id("x"))} }},
		{"const", nil, func(h func() *N) []*N { return []*N{Const("c", h()), Expr(Id("c"))} }},
		{"list-elem", nil, func(h func() *N) []*N { return ex(List(tk(7), h(), tk(8))) }},
		{"map-value", nil, func(h func() *N) []*N { return ex(Map(Str("k"), h(), Str("j"), tk(8))) }},
		{"set-elem", nil, func(h func() *N) []*N { return ex(callE("len", Set(h(), tk(8)))) }},
		{"arg", nil, func(h func() *N) []*N { return ex(callE("inc", h())) }},
		{"arg2", nil, func(h func() *N) []*N { return ex(callE("add", tk(7), h())) }},
		{"arg1", nil, func(h func() *N) []*N { return ex(callE("add", h(), tk(8))) }},
		{"left", nil, func(h func() *N) []*N { return ex(Bin("+", lead(h()), tk(8))) }},
		{"right", nil, func(h func() *N) []*N { return ex(Bin("+", tk(7), h())) }},
		{"mul-add", nil, func(h func() *N) []*N { return ex(Bin("+", Bin("*", tk(7), h()), tk(8))) }},
		{"compare", nil, func(h func() *N) []*N { return ex(Bin("<", lead(h()), tk(8))) }},
		{"and-right", nil, func(h func() *N) []*N { return ex(Bin("&&", Bin(">", tk(7), Int(0)), Bin(">", h(), Int(0)))) }},
		{"or-skipped", nil, func(h func() *N) []*N { return ex(Bin("||", Bin(">", tk(7), Int(0)), Bin(">", h(), Int(0)))) }},
		{"index", nil, func(h func() *N) []*N { return ex(Index(Id("l"), h())) }},
		{"index-store", []string{"l"}, func(h func() *N) []*N { return []*N{Assign(Index(Id("l"), h()), "=", Int(8)), Expr(Id("l"))} }},
		{"index-compound", []string{"l"}, func(h func() *N) []*N {
			return []*N{Assign(Index(Id("l"), h()), "+=", Int(8)), Expr(Id("l"))}
		}},
		{"index-compound-value", []string{"l"}, func(h func() *N) []*N {
			return []*N{Assign(Index(Id("l"), Int(2)), "-=", h()), Expr(Id("l"))}
		}},
		{"map-compound-value", []string{"m"}, func(h func() *N) []*N {
			return []*N{Assign(Index(Id("m"), Str("a")), "+=", h()), Expr(Id("m"))}
		}},
		{"attr-compound-value", []string{"m"}, func(h func() *N) []*N {
			return []*N{Assign(Attr(Id("m"), "b"), "*=", h()), Expr(Id("m"))}
		}},
		{"slice-lo", nil, func(h func() *N) []*N { return ex(Slice(Id("l"), h(), nil)) }},
		{"slice-hi", nil, func(h func() *N) []*N { return ex(Slice(Id("l"), nil, h())) }},
		{"slice-both", nil, func(h func() *N) []*N { return ex(Slice(Id("l"), h(), Bin("+", h(), Int(1)))) }},
		{"in-left", nil, func(h func() *N) []*N { return ex(Bin("in", lead(h()), List(Int(1), Int(2)))) }},
		{"in-right", nil, func(h func() *N) []*N { return ex(Bin("in", Int(1), List(h(), tk(8)))) }},
		{"neg", nil, func(h func() *N) []*N { return ex(Pre("-", h())) }},
		{"not", nil, func(h func() *N) []*N { return ex(Pre("!", Group(Bin("==", h(), Int(1))))) }},
		{"if-cond", nil, func(h func() *N) []*N {
			return []*N{If(Bin("==", lead(h()), Int(1)), []*N{emitN(100)}, []*N{emitN(200)})}
		}},
		{"if-branch-value", nil, func(h func() *N) []*N {
			return []*N{Var("v", IfExpr(Bin(">", tk(7), Int(0)), []*N{Expr(h())}, []*N{Expr(tk(9))})), Expr(Id("v"))}
		}},
		{"for3-cond", nil, func(h func() *N) []*N {
			return []*N{For3(Var("i", Int(0)), Bin("<", Id("i"), h()), Inc("i", "++"), emitE(Id("i")))}
		}},
		{"for3-init", nil, func(h func() *N) []*N {
			return []*N{For3(Var("i", h()), Bin("<", Id("i"), Int(3)), Inc("i", "++"), emitE(Id("i")))}
		}},
		{"for3-post", nil, func(h func() *N) []*N {
			// the post clause is an arbitrary expression whose value is dropped every iteration
			return []*N{For3(Var("i", Int(0)), Bin("<", Id("i"), Int(2)), Expr(lead(h())), emitE(Id("i")), Inc("i", "++"))}
		}},
		{"for3-init", nil, func(h func() *N) []*N {
			// the init clause is an arbitrary expression whose value is dropped
			return []*N{Var("i", Int(0)), For3(Expr(lead(h())), Bin("<", Id("i"), Int(2)), Inc("i", "++"), emitE(Id("i")))}
		}},
		{"for3-init-inside-range-loop", nil, func(h func() *N) []*N {
			return []*N{ForRangeKV("_", "v", List(Int(4), Int(5)), Var("i", Int(0)), For3(Expr(lead(h())), Bin("<", Id("i"), Int(1)), Inc("i", "++"), emitE(Id("i"))), emitE(Id("v")))}
		}},
		{"for3-post-in-function", nil, func(h func() *N) []*N {
			return []*N{FuncDecl("f", nil, Var("s", Int(0)), For3(Var("i", Int(0)), Bin("<", Id("i"), Int(3)), Expr(lead(h())), Assign(Id("s"), "+=", Id("i")), Inc("i", "++")), Return(Id("s"))), Expr(Bin("+", callE("f"), callE("f")))}
		}},
		{"for-cond", nil, func(h func() *N) []*N {
			return []*N{Var("i", Int(0)), ForCond(Bin("<", Id("i"), h()), emitE(Id("i")), Inc("i", "++"))}
		}},
		{"for-range-count", nil, func(h func() *N) []*N { return []*N{ForRange("i", operand(h()), emitE(Id("i")))} }},
		{"for-range-list", nil, func(h func() *N) []*N {
			return []*N{ForRangeKV("i", "v", List(h(), tk(8)), emitE(List(Id("i"), Id("v"))))}
		}},
		{"for-in-list", nil, func(h func() *N) []*N { return []*N{ForIn("v", List(tk(7), h()), emitE(Id("v")))} }},
		{"loop-body", nil, func(h func() *N) []*N {
			return []*N{Var("s", Int(0)), ForRange("i", Int(3), Assign(Id("s"), "+=", h())), Expr(Id("s"))}
		}},
		{"loop-body-break", nil, func(h func() *N) []*N {
			return []*N{ForRange("i", Int(3), If(Bin("==", h(), Id("i")), []*N{Break()}, nil), emitE(Id("i")))}
		}},
		{"loop-body-continue", nil, func(h func() *N) []*N {
			return []*N{ForRange("i", Int(3), If(Bin("==", h(), Id("i")), []*N{Continue()}, nil), emitE(Id("i")))}
		}},
		{"switch-subject", nil, func(h func() *N) []*N {
			return []*N{Switch(lead(h()), Case{Vals: []*N{Int(0)}, Body: []*N{emitN(100)}}, Case{Vals: []*N{Int(1)}, Body: []*N{emitN(101)}}, Case{Default: true, Body: []*N{emitN(102)}})}
		}},
		{"switch-case-value", nil, func(h func() *N) []*N {
			return []*N{Switch(Int(1), Case{Vals: []*N{tk(0)}, Body: []*N{emitN(100)}}, Case{Vals: []*N{h()}, Body: []*N{emitN(101)}}, Case{Vals: []*N{tk(9)}, Body: []*N{emitN(103)}}, Case{Default: true, Body: []*N{emitN(102)}})}
		}},
		{"switch-in-loop-body", nil, func(h func() *N) []*N {
			return []*N{ForRange("i", Int(3), Switch(Id("i"), Case{Vals: []*N{h()}, Body: []*N{emitN(101), Continue()}}, Case{Default: true, Body: []*N{emitE(Id("i"))}}), emitN(55))}
		}},
		{"return", nil, func(h func() *N) []*N {
			return []*N{FuncDecl("f", nil, Return(h())), Expr(Bin("+", callE("f"), tk(8)))}
		}},
		{"return-in-loop", nil, func(h func() *N) []*N {
			return []*N{FuncDecl("f", nil, ForRange("i", Int(3), If(Bin("==", Id("i"), Int(1)), []*N{Return(h())}, nil)), Return(Int(9))), Expr(Bin("+", callE("f"), callE("f")))}
		}},
		{"last-expression", nil, func(h func() *N) []*N {
			return []*N{FuncDecl("f", nil, Expr(h())), Expr(List(callE("f"), callE("f")))}
		}},
		{"tern-cond", nil, func(h func() *N) []*N { return ex(Tern(Bin("==", lead(h()), Int(1)), tk(5), tk(6))) }},
		{"interp", nil, func(h func() *N) []*N {
			if braces(h()) {
				return nil
			}
			return ex(Interp(Str("a"), h(), Str("b"), tk(8)))
		}},
		{"pipe-source", nil, func(h func() *N) []*N { return ex(Pipe(lead(h()), Id("inc"), Id("inc"))) }},
		{"pipe-arg", nil, func(h func() *N) []*N { return ex(Pipe(tk(7), Call(Id("add"), h()))) }},
		// a stage that is not a call but an expression yielding the function: calls inside it are ordinary calls
		{"pipe-stage-index", nil, func(h func() *N) []*N {
			return ex(Pipe(tk(7), Index(List(Id("same"), Id("inc")), operand(h()))))
		}},
		{"pipe-stage-ternary-condition", nil, func(h func() *N) []*N {
			return ex(Pipe(tk(7), Group(Tern(Bin(">", h(), Int(0)), Id("inc"), Id("same"))), Id("inc")))
		}},
		{"pipe-stage-list-element", nil, func(h func() *N) []*N {
			return ex(Pipe(tk(7), Index(List(Id("same"), Id("inc")), Int(1)), Index(List(Id("inc")), Bin("-", h(), Int(1)))))
		}},
		{"multi-var", []string{"p", "q"}, func(h func() *N) []*N {
			return []*N{MultiVar([]string{"p", "q"}, List(h(), tk(8))), Expr(List(Id("p"), Id("q")))}
		}},
		{"multi-set", []string{"x", "y"}, func(h func() *N) []*N {
			return []*N{Var("y", Int(5)), MultiSet([]string{"x", "y"}, List(tk(7), h())), Expr(List(Id("x"), Id("y")))}
		}},
		{"defer-arg", nil, func(h func() *N) []*N {
			return []*N{FuncDecl("f", nil, Defer(callE("emit", h())), emitN(50), Return(tk(8))), Expr(callE("f"))}
		}},
		{"try-body", nil, func(h func() *N) []*N { return ex(callE("try", Func("", nil, Return(h())))) }},
		{"try-after-error", nil, func(h func() *N) []*N {
			return ex(List(callE("try", Func("", nil, Expr(Index(List(tk(7)), h())), Return(Int(3))), Int(4)), tk(8)))
		}},
		{"method-arg", []string{"l"}, func(h func() *N) []*N { return []*N{Expr(Meth(Id("l"), "append", h())), Expr(Id("l"))} }},
		{"method-receiver", nil, func(h func() *N) []*N { return ex(callE("len", Meth(List(h(), tk(8)), "append", tk(9)))) }},
		{"grid", []string{"g"}, func(h func() *N) []*N {
			return []*N{Var("g", List(List(Int(1), Int(2)), List(Int(3), Int(4)))), Assign(Index(Index(Id("g"), h()), h()), "+=", Int(5)), Expr(Id("g"))}
		}},
		{"closure-capture", nil, func(h func() *N) []*N {
			return []*N{Var("c", h()), Var("g", Func("", nil, Assign(Id("c"), "+=", h()), Return(Id("c")))), Expr(List(callE("g"), callE("g"), Id("c")))}
		}},
	}
}

// F8 streams the composition family; deep adds the depth-2 compositions (context x wrapper x inner).
func F8(deep bool, yield func(Program)) {
	ctxs, inners, wraps := f8contexts(), f8inners(), f8wraps()
	emitP := func(c f8ctx, meta string, h func() *N) {
		if h() == nil {
			return // the wrapper does not apply to this inner
		}
		body := c.mk(h)
		if body == nil {
			return // the context does not apply to this expression
		}
		for _, b := range body {
			if nestedTernary(b, false) {
				return
			}
		}
		st := append(f8prelude(), body...)
		yield(Program{Fam: "F8" + map[bool]string{false: "", true: "deep"}[deep], Prog: st, Names: c.names, Meta: meta})
	}
	for _, c := range ctxs {
		for _, in := range inners {
			in := in
			if !deep {
				emitP(c, fmt.Sprintf("%s <- %s", c.name, in.name), in.mk)
				continue
			}
			for _, w := range wraps {
				w := w
				emitP(c, fmt.Sprintf("%s <- %s <- %s", c.name, w.name, in.name), func() *N { return w.mk(in.mk()) })
			}
		}
	}
}

// F8Prelude is the fixed first piece of the rejected-composition sessions (C18).
func F8Prelude() []*N { return f8prelude() }

// F8Rejected yields every context (directly and through every wrapper) filled with an expression the
// compiler must reject: an undefined name in eight syntactic positions (bare, in an immediately called
// function literal, in a function literal that is a pipe stage, in the arguments of a pipe stage, in a
// ternary branch, in an if-expression block, in an interpolation, as a call target).
func F8Rejected(yield func(meta string, body []*N)) {
	u := func() *N { return Id("undefined_name") }
	inners := []f8inner{
		{"bare", func() *N { return u() }},
		{"iife", func() *N { return Call(Func("", nil, Return(u()))) }},
		{"func-as-pipe-stage", func() *N { return Pipe(Int(1), Func("", P("a"), Return(u()))) }},
		{"pipe-stage-argument", func() *N { return Pipe(Int(1), callE("add", u())) }},
		{"ternary-branch", func() *N { return Tern(Bool(true), Int(1), u()) }},
		{"if-expr-block", func() *N { return IfExpr(Bool(true), []*N{Expr(Int(1))}, []*N{Expr(u())}) }},
		{"interpolation", func() *N { return callE("len", Interp(u())) }},
		{"call-target", func() *N { return Call(u(), Int(1)) }},
	}
	wraps := append([]f8wrap{{"direct", func(h *N) *N { return h }}}, f8wraps()...)
	for _, c := range f8contexts() {
		for _, in := range inners {
			for _, w := range wraps {
				in, w := in, w
				h := func() *N { return w.mk(in.mk()) }
				if h() == nil {
					continue
				}
				body := c.mk(h)
				if body == nil {
					continue
				}
				bad := false
				for _, b := range body {
					if nestedTernary(b, false) {
						bad = true
					}
				}
				if bad {
					continue
				}
				yield(fmt.Sprintf("%s <- %s <- %s", c.name, w.name, in.name), body)
			}
		}
	}
}
