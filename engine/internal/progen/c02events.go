package progen

import (
	"fmt"

	. "verif/internal/lang"
)

// C02Events: what happens BETWEEN two uses of a captured variable. A closure over the variables of
// its maker does something else first - calls a sibling closure with a different set of captured
// variables, has such a call fail under try (directly, inside a callback of each, in a deferred
// call, three frames deep, in a spawned thread), or runs an anonymous closure that updates the same
// variable and then fails - and only then updates its own captured variables, builds a nested
// closure over them and returns it. Two independent instances, every ordered pair of events for the
// two worker closures; the maker optionally has more locals than a frame holds inline.
func c02EventList() [][]*N {
	try := func(a ...*N) *N { return callE("try", a...) }
	fn := func(body ...*N) *N { return Func("", nil, body...) }
	return [][]*N{
		nil,
		{Expr(callE("ok", Int(1)))},
		{Expr(try(Id("bad")))},
		{Expr(try(fn(Expr(Meth(List(Int(1), Int(2), Int(3)), "each", Id("bad2"))))))},
		{Var("t", try(fn(Return(callE("bad"))), Func("", P("e"), Return(Int(0)))))},
		{Expr(Meth(List(Int(1), Int(2)), "map", Id("ok")))},
		{Expr(Meth(callE("spawn", Id("ok"), Int(1)), "wait"))},
		{Expr(try(fn(Return(Meth(callE("spawn", Id("bad")), "wait")))))},
		{Expr(Call(fn(Defer(callE("ok", Int(1))), Return(Int(1)))))},
		{Expr(try(fn(Expr(callE("error", Str("direct"))))))},
		{Expr(try(fn(Set1("c", Bin("+", Id("c"), Int(100))), Expr(callE("error", Str("x"))))))},
		{Expr(try(fn(Return(Index(List(Int(1)), Int(5))))))},
		{Expr(try(fn(Return(callE("deep", Int(3))))))},
		{Expr(try(fn(Defer(callE("bad")), Return(Int(1)))))},
	}
}

func C02Events(yield func(Program)) {
	events := c02EventList()
	for _, big := range []bool{false, true} {
		for e1 := range events {
			for e2 := range events {
				var body []*N
				if big {
					body = append(body, padLocals()...)
				}
				body = append(body,
					Var("c", Id("start")),
					Var("k", Bin("*", Id("start"), Int(2))),
					Var("r1", Int(1)), Var("r2", Int(2)), Var("r3", Int(3)),
					Var("fails", Int(0)),
					Var("ok", Func("", P("x"), Set1("r1", Bin("+", Id("r1"), Int(1))), Return(Bin("+", Bin("+", Id("r1"), Id("r2")), Id("r3"))))),
					Var("bad", Func("", nil, Set1("fails", Bin("+", Id("fails"), Int(1))), Expr(callE("error", Str("boom"))), Return(Id("r1")))),
					Var("bad2", Func("", P("x"), If(Bin(">", Id("x"), Int(1)), []*N{Expr(callE("error", Str("big")))}, nil), Return(Bin("+", Id("x"), Id("r3"))))),
					FuncDecl("deep", P("n"), If(Bin("==", Id("n"), Int(0)), []*N{Expr(callE("error", Str("deep")))}, nil), Return(Bin("+", callE("deep", Bin("-", Id("n"), Int(1))), Id("r2")))),
				)
				w1 := append(CloneBlock(events[e1]),
					Set1("c", Bin("+", Id("c"), Id("n"))),
					Var("nested", Func("", nil, Return(List(Id("c"), Id("k"))))),
					Return(List(Id("c"), callE("nested"))))
				w2 := append(CloneBlock(events[e2]),
					Set1("c", Bin("+", Id("c"), Id("n"))),
					Set1("k", Bin("+", Id("k"), Int(1))),
					Return(Func("", nil, Set1("c", Bin("+", Id("c"), Int(1000))), Return(List(Id("c"), Id("k"), Id("fails"))))))
				body = append(body,
					Var("work1", Func("", P("n"), w1...)),
					Var("work2", Func("", P("n"), w2...)),
					Var("get", Func("", nil, Return(List(Id("c"), Id("k"), Id("fails"), Id("r1"))))),
					Return(List(Id("work1"), Id("work2"), Id("get"))))
				at := func(inst string, i int64) *N { return Index(Id(inst), Int(i)) }
				st := []*N{
					FuncDecl("mk", P("start"), body...),
					Var("a", callE("mk", Int(10))),
					Var("b", callE("mk", Int(100))),
					emitE(Call(at("a", 0), Int(5))),
					emitE(Call(at("b", 0), Int(6))),
					Var("late", Call(at("a", 1), Int(7))),
					emitE(Call(at("a", 0), Int(1))),
					emitE(callE("late")),
					emitE(Call(at("a", 2))),
					emitE(Call(at("b", 2))),
				}
				yield(Program{Fam: "C02events", Prog: st, Meta: fmt.Sprintf("events big-frame=%v first=%d second=%d", big, e1, e2)})
			}
		}
	}
}
