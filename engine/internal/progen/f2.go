// Package progen enumerates, family by family, every program of a small core
// grammar up to a node budget, in a canonical simplest-first order.
package progen

import (
	"fmt"

	"verif/internal/lang"
)

// Program is one generated program.
type Program struct {
	Fam   string
	Prog  []*lang.N
	Names []string // top-level variables whose final values are compared
	Tag   string     // structural tag used in known-finding signatures (set by the generator)
	Post  []string   // globals holding functions that the host calls after the run (vm.Get + vm.Call; argument 0 if they take one)
	Meta  string     // generator coordinates, for samples and replay files
	Raw   string     // when set, the literal source text (families that are not built from the harness AST; no model outcome)
	Toks  []lang.Tok // when set, the exact token sequence of the source (F1: flat operator chains)
}

func (p Program) Tokens() []lang.Tok {
	if p.Toks != nil {
		return p.Toks
	}
	return lang.Render(p.Prog)
}

func (p Program) Src() string {
	if p.Raw != "" {
		return p.Raw
	}
	return lang.Source(p.Tokens())
}

// ------------------------------------------------------------------ F2 control skeletons

type skKind int

const (
	kEmit skKind = iota
	kBreak
	kContinue
	kReturn
	kInc
	kIf
	kIfElse
	kSwitch1  // case c: A
	kSwitchD  // case c: A default: B
	kSwitch2  // case 0: A case 1: B
	kSwitchM  // case 0, 2: A
	kSwitchDF // default: A case c: B   (default first)
	kRange    // for i := range 3
	kRangeL   // for i := range [7, 8]
	kRangeKV  // for i, v := range [7, 8]
	kRangeM   // for k, v := range m   (m := {"a": 1, "b": 2} in the prelude)
	kFor3     // for i := 0; i < 3; i++
	kForIn    // for v in [7, 8]
	kSimple   // g := 0; for { g++; if g > 2 { break }; ... }
	kCond     // g := 0; for g < 2 { g++; ... }
	kFunc     // func() { ... }()
)

type sk struct {
	k    skKind
	c    int
	a, b []*sk
}

var condSrc = []*lang.N{
	lang.Bool(true),
	lang.Bool(false),
	lang.Bin("==", lang.Bin("%", lang.Call(lang.Id("n")), lang.Int(2)), lang.Int(0)),
	lang.Bin("==", lang.Call(lang.Id("n")), lang.Int(1)),
}

type f2gen struct {
	memoS map[int][]*sk
	memoB map[int][][]*sk
}

var loopKinds = []skKind{kRange, kRangeL, kRangeKV, kRangeM, kFor3, kForIn, kSimple, kCond}

func (g *f2gen) stmts(n int) []*sk {
	if n <= 0 {
		return nil
	}
	if v, ok := g.memoS[n]; ok {
		return v
	}
	var out []*sk
	if n == 1 {
		for _, k := range []skKind{kEmit, kBreak, kContinue, kReturn, kInc} {
			out = append(out, &sk{k: k})
		}
	} else {
		for _, body := range g.blocks(n - 1) {
			for _, k := range loopKinds {
				out = append(out, &sk{k: k, a: body})
			}
			out = append(out, &sk{k: kFunc, a: body})
			for c := range condSrc {
				out = append(out, &sk{k: kIf, c: c, a: body})
			}
			for cv := 0; cv < 2; cv++ {
				out = append(out, &sk{k: kSwitch1, c: cv, a: body})
			}
			out = append(out, &sk{k: kSwitchM, a: body})
		}
		for x := 1; x < n-1; x++ {
			for _, a := range g.blocks(x) {
				for _, b := range g.blocks(n - 1 - x) {
					for _, c := range []int{2, 3} {
						out = append(out, &sk{k: kIfElse, c: c, a: a, b: b})
					}
					out = append(out, &sk{k: kSwitchD, c: 1, a: a, b: b})
					out = append(out, &sk{k: kSwitch2, a: a, b: b})
					out = append(out, &sk{k: kSwitchDF, c: 0, a: a, b: b})
				}
			}
		}
	}
	g.memoS[n] = out
	return out
}

func (g *f2gen) blocks(n int) [][]*sk {
	if n <= 0 {
		return nil
	}
	if v, ok := g.memoB[n]; ok {
		return v
	}
	var out [][]*sk
	g.eachBlock(n, func(b []*sk) { out = append(out, b) })
	g.memoB[n] = out
	return out
}

// eachBlock streams every block of exactly n nodes.
func (g *f2gen) eachBlock(n int, yield func([]*sk)) {
	for _, s := range g.stmts(n) {
		yield([]*sk{s})
	}
	for x := 1; x < n; x++ {
		for _, s := range g.stmts(x) {
			for _, rest := range g.blocks(n - x) {
				yield(append([]*sk{s}, rest...))
			}
		}
	}
}

type skRender struct {
	ids, lv int
	scale   int // > 0: scaled mode (see F2Scaled)
	depth   int // loop nesting depth while rendering
}

func (r *skRender) cond(c int) *lang.N {
	if r.scale == 0 {
		return lang.Clone(condSrc[c])
	}
	switch c {
	case 0:
		return lang.Bool(true)
	case 1:
		return lang.Bool(false)
	case 2:
		return lang.Bin("==", lang.Bin("%", lang.Id("x"), lang.Int(2)), lang.Int(0))
	}
	return lang.Bin("==", lang.Id("x"), lang.Int(1))
}

func (r *skRender) subj() *lang.N {
	if r.scale == 0 {
		return subj()
	}
	return lang.Bin("%", lang.Id("x"), lang.Int(3))
}

func (r *skRender) bound(small int64) *lang.N {
	if r.scale > 0 && r.depth == 1 {
		return lang.Int(int64(r.scale))
	}
	return lang.Int(small)
}

func (r *skRender) block(b []*sk) []*lang.N {
	var out []*lang.N
	for _, s := range b {
		out = append(out, r.stmt(s)...)
	}
	return out
}

func subj() *lang.N { return lang.Bin("%", lang.Call(lang.Id("n")), lang.Int(3)) }

func (r *skRender) stmt(s *sk) []*lang.N {
	switch s.k {
	case kEmit:
		if r.scale > 0 {
			return []*lang.N{lang.Inc("x", "++")}
		}
		r.ids++
		return []*lang.N{lang.Expr(lang.Call(lang.Id("emit"), lang.Int(int64(r.ids))))}
	case kBreak:
		return []*lang.N{lang.Break()}
	case kContinue:
		return []*lang.N{lang.Continue()}
	case kReturn:
		return []*lang.N{lang.Return(nil)}
	case kInc:
		return []*lang.N{lang.Inc("x", "++")}
	case kIf:
		return []*lang.N{lang.If(r.cond(s.c), r.block(s.a), nil)}
	case kIfElse:
		a := r.block(s.a)
		b := r.block(s.b)
		return []*lang.N{lang.If(r.cond(s.c), a, b)}
	case kSwitch1:
		return []*lang.N{lang.Switch(r.subj(), lang.Case{Vals: []*lang.N{lang.Int(int64(s.c))}, Body: r.block(s.a)})}
	case kSwitchM:
		return []*lang.N{lang.Switch(r.subj(), lang.Case{Vals: []*lang.N{lang.Int(0), lang.Int(2)}, Body: r.block(s.a)})}
	case kSwitchD:
		a := r.block(s.a)
		b := r.block(s.b)
		return []*lang.N{lang.Switch(r.subj(), lang.Case{Vals: []*lang.N{lang.Int(int64(s.c))}, Body: a}, lang.Case{Default: true, Body: b})}
	case kSwitchDF:
		a := r.block(s.a)
		b := r.block(s.b)
		return []*lang.N{lang.Switch(r.subj(), lang.Case{Default: true, Body: a}, lang.Case{Vals: []*lang.N{lang.Int(int64(s.c))}, Body: b})}
	case kSwitch2:
		a := r.block(s.a)
		b := r.block(s.b)
		return []*lang.N{lang.Switch(r.subj(), lang.Case{Vals: []*lang.N{lang.Int(0)}, Body: a}, lang.Case{Vals: []*lang.N{lang.Int(1)}, Body: b})}
	case kFunc:
		return []*lang.N{lang.Expr(lang.Call(lang.Func("", nil, r.block(s.a)...)))}
	}
	r.lv++
	r.depth++
	defer func() { r.depth-- }()
	lv := r.lv
	i := fmt.Sprintf("i%d", lv)
	v := fmt.Sprintf("v%d", lv)
	gname := fmt.Sprintf("g%d", lv)
	list78 := func() *lang.N { return lang.List(lang.Int(7), lang.Int(8)) }
	switch s.k {
	case kRange:
		return []*lang.N{lang.ForRange(i, r.bound(3), r.block(s.a)...)}
	case kRangeL:
		return []*lang.N{lang.ForRange(i, list78(), r.block(s.a)...)}
	case kRangeKV:
		return []*lang.N{lang.ForRangeKV(i, v, list78(), r.block(s.a)...)}
	case kRangeM:
		return []*lang.N{lang.ForRangeKV(i, v, lang.Id("m"), r.block(s.a)...)}
	case kFor3:
		return []*lang.N{lang.For3(lang.Var(i, lang.Int(0)), lang.Bin("<", lang.Id(i), r.bound(3)), lang.Inc(i, "++"), r.block(s.a)...)}
	case kForIn:
		return []*lang.N{lang.ForIn(v, list78(), r.block(s.a)...)}
	case kSimple:
		body := append([]*lang.N{lang.Inc(gname, "++"), lang.If(lang.Bin(">", lang.Id(gname), r.bound(2)), []*lang.N{lang.Break()}, nil)}, r.block(s.a)...)
		return []*lang.N{lang.Var(gname, lang.Int(0)), lang.ForInf(body...)}
	case kCond:
		body := append([]*lang.N{lang.Inc(gname, "++")}, r.block(s.a)...)
		return []*lang.N{lang.Var(gname, lang.Int(0)), lang.ForCond(lang.Bin("<", lang.Id(gname), r.bound(2)), body...)}
	}
	panic("f2: kind")
}

func hasLoop(b []*sk) bool {
	for _, s := range b {
		if s.k >= kRange && s.k <= kCond {
			return true
		}
		if hasLoop(s.a) || hasLoop(s.b) {
			return true
		}
	}
	return false
}

func hasSwitch(b []*sk) bool {
	for _, s := range b {
		if s.k >= kSwitch1 && s.k <= kSwitchDF {
			return true
		}
		if hasSwitch(s.a) || hasSwitch(s.b) {
			return true
		}
	}
	return false
}

func ctrlUnderSwitchInLoop(b []*sk, inLoop, underSwitch bool) bool {
	for _, s := range b {
		switch {
		case s.k == kBreak || s.k == kContinue:
			if inLoop && underSwitch {
				return true
			}
		case s.k >= kRange && s.k <= kCond:
			if ctrlUnderSwitchInLoop(s.a, true, false) {
				return true
			}
		case s.k >= kSwitch1 && s.k <= kSwitchDF:
			if ctrlUnderSwitchInLoop(s.a, inLoop, inLoop) || ctrlUnderSwitchInLoop(s.b, inLoop, inLoop) {
				return true
			}
		case s.k == kFunc:
			if ctrlUnderSwitchInLoop(s.a, false, false) {
				return true
			}
		default:
			if ctrlUnderSwitchInLoop(s.a, inLoop, underSwitch) || ctrlUnderSwitchInLoop(s.b, inLoop, underSwitch) {
				return true
			}
		}
	}
	return false
}

func hasFunc(b []*sk) bool {
	for _, s := range b {
		if s.k == kFunc || hasFunc(s.a) || hasFunc(s.b) {
			return true
		}
	}
	return false
}

// F2Filter selects which skeletons of a given size are produced.
type F2Filter int

const (
	F2All F2Filter = iota
	F2LoopAndSwitchOrFunc // programs that combine a loop with a switch or a function literal
	F2CtrlUnderSwitchInLoop // programs with a break/continue/return lexically under a switch (or if) under a loop
)

// F2 streams every control-skeleton program with exactly n statement nodes.
func F2(n int, filter F2Filter, yield func(Program)) {
	g := &f2gen{memoS: map[int][]*sk{}, memoB: map[int][][]*sk{}}
	g.eachBlock(n, func(b []*sk) {
		if filter == F2LoopAndSwitchOrFunc && !(hasLoop(b) && (hasSwitch(b) || hasFunc(b))) {
			return
		}
		if filter == F2CtrlUnderSwitchInLoop && !ctrlUnderSwitchInLoop(b, false, false) {
			return
		}
		r := &skRender{}
		body := r.block(b)
		prog := []*lang.N{
			lang.Var("x", lang.Int(0)),
			lang.Var("m", lang.Map(lang.Str("a"), lang.Int(1), lang.Str("b"), lang.Int(2))),
		}
		prog = append(prog, body...)
		prog = append(prog, lang.Expr(lang.List(lang.Id("x"), lang.Call(lang.Id("n")))))
		yield(Program{Fam: "F2", Prog: prog, Names: []string{"x"}})
	})
}

// F2Count returns the number of programs F2 yields for n without rendering them.
func F2Count(n int) int {
	g := &f2gen{memoS: map[int][]*sk{}, memoB: map[int][][]*sk{}}
	c := 0
	g.eachBlock(n, func([]*sk) { c++ })
	return c
}

// outerLoopsScalable: every loop that is not nested in another loop is of a kind whose bound can be scaled,
// and there is at least one.
func outerLoopsScalable(b []*sk) (ok bool, n int) {
	ok = true
	for _, s := range b {
		switch {
		case s.k == kInc:
			return false, 0
		case s.k == kRange || s.k == kFor3 || s.k == kSimple || s.k == kCond:
			n++
			if hasKind(s.a, kInc) {
				return false, 0
			}
		case s.k >= kRange && s.k <= kCond:
			return false, 0
		default:
			o1, n1 := outerLoopsScalable(s.a)
			o2, n2 := outerLoopsScalable(s.b)
			if !o1 || !o2 {
				return false, 0
			}
			n += n1 + n2
		}
	}
	return ok, n
}

func hasKind(b []*sk, k skKind) bool {
	for _, s := range b {
		if s.k == k || hasKind(s.a, k) || hasKind(s.b, k) {
			return true
		}
	}
	return false
}

// F2Scaled streams the loop skeletons with exactly n nodes whose outermost loops run K iterations
// (emit sites become x++, conditions read x). The result of the program is x.
func F2Scaled(n, K int, yield func(Program)) {
	g := &f2gen{memoS: map[int][]*sk{}, memoB: map[int][][]*sk{}}
	g.eachBlock(n, func(b []*sk) {
		if ok, cnt := outerLoopsScalable(b); !ok || cnt == 0 {
			return
		}
		r := &skRender{scale: K}
		body := r.block(b)
		prog := []*lang.N{
			lang.Var("x", lang.Int(0)),
			lang.Var("m", lang.Map(lang.Str("a"), lang.Int(1), lang.Str("b"), lang.Int(2))),
		}
		prog = append(prog, body...)
		prog = append(prog, lang.Expr(lang.Id("x")))
		yield(Program{Fam: "F2S", Prog: prog, Names: []string{"x"}})
	})
}
