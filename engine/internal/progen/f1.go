package progen

import (
	"strings"

	"verif/internal/lang"
)

// ------------------------------------------------------------------ F1 operators
//
// F1 enumerates *flat* operator sequences (no parentheses except where a group
// is generated on purpose) and parses them with the model's own precedence
// table; the resulting tree is what the language's rules assign to the text.

// BinOps are the 19 binary operators, with the binding power the language gives them.
var BinOps = []string{"+", "-", "*", "/", "%", "**", "<<", ">>", "&", "==", "!=", "<", "<=", ">", ">=", "&&", "||", "in", "not in"}

var power = map[string]int{
	"&&": 3, "||": 3,
	"?":  6,
	"==": 7, "!=": 7,
	"<": 8, "<=": 8, ">": 8, ">=": 8,
	"+": 9, "-": 9,
	"*": 10, "/": 10, "&": 10, "<<": 10, ">>": 10,
	"**": 11,
	"%":  12,
	"in": 13, "not in": 13,
}

const prefixPower = 13

// ft is one flat token.
type ft struct {
	kind string // "atom", "op", "pre", "(", ")", "?", ":"
	text string
	node *lang.N // atoms
	toks []lang.Tok
}

type f1parser struct {
	t   []ft
	pos int
	bad bool
}

func (p *f1parser) peek() *ft {
	if p.pos < len(p.t) {
		return &p.t[p.pos]
	}
	return nil
}

func (p *f1parser) expr(min int, inTern bool) *lang.N {
	var left *lang.N
	t := p.peek()
	if t == nil {
		p.bad = true
		return lang.Nil()
	}
	p.pos++
	switch t.kind {
	case "atom":
		left = t.node
	case "pre":
		left = lang.Pre(t.text, p.expr(prefixPower, inTern))
	case "(":
		left = lang.Group(p.expr(0, inTern))
		if n := p.peek(); n == nil || n.kind != ")" {
			p.bad = true
			return left
		}
		p.pos++
	default:
		p.bad = true
		return lang.Nil()
	}
	for {
		t := p.peek()
		if t == nil {
			return left
		}
		switch t.kind {
		case "op":
			pw := power[t.text]
			if pw <= min {
				return left
			}
			p.pos++
			right := p.expr(pw, inTern)
			left = lang.Bin(t.text, left, right)
		case "?":
			if power["?"] <= min {
				return left
			}
			p.pos++
			a := p.expr(0, true)
			if n := p.peek(); n == nil || n.kind != ":" {
				p.bad = true
				return left
			}
			p.pos++
			b := p.expr(0, true)
			left = lang.Tern(left, a, b)
		default:
			return left
		}
	}
}

func opTok(op string) ft {
	return ft{kind: "op", text: op, toks: []lang.Tok{{T: op, NLAfter: op != "in" && op != "not in"}}}
}
func preTok(op string) ft  { return ft{kind: "pre", text: op, toks: []lang.Tok{{T: op}}} }
func symTok(s string) ft   { return ft{kind: s, text: s, toks: []lang.Tok{{T: s}}} }
func atomOf(n *lang.N) ft  { return ft{kind: "atom", node: n, toks: lang.RenderExpr(n)} }

// build parses the flat sequence with the model's table and returns a program
// whose source is exactly the flat token sequence.
func buildF1(fam string, prelude []*lang.N, seq []ft) (Program, bool) {
	p := &f1parser{t: seq}
	tree := p.expr(0, false)
	if p.bad || p.pos != len(seq) {
		return Program{}, false
	}
	var toks []lang.Tok
	if len(prelude) > 0 {
		toks = append(toks, lang.Render(prelude)...)
		toks = append(toks, lang.Tok{T: "\n", NL: true, Stmt: true})
	}
	for i, t := range seq {
		for j, tk := range t.toks {
			if t.kind == "pre" {
				// the operand of a prefix operator follows without a space
				_ = j
			}
			toks = append(toks, tk)
		}
		if i > 0 && seq[i-1].kind == "pre" && len(t.toks) > 0 {
			toks[len(toks)-len(t.toks)].Tight = true
		}
		if t.kind == ")" {
			toks[len(toks)-1].Tight = true
		}
	}
	prog := append(append([]*lang.N{}, prelude...), lang.Expr(tree))
	return Program{Fam: fam, Prog: prog, Toks: toks}, true
}

// Dump renders an expression tree fully parenthesised (groups are transparent).
func Dump(n *lang.N) string {
	switch n.K {
	case lang.EGroup:
		return Dump(n.A[0])
	case lang.EBin:
		return "(" + Dump(n.A[0]) + " " + n.Op + " " + Dump(n.A[1]) + ")"
	case lang.EPre:
		return "(" + n.Op + Dump(n.A[0]) + ")"
	case lang.ETern:
		return "(" + Dump(n.A[0]) + " ? " + Dump(n.A[1]) + " : " + Dump(n.A[2]) + ")"
	case lang.ECall:
		parts := []string{}
		for _, a := range n.A[1:] {
			parts = append(parts, Dump(a))
		}
		return Dump(n.A[0]) + "(" + strings.Join(parts, ", ") + ")"
	case lang.EMeth:
		parts := []string{}
		for _, a := range n.A[1:] {
			parts = append(parts, Dump(a))
		}
		return Dump(n.A[0]) + "." + n.S + "(" + strings.Join(parts, ", ") + ")"
	case lang.EIndex:
		return Dump(n.A[0]) + "[" + Dump(n.A[1]) + "]"
	case lang.EList:
		parts := []string{}
		for _, a := range n.A {
			parts = append(parts, Dump(a))
		}
		return "[" + strings.Join(parts, ", ") + "]"
	case lang.EMap:
		parts := []string{}
		for i := 0; i+1 < len(n.A); i += 2 {
			parts = append(parts, Dump(n.A[i])+": "+Dump(n.A[i+1]))
		}
		return "{" + strings.Join(parts, ", ") + "}"
	}
	return lang.Source(lang.RenderExpr(n))
}

// F1Shapes streams the parse-shape family: identifiers as operands.
// maxOps: longest plain operator chain.
func F1Shapes(maxOps int, yield func(Program)) {
	ids := []string{"a", "b", "c", "d", "e", "f"}
	atom := func(i int) ft { return atomOf(lang.Id(ids[i])) }
	emit := func(seq []ft) {
		if p, ok := buildF1("F1shape", nil, seq); ok {
			yield(p)
		}
	}
	// S1: plain chains
	var rec func(seq []ft, k, n int)
	rec = func(seq []ft, k, n int) {
		if k == n {
			emit(seq)
			return
		}
		for _, op := range BinOps {
			rec(append(append([]ft{}, seq...), opTok(op), atom(k+1)), k+1, n)
		}
	}
	for n := 1; n <= maxOps; n++ {
		rec([]ft{atom(0)}, 0, n)
	}
	for _, o1 := range BinOps {
		for _, o2 := range BinOps {
			// S2: a prefix operator on each operand position
			for pos := 0; pos < 3; pos++ {
				for _, pre := range []string{"-", "!"} {
					var seq []ft
					for i := 0; i < 3; i++ {
						if i == 1 {
							seq = append(seq, opTok(o1))
						}
						if i == 2 {
							seq = append(seq, opTok(o2))
						}
						if i == pos {
							seq = append(seq, preTok(pre))
						}
						seq = append(seq, atom(i))
					}
					emit(seq)
				}
			}
			// S5: postfix forms bind tightest
			emit([]ft{atom(0), opTok(o1), atomOf(lang.Call(lang.Id("f"), lang.Id("b"))), opTok(o2), atomOf(lang.Index(lang.Id("c"), lang.Id("d")))})
			emit([]ft{atom(0), opTok(o1), atomOf(lang.Meth(lang.Id("b"), "m", lang.Id("c"))), opTok(o2), atom(3)})
			for _, o3 := range BinOps {
				// S3: an explicit group around each adjacent pair of a 3-operator chain
				for g := 0; g < 3; g++ {
					var seq []ft
					for i := 0; i < 4; i++ {
						if i > 0 {
							seq = append(seq, opTok([]string{o1, o2, o3}[i-1]))
						}
						if i == g {
							seq = append(seq, symTok("("))
						}
						seq = append(seq, atom(i))
						if i == g+1 {
							seq = append(seq, symTok(")"))
						}
					}
					emit(seq)
				}
				// S4: ternary with an operator in the condition and in each branch
				emit([]ft{atom(0), opTok(o1), atom(1), symTok("?"), atom(2), opTok(o2), atom(3), symTok(":"), atom(4), opTok(o3), atom(5)})
			}
			// S6: ternary branches that start with a prefix operator, a group, a list index
			for _, first := range [][]ft{{preTok("-"), atom(2)}, {preTok("!"), atom(2)}, {symTok("("), atom(2), symTok(")")}, {atomOf(lang.Index(lang.List(lang.Id("c")), lang.Int(0)))}} {
				seq := []ft{atom(0), symTok("?")}
				seq = append(seq, first...)
				seq = append(seq, opTok(o1), atom(3), symTok(":"))
				seq = append(seq, first...)
				seq = append(seq, opTok(o2), atom(4))
				emit(seq)
			}
		}
	}
}

// F1Values streams the evaluation family: every chain of n operators over a value pool.
func F1Values(nOps int, pool []*lang.N, yield func(Program)) {
	var rec func(seq []ft, k int)
	rec = func(seq []ft, k int) {
		if k == nOps {
			if p, ok := buildF1("F1val", nil, seq); ok {
				yield(p)
			}
			return
		}
		for _, op := range BinOps {
			for _, v := range pool {
				rec(append(append([]ft{}, seq...), opTok(op), atomOf(lang.Clone(v))), k+1)
			}
		}
	}
	for _, v := range pool {
		rec([]ft{atomOf(lang.Clone(v))}, 0)
	}
}

// F1Prefix: prefix operators and ternaries over the value pool (one binary operator).
func F1Prefix(pool []*lang.N, yield func(Program)) {
	for _, pre := range []string{"-", "!"} {
		for _, v := range pool {
			if p, ok := buildF1("F1pre", nil, []ft{preTok(pre), atomOf(lang.Clone(v))}); ok {
				yield(p)
			}
			for _, op := range BinOps {
				for _, w := range pool {
					if p, ok := buildF1("F1pre", nil, []ft{preTok(pre), atomOf(lang.Clone(v)), opTok(op), atomOf(lang.Clone(w))}); ok {
						yield(p)
					}
					if p, ok := buildF1("F1pre", nil, []ft{atomOf(lang.Clone(w)), opTok(op), preTok(pre), atomOf(lang.Clone(v))}); ok {
						yield(p)
					}
				}
			}
		}
	}
	for _, c := range pool {
		for _, op := range BinOps {
			for _, w := range pool {
				seq := []ft{atomOf(lang.Clone(c)), symTok("?"), atomOf(lang.Int(7)), opTok(op), atomOf(lang.Clone(w)), symTok(":"), preTok("-"), atomOf(lang.Int(1)), opTok(op), atomOf(lang.Clone(w))}
				if p, ok := buildF1("F1tern", nil, seq); ok {
					yield(p)
				}
			}
		}
	}
}

// ValuePool is the typed operand pool (primes so that associativity is observable).
func ValuePool(n int) []*lang.N {
	all := []*lang.N{lang.Int(2), lang.Int(3), lang.Float(1.5), lang.Str("a"), lang.Bool(true), lang.List(lang.Int(1), lang.Int(2)), lang.Nil(), lang.Int(5), lang.Map(lang.Str("a"), lang.Int(1)), lang.Int(0), lang.Str(""), lang.Bool(false)}
	if n > len(all) {
		n = len(all)
	}
	return all[:n]
}
