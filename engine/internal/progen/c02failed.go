package progen

import (
	"fmt"

	. "verif/internal/lang"
)

// C02Failed: a call that creates a closure over one of its own variables and then does NOT return - it
// raises an error itself, indexes out of range, has a callback fail, fails three frames further down - is
// followed, at the same frame depth, by further calls of the same function. Every call has its own
// variable n: its closure counts that n and no other, and the call itself keeps seeing what its closure
// wrote. Three calls in a row, each with one of five endings (return normally, four ways to fail) reached
// by one of three routes (under try with a handler, under try without one, as a list.map callback under
// try); afterwards every closure ever created - also those of the failed calls, kept in a global list -
// is called twice. What goes wrong when anything about a call outlives its failure is that a later call's
// closure counts an earlier call's variable.
func C02Failed(yield func(Program)) {
	fn := func(p []Param, body ...*N) *N { return Func("", p, body...) }
	const modes, routes = 5, 3
	for _, big := range []bool{false, true} {
		for c1 := 0; c1 < modes*routes; c1++ {
			for c2 := 0; c2 < modes*routes; c2++ {
				for c3 := 0; c3 < modes*routes; c3++ {
					if big && (c1+c2+c3)%4 != 0 {
						continue
					}
					var body []*N
					if big {
						body = append(body, padLocals()...)
					}
					body = append(body,
						Var("n", Id("start")),
						Var("inc", fn(nil, Set1("n", Bin("+", Id("n"), Int(1))), Return(Id("n")))),
						Expr(Meth(Id("keep"), "append", Id("inc"))),
						If(Bin("==", Id("mode"), Int(1)), []*N{Expr(callE("error", Str("boom")))}, nil),
						If(Bin("==", Id("mode"), Int(2)), []*N{Expr(Index(List(Int(1)), Int(5)))}, nil),
						If(Bin("==", Id("mode"), Int(3)), []*N{Expr(Meth(List(Int(1), Int(2)), "each", fn(P("x"), Expr(callE("inc")), Expr(callE("error", Str("cb"))))))}, nil),
						If(Bin("==", Id("mode"), Int(4)), []*N{Expr(callE("deep", Int(3)))}, nil),
						Set1("n", Bin("+", Id("n"), Int(100))),
						Return(List(callE("inc"), Id("n"))))
					st := []*N{
						Var("keep", List()),
						FuncDecl("deep", P("d"), If(Bin("==", Id("d"), Int(0)), []*N{Expr(callE("error", Str("deep")))}, nil), Return(Bin("+", callE("deep", Bin("-", Id("d"), Int(1))), Int(1)))),
						FuncDecl("mk", P("start", "mode"), body...),
					}
					for i, c := range []int{c1, c2, c3} {
						mode, route := int64(c%modes), c/modes
						start := Int(int64(10 * (i + 1)))
						call := callE("mk", start, Int(mode))
						switch route {
						case 0:
							st = append(st, emitE(callE("try", fn(nil, Return(call)), fn(P("e"), Return(Str("failed"))))))
						case 1:
							st = append(st, emitE(callE("try", fn(nil, Return(call)))))
						default:
							st = append(st, emitE(callE("try", fn(nil, Return(Meth(List(start), "map", fn(P("s"), Return(callE("mk", Id("s"), Int(mode))))))), fn(P("e"), Return(Str("failed"))))))
						}
					}
					for k := int64(0); k < 3; k++ {
						st = append(st, emitE(Call(Index(Id("keep"), Int(k)))), emitE(Call(Index(Id("keep"), Int(k)))))
					}
					yield(Program{Fam: "C02failed", Prog: st, Meta: fmt.Sprintf("failed-calls big-frame=%v calls=%d,%d,%d", big, c1, c2, c3)})
				}
			}
		}
	}
}
