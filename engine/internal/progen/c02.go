package progen

import (
	"fmt"

	. "verif/internal/lang"
)

// C02 streams the closure family: nesting depth d (the innermost function is
// level d, level 0 is the top level), the level o < d that owns the captured
// variable, for every enclosing function whether it calls the next level in
// place or returns it uncalled (so that it is called after its definer has
// returned), read or write access, and the route by which the escaped innermost
// function is finally invoked.
func C02(thorough bool, yield func(Program)) {
	maxD := 3
	if thorough {
		maxD = 5
	}
	routes := []string{"direct", "list", "map", "mapattr", "mapcb", "trycb", "callcb", "spawn", "fnspawn", "vmcall", "nestedcb"}
	for d := 1; d <= maxD; d++ {
		for o := 0; o < d; o++ {
			for mode := 0; mode < 1<<uint(d-1); mode++ {
				for _, write := range []bool{false, true} {
					lastChain := d > 1 && mode&(1<<uint(d-2)) != 0
					rs := routes
					if d > 1 && !lastChain {
						rs = []string{"direct"} // the innermost function is called in place; there is no escaped closure
					}
					for _, route := range rs {
						yield(c02Program(d, o, mode, write, route))
					}
				}
			}
		}
	}
}

// chain reports whether level i (1 <= i <= d-1) returns the next function uncalled.
func chainAt(mode, i int) bool { return mode&(1<<uint(i-1)) != 0 }

func c02Program(d, o, mode int, write bool, route string) Program {
	v := func(i int) string { return fmt.Sprintf("v%d", i) }
	f := func(i int) string { return fmt.Sprintf("f%d", i) }
	// innermost function (level d)
	var innerBody []*N
	if write {
		innerBody = append(innerBody, Set1(v(o), Bin("+", Id(v(o)), Int(1))))
	}
	innerBody = append(innerBody, Return(List(Id(v(o)), Id("z"))))
	cur := Func("", P("z"), innerBody...)
	// wrap levels d-1 .. 1
	for i := d - 1; i >= 1; i-- {
		var body []*N
		body = append(body, Var(v(i), Bin("+", Bin("*", Id("a"), Int(10)), Int(int64(i)))))
		if i == o {
			body = append(body, Expr(Meth(Id("peeks"), "append", Func("", nil, Return(Id(v(i)))))))
		}
		body = append(body, Var(f(i+1), cur))
		if chainAt(mode, i) {
			body = append(body, Return(Id(f(i+1))))
		} else {
			body = append(body, Return(callE(f(i+1), Int(int64(i+1)))))
		}
		cur = Func("", P("a"), body...)
	}
	var st []*N
	st = append(st, Var("peeks", List()))
	st = append(st, Var("v0", Int(1000)))
	if o == 0 {
		st = append(st, Expr(Meth(Id("peeks"), "append", Func("", nil, Return(Id("v0"))))))
	}
	st = append(st, Var("f1", cur))
	// top level: call f1, then every returned function in turn
	st = append(st, Var("x", callE("f1", Int(1))))
	nonAdjacent := false
	if d > 1 {
		// pending calls: one for each chain level, in order
		for i := 1; i <= d-2; i++ {
			if chainAt(mode, i) {
				st = append(st, Set1("x", callE("x", Int(int64(i+1)))))
			}
		}
		// A capture over two or more function levels is resolved by frame position at the moment
		// the innermost literal is evaluated: it is right only while every function between the
		// owner (level o >= 1) and level d-1 was called in place by its definer.
		if o >= 1 && d-o >= 2 {
			for j := o; j <= d-2; j++ {
				if chainAt(mode, j) {
					nonAdjacent = true
				}
			}
		}
	}
	post := []string{}
	lastChain := d == 1 || chainAt(mode, d-1)
	if !lastChain {
		st = append(st, emitE(Id("x")))
	} else {
		// x is the escaped innermost function (for d == 1 it is f1 itself)
		if d == 1 {
			st[len(st)-1] = Var("x", Id("f1"))
		}
		call := func() *N {
			switch route {
			case "direct":
				return callE("x", Int(0))
			case "list":
				return Call(Index(List(Id("x")), Int(0)), Int(0))
			case "map":
				return Call(Index(Map(Str("f"), Id("x")), Str("f")), Int(0))
			case "mapattr":
				return Meth(Id("mm"), "f", Int(0))
			case "mapcb":
				return Index(Meth(List(Int(0)), "map", Id("x")), Int(0))
			case "trycb":
				return callE("try", Func("", nil, Return(callE("x", Int(0)))))
			case "callcb":
				return callE("call", Id("x"), Int(0))
			case "spawn":
				return Meth(callE("spawn", Id("x"), Int(0)), "wait")
			case "fnspawn":
				return Meth(Meth(Id("x"), "spawn", Int(0)), "wait")
			case "nestedcb":
				return Index(Meth(List(Int(0)), "map", Func("", P("q"), Return(callE("x", Id("q"))))), Int(0))
			}
			return Nil()
		}
		if route == "mapattr" {
			st = append(st, Var("mm", Map(Str("f"), Id("x"))))
		}
		if route == "vmcall" {
			post = []string{"x", "x"}
		} else {
			st = append(st, emitE(call()), emitE(call()))
		}
	}
	if route != "vmcall" {
		st = append(st, emitE(Call(Index(Id("peeks"), Int(0)))))
	} else {
		post = append(post, "peek0")
		st = append(st, Var("peek0", Index(Id("peeks"), Int(0))))
	}
	st = append(st, Expr(Id("v0")))
	tag := ""
	if nonAdjacent {
		tag = "capture-across-returned-frame"
	}
	return Program{Fam: "C02", Prog: st, Names: []string{"v0"}, Tag: tag, Post: post,
		Meta: fmt.Sprintf("depth=%d owner=%d mode=%b write=%v route=%s", d, o, mode, write, route)}
}
