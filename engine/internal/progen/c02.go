package progen

import (
	"fmt"

	. "verif/internal/lang"
)

// C02 streams the closure family: nesting depth d (the innermost function is
// level d, level 0 is the top level), the level o < d that owns the captured
// variable, for every enclosing function whether it calls the next level in
// place or returns it uncalled (so that it is called after its definer has
// returned), read or write access, and the route by which the escaped innermost
// function is finally invoked.
func C02(thorough bool, yield func(Program)) { c02(thorough, yield, true) }

// C02Corpus is C02 as a member of the shared corpus (C04, C17, C20 run every program through many variants): the two
// large sequence families are thinned to every 64th / 8th program there; the C02 check itself runs them in full.
func C02Corpus(thorough bool, yield func(Program)) { c02(thorough, yield, false) }

func c02(thorough bool, yield func(Program), full bool) {
	if thorough {
		C02Multi(5, yield)
	} else {
		C02Multi(4, yield)
	}
	C02Events(yield)
	C02Width(yield)
	if full {
		C02Failed(yield)
		C02Host(yield)
	} else {
		n := 0
		C02Failed(func(p Program) {
			if n++; n%64 == 0 {
				yield(p)
			}
		})
		C02Host(func(p Program) {
			if n++; n%8 == 0 {
				yield(p)
			}
		})
	}
	maxD := 3
	if thorough {
		maxD = 5
	}
	sibLen := 3
	if thorough {
		sibLen = 4
	}
	c02Siblings(sibLen, yield)
	routes := []string{"direct", "list", "map", "mapattr", "mapcb", "trycb", "callcb", "spawn", "fnspawn", "vmcall", "nestedcb"}
	for d := 1; d <= maxD; d++ {
		for o := 0; o < d; o++ {
			for mode := 0; mode < 1<<uint(d-1); mode++ {
				for _, write := range []bool{false, true} {
					lastChain := d > 1 && mode&(1<<uint(d-2)) != 0
					rs := routes
					if d > 1 && !lastChain {
						rs = []string{"direct"} // the innermost function is called in place; there is no escaped closure
					}
					for _, route := range rs {
						yield(c02Program(d, o, mode, write, route, false))
						if route == "direct" || route == "mapcb" || route == "vmcall" {
							yield(c02Program(d, o, mode, write, route, true))
						}
					}
				}
			}
		}
	}
}

// c02Siblings: three closures over one binding (inc, get, reset) escape from their defining call
// and are then called in every order of up to maxLen calls; nested = the closures are created one
// function level deeper (inside a helper that is called in place).
func c02Siblings(maxLen int, yield func(Program)) {
	names := []string{"inc", "get", "reset"}
	for _, variant := range []int{0, 1, 2, 3} {
		nested := variant&1 == 1
		big := variant&2 == 2 // the defining function has more local slots than a frame holds inline
		var rec func(seq []int)
		rec = func(seq []int) {
			if len(seq) > 0 {
				mkClosures := []*N{
					Var("inc", Func("", nil, Set1("c", Bin("+", Id("c"), Int(1))), Return(Id("c")))),
					Var("get", Func("", nil, Return(Id("c")))),
					Var("reset", Func("", P("v"), Set1("c", Id("v")), Return(Id("c")))),
					Return(List(Id("inc"), Id("get"), Id("reset"))),
				}
				var mk *N
				pre := []*N{Var("c", Id("start"))}
				if big {
					pre = append(padLocals(), pre...)
				}
				if nested {
					mk = FuncDecl("mk", P("start"), append(pre, Var("helper", Func("", nil, mkClosures...)), Return(callE("helper")))...)
				} else {
					mk = FuncDecl("mk", P("start"), append(pre, mkClosures...)...)
				}
				st := []*N{mk, Var("a", callE("mk", Int(10))), Var("b", callE("mk", Int(100)))}
				for k, i := range seq {
					// alternate between the two independent instances to show that bindings are per call
					inst := "a"
					if k%2 == 1 {
						inst = "b"
					}
					f := Index(Id(inst), Int(int64(i)))
					if names[i] == "reset" {
						st = append(st, emitE(Call(f, Int(int64(7+k)))))
					} else {
						st = append(st, emitE(Call(f)))
					}
				}
				st = append(st, emitE(List(Call(Index(Id("a"), Int(1))), Call(Index(Id("b"), Int(1))))))
				tag := ""
				if nested {
					tag = "" // helper is called in place: the capture is one level for the closures (c is owned by mk, two levels up)
				}
				yield(Program{Fam: "C02sib", Prog: st, Tag: tag, Meta: fmt.Sprintf("siblings nested=%v big-frame=%v calls=%v", nested, big, seq)})
			}
			if len(seq) == maxLen {
				return
			}
			for i := range names {
				rec(append(append([]int{}, seq...), i))
			}
		}
		rec(nil)
	}
}

// padLocals declares ten extra local variables, so that the function needs more local slots than a
// frame stores inline (the VM switches to separately allocated storage above 8).
func padLocals() []*N {
	var out []*N
	for i := 1; i <= 10; i++ {
		out = append(out, Var(fmt.Sprintf("pad%d", i), Int(int64(i))))
	}
	return out
}

// chain reports whether level i (1 <= i <= d-1) returns the next function uncalled.
func chainAt(mode, i int) bool { return mode&(1<<uint(i-1)) != 0 }

func c02Program(d, o, mode int, write bool, route string, big bool) Program {
	v := func(i int) string { return fmt.Sprintf("v%d", i) }
	f := func(i int) string { return fmt.Sprintf("f%d", i) }
	// innermost function (level d)
	var innerBody []*N
	if write {
		innerBody = append(innerBody, Set1(v(o), Bin("+", Id(v(o)), Int(1))))
	}
	innerBody = append(innerBody, Return(List(Id(v(o)), Id("z"))))
	cur := Func("", P("z"), innerBody...)
	// wrap levels d-1 .. 1
	for i := d - 1; i >= 1; i-- {
		var body []*N
		if big {
			body = append(body, padLocals()...)
		}
		body = append(body, Var(v(i), Bin("+", Bin("*", Id("a"), Int(10)), Int(int64(i)))))
		if i == o {
			body = append(body, Expr(Meth(Id("peeks"), "append", Func("", nil, Return(Id(v(i)))))))
		}
		body = append(body, Var(f(i+1), cur))
		if chainAt(mode, i) {
			body = append(body, Return(Id(f(i+1))))
		} else {
			body = append(body, Return(callE(f(i+1), Int(int64(i+1)))))
		}
		cur = Func("", P("a"), body...)
	}
	var st []*N
	st = append(st, Var("peeks", List()))
	st = append(st, Var("v0", Int(1000)))
	if o == 0 {
		st = append(st, Expr(Meth(Id("peeks"), "append", Func("", nil, Return(Id("v0"))))))
	}
	st = append(st, Var("f1", cur))
	// top level: call f1, then every returned function in turn
	st = append(st, Var("x", callE("f1", Int(1))))
	nonAdjacent := false
	if d > 1 {
		// pending calls: one for each chain level, in order
		for i := 1; i <= d-2; i++ {
			if chainAt(mode, i) {
				st = append(st, Set1("x", callE("x", Int(int64(i+1)))))
			}
		}
		// A capture over two or more function levels is resolved by frame position at the moment
		// the innermost literal is evaluated: it is right only while every function between the
		// owner (level o >= 1) and level d-1 was called in place by its definer.
		if o >= 1 && d-o >= 2 {
			for j := o; j <= d-2; j++ {
				if chainAt(mode, j) {
					nonAdjacent = true
				}
			}
		}
	}
	post := []string{}
	lastChain := d == 1 || chainAt(mode, d-1)
	if !lastChain {
		st = append(st, emitE(Id("x")))
	} else {
		// x is the escaped innermost function (for d == 1 it is f1 itself)
		if d == 1 {
			st[len(st)-1] = Var("x", Id("f1"))
		}
		call := func() *N {
			switch route {
			case "direct":
				return callE("x", Int(0))
			case "list":
				return Call(Index(List(Id("x")), Int(0)), Int(0))
			case "map":
				return Call(Index(Map(Str("f"), Id("x")), Str("f")), Int(0))
			case "mapattr":
				return Meth(Id("mm"), "f", Int(0))
			case "mapcb":
				return Index(Meth(List(Int(0)), "map", Id("x")), Int(0))
			case "trycb":
				return callE("try", Func("", nil, Return(callE("x", Int(0)))))
			case "callcb":
				return callE("call", Id("x"), Int(0))
			case "spawn":
				return Meth(callE("spawn", Id("x"), Int(0)), "wait")
			case "fnspawn":
				return Meth(Meth(Id("x"), "spawn", Int(0)), "wait")
			case "nestedcb":
				return Index(Meth(List(Int(0)), "map", Func("", P("q"), Return(callE("x", Id("q"))))), Int(0))
			}
			return Nil()
		}
		if route == "mapattr" {
			st = append(st, Var("mm", Map(Str("f"), Id("x"))))
		}
		if route == "vmcall" {
			post = []string{"x", "x"}
		} else {
			st = append(st, emitE(call()), emitE(call()))
		}
	}
	if route != "vmcall" {
		st = append(st, emitE(Call(Index(Id("peeks"), Int(0)))))
	} else {
		post = append(post, "peek0")
		st = append(st, Var("peek0", Index(Id("peeks"), Int(0))))
	}
	st = append(st, Expr(Id("v0")))
	tag := ""
	if nonAdjacent {
		tag = "capture-across-returned-frame"
	}
	return Program{Fam: "C02", Prog: st, Names: []string{"v0"}, Tag: tag, Post: post,
		Meta: fmt.Sprintf("depth=%d owner=%d mode=%b write=%v route=%s big-frames=%v", d, o, mode, write, route, big)}
}

// C02Multi: the innermost function uses a variable of EVERY enclosing function at once (the first
// parameter of each, so they all have the same local slot number, or shifted by a padding local),
// reads or updates all of them, and is called twice. Shapes: nesting depth 2..maxDepth, every
// combination of "called in place" / "returned and called later" per level, read / write,
// aligned / shifted slots, and a sibling closure per level that observes the level's variable.
func C02Multi(maxDepth int, yield func(Program)) {
	p := func(i int) string { return fmt.Sprintf("p%d", i) }
	for d := 2; d <= maxDepth; d++ {
		for mode := 0; mode < 1<<uint(d-1); mode++ {
			for _, write := range []bool{false, true} {
				for _, shift := range []bool{false, true} {
					// innermost: level d, parameter p_d
					var items []*N
					var body []*N
					for i := 1; i <= d; i++ {
						if write {
							body = append(body, Assign(Id(p(i)), "+=", Int(int64(100*i))))
						}
						items = append(items, Id(p(i)))
					}
					body = append(body, Return(List(items...)))
					cur := Func("", P(p(d)), body...)
					for i := d - 1; i >= 1; i-- {
						var b []*N
						if shift && i%2 == 0 {
							b = append(b, Var(fmt.Sprintf("pad%d", i), Int(0)))
						}
						b = append(b, Expr(Meth(Id("peeks"), "append", Func("", nil, Return(Id(p(i)))))))
						b = append(b, Var("inner", cur))
						if chainAt(mode, i) {
							b = append(b, Return(Id("inner")))
						} else {
							b = append(b, Return(callE("inner", Int(int64(10*(i+1))))))
						}
						cur = Func("", P(p(i)), b...)
					}
					st := []*N{Var("peeks", List()), Var("f1", cur), Var("x", callE("f1", Int(10)))}
					// x is a function once for every level that returned its inner function uncalled: call
					// them in turn, the last one twice (the second call sees what the first one wrote)
					var pending []int
					for i := 1; i <= d-1; i++ {
						if chainAt(mode, i) {
							pending = append(pending, i+1)
						}
					}
					for k, lvl := range pending {
						if k == len(pending)-1 {
							st = append(st, Var("r1", callE("x", Int(int64(10*lvl)))), Var("r2", callE("x", Int(int64(10*lvl+1)))), Set1("x", List(Id("r1"), Id("r2"))))
						} else {
							st = append(st, Set1("x", callE("x", Int(int64(10*lvl)))))
						}
					}
					st = append(st, emitE(Id("x")), emitE(Meth(Id("peeks"), "map", Func("", P("g"), Return(callE("g"))))))
					yield(Program{Fam: "C02multi", Prog: st, Meta: fmt.Sprintf("depth %d mode %b write %v shift %v", d, mode, write, shift)})
				}
			}
		}
	}
}
