package progen

import (
	"fmt"

	. "verif/internal/lang"
)

// F10: programs that sit exactly on a size boundary of the bytecode format - one-byte and two-byte operands,
// the largest parameter list - and one step to either side of it. Each is an ordinary program; only its size is
// special. (Not part of the shared corpus: a 65537-line program has no place in checks that vary every token gap.)
//
//	parameters   a function with 253, 254, 255 parameters (255 is the most the compiler takes), named and
//	             anonymous, called with all arguments, its result built from the first, the last and a middle one;
//	             the named one also calls itself once (a named function has a slot for itself after its parameters)
//	mentions     m.a written 255, 256, 257, 65535, 65536, 65537 times and then m.b (the operand that selects an
//	             attribute name is 16 bits wide)
//	constants    255, 256, 257 distinct integer and string constants in one list, the last ones read back
//	globals      255, 256, 257 global variables, the first, the last and the one at the byte boundary read back
//	locals       the same inside one function
func F10(yield func(Program)) {
	for _, n := range []int{253, 254, 255} {
		var ps []string
		var args []*N
		for i := 0; i < n; i++ {
			ps = append(ps, fmt.Sprintf("p%d", i))
			args = append(args, Int(int64(1000+i)))
		}
		res := List(Id("p0"), Id(fmt.Sprintf("p%d", n/2)), Id(fmt.Sprintf("p%d", n-1)))
		yield(Program{Fam: "F10params", Prog: []*N{Var("f", Func("", P(ps...), Return(res))), Expr(Call(Id("f"), args...))}, Meta: fmt.Sprintf("anonymous function with %d parameters", n)})
		again := append([]*N{Int(-1)}, args[1:]...)
		yield(Program{Fam: "F10params", Prog: []*N{
			FuncDecl("f", P(ps...), If(Bin(">", Id("p0"), Int(0)), []*N{Return(List(Id("p0"), Call(Id("f"), again...)))}, nil), Return(res)),
			Expr(Call(Id("f"), args...))}, Meta: fmt.Sprintf("named function with %d parameters that calls itself once", n)})
	}
	for _, n := range []int{255, 256, 257, 65535, 65536, 65537} {
		st := []*N{Var("m", Map(Str("a"), Int(1), Str("b"), Int(2), Str("c"), Int(3)))}
		for i := 0; i < n; i++ {
			st = append(st, Expr(Attr(Id("m"), "a")))
		}
		st = append(st, Expr(List(Attr(Id("m"), "b"), Attr(Id("m"), "c"), Attr(Id("m"), "a"))))
		yield(Program{Fam: "F10mentions", Prog: st, Meta: fmt.Sprintf("m.a mentioned %d times, then m.b", n)})
	}
	for _, n := range []int{255, 256, 257} {
		var ints, strs []*N
		for i := 0; i < n; i++ {
			ints = append(ints, Int(int64(5000+i)))
			strs = append(strs, Str(fmt.Sprintf("s%d", i)))
		}
		yield(Program{Fam: "F10constants", Prog: []*N{Var("l", List(ints...)), Var("s", List(strs...)),
			Expr(List(Index(Id("l"), Int(0)), Index(Id("l"), Int(int64(n-1))), Index(Id("l"), Int(254)), Index(Id("s"), Int(int64(n-1))), Index(Id("s"), Int(254))))},
			Meta: fmt.Sprintf("%d distinct integer and string constants", n)})
		var gl []*N
		for i := 0; i < n; i++ {
			gl = append(gl, Var(fmt.Sprintf("g%d", i), Int(int64(7000+i))))
		}
		read := Expr(List(Id("g0"), Id("g254"), Id(fmt.Sprintf("g%d", n-1))))
		yield(Program{Fam: "F10globals", Prog: append(append([]*N{}, gl...), Set1(fmt.Sprintf("g%d", n-1), Int(-5)), read), Meta: fmt.Sprintf("%d global variables", n)})
		body := append(append([]*N{}, gl...), Set1(fmt.Sprintf("g%d", n-1), Int(-5)), Return(List(Id("g0"), Id("g254"), Id(fmt.Sprintf("g%d", n-1)))))
		yield(Program{Fam: "F10locals", Prog: []*N{FuncDecl("w", nil, body...), Expr(callE("w"))}, Meta: fmt.Sprintf("%d local variables", n)})
	}
}
