// Package c04: statements are stack-neutral.
//
// Model checking in the explicit-state sense: for every generated program the
// full reachable (code, ip, stack height) graph of its bytecode is explored
// (internal/bcflow), all paths, with the invariants: one height per ip, no
// underflow, main code ends with exactly one value. The effect table is bound
// to the implementation by checking every instruction executed by the real VM
// against it; a second, dynamic oracle compares scaled loop bounds.
package c04

import (
	"fmt"
	"sync/atomic"
	"time"

	"github.com/risor-io/risor/vm"

	"verif/internal/bcflow"
	"verif/internal/c01"
	"verif/internal/diffo"
	"verif/internal/ev"
	"verif/internal/progen"
	"verif/internal/refsem"
	"verif/internal/rt"
)

type replayIn struct {
	Fam string `json:"family"`
	Src string `json:"source"`
}

type counters struct {
	states, trans, steps, programs, runs, skippedRejected int64
}

func one(r *ev.Run, env *rt.Env, p progen.Program, c *counters, verbose bool) {
	src := p.Src()
	env.Reset()
	code, o := env.Compile(src)
	if code == nil {
		if o.Stage == "gopanic" {
			r.Report("compile-gopanic", src+"\n  "+o.ErrText, replayIn{p.Fam, src}, o.ErrText, "")
		}
		atomic.AddInt64(&c.skippedRejected, 1)
		return
	}
	atomic.AddInt64(&c.programs, 1)
	res := bcflow.Analyze(code, true)
	atomic.AddInt64(&c.states, int64(res.States))
	atomic.AddInt64(&c.trans, int64(res.Transitions))
	r.Eval(1)
	feat := diffo.Features(p.Prog)
	if p.Fam == "F2operand" {
		feat = "jump-out-of-an-operand" // break / continue taken while operands of an enclosing expression are pending
	}
	for _, pr := range res.Problems {
		sig := "static:" + pr.Kind
		if feat != "" {
			sig += ":" + feat
		}
		if pr.Kind == "unknown-opcode" {
			r.EngineError("effect table incomplete: " + pr.Text)
			return
		}
		r.Report(sig, src+"\n  "+pr.Text, replayIn{p.Fam, src}, pr.Text, "one stack height per instruction, no underflow, exactly the result at the end")
		if verbose {
			fmt.Println("  static:", pr.Kind, pr.Text)
		}
	}
	r.Outcome(fmt.Sprintf("%s|states=%d|problems=%d", p.Fam, res.States, len(res.Problems)))
	// conformance: run on the real VM with every step checked against the table
	m := refsem.Run(p.Prog, c01.Budget)
	if m.NonTerm {
		return
	}
	tr := &bcflow.Tracer{Heights: res.Heights}
	env.OnVM = func(mach *vm.VirtualMachine) { bcflow.Attach(mach, tr) }
	out := env.RunCode(code, nil, 10*time.Second)
	out.Release()
	env.OnVM = nil
	if out.VM != nil {
		bcflow.Detach(out.VM)
	}
	atomic.AddInt64(&c.steps, int64(tr.Steps))
	atomic.AddInt64(&c.runs, 1)
	if verbose {
		fmt.Printf("  run: stage=%s value=%s err=%q steps=%d mismatches=%v\n", out.Stage, out.Val, out.ErrText, tr.Steps, tr.Mismatch)
	}
	if len(tr.Mismatch) > 0 && len(res.Problems) == 0 {
		// the static search found nothing but the real VM disagrees with the table
		r.Report("conformance:"+feat, src+"\n  "+tr.Mismatch[0], replayIn{p.Fam, src}, tr.Mismatch[0], "every executed instruction matches the effect table")
	}
	if out.Stage == "run" && out.Class != "timeout" && out.VM != nil {
		// an evaluation that failed with operands pending leaves none of them behind: what stays is what the
		// next invocation on this VM starts on top of (a Call overflows at once; a REPL loses a slot per failure)
		if sp := out.VM.VerifSP(); sp != -1 {
			r.Report("failed-sp:"+feat, fmt.Sprintf("%s\n  the evaluation fails (%s) and leaves %d values on the stack", src, ev.Clip(out.ErrText, 80), sp+1), replayIn{p.Fam, src}, fmt.Sprint(sp+1), "0")
		}
	}
	if out.Stage == "ok" && out.VM != nil {
		if sp := out.VM.VerifSP(); sp != 0 {
			r.Report("final-sp:"+feat, fmt.Sprintf("%s\n  finished evaluation leaves %d values on the stack", src, sp+1), replayIn{p.Fam, src}, fmt.Sprint(sp+1), "1")
		}
	}
}

func Check(r *ev.Run, replay string) {
	c := &counters{}
	if replay != "" {
		var in replayIn
		if err := ev.ReadReplay(replay, &in); err != nil {
			r.EngineError(err.Error())
			return
		}
		fmt.Println(in.Src)
		env := rt.NewEnv(nil)
		code, o := env.Compile(in.Src)
		if code == nil {
			fmt.Println("does not compile:", o.ErrText)
		} else {
			res := bcflow.Analyze(code, true)
			fmt.Printf("static: states=%d transitions=%d problems=%v\n", res.States, res.Transitions, res.Problems)
			tr := &bcflow.Tracer{Heights: res.Heights}
			env.OnVM = func(mach *vm.VirtualMachine) { bcflow.Attach(mach, tr) }
			out := env.RunCode(code, nil, 10*time.Second)
			out.Release()
			fmt.Printf("run: stage=%s value=%s err=%q steps=%d mismatches=%v final sp=%d\n", out.Stage, out.Val, out.ErrText, tr.Steps, tr.Mismatch, out.VM.VerifSP())
			for _, pr := range res.Problems {
				r.Report("static:"+pr.Kind, pr.Text, in, pr.Text, "")
			}
		}
		r.Set("states", 1)
		r.Set("transitions", 1)
		r.Set("traces_validated_against_impl", 1)
		return
	}
	var sampled int32
	run := func(env *rt.Env, p progen.Program) {
		if atomic.AddInt32(&sampled, 1)%7001 == 1 {
			r.Sample(map[string]string{"family": p.Fam, "source": p.Src()})
		}
		one(r, env, p, c, false)
	}
	maxAll, maxFiltered := 4, 5
	if r.Thorough() {
		maxAll, maxFiltered = 5, 6
	}
	for n := 1; n <= maxFiltered; n++ {
		filter := progen.F2All
		if n > maxAll {
			filter = progen.F2CtrlUnderSwitchInLoop
		}
		c01.Pool(func(y func(progen.Program)) { progen.F2(n, filter, y) }, run)
	}
	// the other families of the shared corpus (functions, named function statements in blocks and
	// loops, scoping, containers, try/defer, closures): same static search and conformance
	c01.Pool(func(y func(progen.Program)) {
		progen.F1Values(1, progen.ValuePool(9), y)
		progen.F3(y)
		f4 := 2
		if r.Thorough() {
			f4 = 3
		}
		progen.F4(f4, y)
		progen.F5(y)
		progen.F6(y)
		progen.C02Corpus(r.Thorough(), y)
		progen.F7(y)
		progen.F4c(2, y)
		progen.F8(false, y)
		progen.F9(y)
		progen.F2Operand(y)
		progen.F11(y)
		progen.F12(y)
		if r.Thorough() {
			progen.F8(true, y)
		}
	}, run)
	scaled(r, c)
	r.Set("states", int(c.states))
	r.Set("transitions", int(c.trans))
	r.Set("traces_validated_against_impl", int(c.runs))
	r.Set("concrete_steps_checked_against_table", int(c.steps))
	r.Set("programs_analysed", int(c.programs))
	r.Set("programs_rejected_by_compiler_skipped", int(c.skippedRejected))
	r.Set("rule", fmt.Sprintf("explicit-state search over (code, ip, height) of the bytecode of a statement in the place of a call argument (12 statements x 16 call contexts), template strings with 0-2 contributing fragments in 18 contexts, every control-skeleton program with <= %d statement nodes (all) and <= %d (break/continue under a switch in a loop) and of every program of the function, scoping, container, error/defer, closure and constant families; conformance: every instruction executed by the real VM for the same programs is compared with the effect table, a finished evaluation leaves exactly its result and a failed one nothing on the stack; scaled loop bounds 10 vs large for every loop skeleton", maxAll, maxFiltered))
}

// scaled runs every loop skeleton with its outermost loops at 10 iterations and at a
// bound above the stack capacity; both must agree with the reference interpreter.
func scaled(r *ev.Run, c *counters) {
	maxN, big := 3, 2*vm.MaxStackDepth+52
	if r.Thorough() {
		maxN, big = 4, 100*vm.MaxStackDepth
	}
	var cnt int64
	for _, K := range []int{10, big} {
		for n := 2; n <= maxN; n++ {
			if K == big && n == 4 {
				K = 2*vm.MaxStackDepth + 52 // thorough: the 4-node skeletons at the smaller large bound
			}
			KK := K
			c01.Pool(func(y func(progen.Program)) { progen.F2Scaled(n, KK, y) }, func(env *rt.Env, p progen.Program) {
				m := refsem.Run(p.Prog, 200*KK+20000)
				if m.NonTerm || m.Unspec || m.Rejected {
					return
				}
				src := p.Src()
				o := env.Eval(src, p.Names)
				atomic.AddInt64(&cnt, 1)
				r.Eval(1)
				r.Outcome(fmt.Sprintf("F2S|K=%d|%s", KK, m.Val))
				if kind, detail := diffo.Compare(m, o, p.Names); kind != "" && kind != "skip" {
					r.Report("scaled:"+kind+":"+diffo.Features(p.Prog), fmt.Sprintf("%s\n  with %d iterations: %s", src, KK, detail), replayIn{p.Fam, src}, detail, "same outcome as the reference interpreter at any iteration count")
				}
			})
		}
	}
	r.Set("scaled_bound_runs", int(cnt))
	r.Set("scaled_large_bound", big)
}
