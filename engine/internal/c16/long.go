package c16

import (
	"fmt"

	"verif/internal/ev"
)

// Long lists: the state search keeps lists at <= 4 elements, where a backing array never has more than a few
// spare slots. This family builds lists of 9..33 distinct integers - by single appends (the backing array
// doubles on the way) or from one literal (length == capacity) - and takes them apart again one element at
// a time: every drain that removes at position p1 (front, second, middle, last but one, back) for the first k
// steps and at p2 for the rest, by pop(i), `delete(l, i)`-style item deletion and remove(value); after a drain to
// one element the list is grown again by three appends. Every step is judged against the slice model on
// result and contents, like every other transition. Un-merged by construction (a list that was long and a
// list that never was have the same contents but not the same backing array).

var longSizes = []int{9, 12, 16, 17, 20, 33}

func longBuild(n int, byAppend bool) []Op {
	var seq []Op
	if byAppend {
		for i := 0; i < n; i++ {
			seq = append(seq, Op{K: "append", T: "l", V: fmt.Sprint(10 + i)})
		}
		return seq
	}
	lit := "["
	for i := 0; i < n; i++ {
		if i > 0 {
			lit += ", "
		}
		lit += fmt.Sprint(10 + i)
	}
	return []Op{{K: "extendlit", T: "l", V: lit + "]"}}
}

func longPos(p, n int) int {
	switch p {
	case 0:
		return 0
	case 1:
		if n > 1 {
			return 1
		}
		return 0
	case 2:
		return n / 2
	case 3:
		if n > 1 {
			return n - 2
		}
		return 0
	}
	return n - 1
}

func longLists(r *ev.Run, d *domain, t *totals, thorough bool) {
	type job struct {
		n             int
		byAppend      bool
		kind          string
		p1, p2, k     int
		negativeIndex bool
	}
	var jobs []job
	for _, n := range longSizes {
		for _, byAppend := range []bool{true, false} {
			for _, kind := range []string{"pop", "del", "remove"} {
				for p1 := 0; p1 < 5; p1++ {
					for p2 := 0; p2 < 5; p2++ {
						ks := []int{0, n / 4, n / 2, (3 * n) / 4}
						if thorough {
							ks = ks[:0]
							for k := 0; k < n; k++ {
								ks = append(ks, k)
							}
						}
						for _, k := range ks {
							if p1 == p2 && k != 0 {
								continue
							}
							jobs = append(jobs, job{n: n, byAppend: byAppend, kind: kind, p1: p1, p2: p2, k: k})
							if kind != "remove" && k == 0 && p1 == p2 {
								jobs = append(jobs, job{n: n, byAppend: byAppend, kind: kind, p1: p1, p2: p2, k: k, negativeIndex: true})
							}
						}
					}
				}
			}
		}
	}
	outs := make([]stateOut, len(jobs))
	ev.ParFor(len(jobs), func(ji int) {
		j := jobs[ji]
		h := harnessPool.Get().(*harness)
		defer harnessPool.Put(h)
		so := &outs[ji]
		so.outcomes = map[string]struct{}{}
		m := d.init()
		var seq []Op
		do := func(o Op) bool {
			res, scripted := step(h, d, seq, m, o, len(seq)%7 == 3)
			so.steps++
			if scripted {
				so.scripts++
			}
			if res.errEng != "" {
				so.errEng = res.errEng
				return false
			}
			so.outcomes["list-long|"+o.K+"|"+res.class] = struct{}{}
			if res.mm != nil {
				so.addMismatch(res.mm)
				return false
			}
			if res.next == nil {
				return false
			}
			ho := o
			ho.Err = res.class == "error-required" || res.class == "error-admitted"
			seq = append(append(make([]Op, 0, len(seq)+1), seq...), ho)
			m = res.next
			return true
		}
		for _, o := range longBuild(j.n, j.byAppend) {
			if !do(o) {
				return
			}
		}
		for s := 0; ; s++ {
			l := m.vars["l"].(mlist)
			if len(l) <= 1 {
				break
			}
			p := j.p2
			if s < j.k {
				p = j.p1
			}
			i := longPos(p, len(l))
			var o Op
			switch j.kind {
			case "pop":
				o = Op{K: "pop", T: "l", I: i}
			case "del":
				o = Op{K: "del", T: "l", I: i}
			default:
				o = Op{K: "remove", T: "l", V: fmt.Sprint(l[i])}
			}
			if j.negativeIndex {
				o.I = i - len(l)
			}
			if !do(o) {
				return
			}
		}
		for i := 0; i < 3; i++ {
			if !do(Op{K: "append", T: "l", V: fmt.Sprint(90 + i)}) {
				return
			}
		}
		do(Op{K: "iter", T: "l"})
	})
	total := 0
	for i := range outs {
		report(r, &outs[i])
		total += outs[i].steps
		t.validated += outs[i].steps + outs[i].scripts
		t.scripts += outs[i].scripts
	}
	r.Add("long_list_histories", len(jobs))
	r.Add("long_list_steps", total)
}
