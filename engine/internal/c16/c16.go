// Package c16: lists, maps, sets, strings and byte_slices behave as the abstract containers they present.
//
// Explicit-state search. For each container type a small world of variables (the container and one derived
// container: a copy / slice / `+` result / map()/filter() result) is driven by an operation alphabet that is
// instantiated per state (indices in [-len-2, len+2]). A state is the shortest operation sequence reaching
// it; for every (state, operation) the sequence is replayed on fresh real objects through the object API
// (GetItem/SetItem/GetSlice/GetAttr-method calls/Contains/Len/Iter), the operation is applied to the real
// objects and to a plain Go reference model, and result, error-or-not and the contents of *every* variable
// are compared. States are merged on the canonical key = contents of every variable, breadth first, to a
// fixpoint. A deterministic subset of the transitions (every k-th; thorough: every one) is also rendered as a
// risor program and run through risor.Eval, so that the VM path (x[i] += v, x[i:j], x[:j], in, for-range)
// is held against the same model. Finally all un-merged operation sequences up to a depth are run from a few
// starting histories, so that state the key cannot see (slice capacity, stale slots) cannot hide.
package c16

import (
	"fmt"
	"os"
	"runtime/debug"
	"runtime/pprof"
	"sort"
	"strings"
	"time"

	"github.com/risor-io/risor/object"

	"verif/internal/ev"
)

// ---------------------------------------------------------------- one step

type realOut struct {
	res      object.Object
	seen     object.Object
	vars     map[string]object.Object // nil when the script path raised an error (variables unreachable)
	isErr    bool
	panicked string
}

type mismatch struct {
	sig      string
	what     string
	observed string
	expected string
	input    replayInput
}

type replayInput struct {
	Domain string `json:"domain"`
	Seq    []Op   `json:"history"`
	Op     Op     `json:"op"`
	Mode   string `json:"mode"` // api | script
	Script string `json:"script,omitempty"`
}

func realWorld(d *domain) map[string]object.Object {
	w := map[string]object.Object{}
	m := d.init()
	for _, n := range d.vars {
		w[n] = realize(m.vars[n])
	}
	return w
}

// runAPI replays seq on fresh real objects and applies o, all through the object API.
func runAPI(h *harness, d *domain, seq []Op, o Op) (out realOut, replayErr string) {
	w := realWorld(d)
	h.seen.Clear()
	for k, p := range seq {
		func() {
			defer func() {
				if r := recover(); r != nil {
					replayErr = fmt.Sprintf("history step %d (%s) panicked: %v", k, p, r)
				}
			}()
			if _, isErr := h.evalReal(w, p); isErr != p.Err {
				replayErr = fmt.Sprintf("history step %d (%s) error=%v, recorded error=%v", k, p, isErr, p.Err)
			}
		}()
		if replayErr != "" {
			return
		}
	}
	h.seen.Clear()
	func() {
		defer func() {
			if r := recover(); r != nil {
				out.panicked = fmt.Sprint(r)
			}
		}()
		out.res, out.isErr = h.evalReal(w, o)
	}()
	out.vars = w
	out.seen = h.seen
	return
}

func scriptFor(d *domain, seq []Op, o Op) string {
	var sb strings.Builder
	sb.WriteString(d.prolog)
	sb.WriteString("seen := []\nr := nil\n")
	for _, p := range seq {
		if p.Err {
			continue // raised an error and changed nothing (judged when it was the last step); a flat program cannot continue past it
		}
		sb.WriteString(scriptOf(p))
		sb.WriteByte('\n')
	}
	sb.WriteString("seen = []\nr = nil\n")
	sb.WriteString(scriptOf(o))
	sb.WriteString("\n[r, seen")
	for _, n := range d.vars {
		sb.WriteString(", " + n)
	}
	sb.WriteString("]")
	return sb.String()
}

// runScriptStep runs the same history + operation as one risor program through risor.Eval.
func runScriptStep(h *harness, d *domain, src string, fresh bool) (out realOut) {
	reuse := h.svm
	if fresh {
		reuse = nil
	}
	res, err, pan := evalScript(h.g, src, reuse)
	if pan != "" {
		out.panicked = pan
		return
	}
	if err != "" {
		if strings.HasPrefix(err, "panic:") {
			out.panicked = err // a Go panic inside risor, recovered by the VM and turned into an error
			return
		}
		out.isErr = true
		return
	}
	l, ok := res.(*object.List)
	if !ok || len(l.Value()) != 2+len(d.vars) {
		out.panicked = "script result has the wrong shape: " + res.Inspect()
		return
	}
	items := l.Value()
	out.res, out.seen = items[0], items[1]
	out.vars = map[string]object.Object{}
	for i, n := range d.vars {
		out.vars[n] = items[2+i]
	}
	return
}

func sortedElems(o object.Object) (string, bool) {
	l, ok := o.(*object.List)
	if !ok {
		return "", false
	}
	var es []string
	for _, e := range l.Value() {
		es = append(es, renderObj(e))
	}
	sort.Strings(es)
	return "unordered[" + strings.Join(es, ", ") + "]", true
}

func sortedElemsV(v V) string {
	var es []string
	for _, e := range v.(mlist) {
		es = append(es, render(e))
	}
	sort.Strings(es)
	return "unordered[" + strings.Join(es, ", ") + "]"
}

// reusedIndexRendering: what a result looks like when one index object is shared by all callback
// invocations (every stored index shows the last one). Used only to give that defect its own signature.
func reusedIndexRendering(v V, last int64) V {
	l, ok := v.(mlist)
	if !ok {
		return v
	}
	out := make(mlist, len(l))
	for i, e := range l {
		switch x := e.(type) {
		case int64:
			out[i] = last
		case mlist:
			if len(x) == 2 {
				out[i] = mlist{last, x[1]}
			} else {
				out[i] = e
			}
		default:
			out[i] = e
		}
	}
	return out
}

// judge compares what the real containers did with what the model admits. It returns the model world to
// continue from (nil after a mismatch), the mismatch if any, and an outcome class.
func judge(d *domain, before, after *mworld, e exp, o Op, out realOut, mode string) (*mworld, *mismatch, string) {
	lab := label(d.name, o)
	suffix := ""
	if mode == "script" {
		suffix = "@vm" // only reached when the object-API run of the same step agreed with the model
	}
	mk := func(kind, what, obs, expd string) *mismatch {
		return &mismatch{sig: lab + "-" + kind + suffix, what: what, observed: obs, expected: expd}
	}
	stateOf := func(m *mworld) string { return m.key(d.vars) }
	realState := func() string {
		var sb strings.Builder
		for i, n := range d.vars {
			if i > 0 {
				sb.WriteString(" | ")
			}
			sb.WriteString(n + "=" + renderObj(out.vars[n]))
		}
		return sb.String()
	}
	wh := func() string { return fmt.Sprintf("%s: state {%s}, op `%s` (%s)", d.name, stateOf(before), o, mode) }

	if out.panicked != "" {
		return nil, mk("panic", wh()+": Go panic: "+ev.Clip(out.panicked, 200), "panic: "+ev.Clip(out.panicked, 200), "an error or a result, never a panic"), "panic"
	}
	// which world must the variables show?
	want := after
	class := "ok"
	switch {
	case out.isErr && e.mustErr:
		want, class = before, "error-required"
	case out.isErr && e.errOK:
		want, class = before, "error-admitted"
	case out.isErr:
		return nil, mk("unexpected-error", wh()+": raised an error; the model gives "+render(e.obs)+" / state {"+stateOf(after)+"}", "error", "no error"), "x"
	case e.mustErr:
		got := "no error"
		if out.res != nil {
			got += ", result " + renderObj(out.res)
		}
		return nil, mk("no-error", wh()+": out-of-range or wrongly typed access did not raise an error", got, "an error"), "x"
	case e.errOK:
		class = "ok-where-error-admitted"
	}

	if out.vars != nil {
		// element order left open by the statement (sort of mixed ints and strings, with or without an error):
		// compare as multisets, then adopt the real order
		if e.perm != "" {
			if rl, ok := out.vars[e.perm].(*object.List); ok {
				got, _ := lift(rl).(mlist)
				if ml, ok := want.vars[e.perm].(mlist); ok && sameMultiset(got, ml) {
					if want == before {
						want = before.clone()
					}
					want.vars[e.perm] = got
					if !out.isErr {
						after = want
					}
				}
			}
		}
		for _, n := range d.vars {
			got, exp := renderObj(out.vars[n]), render(want.vars[n])
			if got == exp {
				continue
			}
			if n != o.T && n != o.D {
				// a variable the operation does not mention changed: the containers are not independent
				origin := before.origin[n]
				if origin == "" {
					origin = before.origin[o.T]
				}
				if origin == "" {
					origin = "?"
				}
				if nm, ok := kindNames[origin]; ok {
					origin = nm
				}
				mm := &mismatch{sig: fmt.Sprintf("%s.%s-result-shares-storage-with-operand%s", d.name, origin, suffix),
					what:     wh() + ": variable " + n + " changed although the operation does not touch it (it was produced by `" + origin + "`, which must be independent of its operand)",
					observed: "{" + realState() + "}", expected: "{" + stateOf(want) + "}"}
				return nil, mm, "x"
			}
			if out.isErr {
				return nil, mk("error-but-mutated", wh()+": raised an error but changed "+n, "{"+realState()+"}", "{"+stateOf(want)+"}"), "x"
			}
			kind := "wrong-contents"
			if o.K == "fmap" && n == o.D && e.hasObs {
				if l, ok := before.vars[o.T].(mlist); ok && len(l) > 1 && got == render(reusedIndexRendering(e.obs, int64(len(l)-1))) {
					mm := &mismatch{sig: "list.map-callback-index-object-reused" + suffix,
						what:     wh() + ": every index the callback returned shows the last index - one Int object is reused for all invocations",
						observed: "{" + realState() + "}", expected: "{" + stateOf(want) + "}"}
					return nil, mm, "x"
				}
			}
			return nil, mk(kind, wh()+": contents of "+n+" differ from the model", "{"+realState()+"}", "{"+stateOf(want)+"}"), "x"
		}
	}
	if out.isErr {
		return want, nil, class
	}
	if e.hasObs && e.perm == "" {
		var got, exp string
		if e.unordered {
			var ok bool
			got, ok = sortedElems(out.res)
			if !ok {
				got = renderObj(out.res)
			}
			exp = sortedElemsV(e.obs)
		} else {
			got, exp = renderObj(out.res), render(e.obs)
		}
		if got != exp {
			if o.K == "fmap" {
				if l, ok := before.vars[o.T].(mlist); ok && len(l) > 1 && got == render(reusedIndexRendering(e.obs, int64(len(l)-1))) {
					return nil, &mismatch{sig: "list.map-callback-index-object-reused" + suffix,
						what:     wh() + ": every index the callback returned shows the last index - one Int object is reused for all invocations",
						observed: got, expected: exp}, "x"
				}
			}
			return nil, mk("wrong-result", wh()+": result differs from the model", got, exp), "x"
		}
	}
	if e.hasSeen && out.seen != nil {
		got, exp := renderObj(out.seen), render(e.seen)
		if got != exp {
			if o.K == "fmap" {
				if l, ok := before.vars[o.T].(mlist); ok && len(l) > 1 && got == render(reusedIndexRendering(e.seen, int64(len(l)-1))) {
					return nil, &mismatch{sig: "list.map-callback-index-object-reused" + suffix,
						what:     wh() + ": the indices a callback stored all show the last index - one Int object is reused for all invocations",
						observed: "seen=" + got, expected: "seen=" + exp}, "x"
				}
			}
			return nil, mk("wrong-callback-arguments", wh()+": the arguments logged by the callback differ from the model", "seen="+got, "seen="+exp), "x"
		}
	}
	return after, nil, class
}

type stepResult struct {
	next   *mworld
	mm     *mismatch
	class  string
	errEng string
}

// step checks one (history, operation) through the object API and, if asked and the API run agreed, through a script.
func step(h *harness, d *domain, seq []Op, before *mworld, o Op, withScript bool) (stepResult, bool) {
	after := before.clone()
	e := evalModel(after, o)
	out, rerr := runAPI(h, d, seq, o)
	if rerr != "" {
		return stepResult{errEng: d.name + ": " + rerr}, false
	}
	next, mm, class := judge(d, before, after, e, o, out, "api")
	if mm != nil {
		mm.input = replayInput{Domain: d.name, Seq: seq, Op: o, Mode: "api"}
		return stepResult{mm: mm, class: class}, false
	}
	if withScript {
		after2 := before.clone()
		e2 := evalModel(after2, o)
		src := scriptFor(d, seq, o)
		sout := runScriptStep(h, d, src, false)
		_, mm2, _ := judge(d, before, after2, e2, o, sout, "script")
		if mm2 != nil || sout.isErr != out.isErr {
			// decide on a fresh VM, exactly as an embedder calling risor.Eval would see it
			after2 = before.clone()
			e2 = evalModel(after2, o)
			sout = runScriptStep(h, d, src, true)
			_, mm2, _ = judge(d, before, after2, e2, o, sout, "script")
		}
		if mm2 != nil {
			// the object API agreed on this step, so the VM path disagrees somewhere in the program: find the first
			// history step it does not execute like the model and report that step instead of the last one
			if bm := blameHistory(h, d, seq); bm != nil {
				return stepResult{mm: bm, class: class}, true
			}
			mm2.input = replayInput{Domain: d.name, Seq: seq, Op: o, Mode: "script", Script: src}
			return stepResult{mm: mm2, class: class}, true
		}
		// the two paths must also agree with each other where the model admits two outcomes
		if sout.isErr != out.isErr {
			if bm := blameHistory(h, d, seq); bm != nil {
				return stepResult{mm: bm, class: class}, true
			}
			mm3 := &mismatch{sig: label(d.name, o) + "-api-and-vm-disagree", what: fmt.Sprintf("%s: state {%s}, op `%s`: object API error=%v, script error=%v", d.name, before.key(d.vars), o, out.isErr, sout.isErr),
				observed: fmt.Sprintf("api error=%v script error=%v", out.isErr, sout.isErr), expected: "the same outcome on both paths",
				input: replayInput{Domain: d.name, Seq: seq, Op: o, Mode: "script", Script: src}}
			return stepResult{mm: mm3, class: class}, true
		}
	}
	return stepResult{next: next, class: class}, withScript
}

// blameHistory runs every prefix of the history as a program of its own and returns the mismatch of the first
// history step the VM path does not execute like the model (nil if the whole history is fine).
func blameHistory(h *harness, d *domain, seq []Op) *mismatch {
	m := d.init()
	for k, p := range seq {
		after := m.clone()
		e := evalModel(after, p)
		if p.Err {
			continue // left out of programs
		}
		src := scriptFor(d, seq[:k], p)
		out := runScriptStep(h, d, src, true)
		next, mm, _ := judge(d, m, after, e, p, out, "script")
		if mm != nil {
			mm.input = replayInput{Domain: d.name, Seq: seq[:k], Op: p, Mode: "script", Script: src}
			return mm
		}
		m = next
	}
	return nil
}

// ---------------------------------------------------------------- search

type state struct {
	seq []Op
	m   *mworld
}

type succ struct {
	key string
	st  state
}

type stateOut struct {
	succs    []succ
	mms      []*mismatch
	mmCount  map[string]int
	outcomes map[string]struct{}
	steps    int
	scripts  int
	errEng   string
}

func (so *stateOut) addMismatch(mm *mismatch) {
	if so.mmCount == nil {
		so.mmCount = map[string]int{}
	}
	if so.mmCount[mm.sig] == 0 {
		so.mms = append(so.mms, mm)
	}
	so.mmCount[mm.sig]++
}

type totals struct {
	states, transitions, validated, scripts int
}

// confirmed: signatures whose first witness has been re-executed from its replay input.
var confirmed = map[string]bool{}

// recheck re-executes a replay input without the explorer and returns the signature it produces ("" = agrees).
func recheck(h *harness, in replayInput) string {
	d := domainByName(in.Domain)
	m := d.init()
	for _, p := range in.Seq {
		if e := evalModel(m, p); p.Err {
			_ = e
		}
	}
	after := m.clone()
	e := evalModel(after, in.Op)
	var out realOut
	if in.Mode == "api" {
		var rerr string
		out, rerr = runAPI(h, d, in.Seq, in.Op)
		if rerr != "" {
			return "replay-diverged: " + rerr
		}
	} else {
		out = runScriptStep(h, d, scriptFor(d, in.Seq, in.Op), true)
	}
	_, mm, _ := judge(d, m, after, e, in.Op, out, in.Mode)
	if mm == nil {
		return ""
	}
	return mm.sig
}

func report(r *ev.Run, so *stateOut) {
	for _, mm := range so.mms {
		if !confirmed[mm.sig] {
			// every new kind of failure is re-executed 3 times from its replay input before it is reported;
			// a replay that does not reproduce it is an engine error, not a violation
			confirmed[mm.sig] = true
			h := harnessPool.Get().(*harness)
			for k := 0; k < 3; k++ {
				if got := recheck(h, mm.input); got != mm.sig && !strings.HasSuffix(mm.sig, "-api-and-vm-disagree") {
					r.EngineError(fmt.Sprintf("replay of %q does not reproduce it (got %q)", mm.sig, got))
				}
			}
			harnessPool.Put(h)
		}
		for k := 0; k < so.mmCount[mm.sig]; k++ {
			r.Report(mm.sig, mm.what, mm.input, mm.observed, mm.expected)
		}
	}
	for k := range so.outcomes {
		r.Outcome(k)
	}
	if so.errEng != "" {
		r.EngineError(so.errEng)
	}
}

// explore: breadth-first search over the reachable states of d, to a fixpoint.
func explore(r *ev.Run, d *domain, stride int, t *totals) {
	init := state{m: d.init()}
	seen := map[string]struct{}{init.m.key(d.vars): {}}
	frontier := []state{init}
	nStates := 1
	tIndex := 0 // global transition counter: every stride-th transition also goes through risor.Eval
	depth := 0
	for len(frontier) > 0 {
		// transition numbering must not depend on scheduling: count the alphabet per state first
		base := make([]int, len(frontier)+1)
		for i, st := range frontier {
			base[i+1] = base[i] + len(d.enum(st.m))
		}
		outs := make([]stateOut, len(frontier))
		ev.ParFor(len(frontier), func(i int) {
			h := harnessPool.Get().(*harness)
			defer harnessPool.Put(h)
			st := frontier[i]
			so := &outs[i]
			so.outcomes = map[string]struct{}{}
			local := map[string]struct{}{}
			for j, o := range d.enum(st.m) {
				ws := (tIndex+base[i]+j)%stride == 0
				res, scripted := step(h, d, st.seq, st.m, o, ws)
				so.steps++
				if scripted {
					so.scripts++
				}
				if res.errEng != "" {
					so.errEng = res.errEng
					return
				}
				so.outcomes[d.name+"|"+o.K+"|"+o.T+">"+o.D+"|"+o.F+"|"+res.class] = struct{}{}
				if res.mm != nil {
					so.addMismatch(res.mm)
					continue
				}
				if !d.admit(res.next) || res.class == "error-required" || res.class == "error-admitted" {
					// (an operation that raised an error never defines a state: where an error is admitted together with a
					// reordering - sort of mixed types - the reordered contents are reachable without it)
					continue
				}
				k := res.next.key(d.vars)
				if _, ok := seen[k]; ok {
					continue
				}
				if _, ok := local[k]; ok {
					continue
				}
				local[k] = struct{}{}
				nseq := append(append(make([]Op, 0, len(st.seq)+1), st.seq...), o)
				so.succs = append(so.succs, succ{key: k, st: state{seq: nseq, m: res.next}})
			}
		})
		var next []state
		for i := range outs {
			so := &outs[i]
			report(r, so)
			t.transitions += so.steps
			t.validated += so.steps + so.scripts
			t.scripts += so.scripts
			for _, s := range so.succs {
				if _, ok := seen[s.key]; ok {
					continue
				}
				seen[s.key] = struct{}{}
				next = append(next, s.st)
				nStates++
			}
		}
		tIndex += base[len(frontier)]
		frontier = next
		depth++
	}
	t.states += nStates
	r.Add("states_"+d.name, nStates)
	r.Set("bfs_depth_"+d.name, depth-1)
	for k := range seen {
		r.Outcome(d.name + "|state|" + k)
	}
}

// unmerged: every operation sequence up to maxDepth from each starting history, no merging of states.
// Only the last step of a sequence is judged (its prefix was judged as a shorter sequence); a sequence is
// not extended past a mismatch.
func unmerged(r *ev.Run, d *domain, maxDepth, stride int, t *totals, filter func(depth int, o Op) bool) {
	type job struct {
		pre []Op
		m   *mworld
		o   Op
	}
	var jobs []job
	var preOut stateOut
	preOut.outcomes = map[string]struct{}{}
	for _, pre := range d.prefixes {
		// the starting history is judged step by step first; a starting history the implementation does not
		// execute like the model is reported there and not built upon
		m := d.init()
		h := harnessPool.Get().(*harness)
		good := true
		for k, p := range pre {
			res, _ := step(h, d, pre[:k], m, p, true)
			preOut.steps++
			if res.errEng != "" {
				preOut.errEng = res.errEng
			}
			if res.mm != nil {
				preOut.addMismatch(res.mm)
			}
			if res.next == nil {
				good = false
				break
			}
			m = res.next
		}
		harnessPool.Put(h)
		if !good {
			continue
		}
		for _, o := range d.enum(m) {
			if filter != nil && !filter(1, o) {
				continue
			}
			jobs = append(jobs, job{pre: pre, m: m, o: o})
		}
	}
	outs := make([]stateOut, len(jobs))
	ev.ParFor(len(jobs), func(i int) {
		h := harnessPool.Get().(*harness)
		defer harnessPool.Put(h)
		so := &outs[i]
		so.outcomes = map[string]struct{}{}
		n := 0
		var rec func(seq []Op, m *mworld, o Op, depth int)
		rec = func(seq []Op, m *mworld, o Op, depth int) {
			if so.errEng != "" {
				return
			}
			n++
			res, scripted := step(h, d, seq, m, o, stride > 0 && (i*31+n)%stride == 0)
			so.steps++
			if scripted {
				so.scripts++
			}
			if res.errEng != "" {
				so.errEng = res.errEng
				return
			}
			so.outcomes[d.name+"|"+o.K+"|"+o.T+">"+o.D+"|"+o.F+"|"+res.class] = struct{}{}
			if res.mm != nil {
				so.addMismatch(res.mm)
				return
			}
			if depth >= maxDepth {
				return
			}
			ho := o
			ho.Err = res.class == "error-required" || res.class == "error-admitted"
			if ho.Err && res.next.key(d.vars) != m.key(d.vars) {
				return // error together with an admitted reordering: a flat program cannot continue from there
			}
			nseq := append(append(make([]Op, 0, len(seq)+1), seq...), ho)
			for _, o2 := range d.enum(res.next) {
				if filter != nil && !filter(depth+1, o2) {
					continue
				}
				rec(nseq, res.next, o2, depth+1)
			}
		}
		rec(jobs[i].pre, jobs[i].m, jobs[i].o, 1)
	})
	total := 0
	report(r, &preOut)
	t.validated += preOut.steps
	for i := range outs {
		report(r, &outs[i])
		total += outs[i].steps
		t.validated += outs[i].steps + outs[i].scripts
		t.scripts += outs[i].scripts
	}
	r.Add("unmerged_sequences_"+d.name, total)
}

// ---------------------------------------------------------------- entry

func Check(r *ev.Run, replay string) {
	if replay != "" {
		replayOne(r, replay)
		return
	}
	// bounds
	listLen, aliasLen, strLen, maxZ := 4, 3, 4, 1
	stride, udepth, ustride := 10, 2, 50
	if r.Thorough() {
		aliasLen = 4
		stride, udepth, ustride = 1, 3, 200
	}
	// byte_slice has ~1200 operations per state (19 x 19 slice bounds on two variables): depth 3 would be
	// 1.3 x 10^8 sequences for no new kind of history, so its un-merged depth stays 2 in both tiers
	udepthOf := func(d *domain) int {
		if d.name == "byte_slice" {
			return 2
		}
		return udepth
	}
	if s := envInt("C16_STRIDE"); s > 0 {
		stride = s
	}
	doms := []*domain{listDomain(listLen, aliasLen), mapDomain(), setDomain(), stringDomain(strLen), bytesDomain(maxZ)}
	r.Assumptions = []string{
		"values {1, 2, \"a\"} (a state is expanded only while every element is one of them; transitions that leave the pool or the length bound are still executed and judged)",
		"where the statement is silent the model admits two outcomes: x[len:len] and x[i:j] with i > j (empty or error), insert beyond either end (clamp or error), remove/index of a missing value, map[k]/m.k/pop(k)/delete of a missing key (nil/no-op or error), s[v] on a set (membership flag or error), sort of mixed ints and strings (error or any permutation)",
		"the value returned by mutating methods (append returns the list, ...) and by each() is not judged; the order of map/set iteration, keys(), values(), items() is not judged (compared as multisets)",
		"iterate-while-mutating is left out: the statement gives no oracle for it",
		"builtins passed as callbacks, `+` with a wrongly typed operand, s[unhashable] and sort() of a list holding maps may raise an error or give the natural result - only a panic or a changed operand is a failure there",
		"one-variable `for v in set` is not judged (it yields `true` per member on this tree; the repository's own test only pins the count); sets are iterated with `for k := range s`",
		"maps use keys {a, b}; keys that collide with method names (m.keys) are not enumerated: the statement does not say which wins",
	}
	// the search allocates many short-lived small objects on a tiny live heap: let the heap grow between collections
	defer debug.SetGCPercent(debug.SetGCPercent(2000))
	var t totals
	if f := os.Getenv("C16_PROF"); f != "" {
		pf, _ := os.Create(f)
		pprof.StartCPUProfile(pf)
		defer pprof.StopCPUProfile()
	}
	t0 := time.Now()
	dbg := func(what string) {
		if os.Getenv("C16_DEBUG") != "" {
			fmt.Fprintf(os.Stderr, "[c16] %-28s %6.1fs states=%d transitions=%d validated=%d scripts=%d\n", what, time.Since(t0).Seconds(), t.states, t.transitions, t.validated, t.scripts)
		}
	}
	for _, d := range doms {
		explore(r, d, stride, &t)
		dbg("bfs " + d.name)
	}
	for _, d := range doms {
		unmerged(r, d, udepthOf(d), ustride, &t, nil)
		dbg("unmerged " + d.name)
		if (d.name == "map" || d.name == "set") && udepthOf(d) < 3 {
			// quick: the depth-3 sequences of the shape view, mutation, view (an ordered view of the container,
			// any operation that is not one, an ordered view again): what a view leaves behind in the
			// object must not outlive the mutation
			isView := func(k string) bool {
				switch k {
				case "keys", "values", "items", "bkeys", "iter":
					return true
				}
				return false
			}
			unmerged(r, d, 3, ustride, &t, func(depth int, o Op) bool { return isView(o.K) == (depth != 2) })
			dbg("unmerged view-mutate-view " + d.name)
		}
	}
	longLists(r, doms[0], &t, r.Thorough())
	dbg("long lists")
	literalFamily(r, &t)
	sortExtremes(r, &t)
	dbg("literals")
	r.Set("states", t.states)
	r.Set("transitions", t.transitions)
	r.Set("traces_validated_against_impl", t.validated)
	r.Set("script_steps", t.scripts)
	r.Eval(t.validated)
	r.Set("rule", fmt.Sprintf("explicit-state BFS to a fixpoint, states merged on the contents of every variable, per container type: "+
		"list l (+ derived list c: copy / l[i:j] / + / list() / sorted() / reversed() / map / filter results), values {1,2,\"a\"}, len(l) <= %d, len(c) <= %d, "+
		"alphabet on both l and c: append insert pop remove extend(literal|self|other) reverse sort clear x[i]=v x[i]+=v delete x[i] x[i:j] x[:j] x[i:] x[:] in index count len for-range, "+
		"map/filter/each with risor functions compiled from source (returning / storing their index) and with builtins as callbacks, wrongly typed keys, every index in [-len-2, len+2]; "+
		"map m (+ copy c) over keys {a,b}: [k] [k]=v [k]+=v get pop delete update setdefault clear copy keys values items attribute get/set in len for-range; "+
		"set s (+ derived c): add remove delete clear union intersection in [v] len for-range; "+
		"string over the code points of %q (every substring and every string of <= %d code points reachable by slicing, indexing, reversing, appending one code point): [i] [i:j] [:j] [i:] + in len for-range; "+
		"byte_slice b = bytes of %q (+ derived c: slice / clone / byte_slice() / +), [i]=\"Z\" with at most %d changed bytes per variable; "+
		"every transition through the object API, every %d-th also as a program through risor.Eval; plus all un-merged operation sequences of depth <= %d (byte_slice: 2) from up to %d starting histories per type (for lists one with spare slice capacity and a stale slot), every %d-th of them also through risor.Eval; quick adds for maps and sets every depth-3 sequence of the shape ordered view, other operation, ordered view; long lists: lists of 9, 12, 16, 17, 20, 33 distinct integers built by single appends or from one literal and drained to one element by pop(i) / delete / remove(value) at position p1 for the first k steps and p2 afterwards (5 positions each; k in 4 places, thorough every k), then grown again, every step judged. distinct = distinct state keys + distinct (type, operation, operand, destination, callback, outcome class) tuples",
		listLen, aliasLen, baseText, strLen, baseText, maxZ, stride, udepth, len(doms[0].prefixes), ustride))
	r.Sample(map[string]any{"domain": "list", "history": []string{"l.append(1)", "c = l[0:1]"}, "op": "c.append(2)", "judged": "result, error-or-not, contents of l and c against the Go slice model"})
	r.Sample(map[string]any{"domain": "list", "script": scriptFor(doms[0], []Op{{K: "append", T: "l", V: "1"}}, Op{K: "iadd", T: "l", I: -1, V: "1"})})
	r.Sample(map[string]any{"domain": "string", "op": Op{K: "slice", T: "s", I: 1, J: 3, D: "s"}.String(), "model": "é€"})
}
