package c16

import (
	"fmt"
	"os"
	"strconv"

	"verif/internal/ev"
)

func envInt(name string) int {
	n, _ := strconv.Atoi(os.Getenv(name))
	return n
}

func domainByName(name string) *domain {
	switch name {
	case "list":
		return listDomain(4, 4)
	case "map":
		return mapDomain()
	case "set":
		return setDomain()
	case "string":
		return stringDomain(4)
	case "byte_slice":
		return bytesDomain(1)
	}
	return nil
}

// replayOne re-executes exactly one (history, operation) case on both paths and prints what happens.
func replayOne(r *ev.Run, path string) {
	var in replayInput
	if err := ev.ReadReplay(path, &in); err != nil {
		r.EngineError("cannot read replay: " + err.Error())
		return
	}
	if in.Domain == "literal" {
		res, errText, panicText := evalScript(litGlobals, in.Op.V, nil)
		fmt.Printf("program:\n%s\nresult=%v error=%q panic=%q\n", in.Op.V, res, errText, panicText)
		r.Eval(1)
		r.Outcome("a")
		r.Outcome("b")
		return
	}
	d := domainByName(in.Domain)
	if d == nil {
		r.EngineError("replay: unknown domain " + in.Domain)
		return
	}
	m := d.init()
	for _, p := range in.Seq {
		evalModel(m, p)
	}
	fmt.Printf("domain %s\nhistory:\n", d.name)
	for _, p := range in.Seq {
		fmt.Printf("  %s\n", p)
	}
	fmt.Printf("state (model): {%s}\nop: %s\n", m.key(d.vars), in.Op)
	after := m.clone()
	e := evalModel(after, in.Op)
	fmt.Printf("model: mustErr=%v errAdmitted=%v result=%s state after={%s}\n", e.mustErr, e.errOK, render(e.obs), after.key(d.vars))
	h := newHarness()
	r.Eval(1)
	for _, mode := range []string{"api", "script"} {
		if in.Mode == "api" && mode == "script" {
			// still shown, for comparison
		}
		var out realOut
		if mode == "api" {
			var rerr string
			out, rerr = runAPI(h, d, in.Seq, in.Op)
			if rerr != "" {
				r.EngineError("replay diverged: " + rerr)
				return
			}
		} else {
			src := scriptFor(d, in.Seq, in.Op)
			fmt.Printf("script:\n%s\n", src)
			out = runScriptStep(h, d, src, true)
		}
		fmt.Printf("%s: error=%v panic=%q", mode, out.isErr, out.panicked)
		if out.res != nil {
			fmt.Printf(" result=%s", renderObj(out.res))
		}
		if out.vars != nil {
			for _, n := range d.vars {
				fmt.Printf(" %s=%s", n, renderObj(out.vars[n]))
			}
			fmt.Printf(" seen=%s", renderObj(out.seen))
		}
		fmt.Println()
		a2 := m.clone()
		e2 := evalModel(a2, in.Op)
		_, mm, class := judge(d, m, a2, e2, in.Op, out, mode)
		r.Outcome(mode + "|" + class)
		if mm != nil {
			fmt.Printf("%s: MISMATCH %s\n  observed: %s\n  expected: %s\n", mode, mm.sig, mm.observed, mm.expected)
			if mode == in.Mode {
				mm.input = in
				r.Report(mm.sig, mm.what, mm.input, mm.observed, mm.expected)
			}
		} else {
			fmt.Printf("%s: agrees with the model (%s)\n", mode, class)
		}
	}
}
