package c16

// A domain is one container type with its variables, its operation alphabet (instantiated per state:
// indices range over [-len-2, len+2] of the operand's current length) and the bound on the states that
// are expanded. Transitions leaving the bound are still executed and checked; only their successor is
// not expanded.

type domain struct {
	name     string
	vars     []string
	prolog   string
	init     func() *mworld
	enum     func(m *mworld) []Op
	admit    func(m *mworld) bool
	prefixes [][]Op // starting histories of the un-merged enumeration
}

var pool3 = []string{`1`, `2`, `"a"`}

func inPool(v V) bool {
	switch x := v.(type) {
	case int64:
		return x == 1 || x == 2
	case string:
		return x == "a"
	}
	return false
}

// ---------------------------------------------------------------- list

func listDomain(maxLen, maxAlias int) *domain {
	d := &domain{name: "list", vars: []string{"l", "c"}, prolog: "l := []\nc := nil\n"}
	d.init = func() *mworld {
		return &mworld{vars: map[string]V{"l": mlist{}, "c": nil}, origin: map[string]string{}}
	}
	d.admit = func(m *mworld) bool {
		l := m.vars["l"].(mlist)
		if len(l) > maxLen {
			return false
		}
		for _, e := range l {
			if !inPool(e) {
				return false
			}
		}
		if c, ok := m.vars["c"].(mlist); ok {
			if len(c) > maxAlias {
				return false
			}
			for _, e := range c {
				if !inPool(e) {
					return false
				}
			}
		} else if m.vars["c"] != nil {
			return false
		}
		return true
	}
	d.enum = func(m *mworld) []Op {
		var out []Op
		for _, T := range []string{"l", "c"} {
			tv, ok := m.vars[T].(mlist)
			if !ok {
				continue
			}
			U := "c"
			if T == "c" {
				U = "l"
			}
			_, otherOK := m.vars[U].(mlist)
			n := len(tv)
			lo, hi := -n-2, n+2
			for _, v := range pool3 {
				out = append(out, Op{K: "append", T: T, V: v}, Op{K: "remove", T: T, V: v},
					Op{K: "in", T: T, V: v}, Op{K: "index", T: T, V: v}, Op{K: "count", T: T, V: v})
			}
			// a needle of another numeric type than the element it equals
			out = append(out, Op{K: "remove", T: T, V: `2.0`}, Op{K: "in", T: T, V: `2.0`}, Op{K: "index", T: T, V: `2.0`}, Op{K: "count", T: T, V: `2.0`})
			out = append(out, Op{K: "extendlit", T: T, V: `[2, "a"]`}, Op{K: "extendlit", T: T, V: `[]`}, Op{K: "extend", T: T, U: T})
			if otherOK {
				out = append(out, Op{K: "extend", T: T, U: U})
			}
			out = append(out, Op{K: "reverse", T: T}, Op{K: "sort", T: T}, Op{K: "clear", T: T},
				Op{K: "len", T: T}, Op{K: "iter", T: T})
			for i := lo; i <= hi; i++ {
				out = append(out, Op{K: "pop", T: T, I: i}, Op{K: "get", T: T, I: i}, Op{K: "del", T: T, I: i})
				for _, v := range pool3 {
					out = append(out, Op{K: "insert", T: T, I: i, V: v}, Op{K: "set", T: T, I: i, V: v})
				}
				out = append(out, Op{K: "iadd", T: T, I: i, V: `1`}, Op{K: "iadd", T: T, I: i, V: `"a"`})
			}
			// slices of l are kept in c (slice-then-mutate-either); slices of c are only read
			D := ""
			if T == "l" {
				D = "c"
			}
			for i := lo; i <= hi; i++ {
				for j := lo; j <= hi; j++ {
					out = append(out, Op{K: "slice", T: T, D: D, I: i, J: j})
				}
				out = append(out, Op{K: "slice", T: T, D: D, I: i, NoJ: true}, Op{K: "slice", T: T, D: D, J: i, NoI: true})
			}
			out = append(out, Op{K: "slice", T: T, D: D, NoI: true, NoJ: true})
			// wrongly typed accesses
			out = append(out, Op{K: "getk", T: T, V: `"a"`}, Op{K: "getk", T: T, V: `nil`}, Op{K: "getk", T: T, V: `1.5`},
				Op{K: "setk", T: T, V: `"a"`, W: `1`}, Op{K: "popk", T: T, V: `"a"`}, Op{K: "insertk", T: T, V: `"a"`},
				Op{K: "slicek", T: T, V: `"a"`, J: 1}, Op{K: "addlit", T: T, V: `1`}, Op{K: "sortnc", T: T},
				Op{K: "fmap", T: T, F: "bad"})
		}
		// new containers derived from l, kept in c
		out = append(out, Op{K: "copy", T: "l", D: "c"}, Op{K: "add", T: "l", U: "l", D: "c"},
			Op{K: "addlit", T: "l", V: `[2, "a"]`, D: "c"}, Op{K: "blist", T: "l", D: "c"},
			Op{K: "bsorted", T: "l", D: "c"}, Op{K: "breversed", T: "l", D: "c"})
		if _, ok := m.vars["c"].(mlist); ok {
			out = append(out, Op{K: "add", T: "l", U: "c", D: "c"}, Op{K: "add", T: "c", U: "l", D: "c"}, Op{K: "copy", T: "c", D: "c"})
		}
		for _, f := range []string{"val1", "idx", "idxplus", "pair", "store", "b:type"} {
			out = append(out, Op{K: "fmap", T: "l", D: "c", F: f})
		}
		for _, f := range []string{"ne1", "keep", "b:bool"} {
			out = append(out, Op{K: "ffilter", T: "l", D: "c", F: f})
		}
		for _, f := range []string{"storev", "b:type"} {
			out = append(out, Op{K: "feach", T: "l", F: f})
		}
		return out
	}
	// un-merged starting histories: empty; a literal-like list with len == cap; a list with spare capacity
	// and a stale slot behind its end (append x4, pop) - the hidden state the content key cannot see
	d.prefixes = [][]Op{
		{},
		{{K: "extendlit", T: "l", V: `[2, "a"]`}},
		{{K: "append", T: "l", V: `1`}, {K: "append", T: "l", V: `2`}, {K: "append", T: "l", V: `"a"`}, {K: "append", T: "l", V: `2`}, {K: "pop", T: "l", I: -1}, {K: "pop", T: "l", I: 0}},
	}
	return d
}

// ---------------------------------------------------------------- map

func mapDomain() *domain {
	d := &domain{name: "map", vars: []string{"m", "c"}, prolog: "m := {}\nc := nil\n"}
	d.init = func() *mworld {
		return &mworld{vars: map[string]V{"m": mmap{}, "c": nil}, origin: map[string]string{}}
	}
	okMap := func(v V) bool {
		mm, ok := v.(mmap)
		if !ok {
			return false
		}
		for k, e := range mm {
			if (k != "a" && k != "b") || (e != nil && !inPool(e)) {
				return false // values: the pool and nil (a key that holds nil is present)
			}
		}
		return true
	}
	d.admit = func(m *mworld) bool {
		return okMap(m.vars["m"]) && (m.vars["c"] == nil || okMap(m.vars["c"]))
	}
	keys := []string{`"a"`, `"b"`}
	d.enum = func(m *mworld) []Op {
		var out []Op
		for _, T := range []string{"m", "c"} {
			if _, ok := m.vars[T].(mmap); !ok {
				continue
			}
			U := "c"
			if T == "c" {
				U = "m"
			}
			_, otherOK := m.vars[U].(mmap)
			for _, k := range keys {
				name := k[1 : len(k)-1]
				out = append(out, Op{K: "getk", T: T, V: k}, Op{K: "mget", T: T, V: k}, Op{K: "mget", T: T, V: k, W: `2`},
					Op{K: "mpop", T: T, V: k}, Op{K: "mpop", T: T, V: k, W: `2`}, Op{K: "delk", T: T, V: k},
					Op{K: "in", T: T, V: k}, Op{K: "attr", T: T, V: name})
				for _, v := range append(append([]string{}, pool3...), `nil`) {
					out = append(out, Op{K: "setk", T: T, V: k, W: v}, Op{K: "msetdefault", T: T, V: k, W: v}, Op{K: "setattr", T: T, V: name, W: v})
				}
				out = append(out, Op{K: "iaddk", T: T, V: k, W: `1`}, Op{K: "iaddk", T: T, V: k, W: `"a"`})
			}
			out = append(out, Op{K: "mupdlit", T: T, V: `{"b": 2}`}, Op{K: "mupdlit", T: T, V: `{"a": "a", "b": 1}`}, Op{K: "mupd", T: T, U: T})
			if otherOK {
				out = append(out, Op{K: "mupd", T: T, U: U})
			}
			out = append(out, Op{K: "clear", T: T}, Op{K: "keys", T: T}, Op{K: "values", T: T}, Op{K: "items", T: T},
				Op{K: "bkeys", T: T}, Op{K: "len", T: T}, Op{K: "iter", T: T})
			// wrongly typed accesses
			out = append(out, Op{K: "getk", T: T, V: `1`}, Op{K: "getk", T: T, V: `nil`}, Op{K: "setk", T: T, V: `1`, W: `1`},
				Op{K: "iaddk", T: T, V: `1`, W: `1`}, Op{K: "delk", T: T, V: `1`}, Op{K: "slice", T: T, I: 0, J: 1})
		}
		out = append(out, Op{K: "copy", T: "m", D: "c"})
		if _, ok := m.vars["c"].(mmap); ok {
			out = append(out, Op{K: "copy", T: "c", D: "c"})
		}
		return out
	}
	d.prefixes = [][]Op{{}, {{K: "mupdlit", T: "m", V: `{"a": "a", "b": 1}`}}}
	return d
}

// ---------------------------------------------------------------- set

func setDomain() *domain {
	d := &domain{name: "set", vars: []string{"s", "c"}, prolog: "s := set()\nc := nil\n"}
	d.init = func() *mworld {
		return &mworld{vars: map[string]V{"s": mset{}, "c": nil}, origin: map[string]string{}}
	}
	d.admit = func(m *mworld) bool { return true } // at most 3 members each: the space is finite as it is
	d.enum = func(m *mworld) []Op {
		var out []Op
		for _, T := range []string{"s", "c"} {
			if _, ok := m.vars[T].(mset); !ok {
				continue
			}
			U := "c"
			if T == "c" {
				U = "s"
			}
			_, otherOK := m.vars[U].(mset)
			for _, v := range pool3 {
				out = append(out, Op{K: "sadd", T: T, V: v}, Op{K: "sremove", T: T, V: v}, Op{K: "delk", T: T, V: v},
					Op{K: "in", T: T, V: v}, Op{K: "getk", T: T, V: v})
			}
			out = append(out, Op{K: "clear", T: T}, Op{K: "len", T: T}, Op{K: "iter", T: T, F: "values"},
				Op{K: "sadd", T: T, V: `[1]`}, Op{K: "getk", T: T, V: `[1]`}, Op{K: "slice", T: T, I: 0, J: 1})
			for _, k := range []string{"union", "intersection"} {
				out = append(out, Op{K: k, T: T, V: `{2, "a"}`, D: "c"}, Op{K: k, T: T, V: `{1}`, D: "c"}, Op{K: k, T: T, U: T, D: "c"})
				if otherOK {
					out = append(out, Op{K: k, T: T, U: U, D: "c"})
				}
			}
		}
		return out
	}
	d.prefixes = [][]Op{{}, {{K: "sadd", T: "s", V: `1`}, {K: "sadd", T: "s", V: `"a"`}}}
	return d
}

// ---------------------------------------------------------------- string

const baseText = "aé€z"

func stringDomain(maxLen int) *domain {
	d := &domain{name: "string", vars: []string{"s"}, prolog: "s := \"" + baseText + "\"\n"}
	d.init = func() *mworld {
		return &mworld{vars: map[string]V{"s": baseText}, origin: map[string]string{}}
	}
	d.admit = func(m *mworld) bool {
		s, ok := m.vars["s"].(string)
		return ok && len([]rune(s)) <= maxLen
	}
	d.enum = func(m *mworld) []Op {
		var out []Op
		s := m.vars["s"].(string)
		n := len([]rune(s))
		lo, hi := -n-2, n+2
		for i := lo; i <= hi; i++ {
			// every read is also used to rebind s, so that every substring becomes a state of its own
			out = append(out, Op{K: "get", T: "s", I: i, D: "s"}, Op{K: "set", T: "s", I: i, V: `"z"`})
			for j := lo; j <= hi; j++ {
				out = append(out, Op{K: "slice", T: "s", I: i, J: j, D: "s"})
			}
			out = append(out, Op{K: "slice", T: "s", I: i, NoJ: true, D: "s"}, Op{K: "slice", T: "s", J: i, NoI: true, D: "s"})
		}
		out = append(out, Op{K: "slice", T: "s", NoI: true, NoJ: true, D: "s"})
		for _, v := range []string{`"a"`, `"é"`, `"€"`, `"z"`} {
			out = append(out, Op{K: "addlit", T: "s", V: v, D: "s"}, Op{K: "in", T: "s", V: v})
		}
		out = append(out, Op{K: "in", T: "s", V: `"é€"`}, Op{K: "len", T: "s"}, Op{K: "iter", T: "s"}, Op{K: "breversed", T: "s", D: "s"},
			Op{K: "getk", T: "s", V: `"a"`}, Op{K: "getk", T: "s", V: `nil`}, Op{K: "slicek", T: "s", V: `"a"`, J: 1}, Op{K: "addlit", T: "s", V: `1`})
		return out
	}
	d.prefixes = [][]Op{{}}
	return d
}

// ---------------------------------------------------------------- byte_slice

func bytesDomain(maxZ int) *domain {
	d := &domain{name: "byte_slice", vars: []string{"b", "c"}, prolog: "b := byte_slice(\"" + baseText + "\")\nc := nil\n"}
	d.init = func() *mworld {
		return &mworld{vars: map[string]V{"b": mbytes(baseText), "c": nil}, origin: map[string]string{}}
	}
	zs := func(v V) int {
		n := 0
		for _, x := range v.(mbytes) {
			if x == 'Z' {
				n++
			}
		}
		return n
	}
	d.admit = func(m *mworld) bool {
		b := m.vars["b"].(mbytes)
		if len(b) != len(baseText) || zs(b) > maxZ {
			return false
		}
		if c, ok := m.vars["c"].(mbytes); ok {
			return len(c) <= len(baseText) && zs(c) <= maxZ
		}
		return m.vars["c"] == nil
	}
	d.enum = func(m *mworld) []Op {
		var out []Op
		for _, T := range []string{"b", "c"} {
			tv, ok := m.vars[T].(mbytes)
			if !ok {
				continue
			}
			n := len(tv)
			lo, hi := -n-2, n+2
			D := ""
			if T == "b" {
				D = "c"
			}
			for i := lo; i <= hi; i++ {
				out = append(out, Op{K: "get", T: T, I: i}, Op{K: "set", T: T, I: i, V: `"Z"`})
				for j := lo; j <= hi; j++ {
					out = append(out, Op{K: "slice", T: T, D: D, I: i, J: j})
				}
				out = append(out, Op{K: "slice", T: T, D: D, I: i, NoJ: true}, Op{K: "slice", T: T, D: D, J: i, NoI: true})
			}
			out = append(out, Op{K: "slice", T: T, D: D, NoI: true, NoJ: true},
				Op{K: "len", T: T}, Op{K: "iter", T: T}, Op{K: "in", T: T, V: `"é"`}, Op{K: "in", T: T, V: `"Z"`},
				Op{K: "getk", T: T, V: `"a"`}, Op{K: "slicek", T: T, V: `"a"`, J: 1}, Op{K: "setk", T: T, V: `"a"`, W: `"Z"`})
		}
		out = append(out, Op{K: "copy", T: "b", D: "c", F: "clone"}, Op{K: "bbytes", T: "b", D: "c"},
			Op{K: "add", T: "b", U: "b", D: "c"}, Op{K: "addlit", T: "b", V: `"Z"`, D: "c"})
		if _, ok := m.vars["c"].(mbytes); ok {
			out = append(out, Op{K: "add", T: "b", U: "c", D: "c"}, Op{K: "copy", T: "c", D: "c", F: "clone"})
		}
		return out
	}
	d.prefixes = [][]Op{{}}
	return d
}
