package c16

import (
	"context"
	"fmt"
	"sort"
	"strings"
	"sync"

	"github.com/risor-io/risor"
	"github.com/risor-io/risor/builtins"
	"github.com/risor-io/risor/compiler"
	"github.com/risor-io/risor/object"
	"github.com/risor-io/risor/op"
	"github.com/risor-io/risor/parser"
	"github.com/risor-io/risor/vm"
)

// harness holds what the object-API driver needs to let list.map/filter/each call risor functions:
// a VM on which the callbacks were compiled from source, and a context carrying its call function.
type harness struct {
	ctx     context.Context
	machine *vm.VirtualMachine
	fns     map[string]object.Object
	seen    *object.List
	svm     *vm.VirtualMachine // reused by the script path (saves allocating a VM per program); see evalScript
	g       map[string]any
}

func builtinGlobals() map[string]any {
	g := map[string]any{}
	for k, v := range builtins.Builtins() {
		g[k] = v
	}
	return g
}

func newHarness() *harness {
	ctx := context.Background()
	var sb strings.Builder
	sb.WriteString("seen := []\n")
	ids := make([]string, 0, len(callbackSrc))
	for id := range callbackSrc {
		ids = append(ids, id)
	}
	sort.Strings(ids)
	for _, id := range ids {
		if strings.HasPrefix(id, "b:") || id == "bad" {
			continue
		}
		fmt.Fprintf(&sb, "f_%s := %s\n", id, callbackSrc[id])
	}
	prog, err := parser.Parse(ctx, sb.String())
	if err != nil {
		panic("c16 harness: " + err.Error())
	}
	g := builtinGlobals()
	names := make([]string, 0, len(g))
	for k := range g {
		names = append(names, k)
	}
	sort.Strings(names)
	code, err := compiler.Compile(prog, compiler.WithGlobalNames(names))
	if err != nil {
		panic("c16 harness: " + err.Error())
	}
	m := vm.New(code, vm.WithGlobals(g))
	if err := m.Run(ctx); err != nil {
		panic("c16 harness: " + err.Error())
	}
	h := &harness{machine: m, fns: map[string]object.Object{}, g: builtinGlobals()}
	h.svm, _ = vm.NewEmpty()
	for _, id := range ids {
		switch {
		case strings.HasPrefix(id, "b:"):
			h.fns[id] = g[id[2:]].(object.Object)
		case id == "bad":
			h.fns[id] = object.NewInt(1)
		default:
			f, err := m.Get("f_" + id)
			if err != nil {
				panic("c16 harness: " + err.Error())
			}
			h.fns[id] = f
		}
	}
	s, err := m.Get("seen")
	if err != nil {
		panic("c16 harness: " + err.Error())
	}
	h.seen = s.(*object.List)
	h.ctx = object.WithCallFunc(ctx, func(ctx context.Context, fn *object.Function, args []object.Object) (object.Object, error) {
		return m.Call(ctx, fn, args)
	})
	return h
}

// harnessPool: a fixed free-list (a sync.Pool would be emptied by every GC cycle and the VM rebuilt).
type hpool struct {
	mu   sync.Mutex
	free []*harness
}

func (p *hpool) Get() any {
	p.mu.Lock()
	if n := len(p.free); n > 0 {
		h := p.free[n-1]
		p.free = p.free[:n-1]
		p.mu.Unlock()
		return h
	}
	p.mu.Unlock()
	return newHarness()
}

func (p *hpool) Put(h *harness) {
	p.mu.Lock()
	p.free = append(p.free, h)
	p.mu.Unlock()
}

var harnessPool = &hpool{}

// call invokes a method obtained through GetAttr, the way the VM does for x.name(args).
func (h *harness) call(t object.Object, name string, args ...object.Object) (object.Object, bool) {
	a, ok := t.GetAttr(name)
	if !ok {
		return nil, true
	}
	c, ok := a.(object.Callable)
	if !ok {
		return nil, true
	}
	r := c.Call(h.ctx, args...)
	if object.IsError(r) {
		return nil, true
	}
	return r, false
}

func builtinRes(r object.Object) (object.Object, bool) {
	if object.IsError(r) {
		return nil, true
	}
	return r, false
}

// evalReal applies one operation to the real objects through the object API.
// It returns the result (nil if the operation has none) and whether an error was raised.
func (h *harness) evalReal(w map[string]object.Object, o Op) (object.Object, bool) {
	res, isErr := h.evalRealInner(w, o)
	if !isErr && o.D != "" && res != nil {
		w[o.D] = res
	}
	return res, isErr
}

func (h *harness) evalRealInner(w map[string]object.Object, o Op) (object.Object, bool) {
	t := w[o.T]
	cont, _ := t.(object.Container)
	ix := func(i int) object.Object { return object.NewInt(int64(i)) }
	switch o.K {
	case "get", "getk":
		if cont == nil {
			return nil, true
		}
		key := ix(o.I)
		if o.K == "getk" {
			key = realizeLit(o.V)
		}
		v, e := cont.GetItem(key)
		if e != nil {
			return nil, true
		}
		return v, false
	case "slice", "slicek":
		if cont == nil {
			return nil, true
		}
		var s object.Slice
		if !o.NoI {
			s.Start = ix(o.I)
		}
		if !o.NoJ {
			s.Stop = ix(o.J)
		}
		if o.K == "slicek" {
			s.Start = realizeLit(o.V)
		}
		v, e := cont.GetSlice(s)
		if e != nil {
			return nil, true
		}
		return v, false
	case "in":
		return cont.Contains(realizeLit(o.V)), false
	case "len":
		return cont.Len(), false
	case "iter":
		it := cont.Iter()
		var items []object.Object
		for n := 0; n < 1000; n++ {
			v, ok := it.Next(h.ctx)
			if !ok {
				break
			}
			if o.F == "values" {
				items = append(items, v)
				continue
			}
			e, ok := it.Entry()
			if !ok {
				return nil, true
			}
			items = append(items, object.NewList([]object.Object{e.Key(), e.Value()}))
		}
		return object.NewList(items), false
	case "set", "setk":
		if cont == nil {
			return nil, true
		}
		key, val := ix(o.I), realizeLit(o.V)
		if o.K == "setk" {
			key, val = realizeLit(o.V), realizeLit(o.W)
		}
		if e := cont.SetItem(key, val); e != nil {
			return nil, true
		}
		return nil, false
	case "iadd", "iaddk":
		// what the compiler emits for x[k] += v: BinarySubscr, BinaryOp Add, StoreSubscr
		key, val := ix(o.I), realizeLit(o.V)
		if o.K == "iaddk" {
			key, val = realizeLit(o.V), realizeLit(o.W)
		}
		cur, e := cont.GetItem(key)
		if e != nil {
			return nil, true
		}
		sum, err := object.BinaryOp(op.Add, cur, val)
		if err != nil || object.IsError(sum) {
			return nil, true
		}
		if e := cont.SetItem(key, sum); e != nil {
			return nil, true
		}
		return nil, false
	case "del":
		_, isErr := builtinRes(builtins.Delete(h.ctx, t, ix(o.I)))
		return nil, isErr
	case "delk":
		_, isErr := builtinRes(builtins.Delete(h.ctx, t, realizeLit(o.V)))
		return nil, isErr
	case "copy":
		if o.F == "clone" {
			return h.call(t, "clone")
		}
		return h.call(t, "copy")
	case "add", "addlit":
		var rhs object.Object
		if o.K == "add" {
			rhs = w[o.U]
		} else {
			rhs = realizeLit(o.V)
		}
		v, err := object.BinaryOp(op.Add, t, rhs)
		if err != nil || object.IsError(v) {
			return nil, true
		}
		return v, false
	case "blist":
		return builtinRes(builtins.List(h.ctx, t))
	case "bbytes":
		return builtinRes(builtins.ByteSlice(h.ctx, t))
	case "bsorted":
		return builtinRes(builtins.Sorted(h.ctx, t))
	case "breversed":
		return builtinRes(builtins.Reversed(h.ctx, t))
	case "bkeys":
		return builtinRes(builtins.Keys(h.ctx, t))
	case "append":
		_, e := h.call(t, "append", realizeLit(o.V))
		return nil, e
	case "insert":
		_, e := h.call(t, "insert", ix(o.I), realizeLit(o.V))
		return nil, e
	case "insertk":
		_, e := h.call(t, "insert", realizeLit(o.V), ix(1))
		return nil, e
	case "pop":
		return h.call(t, "pop", ix(o.I))
	case "popk":
		return h.call(t, "pop", realizeLit(o.V))
	case "remove":
		_, e := h.call(t, "remove", realizeLit(o.V))
		return nil, e
	case "extendlit":
		_, e := h.call(t, "extend", realizeLit(o.V))
		return nil, e
	case "extend":
		_, e := h.call(t, "extend", w[o.U])
		return nil, e
	case "reverse", "sort", "clear":
		_, e := h.call(t, o.K)
		return nil, e
	case "sortnc":
		tmp, err := object.BinaryOp(op.Add, t, object.NewList([]object.Object{object.NewMap(nil), object.NewMap(nil)}))
		if err != nil {
			return nil, true
		}
		_, e := h.call(tmp, "sort")
		return nil, e
	case "index", "count":
		return h.call(t, o.K, realizeLit(o.V))
	case "fmap":
		return h.call(t, "map", h.fns[o.F])
	case "ffilter":
		return h.call(t, "filter", h.fns[o.F])
	case "feach":
		_, e := h.call(t, "each", h.fns[o.F])
		return nil, e
	case "mget", "mpop":
		name := "get"
		if o.K == "mpop" {
			name = "pop"
		}
		if o.W != "" {
			return h.call(t, name, realizeLit(o.V), realizeLit(o.W))
		}
		return h.call(t, name, realizeLit(o.V))
	case "mupdlit":
		_, e := h.call(t, "update", realizeLit(o.V))
		return nil, e
	case "mupd":
		_, e := h.call(t, "update", w[o.U])
		return nil, e
	case "msetdefault":
		return h.call(t, "setdefault", realizeLit(o.V), realizeLit(o.W))
	case "keys", "values", "items":
		return h.call(t, o.K)
	case "attr":
		v, ok := t.GetAttr(o.V)
		if !ok {
			return nil, true
		}
		return v, false
	case "setattr":
		if err := t.SetAttr(o.V, realizeLit(o.W)); err != nil {
			return nil, true
		}
		return nil, false
	case "sadd":
		_, e := h.call(t, "add", realizeLit(o.V))
		return nil, e
	case "sremove":
		_, e := h.call(t, "remove", realizeLit(o.V))
		return nil, e
	case "union", "intersection":
		if o.U != "" {
			return h.call(t, o.K, w[o.U])
		}
		return h.call(t, o.K, realizeLit(o.V))
	}
	panic("evalReal: unhandled " + o.K)
}

// ---------------------------------------------------------------- script path

// evalScript evaluates a whole history as one risor program through risor.Eval. With reuse == nil a new VM is
// created by Eval (the plain embedding path); otherwise the program runs on the given VM (risor.WithVM), which
// Eval resets first. The search uses the reused VM for speed and re-runs every disagreeing program on a fresh
// one before reporting, so that a report never depends on VM reuse.
func evalScript(g map[string]any, src string, reuse *vm.VirtualMachine) (res object.Object, errText string, panicText string) {
	defer func() {
		if p := recover(); p != nil {
			res, errText, panicText = nil, "", fmt.Sprintf("panic out of risor.Eval: %v", p)
		}
	}()
	opts := []risor.Option{risor.WithoutDefaultGlobals(), risor.WithGlobals(g)}
	if reuse != nil {
		opts = append(opts, risor.WithVM(reuse))
	}
	res, err := risor.Eval(context.Background(), src, opts...)
	if err != nil {
		return nil, err.Error(), ""
	}
	return res, "", ""
}
