package c16

import (
	"fmt"
	"sort"
	"strings"
)

// Op is one container operation. It is plain data (JSON-serialisable): the same value drives the reference
// model, the object API and the script renderer, and is what replay files contain.
type Op struct {
	K   string `json:"k"`             // kind
	T   string `json:"t,omitempty"`   // operand variable
	D   string `json:"d,omitempty"`   // variable that receives the result (alias-creating operations)
	U   string `json:"u,omitempty"`   // second operand variable
	I   int    `json:"i,omitempty"`   // index / slice start
	J   int    `json:"j,omitempty"`   // slice stop
	NoI bool   `json:"noi,omitempty"` // slice start omitted  (x[:j])
	NoJ bool   `json:"noj,omitempty"` // slice stop omitted   (x[i:])
	V   string `json:"v,omitempty"`   // literal (risor source text)
	W   string `json:"w,omitempty"`   // second literal
	F   string `json:"f,omitempty"`   // callback id
	Err bool   `json:"err,omitempty"` // as a history step: this operation raised an (admitted) error and changed nothing
}

func (o Op) String() string {
	s := scriptOf(o)
	return strings.ReplaceAll(s, "\n", "; ")
}

// exp is what the reference model admits for one step.
type exp struct {
	mustErr   bool   // the step must raise an error and leave every variable unchanged
	errOK     bool   // the statement is silent: either an error (nothing changed) or the computed outcome
	hasObs    bool   // the step has an observable result
	obs       V      // ... which must render like this
	unordered bool   // result order is not pinned by the statement: compare top-level elements as a multiset
	perm      string // variable whose element order is not pinned (sort of mixed types): any permutation
	hasSeen   bool   // a callback logged into `seen`
	seen      V
}

func okV(v V) exp        { return exp{hasObs: true, obs: v} }
func okNone() exp        { return exp{} }
func mustErr() exp       { return exp{mustErr: true} }
func eitherV(v V) exp    { return exp{errOK: true, hasObs: true, obs: v} }
func eitherNone() exp    { return exp{errOK: true} }
func unorderedV(v V) exp { return exp{hasObs: true, obs: v, unordered: true} }

func eqV(a, b V) bool {
	// numbers are equal by value whatever their type (2 == 2.0)
	if x, ok := asNumber(a); ok {
		if y, ok := asNumber(b); ok {
			return x == y
		}
	}
	return render(a) == render(b)
}

func asNumber(v V) (float64, bool) {
	switch x := v.(type) {
	case int64:
		return float64(x), true
	case int:
		return float64(x), true
	case mfloat:
		return float64(x), true
	}
	return 0, false
}

func truthy(v V) bool {
	switch x := v.(type) {
	case nil:
		return false
	case int64:
		return x != 0
	case string:
		return x != ""
	case bool:
		return x
	case mlist:
		return len(x) > 0
	case mmap:
		return len(x) > 0
	case mset:
		return len(x) > 0
	case mbytes:
		return len(x) > 0
	}
	return true
}

func typeName(v V) string {
	switch v.(type) {
	case nil:
		return "nil"
	case int64:
		return "int"
	case string:
		return "string"
	case bool:
		return "bool"
	case mlist:
		return "list"
	case mmap:
		return "map"
	case mset:
		return "set"
	case mbytes:
		return "byte_slice"
	case mbyte:
		return "byte"
	}
	return "?"
}

// resolve: an index i addresses element i (i >= 0) or len+i (i < 0); anything else is out of range.
func resolve(i, n int) (int, bool) {
	if i < 0 {
		i += n
	}
	if i < 0 || i >= n {
		return 0, false
	}
	return i, true
}

type sliceClass int

const (
	sliceOK sliceClass = iota
	sliceErr
	sliceEither
)

// sliceBounds: positions 0..n are the valid slice boundaries (negative counts from the end).
//   - a boundary outside 0..n (after normalising a negative one) is out of range          -> error required
//   - start == n (x[len:len], x[0:0] on an empty container) or start > stop              -> the statement is
//     silent (Python: empty; risor: error): empty result or error are both accepted
func sliceBounds(o Op, n int) (int, int, sliceClass) {
	a, b := o.I, o.J
	if o.NoI {
		a = 0
	}
	if o.NoJ {
		b = n
	}
	if a < 0 {
		a += n
	}
	if b < 0 {
		b += n
	}
	if a < 0 || b < 0 || a > n || b > n {
		return 0, 0, sliceErr
	}
	if a > b || a == n {
		return 0, 0, sliceEither
	}
	return a, b, sliceOK
}

func addV(a, b V) (V, bool) {
	switch x := a.(type) {
	case int64:
		if y, ok := b.(int64); ok {
			return x + y, true
		}
	case string:
		if y, ok := b.(string); ok {
			return x + y, true
		}
	case mlist:
		if y, ok := b.(mlist); ok {
			return append(cloneV(x).(mlist), cloneV(y).(mlist)...), true
		}
	case mbytes:
		switch y := b.(type) {
		case mbytes:
			return append(append(mbytes{}, x...), y...), true
		case string:
			return append(append(mbytes{}, x...), []byte(y)...), true
		}
	}
	return nil, false
}

func sortedCopy(l mlist) (mlist, bool) {
	out := cloneV(l).(mlist)
	allInt, allStr := true, true
	for _, e := range out {
		if _, ok := e.(int64); !ok {
			allInt = false
		}
		if _, ok := e.(string); !ok {
			allStr = false
		}
	}
	switch {
	case allInt:
		sort.SliceStable(out, func(i, j int) bool { return out[i].(int64) < out[j].(int64) })
		return out, true
	case allStr:
		sort.SliceStable(out, func(i, j int) bool { return out[i].(string) < out[j].(string) })
		return out, true
	}
	return out, false
}

func iterPairs(v V) (mlist, bool) {
	var out mlist
	switch x := v.(type) {
	case mlist:
		for i, e := range x {
			out = append(out, mlist{int64(i), cloneV(e)})
		}
	case string:
		for i, r := range []rune(x) {
			out = append(out, mlist{int64(i), string(r)})
		}
	case mbytes:
		for i, b := range x {
			out = append(out, mlist{int64(i), mbyte(b)})
		}
	case mmap:
		ks := make([]string, 0, len(x))
		for k := range x {
			ks = append(ks, k)
		}
		sort.Strings(ks)
		for _, k := range ks {
			out = append(out, mlist{k, cloneV(x[k])})
		}
		return orEmpty(out), true // order of map iteration is not pinned
	case mset:
		ks := make([]string, 0, len(x))
		for k := range x {
			ks = append(ks, k)
		}
		sort.Strings(ks)
		for _, k := range ks {
			out = append(out, cloneV(x[k]))
		}
		return orEmpty(out), true
	}
	return orEmpty(out), false
}

func orEmpty(l mlist) mlist {
	if l == nil {
		return mlist{}
	}
	return l
}

// evalModel applies o to m (a private copy) and says what is admissible.
func evalModel(m *mworld, o Op) exp {
	e := evalModelInner(m, o)
	if !e.mustErr && o.D != "" && e.hasObs {
		m.vars[o.D] = cloneV(e.obs)
		m.origin[o.D] = o.K
	}
	return e
}

func evalModelInner(m *mworld, o Op) exp {
	t := m.vars[o.T]
	switch o.K {

	// ------------------------------------------------ reads common to all containers
	case "get":
		switch c := t.(type) {
		case mlist:
			if k, ok := resolve(o.I, len(c)); ok {
				return okV(cloneV(c[k]))
			}
		case string:
			r := []rune(c)
			if k, ok := resolve(o.I, len(r)); ok {
				return okV(string(r[k]))
			}
		case mbytes:
			if k, ok := resolve(o.I, len(c)); ok {
				return okV(mbyte(c[k]))
			}
		}
		return mustErr() // out of range
	case "getk":
		key := lit(o.V)
		switch c := t.(type) {
		case mmap:
			ks, ok := key.(string)
			if !ok {
				return mustErr() // wrongly typed key
			}
			if v, ok := c[ks]; ok {
				return okV(cloneV(v))
			}
			return eitherV(nil) // missing key: the statement does not say error-or-nil
		case mset:
			if _, isList := key.(mlist); isList {
				return eitherNone() // s[unhashable]: not pinned (error on this tree); must not panic or mutate
			}
			_, ok := c[render(key)]
			return eitherV(ok) // meaning of s[v] is not pinned: membership flag or an error
		}
		return mustErr() // list / string / byte_slice indexed by a non-int
	case "slice":
		switch c := t.(type) {
		case mlist:
			a, b, cl := sliceBounds(o, len(c))
			switch cl {
			case sliceErr:
				return mustErr()
			case sliceEither:
				return eitherV(mlist{})
			}
			return okV(cloneV(c[a:b]))
		case string:
			r := []rune(c)
			a, b, cl := sliceBounds(o, len(r))
			switch cl {
			case sliceErr:
				return mustErr()
			case sliceEither:
				return eitherV("")
			}
			return okV(string(r[a:b]))
		case mbytes:
			a, b, cl := sliceBounds(o, len(c))
			switch cl {
			case sliceErr:
				return mustErr()
			case sliceEither:
				return eitherV(mbytes{})
			}
			return okV(append(mbytes{}, c[a:b]...))
		}
		return mustErr() // maps and sets cannot be sliced
	case "slicek":
		return mustErr() // wrongly typed slice bound
	case "in":
		v := lit(o.V)
		switch c := t.(type) {
		case mlist:
			for _, e := range c {
				if eqV(e, v) {
					return okV(true)
				}
			}
			return okV(false)
		case mmap:
			_, ok := c[v.(string)]
			return okV(ok)
		case mset:
			_, ok := c[render(v)]
			return okV(ok)
		case string:
			return okV(strings.Contains(c, v.(string)))
		case mbytes:
			return okV(strings.Contains(string(c), v.(string)))
		}
	case "len":
		return okV(int64(vlen(t)))
	case "iter":
		p, unordered := iterPairs(t)
		if unordered {
			return unorderedV(p)
		}
		return okV(p)

	// ------------------------------------------------ item assignment
	case "set":
		switch c := t.(type) {
		case mlist:
			if k, ok := resolve(o.I, len(c)); ok {
				c[k] = lit(o.V)
				return okNone()
			}
			return mustErr()
		case mbytes:
			if k, ok := resolve(o.I, len(c)); ok {
				s := lit(o.V).(string)
				if len(s) != 1 {
					return mustErr()
				}
				c[k] = s[0]
				return okNone()
			}
			return mustErr()
		}
		return mustErr() // strings are immutable
	case "setk":
		if c, ok := t.(mmap); ok {
			if ks, ok := lit(o.V).(string); ok {
				c[ks] = lit(o.W)
				return okNone()
			}
		}
		return mustErr() // wrongly typed key
	case "iadd":
		if c, ok := t.(mlist); ok {
			if k, ok := resolve(o.I, len(c)); ok {
				if s, ok := addV(c[k], lit(o.V)); ok {
					c[k] = s
					return okNone()
				}
			}
		}
		return mustErr() // out of range, or int + string
	case "iaddk":
		if c, ok := t.(mmap); ok {
			if ks, ok := lit(o.V).(string); ok {
				if cur, ok := c[ks]; ok {
					if s, ok := addV(cur, lit(o.W)); ok {
						c[ks] = s
						return okNone()
					}
				}
			}
		}
		return mustErr() // missing key (nothing to add to), wrong key type, or int + string
	case "del":
		if c, ok := t.(mlist); ok {
			if k, ok := resolve(o.I, len(c)); ok {
				m.vars[o.T] = append(c[:k:k], c[k+1:]...)
				return okNone()
			}
		}
		return mustErr()
	case "delk":
		key := lit(o.V)
		switch c := t.(type) {
		case mmap:
			ks, ok := key.(string)
			if !ok {
				return mustErr()
			}
			if _, ok := c[ks]; ok {
				delete(c, ks)
				return okNone()
			}
			return eitherNone() // deleting a missing key: no-op or error
		case mset:
			if _, ok := c[render(key)]; ok {
				delete(c, render(key))
				return okNone()
			}
			return eitherNone()
		}
		return mustErr()

	// ------------------------------------------------ producing new containers
	case "copy":
		switch t.(type) {
		case mlist, mmap, mbytes:
			return okV(cloneV(t))
		}
	case "add":
		if s, ok := addV(t, m.vars[o.U]); ok {
			return okV(s)
		}
		return mustErr()
	case "addlit":
		if s, ok := addV(t, lit(o.V)); ok {
			return okV(s)
		}
		// list + int, string + int: `+` is not among the operations the statement lists, so whether this is an
		// error or a coercion is not judged - only that it does not panic and does not change its operands
		return eitherNone()
	case "blist":
		return okV(cloneV(t))
	case "bbytes":
		return okV(cloneV(t))
	case "bsorted":
		c := t.(mlist)
		s, ok := sortedCopy(c)
		if !ok {
			// mixed ints and strings: whether that is an error is not pinned; a result must be a permutation
			e := eitherV(cloneV(c))
			e.perm = o.D
			return e
		}
		return okV(s)
	case "breversed":
		switch c := t.(type) {
		case mlist:
			out := make(mlist, len(c))
			for i, e := range c {
				out[len(c)-1-i] = cloneV(e)
			}
			return okV(out)
		case string:
			r := []rune(c)
			for i, j := 0, len(r)-1; i < j; i, j = i+1, j-1 {
				r[i], r[j] = r[j], r[i]
			}
			return okV(string(r))
		}
	case "bkeys":
		switch c := t.(type) {
		case mlist:
			out := mlist{}
			for i := range c {
				out = append(out, int64(i))
			}
			return okV(out)
		case mmap:
			out := mlist{}
			for k := range c {
				out = append(out, k)
			}
			return unorderedV(out)
		}

	// ------------------------------------------------ list methods
	case "append":
		m.vars[o.T] = append(t.(mlist), lit(o.V))
		return okNone()
	case "insert":
		c := t.(mlist)
		n := len(c)
		k := o.I
		if k < 0 {
			k += n
		}
		e := okNone()
		if k < 0 || k > n {
			// beyond either end: clamp (Python, risor) or raise - the statement does not say
			e = eitherNone()
			if k < 0 {
				k = 0
			} else {
				k = n
			}
		}
		out := make(mlist, 0, n+1)
		out = append(out, c[:k]...)
		out = append(out, lit(o.V))
		out = append(out, c[k:]...)
		m.vars[o.T] = out
		return e
	case "pop":
		c := t.(mlist)
		if k, ok := resolve(o.I, len(c)); ok {
			v := c[k]
			m.vars[o.T] = append(c[:k:k], c[k+1:]...)
			return okV(v)
		}
		return mustErr()
	case "popk", "insertk":
		return mustErr() // wrongly typed index
	case "remove":
		c := t.(mlist)
		v := lit(o.V)
		for k, e := range c {
			if eqV(e, v) {
				m.vars[o.T] = append(c[:k:k], c[k+1:]...)
				return okNone()
			}
		}
		return eitherNone() // value not present: no-op (risor) or error (Python)
	case "extendlit":
		m.vars[o.T] = append(t.(mlist), lit(o.V).(mlist)...)
		return okNone()
	case "extend":
		m.vars[o.T] = append(t.(mlist), cloneV(m.vars[o.U]).(mlist)...)
		return okNone()
	case "reverse":
		c := t.(mlist)
		for i, j := 0, len(c)-1; i < j; i, j = i+1, j-1 {
			c[i], c[j] = c[j], c[i]
		}
		return okNone()
	case "sort":
		c := t.(mlist)
		s, ok := sortedCopy(c)
		if !ok {
			// mixed ints and strings: error-or-not and the resulting order are not pinned, the multiset is
			e := eitherNone()
			e.perm = o.T
			return e
		}
		m.vars[o.T] = s
		return okNone()
	case "sortnc":
		return eitherNone() // a list holding maps has no order: an error (or any order) - never a crash
	case "clear":
		switch t.(type) {
		case mlist:
			m.vars[o.T] = mlist{}
		case mmap:
			m.vars[o.T] = mmap{}
		case mset:
			m.vars[o.T] = mset{}
		}
		return okNone()
	case "index":
		for k, e := range t.(mlist) {
			if eqV(e, lit(o.V)) {
				return okV(int64(k))
			}
		}
		return eitherV(int64(-1)) // not present: -1 (risor) or error (Python)
	case "count":
		n := 0
		for _, e := range t.(mlist) {
			if eqV(e, lit(o.V)) {
				n++
			}
		}
		return okV(int64(n))

	// ------------------------------------------------ callbacks
	case "fmap":
		c := t.(mlist)
		out := mlist{}
		seen := mlist{}
		for i, x := range c {
			switch o.F {
			case "val1", "store":
				out = append(out, cloneV(x))
			case "idx", "idxplus":
				out = append(out, int64(i))
			case "pair":
				out = append(out, mlist{int64(i), cloneV(x)})
			case "b:type":
				out = append(out, typeName(x))
			case "bad":
				return mustErr() // not a function
			}
			if o.F == "store" {
				seen = append(seen, int64(i))
			}
		}
		if o.F == "bad" {
			return mustErr()
		}
		e := okV(out)
		e.hasSeen, e.seen = true, seen
		e.errOK = strings.HasPrefix(o.F, "b:") // whether builtins are accepted as callbacks is not pinned: result or error, never a panic
		return e
	case "ffilter":
		c := t.(mlist)
		out := mlist{}
		seen := mlist{}
		for _, x := range c {
			keep := true
			switch o.F {
			case "ne1":
				keep = !eqV(x, int64(1))
			case "keep":
				seen = append(seen, cloneV(x))
			case "b:bool":
				keep = truthy(x)
			}
			if keep {
				out = append(out, cloneV(x))
			}
		}
		e := okV(out)
		e.hasSeen, e.seen = true, seen
		e.errOK = strings.HasPrefix(o.F, "b:")
		return e
	case "feach":
		c := t.(mlist)
		seen := mlist{}
		if o.F == "storev" {
			seen = cloneV(c).(mlist)
		}
		e := exp{} // the value of each() itself is not pinned
		e.hasSeen, e.seen = true, seen
		e.errOK = strings.HasPrefix(o.F, "b:")
		return e

	// ------------------------------------------------ map methods
	case "mget":
		c := t.(mmap)
		if v, ok := c[lit(o.V).(string)]; ok {
			return okV(cloneV(v))
		}
		if o.W != "" {
			return okV(lit(o.W))
		}
		return okV(nil)
	case "mpop":
		c := t.(mmap)
		k := lit(o.V).(string)
		if v, ok := c[k]; ok {
			delete(c, k)
			return okV(v)
		}
		if o.W != "" {
			return okV(lit(o.W))
		}
		return eitherV(nil) // missing key without default: nil (risor) or error (Python)
	case "mupdlit":
		for k, v := range lit(o.V).(mmap) {
			t.(mmap)[k] = v
		}
		return okNone()
	case "mupd":
		for k, v := range cloneV(m.vars[o.U]).(mmap) {
			t.(mmap)[k] = v
		}
		return okNone()
	case "msetdefault":
		c := t.(mmap)
		k := lit(o.V).(string)
		if v, ok := c[k]; ok {
			return okV(cloneV(v))
		}
		c[k] = lit(o.W)
		return okV(lit(o.W))
	case "keys":
		out := mlist{}
		for k := range t.(mmap) {
			out = append(out, k)
		}
		return unorderedV(out)
	case "values":
		out := mlist{}
		for _, v := range t.(mmap) {
			out = append(out, cloneV(v))
		}
		return unorderedV(out)
	case "items":
		out := mlist{}
		for k, v := range t.(mmap) {
			out = append(out, mlist{k, cloneV(v)})
		}
		return unorderedV(out)
	case "attr":
		if v, ok := t.(mmap)[o.V]; ok {
			return okV(cloneV(v))
		}
		return eitherV(nil) // m.missing: error (risor) or nil
	case "setattr":
		t.(mmap)[o.V] = lit(o.W)
		return okNone()

	// ------------------------------------------------ set methods
	case "sadd":
		v := lit(o.V)
		if _, isList := v.(mlist); isList {
			return mustErr() // unhashable
		}
		t.(mset)[render(v)] = v
		return okNone()
	case "sremove":
		c := t.(mset)
		k := render(lit(o.V))
		if _, ok := c[k]; ok {
			delete(c, k)
			return okNone()
		}
		return eitherNone() // removing a non-member: no-op (risor) or error (Python)
	case "union", "intersection":
		c := t.(mset)
		var other mset
		if o.U != "" {
			other = m.vars[o.U].(mset)
		} else {
			other = lit(o.V).(mset)
		}
		out := mset{}
		if o.K == "union" {
			for k, v := range c {
				out[k] = v
			}
			for k, v := range other {
				out[k] = v
			}
		} else {
			for k, v := range c {
				if _, ok := other[k]; ok {
					out[k] = v
				}
			}
		}
		return okV(out)
	}
	panic(fmt.Sprintf("evalModel: unhandled op %+v on %T", o, t))
}

// ---------------------------------------------------------------- script rendering

var callbackSrc = map[string]string{
	"val1":    `func(x) { return x }`,
	"idx":     `func(i, x) { return i }`,
	"idxplus": `func(i, x) { return i + 0 }`,
	"pair":    `func(i, x) { return [i, x] }`,
	"store":   `func(i, x) { seen.append(i); return x }`,
	"ne1":     `func(x) { return x != 1 }`,
	"keep":    `func(x) { seen.append(x); return true }`,
	"storev":  `func(x) { seen.append(x) }`,
	"b:type":  `type`,
	"b:bool":  `bool`,
	"bad":     `1`,
}

// scriptOf renders the operation as risor statements. Operations with a result store it in r
// (and in the destination variable, if any).
func scriptOf(o Op) string {
	expr := ""
	switch o.K {
	case "get":
		expr = fmt.Sprintf("%s[%d]", o.T, o.I)
	case "getk":
		expr = fmt.Sprintf("%s[%s]", o.T, o.V)
	case "slice":
		a, b := fmt.Sprint(o.I), fmt.Sprint(o.J)
		if o.NoI {
			a = ""
		}
		if o.NoJ {
			b = ""
		}
		expr = fmt.Sprintf("%s[%s:%s]", o.T, a, b)
	case "slicek":
		expr = fmt.Sprintf("%s[%s:%d]", o.T, o.V, o.J)
	case "in":
		expr = fmt.Sprintf("%s in %s", o.V, o.T)
	case "len":
		expr = fmt.Sprintf("len(%s)", o.T)
	case "iter":
		if o.F == "values" {
			// sets: the one-variable range form yields the member. (`for v in s` yields `true` for every member
			// on this tree - the repository's own TestForInWithSets only pins the count, and the statement
			// does not mention iteration, so that form is not judged.)
			return fmt.Sprintf("r = []\nfor k := range %s { r.append(k) }", o.T)
		}
		return fmt.Sprintf("r = []\nfor k, v := range %s { r.append([k, v]) }", o.T)
	case "set":
		return fmt.Sprintf("%s[%d] = %s", o.T, o.I, o.V)
	case "setk":
		return fmt.Sprintf("%s[%s] = %s", o.T, o.V, o.W)
	case "iadd":
		return fmt.Sprintf("%s[%d] += %s", o.T, o.I, o.V)
	case "iaddk":
		return fmt.Sprintf("%s[%s] += %s", o.T, o.V, o.W)
	case "del":
		return fmt.Sprintf("delete(%s, %d)", o.T, o.I)
	case "delk":
		return fmt.Sprintf("delete(%s, %s)", o.T, o.V)
	case "copy":
		if o.F == "clone" {
			expr = o.T + ".clone()"
		} else {
			expr = o.T + ".copy()"
		}
	case "add":
		expr = o.T + " + " + o.U
	case "addlit":
		expr = o.T + " + " + o.V
	case "blist":
		expr = "list(" + o.T + ")"
	case "bbytes":
		expr = "byte_slice(" + o.T + ")"
	case "bsorted":
		expr = "sorted(" + o.T + ")"
	case "breversed":
		expr = "reversed(" + o.T + ")"
	case "bkeys":
		expr = "keys(" + o.T + ")"
	case "append":
		return fmt.Sprintf("%s.append(%s)", o.T, o.V)
	case "insert":
		return fmt.Sprintf("%s.insert(%d, %s)", o.T, o.I, o.V)
	case "insertk":
		return fmt.Sprintf("%s.insert(%s, 1)", o.T, o.V)
	case "pop":
		expr = fmt.Sprintf("%s.pop(%d)", o.T, o.I)
	case "popk":
		expr = fmt.Sprintf("%s.pop(%s)", o.T, o.V)
	case "remove":
		return fmt.Sprintf("%s.remove(%s)", o.T, o.V)
	case "extendlit":
		return fmt.Sprintf("%s.extend(%s)", o.T, o.V)
	case "extend":
		return fmt.Sprintf("%s.extend(%s)", o.T, o.U)
	case "reverse":
		return o.T + ".reverse()"
	case "sort":
		return o.T + ".sort()"
	case "sortnc":
		return fmt.Sprintf("r = %s + [{}, {}]\nr.sort()", o.T)
	case "clear":
		return o.T + ".clear()"
	case "index":
		expr = fmt.Sprintf("%s.index(%s)", o.T, o.V)
	case "count":
		expr = fmt.Sprintf("%s.count(%s)", o.T, o.V)
	case "fmap":
		expr = fmt.Sprintf("%s.map(%s)", o.T, callbackSrc[o.F])
	case "ffilter":
		expr = fmt.Sprintf("%s.filter(%s)", o.T, callbackSrc[o.F])
	case "feach":
		return fmt.Sprintf("%s.each(%s)", o.T, callbackSrc[o.F])
	case "mget":
		if o.W != "" {
			expr = fmt.Sprintf("%s.get(%s, %s)", o.T, o.V, o.W)
		} else {
			expr = fmt.Sprintf("%s.get(%s)", o.T, o.V)
		}
	case "mpop":
		if o.W != "" {
			expr = fmt.Sprintf("%s.pop(%s, %s)", o.T, o.V, o.W)
		} else {
			expr = fmt.Sprintf("%s.pop(%s)", o.T, o.V)
		}
	case "mupdlit":
		return fmt.Sprintf("%s.update(%s)", o.T, o.V)
	case "mupd":
		return fmt.Sprintf("%s.update(%s)", o.T, o.U)
	case "msetdefault":
		expr = fmt.Sprintf("%s.setdefault(%s, %s)", o.T, o.V, o.W)
	case "keys", "values", "items":
		expr = fmt.Sprintf("%s.%s()", o.T, o.K)
	case "attr":
		expr = o.T + "." + o.V
	case "setattr":
		return fmt.Sprintf("%s.%s = %s", o.T, o.V, o.W)
	case "sadd":
		return fmt.Sprintf("%s.add(%s)", o.T, o.V)
	case "sremove":
		return fmt.Sprintf("%s.remove(%s)", o.T, o.V)
	case "union", "intersection":
		arg := o.U
		if arg == "" {
			arg = o.V
		}
		expr = fmt.Sprintf("%s.%s(%s)", o.T, o.K, arg)
	default:
		panic("scriptOf: unhandled " + o.K)
	}
	if o.D != "" {
		return fmt.Sprintf("r = %s\n%s = r", expr, o.D)
	}
	return "r = " + expr
}

// label is the operation class used in signatures and outcome keys: no indices, no values.
var kindNames = map[string]string{"fmap": "map", "ffilter": "filter", "feach": "each", "sortnc": "sort[elements-without-order]",
	"getk": "get[key]", "setk": "set[key]", "iaddk": "iadd[key]", "delk": "delete[key]", "del": "delete", "popk": "pop[wrong-type]",
	"insertk": "insert[wrong-type]", "slicek": "slice[wrong-type]", "extendlit": "extend", "addlit": "add", "mupdlit": "update", "mupd": "update",
	"mget": "get()", "mpop": "pop()", "msetdefault": "setdefault", "sadd": "add()", "sremove": "remove()",
	"blist": "list()", "bbytes": "byte_slice()", "bsorted": "sorted()", "breversed": "reversed()", "bkeys": "keys()"}

func label(dom string, o Op) string {
	k := o.K
	if n, ok := kindNames[k]; ok {
		k = n
	}
	s := dom + "." + k
	switch o.K {
	case "fmap", "ffilter", "feach":
		switch o.F {
		case "idx", "pair", "store":
			s += "[func-observing-index]"
		case "b:type", "b:bool":
			s += "[builtin-callback]"
		case "bad":
			s += "[not-a-function]"
		default:
			s += "[func]"
		}
	case "slice":
		if o.NoI || o.NoJ {
			s += "[open]"
		}
	}
	return s
}
