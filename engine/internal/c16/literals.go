package c16

import (
	"fmt"
	"sort"
	"strings"

	"github.com/risor-io/risor/object"
	"verif/internal/ev"
)

// Container literals: every set literal, every set(...) / list-to-set conversion and every s.add(...) over all
// ordered tuples (length 1..3) of a pool of nine element values - hashable ones (int, string, float, bool, nil)
// and containers, which cannot be members of a set. A literal with a member that cannot be hashed is a wrongly
// typed access like any other: it has to raise an error. What comes back instead when the construction fails
// quietly is an error VALUE as the result of the literal, with err == nil - the script goes on with an error
// object where it wrote a set. With hashable members only, the result has to be a set of exactly the
// distinct members, whichever way it was built.

type litElem struct {
	src      string
	hashable bool
	key      string // equality class among the hashable ones
}

var litPool = []litElem{{"1", true, "i1"}, {"2", true, "i2"}, {`"a"`, true, "sa"}, {"1.5", true, "f1.5"}, {"true", true, "bt"}, {"nil", true, "nil"},
	{"[1]", false, ""}, {`{"a": 1}`, false, ""}, {"{1}", false, ""}}

var litGlobals = builtinGlobals()

func literalTuples(max int) [][]litElem {
	var out [][]litElem
	var rec func(cur []litElem)
	rec = func(cur []litElem) {
		if len(cur) > 0 {
			out = append(out, append([]litElem{}, cur...))
		}
		if len(cur) == max {
			return
		}
		for _, e := range litPool {
			rec(append(cur, e))
		}
	}
	rec(nil)
	return out
}

func literalForms(t []litElem) map[string]string {
	var parts []string
	for _, e := range t {
		parts = append(parts, e.src)
	}
	j := strings.Join(parts, ", ")
	return map[string]string{
		"set-literal":  "x := {" + j + "}\nx",
		"set-of-list":  "x := set([" + j + "])\nx",
		"set-add":      "x := {0}\nx.add(" + j + ")\nx.remove(0)\nx",
		"literal-call": "func f(s) { return s }\nf({" + j + "})",
	}
}

func literalFamily(r *ev.Run, t *totals) {
	tuples := literalTuples(3)
	type out struct {
		outcomes map[string]struct{}
		mms      []mismatch
		n        int
	}
	outs := make([]out, len(tuples))
	ev.ParFor(len(tuples), func(i int) {
		tu := tuples[i]
		o := &outs[i]
		o.outcomes = map[string]struct{}{}
		allHashable := true
		want := map[string]bool{}
		for _, e := range tu {
			if !e.hashable {
				allHashable = false
			} else {
				want[e.key] = true
			}
		}
		forms := literalForms(tu)
		names := make([]string, 0, len(forms))
		for k := range forms {
			names = append(names, k)
		}
		sort.Strings(names)
		for _, name := range names {
			src := forms[name]
			if name == "set-add" && len(tu) != 1 {
				// add takes one member at a time
				continue
			}
			o.n++
			res, errText, panicText := evalScript(litGlobals, src, nil)
			class, exp := "", ""
			switch {
			case panicText != "":
				class, exp = "panic", "no panic"
			case !allHashable && errText == "":
				class, exp = "unhashable-member-accepted", "an error is raised: a list, a map or a set cannot be a member of a set"
				if res != nil {
					if _, isErr := res.(*object.Error); isErr {
						class = "error-value-instead-of-raised-error"
					}
				}
			case allHashable && errText != "":
				class, exp = "hashable-members-refused", "a set of the members"
			case allHashable:
				s, ok := res.(*object.Set)
				if !ok {
					class, exp = "result-is-not-a-set", "a set"
				} else if s.Size() != len(want) {
					class, exp = "wrong-member-count", fmt.Sprintf("%d distinct members", len(want))
				}
			}
			if class == "" {
				if allHashable {
					o.outcomes["literal|"+name+"|set"] = struct{}{}
				} else {
					o.outcomes["literal|"+name+"|error-raised"] = struct{}{}
				}
				continue
			}
			obs := errText
			if panicText != "" {
				obs = panicText
			} else if res != nil {
				obs = string(res.Type()) + " " + ev.Clip(res.Inspect(), 120)
			}
			o.mms = append(o.mms, mismatch{sig: "C16:literal:" + name + ":" + class, what: "container literal: " + strings.ReplaceAll(src, "\n", "; "),
				observed: obs, expected: exp, input: replayInput{Domain: "literal", Op: Op{K: "literal", V: src}, Mode: "script"}})
		}
	})
	n := 0
	for i := range outs {
		for _, mm := range outs[i].mms {
			r.Report(mm.sig, mm.what, mm.input, mm.observed, mm.expected)
		}
		for k := range outs[i].outcomes {
			r.Outcome(k)
		}
		n += outs[i].n
	}
	t.validated += n
	t.scripts += n
	r.Add("literal_programs", n)
}

// Sorting at the edges of the integer range: every list of 2..4 integers from {MinInt64, -2^62, -1, 0, 1, 2^62,
// MaxInt64} through l.sort() and sorted(l), against Go's sort of the same numbers. Two members that are 2^63 or
// more apart is where a comparison by subtraction changes sign.
func sortExtremes(r *ev.Run, t *totals) {
	vals := []int64{-9223372036854775808, -4611686018427387904, -1, 0, 1, 4611686018427387904, 9223372036854775807}
	src := func(v int64) string {
		if v == -9223372036854775808 {
			return "(-9223372036854775807 - 1)"
		}
		return fmt.Sprint(v)
	}
	var lists [][]int64
	var rec func(cur []int64)
	rec = func(cur []int64) {
		if len(cur) >= 2 {
			lists = append(lists, append([]int64{}, cur...))
		}
		if len(cur) == 4 {
			return
		}
		for _, v := range vals {
			rec(append(cur, v))
		}
	}
	rec(nil)
	bad := make([]*mismatch, len(lists))
	ev.ParFor(len(lists), func(i int) {
		l := lists[i]
		var parts []string
		for _, v := range l {
			parts = append(parts, src(v))
		}
		lit := "[" + strings.Join(parts, ", ") + "]"
		want := append([]int64{}, l...)
		sort.Slice(want, func(a, b int) bool { return want[a] < want[b] })
		wantText := strings.ReplaceAll(fmt.Sprint(want), " ", ", ")
		for _, form := range []string{"l := " + lit + "\nl.sort()\nl", "sorted(" + lit + ")", "l := " + lit + "\nsorted(l)\nl.sort()\nsorted(l)"} {
			res, errText, panicText := evalScript(litGlobals, form, nil)
			got := errText + panicText
			if res != nil {
				got = res.Inspect()
			}
			if got != wantText && bad[i] == nil {
				bad[i] = &mismatch{sig: "C16:sort-at-the-integer-extremes", what: "sorting " + lit + ": " + strings.ReplaceAll(form, "\n", "; "), observed: got, expected: wantText,
					input: replayInput{Domain: "literal", Op: Op{K: "literal", V: form}, Mode: "script"}}
			}
		}
	})
	for _, mm := range bad {
		if mm != nil {
			r.Report(mm.sig, mm.what, mm.input, mm.observed, mm.expected)
		}
	}
	r.Outcome("sort-extremes|checked")
	t.validated += 3 * len(lists)
	t.scripts += 3 * len(lists)
	r.Add("sort_extreme_lists", len(lists))
}
