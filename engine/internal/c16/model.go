package c16

import (
	"fmt"
	"sort"
	"strconv"
	"strings"

	"github.com/risor-io/risor/object"
)

// ---------------------------------------------------------------- model values
//
// The reference model is plain Go data with value semantics:
//   int64, string, bool, nil, mlist ([]V), mmap (map[string]V), mset (members keyed by their rendering),
//   mbytes ([]byte), mbyte (one byte).
// Nothing in the model is ever shared between two variables: every assignment deep-copies.

type V = any
type mlist []V
type mmap map[string]V
type mset map[string]V
type mbytes []byte
type mbyte byte

// mfloat: a float needle (2.0 where the list holds 2); never stored in a container of the model
type mfloat float64

func cloneV(v V) V {
	switch x := v.(type) {
	case mlist:
		o := make(mlist, len(x))
		for i, e := range x {
			o[i] = cloneV(e)
		}
		return o
	case mmap:
		o := make(mmap, len(x))
		for k, e := range x {
			o[k] = cloneV(e)
		}
		return o
	case mset:
		o := make(mset, len(x))
		for k, e := range x {
			o[k] = cloneV(e)
		}
		return o
	case mbytes:
		return append(mbytes{}, x...)
	}
	return v
}

// render gives the canonical text of a model value. renderObj gives the same text for a real object,
// built from the accessors (Value()), not from Inspect().
func render(v V) string {
	var sb strings.Builder
	renderTo(&sb, v)
	return sb.String()
}

func renderTo(sb *strings.Builder, v V) {
	switch x := v.(type) {
	case nil:
		sb.WriteString("nil")
	case int64:
		sb.WriteString(strconv.FormatInt(x, 10))
	case int:
		sb.WriteString(strconv.Itoa(x))
	case mfloat:
		sb.WriteString(strconv.FormatFloat(float64(x), 'f', 1, 64))
	case string:
		sb.WriteString(strconv.Quote(x))
	case bool:
		if x {
			sb.WriteString("true")
		} else {
			sb.WriteString("false")
		}
	case mbyte:
		sb.WriteString("byte(" + strconv.Itoa(int(x)) + ")")
	case mbytes:
		sb.WriteString("bytes(" + strconv.Quote(string(x)) + ")")
	case mlist:
		sb.WriteByte('[')
		for i, e := range x {
			if i > 0 {
				sb.WriteString(", ")
			}
			renderTo(sb, e)
		}
		sb.WriteByte(']')
	case mmap:
		ks := make([]string, 0, len(x))
		for k := range x {
			ks = append(ks, k)
		}
		sort.Strings(ks)
		sb.WriteByte('{')
		for i, k := range ks {
			if i > 0 {
				sb.WriteString(", ")
			}
			sb.WriteString(strconv.Quote(k))
			sb.WriteString(": ")
			renderTo(sb, x[k])
		}
		sb.WriteByte('}')
	case mset:
		ks := make([]string, 0, len(x))
		for k := range x {
			ks = append(ks, k)
		}
		sort.Strings(ks)
		sb.WriteString("set{")
		sb.WriteString(strings.Join(ks, ", "))
		sb.WriteByte('}')
	default:
		sb.WriteString(fmt.Sprintf("?%T", v))
	}
}

func renderObj(o object.Object) string {
	var sb strings.Builder
	renderObjTo(&sb, o, 0)
	return sb.String()
}

func renderObjTo(sb *strings.Builder, o object.Object, depth int) {
	if depth > 6 {
		sb.WriteString("<deep>")
		return
	}
	switch x := o.(type) {
	case nil:
		sb.WriteString("<go-nil>")
	case *object.NilType:
		sb.WriteString("nil")
	case *object.Int:
		sb.WriteString(strconv.FormatInt(x.Value(), 10))
	case *object.String:
		sb.WriteString(strconv.Quote(x.Value()))
	case *object.Bool:
		if x.Value() {
			sb.WriteString("true")
		} else {
			sb.WriteString("false")
		}
	case *object.Byte:
		sb.WriteString("byte(" + strconv.Itoa(int(x.Value())) + ")")
	case *object.ByteSlice:
		sb.WriteString("bytes(" + strconv.Quote(string(x.Value())) + ")")
	case *object.List:
		sb.WriteByte('[')
		for i, e := range x.Value() {
			if i > 0 {
				sb.WriteString(", ")
			}
			renderObjTo(sb, e, depth+1)
		}
		sb.WriteByte(']')
	case *object.Map:
		m := x.Value()
		ks := make([]string, 0, len(m))
		for k := range m {
			ks = append(ks, k)
		}
		sort.Strings(ks)
		sb.WriteByte('{')
		for i, k := range ks {
			if i > 0 {
				sb.WriteString(", ")
			}
			sb.WriteString(strconv.Quote(k))
			sb.WriteString(": ")
			renderObjTo(sb, m[k], depth+1)
		}
		sb.WriteByte('}')
	case *object.Set:
		var ks []string
		for _, e := range x.Value() {
			var s strings.Builder
			renderObjTo(&s, e, depth+1)
			ks = append(ks, s.String())
		}
		sort.Strings(ks)
		sb.WriteString("set{")
		sb.WriteString(strings.Join(ks, ", "))
		sb.WriteByte('}')
	case *object.Error:
		sb.WriteString("<error-object>")
	default:
		sb.WriteString("<" + string(o.Type()) + ":" + o.Inspect() + ">")
	}
}

// realize builds a fresh real object from a model value.
func realize(v V) object.Object {
	switch x := v.(type) {
	case nil:
		return object.Nil
	case int64:
		return object.NewInt(x)
	case int:
		return object.NewInt(int64(x))
	case string:
		return object.NewString(x)
	case bool:
		return object.NewBool(x)
	case mfloat:
		return object.NewFloat(float64(x))
	case mbyte:
		return object.NewByte(byte(x))
	case mbytes:
		return object.NewByteSlice(append([]byte{}, x...))
	case mlist:
		items := make([]object.Object, len(x))
		for i, e := range x {
			items[i] = realize(e)
		}
		return object.NewList(items)
	case mmap:
		items := make(map[string]object.Object, len(x))
		for k, e := range x {
			items[k] = realize(e)
		}
		return object.NewMap(items)
	case mset:
		ks := make([]string, 0, len(x))
		for k := range x {
			ks = append(ks, k)
		}
		sort.Strings(ks)
		items := make([]object.Object, 0, len(x))
		for _, k := range ks {
			items = append(items, realize(x[k]))
		}
		return object.NewSet(items)
	}
	panic(fmt.Sprintf("realize: unsupported %T", v))
}

// lift converts a real object into a model value (used only to resynchronise the model after an operation
// whose resulting order the statement leaves open, after the multiset has been checked).
func lift(o object.Object) V {
	switch x := o.(type) {
	case *object.NilType:
		return nil
	case *object.Int:
		return x.Value()
	case *object.String:
		return x.Value()
	case *object.Bool:
		return x.Value()
	case *object.List:
		out := make(mlist, len(x.Value()))
		for i, e := range x.Value() {
			out[i] = lift(e)
		}
		return out
	}
	return "<unliftable " + string(o.Type()) + ">"
}

// lit maps the literals used in operations (risor source text) to model values.
func lit(s string) V {
	switch s {
	case "nil":
		return nil
	case "0":
		return int64(0)
	case "1":
		return int64(1)
	case "2":
		return int64(2)
	case "2.0":
		return mfloat(2)
	case "1.5":
		return "<float 1.5>" // only ever used as a wrongly typed index; never realised through the model
	case `"a"`:
		return "a"
	case `"b"`:
		return "b"
	case `"z"`:
		return "z"
	case `"Z"`:
		return "Z"
	case `"é"`:
		return "é"
	case `"€"`:
		return "€"
	case `"é€"`:
		return "é€"
	case `[]`:
		return mlist{}
	case `[1]`:
		return mlist{int64(1)}
	case `[2, "a"]`:
		return mlist{int64(2), "a"}
	case `{"b": 2}`:
		return mmap{"b": int64(2)}
	case `{"a": "a", "b": 1}`:
		return mmap{"a": "a", "b": int64(1)}
	case `{2, "a"}`:
		return mset{`2`: int64(2), `"a"`: "a"}
	case `{1}`:
		return mset{`1`: int64(1)}
	}
	// the long-list family: decimal integers and lists of them
	if n, err := strconv.ParseInt(s, 10, 64); err == nil {
		return n
	}
	if strings.HasPrefix(s, "[") && strings.HasSuffix(s, "]") {
		out := mlist{}
		for _, f := range strings.Split(s[1:len(s)-1], ", ") {
			n, err := strconv.ParseInt(f, 10, 64)
			if err != nil {
				panic("lit: unknown literal " + s)
			}
			out = append(out, n)
		}
		return out
	}
	panic("lit: unknown literal " + s)
}

// realizeLit builds the real object for a literal (floats are not part of the model).
func realizeLit(s string) object.Object {
	if s == "1.5" {
		return object.NewFloat(1.5)
	}
	return realize(lit(s))
}

// ---------------------------------------------------------------- model world

type mworld struct {
	vars   map[string]V
	origin map[string]string // how a derived variable was produced (for signatures): "slice", "copy", ...
}

func (m *mworld) clone() *mworld {
	o := &mworld{vars: make(map[string]V, len(m.vars)), origin: make(map[string]string, len(m.origin))}
	for k, v := range m.vars {
		o.vars[k] = cloneV(v)
	}
	for k, v := range m.origin {
		o.origin[k] = v
	}
	return o
}

func (m *mworld) key(order []string) string {
	var sb strings.Builder
	for i, n := range order {
		if i > 0 {
			sb.WriteString(" | ")
		}
		sb.WriteString(n)
		sb.WriteByte('=')
		renderTo(&sb, m.vars[n])
	}
	return sb.String()
}

func vlen(v V) int {
	switch x := v.(type) {
	case mlist:
		return len(x)
	case mmap:
		return len(x)
	case mset:
		return len(x)
	case mbytes:
		return len(x)
	case string:
		return len([]rune(x))
	}
	return 0
}

// multiset of rendered elements, for "any permutation" outcomes.
func sameMultiset(a mlist, b mlist) bool {
	if len(a) != len(b) {
		return false
	}
	x := make([]string, len(a))
	y := make([]string, len(b))
	for i := range a {
		x[i] = render(a[i])
		y[i] = render(b[i])
	}
	sort.Strings(x)
	sort.Strings(y)
	for i := range x {
		if x[i] != y[i] {
			return false
		}
	}
	return true
}
