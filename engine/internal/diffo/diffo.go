// Package diffo compares a reference-model outcome with an implementation outcome.
package diffo

import (
	"fmt"
	"sort"
	"strings"

	"verif/internal/lang"
	"verif/internal/refsem"
	"verif/internal/rt"
)

// Compare returns kind "" when the outcomes agree, "skip" when the model does
// not define the program, else a short disagreement kind plus detail.
func Compare(m refsem.Outcome, r rt.Outcome, names []string) (kind, detail string) {
	if m.NonTerm || m.Unspec {
		return "skip", ""
	}
	if r.Stage == "gopanic" {
		return "gopanic", r.ErrText
	}
	if m.Rejected {
		if r.Rejected() {
			return "", ""
		}
		return "invalid-accepted", "model: " + m.RejectWhy + "; impl stage " + r.Stage + " " + r.ErrText
	}
	if r.Rejected() {
		return "valid-rejected", r.Stage + ": " + r.ErrText
	}
	if !eqLog(m.Log, r.Log) {
		return "log", fmt.Sprintf("model %q impl %q (impl err %q)", m.Log, r.Log, r.ErrText)
	}
	if m.Err != nil {
		if r.Stage != "run" {
			return "error-expected", fmt.Sprintf("model raises %s %q; impl returned %s", m.Err.Class, m.Err.Msg, r.Val)
		}
		if m.Err.Class == "user" {
			if r.Class != "user" || r.UserMsg != m.Err.Msg {
				return "error-class", fmt.Sprintf("model raises user error %q; impl %q", m.Err.Msg, r.ErrText)
			}
			return "", ""
		}
		if m.Err.Class == "unpack" {
			if r.Class != "unpack count mismatch" {
				return "error-class", fmt.Sprintf("model unpack mismatch; impl %q", r.ErrText)
			}
			return "", ""
		}
		if r.Class != m.Err.Class {
			return "error-class", fmt.Sprintf("model raises %s; impl %q", m.Err.Class, r.ErrText)
		}
		return "", ""
	}
	if r.Stage == "run" {
		if r.Class == "timeout" {
			return "timeout", "model terminates; impl did not within the guard time"
		}
		return "unexpected-error", fmt.Sprintf("model value %s; impl error %q", m.Val, r.ErrText)
	}
	if m.ValueUnspec {
		return "", ""
	}
	if m.Type == "function" || m.Type == "builtin" {
		if r.Type != m.Type {
			return "value", fmt.Sprintf("model type %s; impl %s %s", m.Type, r.Type, r.Val)
		}
	} else if m.Val != r.Val {
		return "value", fmt.Sprintf("model %s; impl %s", m.Val, r.Val)
	}
	for _, n := range names {
		mv, ok := m.Globals[n]
		if !ok {
			continue
		}
		if rv := r.Globals[n]; rv != mv {
			return "globals", fmt.Sprintf("%s: model %s impl %s", n, mv, rv)
		}
	}
	return "", ""
}

func eqLog(a, b []string) bool {
	if len(a) != len(b) {
		return false
	}
	for i := range a {
		if a[i] != b[i] {
			return false
		}
	}
	return true
}

// Features lists the structural features used in known-finding signatures.
func Features(prog []*lang.N) string {
	f := map[string]bool{}
	var walkBlock func(b []*lang.N, inLoop, inSwitchInLoop bool, depth int)
	var walk func(n *lang.N, inLoop, inSwitchInLoop bool, depth int)
	walkBlock = func(b []*lang.N, inLoop, sw bool, depth int) {
		for _, s := range b {
			walk(s, inLoop, sw, depth)
		}
	}
	walk = func(n *lang.N, inLoop, sw bool, depth int) {
		if n == nil {
			return
		}
		switch n.K {
		case lang.SBreak, lang.SContinue:
			if sw {
				f["ctrl-in-switch-in-loop"] = true
			}
		case lang.EFunc:
			for _, p := range n.Params {
				if p.Def != nil && p.Def.K == lang.ENil {
					f["nil-default"] = true
				}
			}
			walkBlock(n.Body, false, false, depth+1)
			return
		case lang.SFunc:
			for _, p := range n.Params {
				if p.Def != nil && p.Def.K == lang.ENil {
					f["nil-default"] = true
				}
			}
			if depth > 0 {
				f["named-func-in-block"] = true
			}
			walkBlock(n.Body, false, false, depth+1)
			return
		case lang.SFor:
			walk(n.Init, inLoop, sw, depth)
			walk(n.Post, inLoop, sw, depth)
			for _, a := range n.A {
				walk(a, inLoop, sw, depth)
			}
			walkBlock(n.Body, true, false, depth+1)
			return
		case lang.SSwitch:
			for _, a := range n.A {
				walk(a, inLoop, sw, depth)
			}
			for _, c := range n.Cases {
				for _, v := range c.Vals {
					walk(v, inLoop, sw, depth)
				}
				walkBlock(c.Body, inLoop, inLoop || sw, depth+1)
			}
			return
		}
		for _, a := range n.A {
			walk(a, inLoop, sw, depth)
		}
		walkBlock(n.Body, inLoop, sw, depth+1)
		walkBlock(n.Else, inLoop, sw, depth+1)
		for _, p := range n.Params {
			walk(p.Def, inLoop, sw, depth)
		}
	}
	walkBlock(prog, false, false, 0)
	var ks []string
	for k := range f {
		ks = append(ks, k)
	}
	sort.Strings(ks)
	return strings.Join(ks, ",")
}
