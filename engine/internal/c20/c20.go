// Package c20: layout and comments never change meaning; diagnostics point into the source.
//
// Part L: for every program of the shared corpus and every token gap, every permitted insertion
// (space, tab, block comment, two adjacent block comments, two separated block comments), line
// comments before newlines, blank lines between statements, CRLF line ends, and a line break after
// every comma of a list/map/set/argument list, after every binary operator and after every pipe:
// the position-free dump of the real AST must equal the original's.
// Part D: every single-token deletion, duplication and substitution of every corpus program:
// whenever parsing or compiling fails, the reported position must exist in the source, the quoted
// line must be that line verbatim, and rendering the message must not fail.
package c20

import (
	"context"
	"fmt"
	"hash/fnv"
	"os"
	"regexp"
	"strconv"
	"strings"
	"sync/atomic"
	"unicode/utf8"

	"github.com/risor-io/risor/compiler"
	"github.com/risor-io/risor/errz"
	"github.com/risor-io/risor/parser"

	"verif/internal/astdump"
	"verif/internal/c01"
	"verif/internal/ev"
	"verif/internal/lang"
	"verif/internal/progen"
	"verif/internal/rt"
)

type replayIn struct {
	Part     string `json:"part"`
	Original string `json:"original,omitempty"`
	Variant  string `json:"variant"`
	Kind     string `json:"kind"`
}

func parseDump(src string) (dump string, err error, pan string) {
	defer func() {
		if r := recover(); r != nil {
			pan = fmt.Sprint(r)
		}
	}()
	prog, err := parser.Parse(context.Background(), src)
	if err != nil {
		return "", err, ""
	}
	return astdump.Generic(prog), nil, ""
}

// join renders tokens; ins[i] is inserted in the gap after token i (replacing the default separator).
func join(toks []lang.Tok, gap int, ins string) string {
	var sb strings.Builder
	for i, t := range toks {
		if i > 0 {
			prev := toks[i-1]
			sep := ""
			if !t.NL && !t.Tight && !prev.NL && prev.T != "(" && prev.T != "[" && prev.T != "." {
				sep = " "
			}
			if i-1 == gap {
				sep = ins
			}
			sb.WriteString(sep)
		}
		sb.WriteString(t.T)
	}
	return sb.String()
}

var insertions = []struct{ name, text string }{
	{"space", " "}, {"two-spaces", "  "}, {"tab", "\t"}, {"block-comment", " /* c */ "}, {"tight-block-comment", "/* c */"},
	{"adjacent-block-comments", " /* a *//* b */ "}, {"separated-block-comments", " /* a */ /* b */ "},
	// comments whose body is empty, one character, a star: the scan for the terminator starts inside them
	{"empty-block-comment", " /**/ "}, {"tight-empty-block-comment", "/**/"}, {"star-block-comment", " /***/ "}, {"one-character-block-comment", " /*c*/ "},
}

type counters struct{ programs, variants, edits, errorsSeen int64 }

func layout(r *ev.Run, p progen.Program, c *counters) {
	thorough := r.Thorough()
	toks := p.Tokens()
	if len(toks) == 0 {
		return
	}
	src := lang.Source(toks)
	want, err, pan := parseDump(src)
	if pan != "" {
		r.Report("parse-gopanic", src+"\n  "+pan, replayIn{"L", "", src, "original"}, pan, "")
		return
	}
	if err != nil {
		return // programs the parser rejects have no tree to preserve
	}
	atomic.AddInt64(&c.programs, 1)
	try := func(kind, variant string) {
		atomic.AddInt64(&c.variants, 1)
		r.Eval(1)
		got, err, pan := parseDump(variant)
		switch {
		case pan != "":
			r.Report("layout-gopanic:"+kind, fmt.Sprintf("%q\n  %s", variant, pan), replayIn{"L", src, variant, kind}, pan, "same tree")
		case err != nil:
			r.Report("layout-rejected:"+kind, fmt.Sprintf("%q is rejected (%s) although it differs from the accepted %q only by %s", variant, firstLine(err.Error()), src, kind), replayIn{"L", src, variant, kind}, err.Error(), "same tree")
		case got != want:
			r.Report("layout-changes-tree:"+kind, fmt.Sprintf("%q parses to a different tree than %q (%s)", variant, src, kind), replayIn{"L", src, variant, kind}, ev.Clip(got, 300), ev.Clip(want, 300))
		}
	}
	// A line break at any other gap inside an unclosed ( or [ - where no statement can end - is either not
	// accepted by the grammar (a syntax error: outside the statement) or accepted, and then it must not change
	// the tree: what parses silently to something else has dropped or re-read tokens (x[1:<break>2] read as x[1:]).
	tryIfAccepted := func(kind, variant string) {
		atomic.AddInt64(&c.variants, 1)
		r.Eval(1)
		got, err, pan := parseDump(variant)
		switch {
		case pan != "":
			r.Report("layout-gopanic:"+kind, fmt.Sprintf("%q\n  %s", variant, pan), replayIn{"L", src, variant, kind}, pan, "same tree or a syntax error")
		case err != nil:
			r.Outcome("L|break-inside-brackets-rejected")
		case got != want:
			r.Report("layout-changes-tree:"+kind, fmt.Sprintf("%q is accepted and parses to a different tree than %q (%s)", variant, src, kind), replayIn{"L", src, variant, kind}, ev.Clip(got, 300), ev.Clip(want, 300))
		default:
			r.Outcome("L|break-inside-brackets-accepted")
		}
	}
	var open []string
	for g := 0; g+1 < len(toks); g++ {
		switch toks[g].T {
		case "(", "[", "{":
			open = append(open, toks[g].T)
		case ")", "]", "}":
			if len(open) > 0 {
				open = open[:len(open)-1]
			}
		}
		if toks[g].NL || toks[g+1].NL {
			continue // line ends are handled below
		}
		if !toks[g].NLAfter && len(open) > 0 && open[len(open)-1] != "{" {
			tryIfAccepted("newline-inside-brackets", join(toks, g, "\n"))
		}
		for ii, in := range insertions {
			if !thorough && (ii == 0 || ii == 1 || ii == 4 || ii >= 9) {
				continue // quick: tab, block comment, adjacent and separated block comments
			}
			if strings.HasPrefix(in.text, "/*") && strings.HasSuffix(toks[g].T, "/") {
				continue // "/" followed directly by "/*" lexes as a line comment: not an insertion between tokens
			}
			try(in.name, join(toks, g, in.text))
		}
		if toks[g].NLAfter {
			try("newline-after-"+nlRole(toks[g].T), join(toks, g, "\n"))
			try("newline-after-"+nlRole(toks[g].T), join(toks, g, " \n\t"))
		}
	}
	// whole-file variants
	var all strings.Builder
	for i, t := range toks {
		if i > 0 {
			prev := toks[i-1]
			if prev.NLAfter && !t.NL {
				all.WriteString("\n")
			} else if !t.NL && !t.Tight && !prev.NL && prev.T != "(" && prev.T != "[" && prev.T != "." {
				all.WriteString(" ")
			}
		}
		all.WriteString(t.T)
	}
	try("newline-after-every-comma-operator-pipe", all.String())
	if strings.Contains(src, "\n") {
		try("crlf", strings.ReplaceAll(src, "\n", "\r\n"))
		try("line-comment-before-every-newline", strings.ReplaceAll(src, "\n", " // c\n"))
		try("tight-line-comment-before-every-newline", strings.ReplaceAll(src, "\n", "// c\n"))
		try("block-comment-before-every-newline", strings.ReplaceAll(src, "\n", " /* c */\n"))
	}
	hsum := fnv.New32a()
	hsum.Write([]byte(src))
	volume := hsum.Sum32()%97 == 0 || (thorough && hsum.Sum32()%11 == 0)
	if volume {
		try("12000-leading-blank-lines", strings.Repeat("\n", 12000)+src)
		try("12000-trailing-blank-lines", src+strings.Repeat("\n", 12000))
		try("12000-leading-comment-lines", strings.Repeat("# c\n", 12000)+src)
		try("12000-leading-block-comments", strings.Repeat("/* c */ ", 12000)+src)
	}
	try("trailing-newline", src+"\n")
	try("leading-blank-lines", "\n\n"+src)
	try("trailing-line-comment", src+" // c")
	try("leading-comment-line", "// c\n"+src)
	try("leading-block-comment", "/* c */ "+src)
	// per line end: line comment before it / blank line after a statement separator
	for g, t := range toks {
		if !t.NL {
			continue
		}
		mk := func(repl string) string {
			var sb strings.Builder
			for i := range toks {
				if i == g {
					sb.WriteString(repl)
					continue
				}
				if i > 0 {
					prev := toks[i-1]
					if !toks[i].NL && !toks[i].Tight && !prev.NL && prev.T != "(" && prev.T != "[" && prev.T != "." {
						sb.WriteString(" ")
					}
				}
				sb.WriteString(toks[i].T)
			}
			return sb.String()
		}
		try("line-comment-at-line-end", mk(" // c\n"))
		try("block-comment-at-line-end", mk(" /* c */\n"))
		// two comments in one gap: a block comment followed by a line comment (both spellings), and two block comments
		try("block-then-line-comment-at-line-end", mk(" /* c */ // d\n"))
		try("block-then-hash-comment-at-line-end", mk(" /* c */ # d\n"))
		try("two-block-comments-at-line-end", mk(" /* c */ /* d */\n"))
		if t.Stmt && volume {
			// volume: more blank, whitespace-only, comment and CRLF lines in one gap than the parser's
			// nesting limit (10000) - lines are not nesting, whatever is counted per line must be given back
			try("12000-blank-lines-between-statements", mk(strings.Repeat("\n", 12000)))
			try("12000-crlf-blank-lines-between-statements", mk(strings.Repeat("\r\n", 12000)))
			try("12000-comment-lines-between-statements", mk("\n"+strings.Repeat("// c\n", 12000)))
			try("12000-whitespace-lines-between-statements", mk("\n"+strings.Repeat(" \t\n", 12000)))
			try("12000-semicolon-lines-between-statements", mk("\n"+strings.Repeat("\n", 6000)+strings.Repeat("/* c */\n", 6000)))
		}
		if t.Stmt {
			try("blank-line-between-statements", mk("\n\n"))
			try("blank-line-with-spaces-between-statements", mk("\n  \t\n"))
			try("comment-line-between-statements", mk("\n// c\n"))
		}
	}
}

func nlRole(t string) string {
	switch t {
	case ",":
		return "comma"
	case "|":
		return "pipe"
	}
	return "operator"
}

func firstLine(s string) string {
	if i := strings.IndexByte(s, '\n'); i >= 0 {
		return s[:i]
	}
	return s
}

var locRe = regexp.MustCompile(`line (\d+), column (\d+)`)

// diag applies every single-token edit and checks each diagnostic that comes back.
func diag(r *ev.Run, env *rt.Env, p progen.Program, c *counters) {
	toks := p.Tokens()
	if len(toks) == 0 || len(toks) > 120 {
		return
	}
	subst := []string{"(", ")", "{", "}", "[", "]", ",", ":", "+", "if", "func", "x", "1", "\"s\"", "'t{", "/*", "?", ".", ":=", "return", "\n", "@", "\"unterminated"}
	if !r.Thorough() {
		subst = []string{"(", "}", ",", "if", "x", "\"s\"", "/*", "\n", "\"unterminated"}
	}
	check := func(kind, variant string) {
		atomic.AddInt64(&c.edits, 1)
		r.Eval(1)
		checkDiagnostics(r, env, kind, variant, c)
	}
	crlf := func(s string) string { return strings.ReplaceAll(s, "\n", "\r\n") }
	for i := range toks {
		// deletion
		cp := append(append([]lang.Tok{}, toks[:i]...), toks[i+1:]...)
		check("delete", lang.Source(cp))
		check("delete+crlf", crlf(lang.Source(cp))) // the same edit in a file with CRLF line ends
		// duplication
		cp = append(append(append([]lang.Tok{}, toks[:i+1]...), toks[i]), toks[i+1:]...)
		check("duplicate", lang.Source(cp))
		check("duplicate+crlf", crlf(lang.Source(cp)))
		// substitution
		for _, s := range subst {
			cp = append([]lang.Tok{}, toks...)
			cp[i] = lang.Tok{T: s, NL: s == "\n"}
			check("substitute", lang.Source(cp))
		}
	}
	// every byte prefix
	src := lang.Source(toks)
	for i := 1; i < len(src); i++ {
		if utf8.RuneStart(src[i]) {
			check("truncate", src[:i])
		}
	}
}

func checkDiagnostics(r *ev.Run, env *rt.Env, kind, src string, c *counters) {
	defer func() {
		if p := recover(); p != nil {
			r.Report("diagnostic-gopanic:"+panicSite(fmt.Sprint(p)), fmt.Sprintf("%q\n  %v", src, p), replayIn{"D", "", src, kind}, fmt.Sprint(p), "an error value")
		}
	}()
	prog, err := parser.Parse(context.Background(), src)
	if err == nil {
		_, err = compiler.Compile(prog, compiler.WithGlobalNames(env.Names))
		if err == nil {
			r.Outcome("D|accepted")
			return
		}
	}
	atomic.AddInt64(&c.errorsSeen, 1)
	lines := strings.Split(src, "\n")
	msg := err.Error()
	r.Outcome("D|" + firstWords(msg))
	if fe, ok := err.(errz.FriendlyError); ok {
		_ = fe.FriendlyErrorMessage() // must not panic (recover above reports it)
	}
	if pe, ok := err.(parser.ParserError); ok {
		sp, ep := pe.StartPosition(), pe.EndPosition()
		ln, col := sp.LineNumber(), sp.ColumnNumber()
		where := ":mid"
		if sp.Char >= utf8.RuneCountInString(src)-1 {
			where = ":at-end-of-input"
		}
		if ln < 1 || ln > len(lines) {
			r.Report("diagnostic-line-outside-source"+where, fmt.Sprintf("%q\n  %s: reported line %d, the source has %d", src, firstLine(msg), ln, len(lines)), replayIn{"D", "", src, kind}, strconv.Itoa(ln), "1.."+strconv.Itoa(len(lines)))
			return
		}
		line := strings.TrimSuffix(lines[ln-1], "\r")
		if col < 1 || col > utf8.RuneCountInString(lines[ln-1])+1 {
			r.Report("diagnostic-column-outside-line"+where, fmt.Sprintf("%q\n  %s: reported line %d column %d, that line is %q", src, firstLine(msg), ln, col, line), replayIn{"D", "", src, kind}, strconv.Itoa(col), "1.."+strconv.Itoa(utf8.RuneCountInString(line)+1))
		}
		if sc := strings.TrimSuffix(pe.SourceCode(), "\r"); sc != line {
			r.Report("diagnostic-quotes-wrong-line"+where, fmt.Sprintf("%q\n  %s: quotes %q but line %d is %q", src, firstLine(msg), sc, ln, line), replayIn{"D", "", src, kind}, sc, line)
		}
		_ = ep
		return
	}
	// compile errors carry "line L, column C" in their text
	if m := locRe.FindStringSubmatch(msg); m != nil {
		ln, _ := strconv.Atoi(m[1])
		col, _ := strconv.Atoi(m[2])
		if ln < 1 || ln > len(lines) {
			r.Report("compile-error-line-outside-source", fmt.Sprintf("%q\n  %s", src, firstLine(msg)), replayIn{"D", "", src, kind}, m[0], "")
		} else if col < 1 || col > utf8.RuneCountInString(lines[ln-1])+1 {
			r.Report("compile-error-column-outside-line", fmt.Sprintf("%q\n  %s (line is %q)", src, strings.ReplaceAll(msg, "\n", " | "), lines[ln-1]), replayIn{"D", "", src, kind}, m[0], "")
		}
		return
	}
	// a compile error that names no line and column at all
	r.Report("compile-error-without-position:"+errorKind(msg), fmt.Sprintf("%q\n  %s", src, firstLine(msg)), replayIn{"D", "", src, kind}, firstLine(msg), "a line and a column")
}

// errorKind is the message of a compile error without the names and values it quotes.
func errorKind(msg string) string {
	s := strings.TrimPrefix(firstLine(msg), "compile error: ")
	s = regexp.MustCompile(`"[^"]*"|\(.*\)|[0-9]+`).ReplaceAllString(s, "")
	return strings.Join(strings.Fields(s), "-")
}

func panicSite(p string) string {
	switch {
	case strings.Contains(p, "Repeat"):
		return "strings.Repeat"
	case strings.Contains(p, "nil pointer"):
		return "nil-dereference"
	case strings.Contains(p, "index out of range"), strings.Contains(p, "slice bounds"):
		return "index-out-of-range"
	}
	return "other"
}

func firstWords(s string) string {
	s = firstLine(s)
	f := strings.Fields(s)
	if len(f) > 5 {
		f = f[:5]
	}
	return strings.Join(f, " ")
}

func Check(r *ev.Run, replay string) {
	c := &counters{}
	if replay != "" {
		var in replayIn
		if err := ev.ReadReplay(replay, &in); err != nil {
			r.EngineError(err.Error())
			return
		}
		fmt.Printf("%s variant (%s):\n%s\n", in.Part, in.Kind, in.Variant)
		if in.Part == "L" {
			want, e1, _ := parseDump(in.Original)
			got, e2, p2 := parseDump(in.Variant)
			fmt.Printf("original parses: %v; variant parses: err=%v panic=%q same tree=%v\n", e1 == nil, e2, p2, want == got)
			if e2 != nil || p2 != "" || want != got {
				r.Report("layout:"+in.Kind, "replayed", in, "", "")
			}
		} else {
			checkDiagnostics(r, rt.NewEnv(nil), in.Kind, in.Variant, c)
		}
		r.Eval(1)
		r.Outcome("replay")
		r.Outcome("replay2")
		return
	}
	var n int32
	c01.Pool(func(y func(progen.Program)) {
		if r.Thorough() {
			progen.Corpus(true, func(p progen.Program) {
				if p.Fam == "F8deep" || p.Fam == "F9wide" {
					return // 13 k depth-2 compositions and the 101-sibling programs: the layout and edit products over them take hours; the depth-1 compositions stay
				}
				y(p)
			})
			progen.F1Shapes(2, y)
			return
		}
		// quick: the same families with the two bulky ones thinned deterministically
		for k := 1; k <= 2; k++ {
			progen.F2(k, progen.F2All, y)
		}
		i := 0
		progen.F2(3, progen.F2All, func(p progen.Program) {
			if i++; i%16 == 0 {
				y(p)
			}
		})
		progen.F4(2, func(p progen.Program) {
			if i++; i%16 == 0 {
				y(p)
			}
		})
		progen.F1Values(1, progen.ValuePool(9), y)
		progen.F1Prefix(progen.ValuePool(4), y)
		progen.F1Shapes(1, y)
		progen.F3(y)
		progen.F5(y)
		progen.F6(y)
		progen.C02Corpus(false, y)
	}, func(env *rt.Env, p progen.Program) {
		if p.Raw != "" {
			return
		}
		k := atomic.AddInt32(&n, 1)
		if k%1001 == 1 {
			r.Sample(map[string]string{"family": p.Fam, "source": p.Src()})
		}
		if os.Getenv("VERIF_C20_PART") != "D" {
			layout(r, p, c)
		}
		if os.Getenv("VERIF_C20_PART") == "L" {
			return
		}
		// diagnostics: a deterministic stride (thorough: every 4th program with 23 replacement tokens, quick:
		// every 16th with 9)
		if (r.Thorough() && k%4 == 0) || k%16 == 0 {
			diag(r, env, p, c)
		}
	})
	r.Set("programs", int(c.programs))
	r.Set("layout_variants_parsed", int(c.variants))
	r.Set("single_token_edits", int(c.edits))
	r.Set("diagnostics_checked", int(c.errorsSeen))
	r.Set("rule", "L: every corpus program x every token gap x 7 insertions, line break after every comma/operator/pipe (one at a time and all at once), line/block comments at every line end (also a block comment followed by a line comment, and two block comments), blank/comment lines between statements, CRLF, a line break at every other gap inside an unclosed ( or [ (rejected, or the same tree), 12000 blank / CRLF / whitespace-only / comment lines in one statement gap and in front of and behind the program (every 97th program, thorough every 11th); oracle: position-free reflection dump of the real AST equals the original's. D: every single-token deletion and duplication (each also with CRLF line ends), substitution (23 replacement tokens) and every prefix of every 4th corpus program (every 16th program in quick, 9 replacement tokens; quick also thins the 3-node control skeletons and the scoping family to every 16th program); oracle: error position inside the source, quoted line verbatim, message rendering does not fail. distinct = distinct diagnostic message heads")
}
