// Package c14: imports stay inside the import root, run once, and keep their own globals.
//
// Part A (root containment, bounded-exhaustive enumeration): every import spelling x every
// path text of <= N segments over a 9-segment alphabet (plus a small set of extra segments),
// evaluated through
//   - FSImporter over a recording fs.FS whose root is a sub-tree "l1/l2/l3/root" of a bigger
//     tree that holds sentinel modules at every location a join-like resolution could reach
//     (a strict variant that rejects invalid fs names, and a naive variant that cleans and
//     joins, so a name with ".." really reaches the sentinel),
//   - LocalImporter (risor.WithLocalImporter) on a real temp tree with the same sentinels.
//
// Oracle: no panic, every name opened is a valid fs.FS name (hence under the root), no
// sentinel outside the root is read or runs.
//
// Part B (module-graph histories, explicit-state search): all sequences of <= D statements
// over a 15-letter alphabet (14 import statements, one mutation between imports) on the module tree {a (imports b), d/c (imports b), b, d/b, e (imports b, then fails)}.
// A small reference model (set of loaded modules, alias -> binding, per-module state) predicts
// every probe of a generated script; every sequence is evaluated on the real implementation
// with both importers. Oracle: module body runs at most once (and exactly as the model says),
// a mutation through one alias is visible through every other alias / from-imported function /
// the other importer (module a's view of b), script globals and module globals with the same
// name never alias, a.x and b.x are distinct.
package c14

import (
	"context"
	"fmt"
	"io"
	"io/fs"
	"os"
	"path"
	"path/filepath"
	"sort"
	"strconv"
	"strings"
	"sync"
	"time"

	"github.com/risor-io/risor"
	"github.com/risor-io/risor/ast"
	"github.com/risor-io/risor/builtins"
	"github.com/risor-io/risor/compiler"
	"github.com/risor-io/risor/importer"
	"github.com/risor-io/risor/object"
	"github.com/risor-io/risor/parser"
	"github.com/risor-io/risor/vm"

	"verif/internal/ev"
)

// ---------------------------------------------------------------- shared runner

const rootRel = "l1/l2/l3/root"

type openRec struct {
	Name     string `json:"name"`
	Resolved string `json:"resolved,omitempty"`
	Valid    bool   `json:"valid"`
	Hit      bool   `json:"hit"`
	Outside  bool   `json:"outside"`
}

type obsRec struct {
	ID  int
	Val string
}

type result struct {
	Class string
	Err   string
	Panic string
	Ticks []string
	Obs   []obsRec
	Opens []openRec
}

// memFS is the "big" tree: clean slash-separated names relative to the big root -> content.
type memFS struct{ files map[string]string }

type memFile struct {
	name string
	r    *strings.Reader
	size int64
}

func (f *memFile) Read(p []byte) (int, error) { return f.r.Read(p) }
func (f *memFile) Close() error               { return nil }
func (f *memFile) Stat() (fs.FileInfo, error) { return memInfo{f.name, f.size}, nil }

type memInfo struct {
	name string
	size int64
}

func (i memInfo) Name() string       { return path.Base(i.name) }
func (i memInfo) Size() int64        { return i.size }
func (i memInfo) Mode() fs.FileMode  { return 0o444 }
func (i memInfo) ModTime() time.Time { return time.Time{} }
func (i memInfo) IsDir() bool        { return false }
func (i memInfo) Sys() any           { return nil }

// recFS is the fs.FS handed to FSImporter: the sub-tree root of big, recording every Open.
type recFS struct {
	big   *memFS
	root  string
	naive bool
	log   *[]openRec
}

func underRoot(root, full string) bool { return full == root || strings.HasPrefix(full, root+"/") }

func (f recFS) Open(name string) (fs.File, error) {
	rec := openRec{Name: name, Valid: fs.ValidPath(name)}
	var full string
	if f.naive {
		// a host filesystem that does not validate names: clean and join, like a path on disk
		full = path.Clean(path.Join(f.root, name))
	} else {
		if !rec.Valid {
			*f.log = append(*f.log, rec)
			return nil, &fs.PathError{Op: "open", Path: name, Err: fs.ErrInvalid}
		}
		full = path.Join(f.root, name)
	}
	rec.Resolved = full
	rec.Outside = !underRoot(f.root, full)
	src, ok := f.big.files[full]
	rec.Hit = ok
	*f.log = append(*f.log, rec)
	if !ok {
		return nil, &fs.PathError{Op: "open", Path: name, Err: fs.ErrNotExist}
	}
	return &memFile{name: full, r: strings.NewReader(src), size: int64(len(src))}, nil
}

var _ = io.EOF

func render(o object.Object) string {
	switch v := o.(type) {
	case nil:
		return "<go-nil>"
	case *object.String:
		return strconv.Quote(v.Value())
	case *object.Int:
		return strconv.FormatInt(v.Value(), 10)
	case *object.NilType:
		return "nil"
	case *object.Bool:
		return strconv.FormatBool(v.Value())
	case *object.List:
		var parts []string
		for _, it := range v.Value() {
			parts = append(parts, render(it))
		}
		return "[" + strings.Join(parts, ", ") + "]"
	case *object.Module:
		return "module(" + v.Name().Value() + ")"
	case *object.Function:
		return "function"
	case *object.Error:
		return "error"
	}
	return "<" + string(o.Type()) + ">"
}

func errClass(err error) string {
	if err == nil {
		return "ok"
	}
	s := err.Error()
	if i := strings.IndexAny(s, ":\n"); i >= 0 {
		s = s[:i]
	}
	return ev.Clip(s, 40)
}

// env is one import root: the in-memory big tree and the same tree on disk.
type env struct {
	big      *memFS
	dir      string // on-disk root directory (…/l1/l2/l3/root)
	planted  int
	diskSkip int
}

// run evaluates src on a fresh VM with a fresh importer of the given kind.
func run(src, kind string, e *env) (res result) {
	var ticks []string
	var obs []obsRec
	var opens []openRec
	defer func() {
		if p := recover(); p != nil {
			res.Panic = ev.Clip(fmt.Sprint(p), 200)
			res.Class = "panic"
		}
		res.Ticks, res.Obs, res.Opens = ticks, obs, opens
	}()
	g := map[string]any{}
	for k, v := range builtins.Builtins() {
		g[k] = v
	}
	g["tick"] = object.NewBuiltin("tick", func(ctx context.Context, args ...object.Object) object.Object {
		if len(args) == 1 {
			if s, ok := args[0].(*object.String); ok {
				ticks = append(ticks, s.Value())
			}
		}
		return object.Nil
	})
	g["obs"] = object.NewBuiltin("obs", func(ctx context.Context, args ...object.Object) object.Object {
		if len(args) == 2 {
			if id, ok := args[0].(*object.Int); ok {
				obs = append(obs, obsRec{int(id.Value()), render(args[1])})
			}
		}
		return object.Nil
	})
	opts := []risor.Option{risor.WithoutDefaultGlobals(), risor.WithGlobals(g), risor.WithConcurrency()}
	switch kind {
	case "local":
		opts = append(opts, risor.WithLocalImporter(e.dir))
	case "fs-strict", "fs-naive", "fs-incremental":
		names := make([]string, 0, len(g))
		for k := range g {
			names = append(names, k)
		}
		sort.Strings(names)
		im := importer.NewFSImporter(importer.FSImporterOptions{
			GlobalNames: names,
			SourceFS:    recFS{big: e.big, root: rootRel, naive: kind == "fs-naive", log: &opens},
		})
		opts = append(opts, risor.WithImporter(im))
	default:
		panic("c14: unknown importer kind " + kind)
	}
	ctx, cancel := context.WithTimeout(context.Background(), 30*time.Second)
	defer cancel()
	var err error
	if kind == "fs-incremental" {
		err = runIncremental(ctx, src, opts)
	} else {
		_, err = risor.Eval(ctx, src, opts...)
	}
	res.Class = errClass(err)
	if err != nil {
		res.Err = ev.Clip(err.Error(), 200)
		if ctx.Err() != nil {
			res.Class = "timeout"
		}
	}
	return res
}

// runIncremental feeds the script to one compiler and one VM statement by statement, the way the
// REPL does (compile the new input onto the accumulated code, resume the VM): imports, module
// state and functions of imported modules have to behave as in a single evaluation.
func runIncremental(ctx context.Context, src string, opts []risor.Option) error {
	cfg := risor.NewConfig(opts...)
	tree, err := parser.Parse(ctx, src)
	if err != nil {
		return err
	}
	c, err := compiler.New(cfg.CompilerOpts()...)
	if err != nil {
		return err
	}
	var m *vm.VirtualMachine
	for _, stmt := range tree.Statements() {
		code, err := c.Compile(ast.NewProgram([]ast.Node{stmt}))
		if err != nil {
			return err
		}
		if m == nil {
			m = vm.New(code, cfg.VMOpts()...)
		}
		if err := m.Run(ctx); err != nil {
			return err
		}
	}
	return nil
}

func scratchDir() (string, error) {
	base := ""
	if st, err := os.Stat("/dev/shm"); err == nil && st.IsDir() {
		base = "/dev/shm"
	}
	return os.MkdirTemp(base, "verif-c14-")
}

// writeTree puts the big tree on disk below top and returns how many files could not be written
// (names the host OS refuses, e.g. with NUL).
func writeTree(top string, big *memFS) (skipped int) {
	names := make([]string, 0, len(big.files))
	for n := range big.files {
		names = append(names, n)
	}
	sort.Strings(names)
	for _, n := range names {
		full := filepath.Join(top, filepath.FromSlash(n))
		if err := os.MkdirAll(filepath.Dir(full), 0o755); err != nil {
			skipped++
			continue
		}
		if err := os.WriteFile(full, []byte(big.files[n]), 0o644); err != nil {
			skipped++
		}
	}
	return skipped
}

// collector keeps, per signature, the report of the lowest case index, so that the replay files
// do not depend on goroutine scheduling. flush hands them to ev.Run in signature order.
type collector struct {
	mu    sync.Mutex
	first map[string]pending
	count map[string]int
}

type pending struct {
	idx                      int
	what, observed, expected string
	replay                   any
}

func newCollector() *collector {
	return &collector{first: map[string]pending{}, count: map[string]int{}}
}

func (c *collector) add(idx int, sig, what string, replay any, observed, expected string) {
	c.mu.Lock()
	defer c.mu.Unlock()
	c.count[sig]++
	if p, ok := c.first[sig]; !ok || idx < p.idx {
		c.first[sig] = pending{idx, what, observed, expected, replay}
	}
}

func (c *collector) flush(r *ev.Run) {
	sigs := make([]string, 0, len(c.first))
	for s := range c.first {
		sigs = append(sigs, s)
	}
	sort.Strings(sigs)
	for _, s := range sigs {
		p := c.first[s]
		for k := 0; k < c.count[s]; k++ {
			r.Report(s, p.what, p.replay, p.observed, p.expected)
		}
	}
}

// ---------------------------------------------------------------- Check

func Check(r *ev.Run, replay string) {
	if replay != "" {
		replayOne(r, replay)
		return
	}
	nA, nX, depth := 3, 2, 3
	if r.Thorough() {
		nA, nX, depth = 4, 2, 4
	}
	r.Assumptions = []string{
		"path texts: all strings of <= N segments over {a, b, .., ., '', _x, 9, 'a b', 'a\\b'} joined by '/', with optional leading/trailing '/', plus <= 2 segments over that alphabet extended by {..., ..a, a.., ~, %2e%2e, \"a\", {a}, a<NUL>b}; other Unicode is not enumerated",
		"LocalImporter reads are observed through sentinels planted at every location filepath.Clean(filepath.Join(root, text+ext)) outside the root (each sentinel ticks when its top-level code runs); a read of an outside location that holds no file is invisible there and is covered by the FSImporter runs, which record every Open",
		"module bodies of failed imports are not counted (a failed import retried through try re-runs the body; the statement speaks about imports that succeed)",
		"the value bound by `from a import x as ax` is a snapshot taken when the statement runs; the oracle does not constrain it",
		"every evaluation uses a fresh VM and a fresh importer; import cycles are not generated",
	}
	t0 := time.Now()
	partA(r, nA, nX)
	t1 := time.Now()
	partB(r, depth)
	partR(r)
	r.Set("part_a_wall_s", int(t1.Sub(t0).Seconds()))
	r.Set("part_b_wall_s", int(time.Since(t1).Seconds()))
	r.Set("rule", fmt.Sprintf("A: %d import spellings x every path text with <= %d segments over the 9-segment alphabet (x leading/trailing '/') and <= %d segments over the 17-segment extended alphabet x {FSImporter strict fs, FSImporter naive fs, LocalImporter on disk}; B: explicit-state search over every sequence of <= %d import statements from a %d-letter alphabet (14 import statements + one mutation between imports) on the module tree {a->b, d/c->b, b, d/b, e->b (fails)} x {FSImporter, LocalImporter}, each sequence checked against the reference model with probes after every mutation through every alias; R: a LocalImporter configured with a relative root (5 spellings) x the working directory moved afterwards to 5 places by the host or by the script (os.chdir) x 3 import statements: the module under the configured root, or an error. distinct = distinct (part, importer, spelling, outcome class, modules run) tuples for A and distinct (model state, run counts) for B", len(spellings), nA, nX, depth, len(letters)))
}

// ---------------------------------------------------------------- part A

var segsA = []string{"a", "b", "..", ".", "", "_x", "9", "a b", "a\\b"}
var segsX = []string{"...", "..a", "a..", "~", "%2e%2e", "\"a\"", "{a}", "a\x00b"}

func genTexts(segs []string, n int) []string {
	seen := map[string]struct{}{}
	var out []string
	var rec func(parts []string)
	rec = func(parts []string) {
		p := strings.Join(parts, "/")
		for _, pre := range []string{"", "/"} {
			for _, suf := range []string{"", "/"} {
				s := pre + p + suf
				if _, ok := seen[s]; !ok {
					seen[s] = struct{}{}
					out = append(out, s)
				}
			}
		}
		if len(parts) == n {
			return
		}
		for _, s := range segs {
			rec(append(append([]string{}, parts...), s))
		}
	}
	rec(nil)
	return out
}

func allTexts(nA, nX int) []string {
	seen := map[string]struct{}{}
	var out []string
	for _, t := range genTexts(segsA, nA) {
		if _, ok := seen[t]; !ok {
			seen[t] = struct{}{}
			out = append(out, t)
		}
	}
	ext := append(append([]string{}, segsA...), segsX...)
	for _, t := range genTexts(ext, nX) {
		if _, ok := seen[t]; !ok {
			seen[t] = struct{}{}
			out = append(out, t)
		}
	}
	return out
}

func quote(p string) string {
	var sb strings.Builder
	sb.WriteByte('"')
	for i := 0; i < len(p); i++ {
		c := p[i]
		switch {
		case c == '"' || c == '\\':
			sb.WriteByte('\\')
			sb.WriteByte(c)
		case c < 0x20 || c >= 0x7f:
			fmt.Fprintf(&sb, "\\x%02x", c)
		default:
			sb.WriteByte(c)
		}
	}
	sb.WriteByte('"')
	return sb.String()
}

func hexQuote(p string) string {
	var sb strings.Builder
	sb.WriteByte('"')
	for i := 0; i < len(p); i++ {
		fmt.Fprintf(&sb, "\\x%02x", p[i])
	}
	sb.WriteByte('"')
	return sb.String()
}

type spelling struct {
	Name   string
	Render func(p string) string
}

var spellings = []spelling{
	{"import-ident", func(p string) string { return "import " + p }},
	{"import-quoted", func(p string) string { return "import " + quote(p) }},
	{"import-quoted-as", func(p string) string { return "import " + quote(p) + " as y" }},
	{"import-quoted-hex", func(p string) string { return "import " + hexQuote(p) + " as y" }},
	{"from-dotted", func(p string) string { return "from " + strings.ReplaceAll(p, "/", ".") + " import c" }},
	{"from-ident-raw", func(p string) string { return "from " + p + " import c" }},
	{"from-quoted", func(p string) string { return "from " + quote(p) + " import c" }},
	{"from-quoted-multi", func(p string) string { return "from " + quote(p) + " import c, d as e" }},
	{"from-quoted-grouped", func(p string) string { return "from " + quote(p) + " import (c, d as e)" }},
	{"from-quoted-grouped-nl", func(p string) string { return "from " + quote(p) + " import (\n\tc,\n\td as e,\n)" }},
	{"from-quoted-submodule", func(p string) string { return "from " + quote(p) + " import a" }},
	{"fn-import-quoted", func(p string) string {
		return "func f() {\n\timport " + quote(p) + " as y\n\treturn y\n}\nf()"
	}},
	{"fn-from-quoted", func(p string) string {
		return "func f() {\n\tfrom " + quote(p) + " import c\n\treturn c\n}\nf()"
	}},
	{"try-import-quoted", func(p string) string { return "try(func() {\n\timport " + quote(p) + " as y\n})" }},
	{"import-single-quoted", func(p string) string {
		return "import '" + strings.ReplaceAll(strings.ReplaceAll(p, "\\", "\\\\"), "'", "\\'") + "'"
	}},
	{"import-backtick", func(p string) string { return "import `" + p + "`" }},
}

func spellingByName(n string) *spelling {
	for i := range spellings {
		if spellings[i].Name == n {
			return &spellings[i]
		}
	}
	return nil
}

var inSegs = []string{"a", "b", "_x"}

func moduleSrc(tag string) string {
	return "tick(" + strconv.Quote(tag) + ")\nx := " + strconv.Quote(tag+".x") + "\nc := " + strconv.Quote(tag+".c") + "\nd := " + strconv.Quote(tag+".d") + "\n"
}

// buildEnvA makes the big tree: modules under the root for every name of <= 3 segments over
// {a,b,_x} (plus a few oddly named ones), sentinels at every outside location a text can reach.
func buildEnvA(texts []string) *env {
	big := &memFS{files: map[string]string{}}
	var rec func(parts []string)
	rec = func(parts []string) {
		if len(parts) > 0 {
			n := strings.Join(parts, "/")
			big.files[rootRel+"/"+n+".risor"] = moduleSrc("in:" + n)
		}
		if len(parts) == 3 {
			return
		}
		for _, s := range inSegs {
			rec(append(append([]string{}, parts...), s))
		}
	}
	rec(nil)
	for _, n := range []string{"9", "a b", "a\\b", "a/9", "..a", "a.."} {
		big.files[rootRel+"/"+n+".risor"] = moduleSrc("in:" + n)
	}
	big.files[rootRel+"/b.rsr"] = moduleSrc("in:b(rsr)")
	e := &env{big: big}
	for _, t := range texts {
		for _, ext := range []string{".risor", ".rsr"} {
			full := path.Clean(path.Join(rootRel, t+ext))
			if underRoot(rootRel, full) || strings.HasPrefix(full, "../") || full == ".." || strings.HasPrefix(full, "/") {
				continue
			}
			if _, ok := big.files[full]; !ok {
				big.files[full] = moduleSrc("outside:" + full)
				e.planted++
			}
		}
	}
	return e
}

type caseA struct {
	Part     string `json:"part"`
	Importer string `json:"importer"`
	Spelling string `json:"spelling"`
	Path     string `json:"path"`
}

var kindsA = []string{"fs-strict", "fs-naive", "local"}

// judgeA applies the containment oracle to one result; col==nil only classifies.
func judgeA(col *collector, idx int, c caseA, src string, res result) (bad []string) {
	rep := func(sig, what, observed, expected string) {
		bad = append(bad, sig)
		if col != nil {
			col.add(idx, sig, fmt.Sprintf("%s with %s importer: %s (path text %q, source %q)", c.Spelling, c.Importer, what, c.Path, ev.Clip(src, 120)), c, observed, expected)
		}
	}
	if res.Panic != "" {
		rep("import-panic", "evaluation panicked: "+res.Panic, res.Panic, "value or error")
	}
	for _, o := range res.Opens {
		if !o.Valid {
			rep("import-root-escape:fs-opened-invalid-name", fmt.Sprintf("the importer opened %q, which is not a valid name inside the fs.FS root", o.Name), o.Name, "only names that satisfy fs.ValidPath (no '..', no leading '/', no empty element)")
		}
		if o.Outside && o.Hit {
			rep("import-root-escape:fs-read-outside-file", fmt.Sprintf("the importer read %q -> %q outside the root %q", o.Name, o.Resolved, rootRel), o.Resolved, "files under the root only")
		}
	}
	for _, t := range res.Ticks {
		if strings.HasPrefix(t, "outside:") {
			sig := "import-root-escape:outside-module-ran"
			if c.Importer == "local" {
				sig = "import-root-escape:local-outside-module-ran"
			}
			rep(sig, fmt.Sprintf("a module outside the import root ran: %s", t), t, "only modules under the root run")
		}
	}
	return bad
}

func partA(r *ev.Run, nA, nX int) {
	texts := allTexts(nA, nX)
	e := buildEnvA(texts)
	scratch, err := scratchDir()
	if err != nil {
		r.EngineError("mkdirtemp: " + err.Error())
		return
	}
	defer os.RemoveAll(scratch)
	e.diskSkip = writeTree(scratch, e.big)
	e.dir = filepath.Join(scratch, filepath.FromSlash(rootRel))
	if _, err := os.Stat(filepath.Join(e.dir, "a.risor")); err != nil {
		r.EngineError("temp tree not built: " + err.Error())
		return
	}
	// self-test of the harness: the naive FS and the disk tree really reach a sentinel when asked to.
	if _, err := (recFS{big: e.big, root: rootRel, naive: true, log: &[]openRec{}}).Open("../a.risor"); err != nil {
		r.EngineError("harness: naive fs cannot reach the planted sentinel ../a.risor")
		return
	}
	if _, err := os.Stat(filepath.Join(e.dir, "..", "a.risor")); err != nil {
		r.EngineError("harness: sentinel ../a.risor missing on disk")
		return
	}
	nS, nK := len(spellings), len(kindsA)
	total := len(texts) * nS * nK
	var okImports int64
	var mu sync.Mutex
	col := newCollector()
	defer col.flush(r)
	ev.ParFor(total, func(i int) {
		t := texts[i/(nS*nK)]
		sp := spellings[(i/nK)%nS]
		kind := kindsA[i%nK]
		c := caseA{"A", kind, sp.Name, t}
		src := sp.Render(t)
		res := run(src, kind, e)
		r.Eval(1)
		if res.Class == "timeout" {
			r.Cap("evaluation deadline hit in part A")
		}
		judgeA(col, i, c, src, res)
		tk := append([]string{}, res.Ticks...)
		sort.Strings(tk)
		r.Outcome("A|" + kind + "|" + sp.Name + "|" + res.Class + "|" + strings.Join(tk, ","))
		if res.Class == "ok" && len(res.Ticks) > 0 {
			mu.Lock()
			okImports++
			mu.Unlock()
		}
	})
	r.Add("containment_cases", total)
	r.Set("path_texts", len(texts))
	r.Set("import_spellings", nS)
	r.Set("sentinels_planted_outside_root", e.planted)
	r.Set("sentinels_not_writable_on_disk", e.diskSkip)
	r.Set("containment_cases_that_loaded_a_module", int(okImports))
	r.Sample(caseA{"A", "fs-naive", "from-quoted-multi", "a/../../b"})
	r.Sample(caseA{"A", "local", "import-quoted-hex", "../a"})
	r.Sample(map[string]any{"part": "A", "importer": "fs-strict", "spelling": "from-dotted", "path": "a/b", "source": spellingByName("from-dotted").Render("a/b")})
}

// ---------------------------------------------------------------- part B

const modAPI = `items := []
func setx(v) {
	x = v
	items.append(v)
}
func getx() {
	return x
}
func getitems() {
	return items
}
`

var modsB = map[string]string{
	"a.risor": "import b\ntick(\"a\")\nx := \"a.x0\"\n" + modAPI +
		"func bx() {\n\treturn b.getx()\n}\nfunc bsetx(v) {\n\tb.setx(v)\n}\n",
	// (a variable of a nested block with the name of the module's own x: the attribute b.x is the module's)
	"b.risor": "tick(\"b\")\nx := \"b.x0\"\nif true {\n\tx := \"b.block\"\n}\n" + modAPI,
	"d/c.risor": "import b\ntick(\"d/c\")\nx := \"d/c.x0\"\n" + modAPI +
		"func bx() {\n\treturn b.getx()\n}\nfunc bsetx(v) {\n\tb.setx(v)\n}\n",
	"d/b.risor": "tick(\"d/b\")\nx := \"d/b.x0\"\n" + modAPI, // shares its short name with the top-level b
	"e.risor":   "import b\ntick(\"e\")\nx := \"e.x0\"\nerror(\"boom\")\n",
	// two modules that import each other: whatever becomes of the import (an error is fine), neither body runs more
	// than once per attempt
	"cy1.risor":    "tick(\"cy1\")\nimport cy2\nx := \"cy1.x0\"\n" + modAPI,
	"cy2.risor":    "tick(\"cy2\")\nimport cy1\nx := \"cy2.x0\"\n" + modAPI,
	"selfie.risor": "tick(\"selfie\")\nimport selfie\nx := \"selfie.x0\"\n" + modAPI,
	// two modules in different directories whose files are byte-identical: they are still two modules
	"t1/twin.risor": "tick(\"twin\")\nx := \"twin.x0\"\n" + modAPI,
	"t2/twin.risor": "tick(\"twin\")\nx := \"twin.x0\"\n" + modAPI,
}

func buildEnvB() *env {
	big := &memFS{files: map[string]string{}}
	for n, s := range modsB {
		big.files[rootRel+"/"+n] = s
	}
	// same-named modules next to the root: they must never be the ones that load
	for _, n := range []string{"a", "b", "e", "d/c", "c"} {
		big.files["l1/l2/l3/"+n+".risor"] = moduleSrc("outside:" + n)
	}
	return &env{big: big}
}

type bind struct {
	Kind string // mod | fn | snap
	Mod  string
	Fn   string // getx | setx
}

type model struct {
	loaded  map[string]bool
	names   []string
	binds   map[string]bind
	mx      map[string]string
	mitems  map[string][]string
	sx      string
	sitems  []string
	eTries  int
	cyTries int
	mutated map[string]bool
}

func newModel() *model {
	return &model{
		loaded: map[string]bool{}, binds: map[string]bind{}, mutated: map[string]bool{},
		mx:     map[string]string{"a": `"a.x0"`, "b": `"b.x0"`, "d/c": `"d/c.x0"`, "d/b": `"d/b.x0"`, "t1/twin": `"twin.x0"`, "t2/twin": `"twin.x0"`},
		mitems: map[string][]string{},
		sx:     `"s.x0"`, sitems: []string{`"s"`},
	}
}

func (m *model) load(mod string) {
	if mod == "a" || mod == "d/c" {
		m.loaded["b"] = true // a and d/c both import b (diamond with the script's own import of b)
	}
	m.loaded[mod] = true
}

// bindName returns ":=" style information: whether the alias is new.
func (m *model) bind(name string, b bind) (fresh bool) {
	_, had := m.binds[name]
	if !had {
		m.names = append(m.names, name)
	}
	m.binds[name] = b
	return !had
}

func (m *model) key() string {
	var ld []string
	for k, v := range m.loaded {
		if v {
			ld = append(ld, k)
		}
	}
	sort.Strings(ld)
	var al []string
	for n, b := range m.binds {
		al = append(al, n+"="+b.Kind+":"+b.Mod+":"+b.Fn)
	}
	sort.Strings(al)
	e := ""
	if m.eTries > 0 {
		e = "|e-failed"
	}
	if m.cyTries > 0 {
		e += "|cycle-tried"
	}
	var mu []string
	for k := range m.mutated {
		mu = append(mu, k)
	}
	sort.Strings(mu)
	if len(mu) > 0 {
		e += "|mutated:" + strings.Join(mu, ",")
	}
	return strings.Join(ld, ",") + "|" + strings.Join(al, ",") + e
}

type letter struct {
	Name  string
	Apply func(m *model, pos int) string
}

var letters = []letter{
	{"import a", func(m *model, pos int) string {
		m.load("a")
		m.bind("a", bind{"mod", "a", ""})
		return "import a"
	}},
	{"import a as a2", func(m *model, pos int) string {
		m.load("a")
		m.bind("a2", bind{"mod", "a", ""})
		return "import a as a2"
	}},
	{"import b", func(m *model, pos int) string {
		m.load("b")
		m.bind("b", bind{"mod", "b", ""})
		return "import b"
	}},
	{"from a import getx", func(m *model, pos int) string {
		m.load("a")
		m.bind("getx", bind{"fn", "a", "getx"})
		return "from a import getx"
	}},
	{"from a import x as ax", func(m *model, pos int) string {
		m.load("a")
		m.bind("ax", bind{"snap", "a", ""})
		return "from a import x as ax"
	}},
	{`import "d/c"`, func(m *model, pos int) string {
		m.load("d/c")
		m.bind("c", bind{"mod", "d/c", ""})
		return `import "d/c"`
	}},
	{"from d import c", func(m *model, pos int) string {
		m.load("d/c")
		m.bind("c", bind{"mod", "d/c", ""})
		return "from d import c"
	}},
	{"import a inside a function called twice", func(m *model, pos int) string {
		m.load("a")
		f := fmt.Sprintf("f%d", pos)
		s := "func " + f + "() {\n\timport a\n\treturn a\n}\n"
		if m.bind("fa", bind{"mod", "a", ""}) {
			s += "fa := " + f + "()\n"
		}
		return s + "fa = " + f + "()"
	}},
	{"import b inside a spawned thread that is waited for", func(m *model, pos int) string {
		// one evaluation, one module b: the thread's import loads it for everybody (or finds it loaded)
		m.load("b")
		return "spawn(func() {\n\timport b\n\treturn b.getx()\n}).wait()"
	}},
	{`from "a" import setx as aset, getx as agetx`, func(m *model, pos int) string {
		m.load("a")
		m.bind("aset", bind{"fn", "a", "setx"})
		m.bind("agetx", bind{"fn", "a", "getx"})
		return `from "a" import setx as aset, getx as agetx`
	}},
	{"from a import getx as ga1, getx as ga2 (one name under two aliases)", func(m *model, pos int) string {
		m.load("a")
		m.bind("ga1", bind{"fn", "a", "getx"})
		m.bind("ga2", bind{"fn", "a", "getx"})
		return "from a import getx as ga1, getx as ga2"
	}},
	{"from d import c, b as db2 (two file modules in one statement)", func(m *model, pos int) string {
		m.load("d/c")
		m.load("d/b")
		m.bind("c", bind{"mod", "d/c", ""})
		m.bind("db2", bind{"mod", "d/b", ""})
		return "from d import c, b as db2"
	}},
	{"from d import b as db3, c as c3 (the same two, other order)", func(m *model, pos int) string {
		m.load("d/b")
		m.load("d/c")
		m.bind("db3", bind{"mod", "d/b", ""})
		m.bind("c3", bind{"mod", "d/c", ""})
		return "from d import b as db3, c as c3"
	}},
	{"from d import c as c4, c as c5 (one file module under two aliases)", func(m *model, pos int) string {
		m.load("d/c")
		m.bind("c4", bind{"mod", "d/c", ""})
		m.bind("c5", bind{"mod", "d/c", ""})
		return "from d import c as c4, c as c5"
	}},
	{`import "t1/twin" as tw1 (has a byte-identical twin in t2)`, func(m *model, pos int) string {
		m.load("t1/twin")
		m.bind("tw1", bind{"mod", "t1/twin", ""})
		return `import "t1/twin" as tw1`
	}},
	{`import "t2/twin" as tw2 (has a byte-identical twin in t1)`, func(m *model, pos int) string {
		m.load("t2/twin")
		m.bind("tw2", bind{"mod", "t2/twin", ""})
		return `import "t2/twin" as tw2`
	}},
	{"from a import b as ab", func(m *model, pos int) string {
		m.load("a")
		m.bind("ab", bind{"mod", "b", ""})
		return "from a import b as ab"
	}},
	{"from d import (c as c2,) grouped", func(m *model, pos int) string {
		m.load("d/c")
		m.bind("c2", bind{"mod", "d/c", ""})
		return "from d import (\n\tc as c2,\n)"
	}},
	{"from d import b as db (d/b shares its short name with b)", func(m *model, pos int) string {
		m.load("d/b")
		m.bind("db", bind{"mod", "d/b", ""})
		return "from d import b as db"
	}},
	{"try(import e) fails after importing b", func(m *model, pos int) string {
		m.load("b")
		m.eTries++
		return "try(func() {\n\timport e\n})"
	}},
	{"try(import cy1): cy1 and cy2 import each other", func(m *model, pos int) string {
		m.cyTries++
		return "try(func() {\n\timport cy1\n})"
	}},
	{"try(import selfie): a module that imports itself", func(m *model, pos int) string {
		m.cyTries++
		return "try(func() {\n\timport selfie\n})"
	}},
	{"from b import setx inside a function", func(m *model, pos int) string {
		m.load("b")
		g := fmt.Sprintf("g%d", pos)
		s := "func " + g + "() {\n\tfrom b import setx as s\n\treturn s\n}\n"
		if m.bind("bset", bind{"fn", "b", "setx"}) {
			return s + "bset := " + g + "()"
		}
		return s + "bset = " + g + "()"
	}},
}

// the last letter is not an import: it mutates a module between imports, so that a later import
// of the same module (under any spelling) must show the mutated state, not a re-initialised one.
func init() {
	letters = append(letters, letter{"setx through the first bound alias (between imports)", func(m *model, pos int) string {
		for _, n := range m.names {
			b := m.binds[n]
			var stmt string
			switch {
			case b.Kind == "mod":
				stmt = n + ".setx($v)"
			case b.Kind == "fn" && b.Fn == "setx":
				stmt = n + "($v)"
			default:
				continue
			}
			val := strconv.Itoa(900 + pos)
			m.mx[b.Mod] = val
			m.mitems[b.Mod] = append(append([]string{}, m.mitems[b.Mod]...), val)
			m.mutated[b.Mod] = true
			return strings.ReplaceAll(stmt, "$v", val)
		}
		return "// nothing bound yet that could mutate a module"
	}})
}

type probe struct {
	Expr  string
	Want  string // "" = not constrained
	Mod   string // module read, or "script"
	Phase string // initial | after-module-mutation | after-script-assignment
	After string // what was mutated last: "<module> via <expr>" or "script"
	AMod  string
}

type script struct {
	Src     string
	Probes  []probe
	Key     string
	Loaded  map[string]bool
	ETries  int
	CyTries int
}

func renderList(xs []string) string { return "[" + strings.Join(xs, ", ") + "]" }

func genScript(seq []int) script {
	m := newModel()
	var sb strings.Builder
	sb.WriteString("x := \"s.x0\"\nitems := [\"s\"]\n")
	for pos, l := range seq {
		sb.WriteString(letters[l].Apply(m, pos))
		sb.WriteByte('\n')
	}
	sc := script{Key: m.key()}
	emit := func(expr, want, mod, phase, after, amod string) {
		fmt.Fprintf(&sb, "obs(%d, %s)\n", len(sc.Probes), expr)
		sc.Probes = append(sc.Probes, probe{expr, want, mod, phase, after, amod})
	}
	readAll := func(phase, after, amod string) {
		emit("x", m.sx, "script", phase, after, amod)
		emit("items", renderList(m.sitems), "script", phase, after, amod)
		for _, n := range m.names {
			b := m.binds[n]
			switch b.Kind {
			case "mod":
				emit(n+".x", m.mx[b.Mod], b.Mod, phase, after, amod)
				emit(n+".getx()", m.mx[b.Mod], b.Mod, phase, after, amod)
				emit(n+".items", renderList(m.mitems[b.Mod]), b.Mod, phase, after, amod)
				emit(n+".getitems()", renderList(m.mitems[b.Mod]), b.Mod, phase, after, amod)
				if b.Mod == "a" || b.Mod == "d/c" {
					emit(n+".bx()", m.mx["b"], "b", phase, after, amod)
				}
			case "fn":
				if b.Fn == "getx" {
					emit(n+"()", m.mx[b.Mod], b.Mod, phase, after, amod)
				}
			case "snap":
				emit(n, "", b.Mod, phase, after, amod)
			}
		}
	}
	readAll("initial", "", "")
	v := 100
	mutate := func(stmt, mod string, setX bool) {
		val := strconv.Itoa(v)
		stmt = strings.ReplaceAll(stmt, "$v", val)
		v++
		sb.WriteString(stmt + "\n")
		if setX {
			m.mx[mod] = val
		}
		m.mitems[mod] = append(append([]string{}, m.mitems[mod]...), val)
		readAll("after-module-mutation", mod+" via "+stmt, mod)
	}
	for _, n := range append([]string{}, m.names...) {
		b := m.binds[n]
		switch {
		case b.Kind == "mod":
			mutate(n+".setx($v)", b.Mod, true)
			mutate(n+".items.append($v)", b.Mod, false)
			if b.Mod == "a" || b.Mod == "d/c" {
				mutate(n+".bsetx($v)", "b", true)
			}
		case b.Kind == "fn" && b.Fn == "setx":
			mutate(n+"($v)", b.Mod, true)
		}
	}
	sb.WriteString("x = \"s.x1\"\nitems.append(\"s2\")\n")
	m.sx = `"s.x1"`
	m.sitems = append(m.sitems, `"s2"`)
	readAll("after-script-assignment", "script", "script")
	sc.Src = sb.String()
	sc.Loaded = m.loaded
	sc.ETries = m.eTries
	sc.CyTries = m.cyTries
	return sc
}

type caseB struct {
	Part     string   `json:"part"`
	Importer string   `json:"importer"`
	Seq      []int    `json:"seq"`
	Letters  []string `json:"letters,omitempty"`
}

func seqNames(seq []int) []string {
	out := make([]string, len(seq))
	for i, l := range seq {
		out[i] = letters[l].Name
	}
	return out
}

// judgeB compares one evaluation with the model.
func judgeB(col *collector, idx int, c caseB, sc script, res result) (bad []string, tickKey string) {
	threaded := strings.Contains(fmt.Sprint(seqNames(c.Seq)), "spawned thread")
	rep := func(sig, what, observed, expected string) {
		if threaded {
			sig += ":import-in-a-thread" // a history with an import inside a spawned thread: told apart from the single-threaded ones
		}
		bad = append(bad, sig)
		if col != nil {
			col.add(idx, sig, fmt.Sprintf("%s importer, imports %v: %s", c.Importer, seqNames(c.Seq), what), c, observed, expected)
		}
	}
	counts := map[string]int{}
	for _, t := range res.Ticks {
		counts[t]++
	}
	var tk []string
	for k, n := range counts {
		tk = append(tk, fmt.Sprintf("%s=%d", k, n))
	}
	sort.Strings(tk)
	tickKey = strings.Join(tk, ",")
	if res.Panic != "" {
		rep("import-panic", "evaluation panicked: "+res.Panic, res.Panic, "no panic")
		return
	}
	for _, o := range res.Opens {
		if !o.Valid || o.Outside {
			rep("import-root-escape:fs-opened-invalid-name", fmt.Sprintf("opened %q", o.Name), o.Name, "valid names under the root")
		}
	}
	for k := range counts {
		if strings.HasPrefix(k, "outside:") {
			rep("import-root-escape:outside-module-ran", "a same-named module outside the root ran: "+k, k, "modules under the root only")
		}
	}
	for _, mod := range []string{"a", "b", "d/c", "d/b"} {
		want := 0
		if sc.Loaded[mod] {
			want = 1
		}
		got := counts[mod]
		switch {
		case got > 1:
			rep("module-body-ran-more-than-once", fmt.Sprintf("top-level code of module %q ran %d times in one evaluation", mod, got), tickKey, "at most once")
		case got != want:
			rep("module-body-run-count-differs-from-model", fmt.Sprintf("top-level code of module %q ran %d times, the model says %d", mod, got, want), tickKey, fmt.Sprint(want))
		}
	}
	for _, mod := range []string{"cy1", "cy2", "selfie"} {
		if got := counts[mod]; got > sc.CyTries {
			rep("module-body-ran-more-than-once:import-cycle", fmt.Sprintf("top-level code of module %q, which is part of an import cycle, ran %d times in %d import attempts", mod, got, sc.CyTries), tickKey, "at most once per attempt")
		}
	}
	wantTwins := 0
	for _, tw := range []string{"t1/twin", "t2/twin"} {
		if sc.Loaded[tw] {
			wantTwins++
		}
	}
	if counts["twin"] != wantTwins {
		rep("module-body-run-count-differs-from-model", fmt.Sprintf("the byte-identical twin modules ran their top-level code %d times in total, the model says %d (once per module loaded)", counts["twin"], wantTwins), tickKey, fmt.Sprint(wantTwins))
	}
	if res.Class != "ok" {
		rep("import-sequence-unexpected-error:"+res.Class, "the script failed: "+res.Err, res.Err, "every statement of the generated script succeeds")
	}
	got := map[int]string{}
	for _, o := range res.Obs {
		got[o.ID] = o.Val
	}
	for id, p := range sc.Probes {
		val, ok := got[id]
		if !ok {
			if res.Class == "ok" {
				rep("import-sequence-probe-missing", fmt.Sprintf("probe %d (%s) did not run", id, p.Expr), "", p.Want)
			}
			break
		}
		if p.Want == "" || val == p.Want {
			continue
		}
		sig := "module-initial-state-wrong"
		switch {
		case p.Mod == "script" && p.Phase == "initial":
			sig = "script-global-changed-by-import"
		case p.Mod == "script" && p.Phase == "after-module-mutation":
			sig = "script-global-changed-by-module-assignment"
		case p.Mod == "script":
			sig = "script-global-assignment-lost"
		case p.Phase == "after-script-assignment":
			sig = "module-global-changed-by-script-assignment"
		case p.Phase == "after-module-mutation" && p.Mod == p.AMod:
			sig = "module-state-not-shared-between-importers"
		case p.Phase == "after-module-mutation":
			sig = "module-global-changed-by-other-module"
		}
		rep(sig, fmt.Sprintf("%s = %s, expected %s (phase %s, last mutation: %s)", p.Expr, val, p.Want, p.Phase, p.After), val, p.Want)
		break
	}
	return bad, tickKey
}

var kindsB = []string{"fs-strict", "local", "fs-incremental"}

func decodeSeq(i, n int) []int {
	// sequences ordered by length, then lexicographically; index 0 is the empty sequence
	k, cnt := 0, 1
	for i >= cnt {
		i -= cnt
		cnt *= n
		k++
	}
	seq := make([]int, k)
	for j := k - 1; j >= 0; j-- {
		seq[j] = i % n
		i /= n
	}
	return seq
}

func partB(r *ev.Run, depth int) {
	e := buildEnvB()
	scratch, err := scratchDir()
	if err != nil {
		r.EngineError("mkdirtemp: " + err.Error())
		return
	}
	defer os.RemoveAll(scratch)
	writeTree(scratch, e.big)
	e.dir = filepath.Join(scratch, filepath.FromSlash(rootRel))
	nL := len(letters)
	total, lvl := 0, 1
	for k := 0; k <= depth; k++ {
		total += lvl
		lvl *= nL
	}
	states := map[string]struct{}{}
	var mu sync.Mutex
	var probes int64
	col := newCollector()
	defer col.flush(r)
	ev.ParFor(total, func(i int) {
		seq := decodeSeq(i, nL)
		sc := genScript(seq)
		np := 0
		for ki, kind := range kindsB {
			res := run(sc.Src, kind, e)
			r.Eval(1)
			if res.Class == "timeout" {
				r.Cap("evaluation deadline hit in part B")
			}
			_, tk := judgeB(col, i*len(kindsB)+ki, caseB{"B", kind, seq, seqNames(seq)}, sc, res)
			r.Outcome("B|" + sc.Key + "|" + tk)
			np += len(res.Obs)
		}
		mu.Lock()
		states[sc.Key] = struct{}{}
		probes += int64(np)
		mu.Unlock()
	})
	r.Set("states", len(states))
	r.Set("transitions", total-1)
	r.Set("traces_validated_against_impl", total*len(kindsB))
	r.Set("import_sequences", total)
	r.Set("import_sequence_depth", depth)
	r.Set("import_alphabet", nL)
	r.Set("probes_compared_with_model", int(probes))
	r.Sample(map[string]any{"part": "B", "importer": "fs-strict", "seq": []int{0, 1, 3}, "script": ev.Clip(genScript([]int{0, 1, 3}).Src, 600)})
	r.Sample(caseB{"B", "local", []int{5, 6, 10}, seqNames([]int{5, 6, 10})})
}

// ---------------------------------------------------------------- replay

func replayOne(r *ev.Run, file string) {
	var in struct {
		Part     string `json:"part"`
		Importer string `json:"importer"`
		Spelling string `json:"spelling"`
		Path     string `json:"path"`
		Seq      []int  `json:"seq"`
	}
	if err := ev.ReadReplay(file, &in); err != nil {
		r.EngineError("replay: " + err.Error())
		return
	}
	scratch, err := scratchDir()
	if err != nil {
		r.EngineError("mkdirtemp: " + err.Error())
		return
	}
	defer os.RemoveAll(scratch)
	r.Outcome("replay")
	r.Outcome("replay2")
	switch in.Part {
	case "A":
		sp := spellingByName(in.Spelling)
		if sp == nil {
			r.EngineError("replay: unknown spelling " + in.Spelling)
			return
		}
		e := buildEnvA(append(genTexts(segsA, 2), in.Path))
		writeTree(scratch, e.big)
		e.dir = filepath.Join(scratch, filepath.FromSlash(rootRel))
		src := sp.Render(in.Path)
		res := run(src, in.Importer, e)
		r.Eval(1)
		fmt.Printf("source:\n%s\nresult class=%s err=%q panic=%q\nticks=%v\nopens=%+v\n", src, res.Class, res.Err, res.Panic, res.Ticks, res.Opens)
		col := newCollector()
		bad := judgeA(col, 0, caseA{"A", in.Importer, in.Spelling, in.Path}, src, res)
		col.flush(r)
		fmt.Printf("oracle: %v\n", bad)
	case "B":
		for _, l := range in.Seq {
			if l < 0 || l >= len(letters) {
				r.EngineError("replay: letter out of range")
				return
			}
		}
		e := buildEnvB()
		writeTree(scratch, e.big)
		e.dir = filepath.Join(scratch, filepath.FromSlash(rootRel))
		sc := genScript(in.Seq)
		res := run(sc.Src, in.Importer, e)
		r.Eval(1)
		fmt.Printf("imports: %v\nmodel state: %s\nscript:\n%s\nresult class=%s err=%q panic=%q\nticks=%v\n", seqNames(in.Seq), sc.Key, sc.Src, res.Class, res.Err, res.Panic, res.Ticks)
		got := map[int]string{}
		for _, o := range res.Obs {
			got[o.ID] = o.Val
		}
		for id, p := range sc.Probes {
			mark := ""
			if p.Want != "" && got[id] != p.Want {
				mark = "   <-- differs from model " + p.Want
			}
			fmt.Printf("  obs %3d %-22s = %s%s\n", id, p.Expr, got[id], mark)
		}
		col := newCollector()
		bad, _ := judgeB(col, 0, caseB{"B", in.Importer, in.Seq, seqNames(in.Seq)}, sc, res)
		col.flush(r)
		fmt.Printf("oracle: %v\n", bad)
	default:
		r.EngineError("replay: unknown part " + in.Part)
	}
}
