package c14

import (
	"context"
	"fmt"
	"os"
	"path/filepath"

	"github.com/risor-io/risor"
	"github.com/risor-io/risor/importer"

	"verif/internal/ev"
)

// Part R: an import root given as a RELATIVE directory, and a working directory that changes before the import runs
// (a script can do that itself with os.chdir when the host gives it the real OS; so can the host). The root is the
// directory the host named when it configured the importer: a module is loaded from there or not at all, never from
// the directory of the same relative name under the new working directory. One process-wide working directory, so
// this part runs alone, after the others, and restores the directory it found.
func partR(r *ev.Run) {
	cwd0, err := os.Getwd()
	if err != nil {
		r.EngineError("getwd: " + err.Error())
		return
	}
	tmpRoot := ""
	if st, err := os.Stat("/dev/shm"); err == nil && st.IsDir() {
		tmpRoot = "/dev/shm"
	}
	T, err := os.MkdirTemp(tmpRoot, "verif-c14r-")
	if err != nil {
		r.EngineError("mkdirtemp: " + err.Error())
		return
	}
	defer os.RemoveAll(T)
	defer os.Chdir(cwd0)
	write := func(rel, content string) {
		p := filepath.Join(T, rel)
		os.MkdirAll(filepath.Dir(p), 0o755)
		os.WriteFile(p, []byte(content), 0o644)
	}
	write("root/m.risor", "x := \"inside the configured root\"\n")
	write("root/sub/n.risor", "x := \"inside the configured root (sub)\"\n")
	for _, d := range []string{"elsewhere", "elsewhere/deeper", "root/sub"} {
		write(d+"/root/m.risor", "x := \"OUTSIDE: "+d+"/root/m.risor\"\n")
		write(d+"/root/sub/n.risor", "x := \"OUTSIDE: "+d+"/root/sub/n.risor\"\n")
		write(d+"/m.risor", "x := \"OUTSIDE: "+d+"/m.risor\"\n")
	}
	n := 0
	for _, rootText := range []string{"root", "./root", "root/", "elsewhere/../root", ".", ""} {
		for _, moveTo := range []string{"", "elsewhere", "elsewhere/deeper", "root/sub", "root", ".."} {
			for _, how := range []string{"host", "script"} {
				for _, imp := range []string{"import m\nm.x", "from sub import n\nn.x", "import sub/n as q\nq.x"} {
					if moveTo == "" && how == "script" {
						continue
					}
					n++
					r.Eval(1)
					start := T
					if rootText == "." || rootText == "" {
						start = filepath.Join(T, "root")
					}
					if err := os.Chdir(start); err != nil {
						r.EngineError(err.Error())
						return
					}
					im := importer.NewLocalImporter(importer.LocalImporterOptions{SourceDir: rootText, Extensions: []string{".risor"}})
					src := imp
					target := filepath.Join(T, moveTo)
					if moveTo != "" {
						if how == "host" {
							os.Chdir(target)
						} else {
							src = "os.chdir(\"" + target + "\")\n" + imp
						}
					}
					v, err := risor.Eval(context.Background(), src, risor.WithImporter(im))
					in := map[string]any{"part": "R", "root": rootText, "working_directory_moves_to": moveTo, "moved_by": how, "script": src}
					switch {
					case err != nil:
						r.Outcome("R|import-failed")
					case v != nil && len(v.Inspect()) > 9 && v.Inspect()[:9] == "\"OUTSIDE:":
						r.Report("import-root-escape:relative-root-follows-the-working-directory", fmt.Sprintf("LocalImporter(SourceDir=%q) configured in %s, working directory then moved to %q by the %s: %q loaded %s", rootText, "<T>", moveTo, how, imp, v.Inspect()), in, v.Inspect(), "the module under the configured root, or an error")
					default:
						r.Outcome("R|" + v.Inspect())
					}
				}
			}
		}
	}
	r.Add("relative_root_cases", n)
}
