package lang

import (
	"strconv"
	"strings"
)

// Tok is one source token as rendered by the harness.
type Tok struct {
	T       string
	NL      bool // this token is a newline (statement separator or line break inside a block)
	Tight   bool // rendered without a space before it in the normal layout
	NLAfter bool // the grammar accepts a line break after this token (comma in list/map/set/arguments, binary operator, pipe)
	Stmt    bool // NL only: separates two statements (a blank line may be added)
}

type renderer struct {
	toks []Tok
}

func (r *renderer) t(s string)      { r.toks = append(r.toks, Tok{T: s}) }
func (r *renderer) tight(s string)  { r.toks = append(r.toks, Tok{T: s, Tight: true}) }
func (r *renderer) nlafter(s string) { r.toks = append(r.toks, Tok{T: s, NLAfter: true}) }
func (r *renderer) commaNL()        { r.toks = append(r.toks, Tok{T: ",", Tight: true, NLAfter: true}) }
func (r *renderer) comma()          { r.toks = append(r.toks, Tok{T: ",", Tight: true}) }
func (r *renderer) nl(stmt bool)    { r.toks = append(r.toks, Tok{T: "\n", NL: true, Stmt: stmt}) }

// Render renders a top-level statement list.
func Render(prog []*N) []Tok {
	r := &renderer{}
	r.stmts(prog)
	return r.toks
}

// RenderExpr renders one expression.
func RenderExpr(e *N) []Tok {
	r := &renderer{}
	r.expr(e, false)
	return r.toks
}

// Source joins tokens in the normal layout.
func Source(toks []Tok) string {
	var sb strings.Builder
	for i, t := range toks {
		if i > 0 && !t.NL && !t.Tight && !toks[i-1].NL && !opensTight(toks[i-1].T) {
			sb.WriteByte(' ')
		}
		sb.WriteString(t.T)
	}
	return sb.String()
}

func opensTight(s string) bool { return s == "(" || s == "[" || s == "." }

func Src(prog []*N) string { return Source(Render(prog)) }

func (r *renderer) stmts(b []*N) {
	for i, s := range b {
		if i > 0 {
			r.nl(true)
		}
		r.stmt(s)
	}
}

func (r *renderer) block(b []*N) {
	r.t("{")
	if len(b) > 0 {
		r.nl(false)
		r.stmts(b)
		r.nl(false)
	}
	r.t("}")
}

func (r *renderer) params(ps []Param) {
	r.tight("(")
	for i, p := range ps {
		if i > 0 {
			r.comma()
		}
		r.t(p.Name)
		if p.Def != nil {
			r.t("=")
			r.expr(p.Def, false)
		}
	}
	r.tight(")")
}

func (r *renderer) stmt(s *N) {
	switch s.K {
	case SExpr:
		r.expr(s.A[0], false)
	case SVar:
		r.t(s.S)
		r.t(":=")
		r.expr(s.A[0], false)
	case SAssign:
		r.expr(s.A[0], false)
		r.t(s.Op)
		r.expr(s.A[1], false)
	case SMultiVar, SMultiSet:
		for i, n := range s.Names {
			if i > 0 {
				r.comma()
			}
			r.t(n)
		}
		if s.K == SMultiVar {
			r.t(":=")
		} else {
			r.t("=")
		}
		r.expr(s.A[0], false)
	case SConst:
		r.t("const")
		r.t(s.S)
		r.t("=")
		r.expr(s.A[0], false)
	case SInc:
		r.t(s.S)
		r.tight(s.Op)
	case SReturn:
		r.t("return")
		if len(s.A) > 0 {
			r.expr(s.A[0], false)
		}
	case SBreak:
		r.t("break")
	case SContinue:
		r.t("continue")
	case SIf:
		r.ifChain(s)
	case SSwitch:
		r.switchStmt(s)
	case SFor:
		r.t("for")
		switch s.Op {
		case "inf":
		case "cond":
			r.expr(s.A[0], false)
		case "three":
			r.stmt(s.Init)
			r.tight(";")
			r.expr(s.A[0], false)
			r.tight(";")
			r.stmt(s.Post)
		case "range":
			r.t(s.Names[0])
			r.t(":=")
			r.t("range")
			r.expr(s.A[0], false)
		case "rangekv":
			r.t(s.Names[0])
			r.comma()
			r.t(s.Names[1])
			r.t(":=")
			r.t("range")
			r.expr(s.A[0], false)
		case "rangeonly":
			r.t("range")
			r.expr(s.A[0], false)
		case "in":
			r.t(s.Names[0])
			r.t("in")
			r.expr(s.A[0], false)
		}
		r.block(s.Body)
	case SDefer:
		r.t("defer")
		if c := s.A[0]; c.K == ECall && c.A[0].K == EFunc {
			// defer func() { ... }(): the parser wants the literal unparenthesised
			r.expr(c.A[0], false)
			r.args(c.A[1:])
		} else {
			r.expr(s.A[0], false)
		}
	case SFunc:
		r.t("func")
		r.t(s.S)
		r.params(s.Params)
		r.block(s.Body)
	default:
		// an expression node used directly as a statement
		r.expr(s, false)
	}
}

func (r *renderer) ifChain(s *N) {
	r.t("if")
	r.expr(s.A[0], false)
	r.block(s.Body)
	if s.HasElse {
		r.t("else")
		if len(s.Else) == 1 && s.Else[0].K == SIf && s.Else[0].ID == -1 {
			r.ifChain(s.Else[0]) // else-if chain (marked by ID -1)
			return
		}
		r.block(s.Else)
	}
}

func (r *renderer) switchStmt(s *N) {
	r.t("switch")
	r.expr(s.A[0], false)
	r.t("{")
	r.nl(false)
	for _, c := range s.Cases {
		if c.Default {
			r.t("default")
			r.tight(":")
		} else {
			r.t("case")
			for i, v := range c.Vals {
				if i > 0 {
					r.comma()
				}
				r.expr(v, false)
			}
			r.tight(":")
		}
		r.nl(false)
		if len(c.Body) > 0 {
			r.stmts(c.Body)
			r.nl(false)
		}
	}
	r.t("}")
}

func needsParens(n *N) bool {
	switch n.K {
	case EBin, ETern, EPipe, EPre, EIfExpr, EFunc, ESwitchExpr:
		return true
	case EInt:
		return n.I < 0
	case EFloat:
		return n.F < 0
	}
	return false
}

// expr renders e; operand = true wraps compound expressions in parentheses.
func (r *renderer) expr(e *N, operand bool) {
	if operand && needsParens(e) {
		r.t("(")
		r.expr(e, false)
		r.tight(")")
		return
	}
	switch e.K {
	case EInt:
		r.t(strconv.FormatInt(e.I, 10))
	case EFloat:
		s := strconv.FormatFloat(e.F, 'f', -1, 64)
		if !strings.Contains(s, ".") {
			s += ".0"
		}
		r.t(s)
	case EStr:
		r.t(Quote(e.S))
	case EBool:
		if e.B {
			r.t("true")
		} else {
			r.t("false")
		}
	case ENil:
		r.t("nil")
	case EIdent:
		r.t(e.S)
	case EList:
		r.t("[")
		for i, x := range e.A {
			if i > 0 {
				r.commaNL()
			}
			r.exprTightFirst(x, i == 0)
		}
		r.tight("]")
	case ESet:
		r.t("{")
		for i, x := range e.A {
			if i > 0 {
				r.commaNL()
			}
			r.expr(x, false)
		}
		r.t("}")
	case EMap:
		r.t("{")
		for i := 0; i+1 < len(e.A); i += 2 {
			if i > 0 {
				r.commaNL()
			}
			k := e.A[i]
			if k.K == EIdent {
				r.t(k.S)
			} else {
				r.expr(k, false)
			}
			r.tight(":")
			r.expr(e.A[i+1], false)
		}
		r.t("}")
	case EBin:
		r.expr(e.A[0], true)
		if e.Op == "in" || e.Op == "not in" {
			r.t(e.Op) // the statement names symbolic operators only
		} else {
			r.nlafter(e.Op)
		}
		r.expr(e.A[1], true)
	case EPre:
		r.t(e.Op)
		n := len(r.toks)
		r.expr(e.A[0], true)
		if n < len(r.toks) && e.Op != "not" {
			r.toks[n].Tight = true
		}
	case ETern:
		r.expr(e.A[0], true)
		r.t("?")
		r.expr(e.A[1], true)
		r.t(":")
		r.expr(e.A[2], true)
	case EIndex:
		r.expr(e.A[0], true)
		r.tight("[")
		r.exprTightFirst(e.A[1], true)
		r.tight("]")
	case ESlice:
		r.expr(e.A[0], true)
		r.tight("[")
		if e.A[1] != nil {
			r.exprTightFirst(e.A[1], true)
		}
		r.tight(":")
		if e.A[2] != nil {
			r.exprTightFirst(e.A[2], true)
		}
		r.tight("]")
	case ECall:
		r.expr(e.A[0], true)
		r.args(e.A[1:])
	case EMeth:
		r.expr(e.A[0], true)
		r.tight(".")
		r.tight(e.S)
		r.args(e.A[1:])
	case EAttr:
		r.expr(e.A[0], true)
		r.tight(".")
		r.tight(e.S)
	case EFunc:
		r.t("func")
		if e.S != "" {
			r.t(e.S)
		}
		r.params(e.Params)
		r.block(e.Body)
	case EPipe:
		for i, s := range e.A {
			if i > 0 {
				r.nlafter("|")
			}
			if s.K == EPipe || s.K == ETern || s.K == EFunc {
				r.expr(s, true)
			} else {
				r.expr(s, false)
			}
		}
	case EInterp:
		var sb strings.Builder
		sb.WriteByte('\'')
		for _, p := range e.A {
			if p.K == EStr {
				sb.WriteString(p.S) // generators only use template-safe literal text
			} else {
				sb.WriteByte('{')
				sb.WriteString(Source(RenderExpr(p)))
				sb.WriteByte('}')
			}
		}
		sb.WriteByte('\'')
		r.t(sb.String())
	case EIfExpr:
		r.t("if")
		r.expr(e.A[0], false)
		r.block(e.Body)
		if e.HasElse {
			r.t("else")
			r.block(e.Else)
		}
	case EGroup:
		r.t("(")
		r.expr(e.A[0], false)
		r.tight(")")
	case SSwitch:
		r.switchStmt(e)
	case SIf:
		r.ifChain(e)
	default:
		panic("lang: cannot render expression kind " + strconv.Itoa(int(e.K)))
	}
}

func (r *renderer) exprTightFirst(e *N, first bool) {
	n := len(r.toks)
	r.expr(e, false)
	_ = n
	_ = first
}

func (r *renderer) args(a []*N) {
	r.tight("(")
	for i, x := range a {
		if i > 0 {
			r.commaNL()
		}
		r.expr(x, false)
	}
	r.tight(")")
}

// Quote renders a double-quoted risor string literal.
func Quote(s string) string {
	var sb strings.Builder
	sb.WriteByte('"')
	for _, c := range s {
		switch c {
		case '"':
			sb.WriteString(`\"`)
		case '\\':
			sb.WriteString(`\\`)
		case '\n':
			sb.WriteString(`\n`)
		case '\t':
			sb.WriteString(`\t`)
		case '\r':
			sb.WriteString(`\r`)
		default:
			sb.WriteRune(c)
		}
	}
	sb.WriteByte('"')
	return sb.String()
}
