// Package lang is the harness's own tiny AST for the core of the risor language,
// with a renderer to source text. It shares nothing with risor's parser or AST.
package lang

// K is a node kind.
type K int

const (
	// expressions
	EInt K = iota
	EFloat
	EStr
	EBool
	ENil
	EIdent
	EList   // A = elements
	EMap    // A = alternating key, value (keys are EStr or EIdent rendered bare)
	ESet    // A = elements
	EBin    // Op, A[0] Op A[1]
	EPre    // Op, A[0]
	ETern   // A[0] ? A[1] : A[2]
	EIndex  // A[0][A[1]]
	ESlice  // A[0][A[1]:A[2]] (A[1], A[2] may be nil)
	ECall   // A[0](A[1:]...)
	EMeth   // A[0].S(A[1:]...)
	EAttr   // A[0].S
	EFunc   // function literal: S = name (optional), Params, Body
	EPipe   // A[0] | A[1] | ...
	EInterp // A = parts; EStr parts are literal text, others are {expr}
	EIfExpr // if A[0] { Body } else { Else }   (HasElse)
	EGroup  // ( A[0] )
	ESwitchExpr
	// statements
	SExpr     // A[0]
	SVar      // S := A[0]
	SAssign   // target A[0] (EIdent | EIndex | EAttr), Op in = += -= *= /=, value A[1]
	SMultiVar // Names := A[0]
	SMultiSet // Names = A[0]
	SConst    // const S = A[0]
	SInc      // S++ / S-- (Op)
	SReturn   // A[0] optional
	SBreak
	SContinue
	SIf     // A[0] cond, Body, Else (HasElse); else-if chains are Else = [SIf]
	SSwitch // A[0] subject, Cases
	SFor    // Op: "inf", "cond", "three", "range", "rangekv", "rangeonly", "in"; see fields
	SDefer  // A[0] call expression
	SFunc   // named function declaration: S, Params, Body
)

type Param struct {
	Name string
	Def  *N // default literal or nil
}

type Case struct {
	Vals    []*N // empty = default
	Body    []*N
	Default bool
}

// N is a node.
type N struct {
	K      K
	Op     string
	S      string
	I      int64
	F      float64
	B      bool
	A      []*N
	Names  []string
	Params []Param
	Body   []*N
	Else   []*N
	HasElse bool
	Cases  []Case
	// SFor: Names = loop variables; A[0] = cond / iterable; Init, Post for the 3-part form
	Init, Post *N
	ID         int // emit-site id etc., free for generators
}

// --- constructors (terse on purpose; generators use them heavily)

func Int(i int64) *N        { return &N{K: EInt, I: i} }
func Float(f float64) *N    { return &N{K: EFloat, F: f} }
func Str(s string) *N       { return &N{K: EStr, S: s} }
func Bool(b bool) *N        { return &N{K: EBool, B: b} }
func Nil() *N               { return &N{K: ENil} }
func Id(s string) *N        { return &N{K: EIdent, S: s} }
func List(e ...*N) *N       { return &N{K: EList, A: e} }
func Set(e ...*N) *N        { return &N{K: ESet, A: e} }
func Map(kv ...*N) *N       { return &N{K: EMap, A: kv} }
func Bin(op string, a, b *N) *N { return &N{K: EBin, Op: op, A: []*N{a, b}} }
func Pre(op string, a *N) *N   { return &N{K: EPre, Op: op, A: []*N{a}} }
func Tern(c, a, b *N) *N    { return &N{K: ETern, A: []*N{c, a, b}} }
func Index(a, i *N) *N      { return &N{K: EIndex, A: []*N{a, i}} }
func Slice(a, lo, hi *N) *N { return &N{K: ESlice, A: []*N{a, lo, hi}} }
func Call(f *N, args ...*N) *N { return &N{K: ECall, A: append([]*N{f}, args...)} }
func Meth(o *N, name string, args ...*N) *N {
	return &N{K: EMeth, S: name, A: append([]*N{o}, args...)}
}
func Attr(o *N, name string) *N { return &N{K: EAttr, S: name, A: []*N{o}} }
func Func(name string, params []Param, body ...*N) *N {
	return &N{K: EFunc, S: name, Params: params, Body: body}
}
func Pipe(stages ...*N) *N   { return &N{K: EPipe, A: stages} }
func Interp(parts ...*N) *N  { return &N{K: EInterp, A: parts} }
func Group(a *N) *N          { return &N{K: EGroup, A: []*N{a}} }
func IfExpr(c *N, then, els []*N) *N {
	return &N{K: EIfExpr, A: []*N{c}, Body: then, Else: els, HasElse: els != nil}
}

func Expr(e *N) *N            { return &N{K: SExpr, A: []*N{e}} }
func Var(name string, e *N) *N { return &N{K: SVar, S: name, A: []*N{e}} }
func Assign(t *N, op string, e *N) *N { return &N{K: SAssign, Op: op, A: []*N{t, e}} }
func Set1(name string, e *N) *N { return Assign(Id(name), "=", e) }
func MultiVar(names []string, e *N) *N { return &N{K: SMultiVar, Names: names, A: []*N{e}} }
func MultiSet(names []string, e *N) *N { return &N{K: SMultiSet, Names: names, A: []*N{e}} }
func Const(name string, e *N) *N { return &N{K: SConst, S: name, A: []*N{e}} }
func Inc(name, op string) *N  { return &N{K: SInc, S: name, Op: op} }
func Return(e *N) *N {
	if e == nil {
		return &N{K: SReturn}
	}
	return &N{K: SReturn, A: []*N{e}}
}
func Break() *N    { return &N{K: SBreak} }
func Continue() *N { return &N{K: SContinue} }
func If(c *N, then []*N, els []*N) *N {
	return &N{K: SIf, A: []*N{c}, Body: then, Else: els, HasElse: els != nil}
}
func Switch(subj *N, cases ...Case) *N { return &N{K: SSwitch, A: []*N{subj}, Cases: cases} }
func ForInf(body ...*N) *N             { return &N{K: SFor, Op: "inf", Body: body} }
func ForCond(c *N, body ...*N) *N      { return &N{K: SFor, Op: "cond", A: []*N{c}, Body: body} }
func For3(init, cond, post *N, body ...*N) *N {
	return &N{K: SFor, Op: "three", Init: init, A: []*N{cond}, Post: post, Body: body}
}
func ForRange(k string, it *N, body ...*N) *N {
	return &N{K: SFor, Op: "range", Names: []string{k}, A: []*N{it}, Body: body}
}
func ForRangeKV(k, v string, it *N, body ...*N) *N {
	return &N{K: SFor, Op: "rangekv", Names: []string{k, v}, A: []*N{it}, Body: body}
}
func ForRangeOnly(it *N, body ...*N) *N { return &N{K: SFor, Op: "rangeonly", A: []*N{it}, Body: body} }
func ForIn(v string, it *N, body ...*N) *N {
	return &N{K: SFor, Op: "in", Names: []string{v}, A: []*N{it}, Body: body}
}
func Defer(call *N) *N { return &N{K: SDefer, A: []*N{call}} }
func FuncDecl(name string, params []Param, body ...*N) *N {
	return &N{K: SFunc, S: name, Params: params, Body: body}
}
func P(names ...string) []Param {
	out := make([]Param, len(names))
	for i, n := range names {
		out[i] = Param{Name: n}
	}
	return out
}

// Clone deep-copies a tree.
func Clone(n *N) *N {
	if n == nil {
		return nil
	}
	c := *n
	c.A = cloneList(n.A)
	c.Body = cloneList(n.Body)
	c.Else = cloneList(n.Else)
	c.Init = Clone(n.Init)
	c.Post = Clone(n.Post)
	if n.Params != nil {
		c.Params = make([]Param, len(n.Params))
		for i, p := range n.Params {
			c.Params[i] = Param{p.Name, Clone(p.Def)}
		}
	}
	if n.Cases != nil {
		c.Cases = make([]Case, len(n.Cases))
		for i, cs := range n.Cases {
			c.Cases[i] = Case{cloneList(cs.Vals), cloneList(cs.Body), cs.Default}
		}
	}
	c.Names = append([]string(nil), n.Names...)
	return &c
}

func cloneList(l []*N) []*N {
	if l == nil {
		return nil
	}
	out := make([]*N, len(l))
	for i, x := range l {
		out[i] = Clone(x)
	}
	return out
}

func CloneBlock(l []*N) []*N { return cloneList(l) }
