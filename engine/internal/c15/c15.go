// Package c15: equality, ordering and hashing of script values obey their algebraic laws.
//
// Bounded-exhaustive enumeration (no sampling):
//
//	A. the 45-value boundary pool: every ordered pair and every triple through the object API
//	   (Equals, object.Compare, Container.Contains, iteration, NewSet/HashKey);
//	B. every ordered pair again through real scripts run with risor.Eval (== != < <= > >= in,
//	   set literals), the same laws on the script's answers, and agreement script vs object API;
//	C. every list of length <= N over 11 six-value families through sorted(), list.sort(), set(),
//	   set literals, `in`, and truthiness vs len.
//
// The laws are the ones worded in the property statement; see checkLaws and judgeList.
package c15

import (
	"fmt"
	"os"
	"time"
	"math"
	"sort"
	"strings"
	"sync"

	"github.com/risor-io/risor/object"

	"verif/internal/ev"
)

func Check(r *ev.Run, replay string) {
	if replay != "" {
		replayOne(r, replay)
		return
	}
	maxLen := 3
	if r.Thorough() {
		maxLen = 5
	}
	r.Assumptions = []string{
		"float NaN is excluded by the statement and is not in any pool",
		"== transitivity and the preorder laws are demanded only for three values of one type (statement: 'transitive within a type'); cross-type intransitivity around 2^53 is counted, not reported",
		"an ordering operator that raises a type error gives no answer: inside list the preorder laws are demanded only for pairs whose elements are all pairwise orderable (numbers with numbers, strings with strings, ...); inside int, float, byte, string, bool an error is a violation",
		"`in` on a string is substring search; it is compared with iterate-and-compare only for needles of exactly one rune or needles that are not strings",
		"sorted()/list.sort() laws are demanded only for inputs whose distinct members the harness has just verified (object.Comparable.Compare, all ordered pairs and triples) to form a consistent preorder; other inputs are run and their outcome recorded only",
		"a raised error cannot be written as a script expression; that one pool value is passed to scripts as a global",
		"a Go panic recovered by the VM on input the statement does not cover (sorted() of non-comparable values) is recorded under observations_outside_statement, not reported",
	}
	t0 := time.Now()
	tick := func(what string) {
		if os.Getenv("C15_TIMING") != "" {
			fmt.Fprintf(os.Stderr, "timing %-20s %.1fs\n", what, time.Since(t0).Seconds())
		}
		t0 = time.Now()
	}
	vals := pool()
	if msg := checkLiterals(vals); msg != "" {
		r.EngineError(msg)
		return
	}
	report := func(fs []finding) {
		for _, f := range fs {
			r.Report(f.Sig, f.What, f.Case, f.Observed, f.Expected)
		}
	}

	// ---------------------------------------------------------------- A
	objT := objectTable(vals)
	fA, stA := checkLaws(objT, vals, nil)
	report(fA)
	r.Eval(stA.pairs*nOps + stA.triples)
	for i, a := range vals {
		for j, b := range vals {
			r.Outcome("object|" + orderedSig(a.Obj, b.Obj) + "|" + objT.row(i, j))
		}
	}
	r.Set("pool_values", len(vals))
	r.Set("object_pairs", stA.pairs)
	r.Set("object_triples", stA.triples)
	r.Set("same_type_triples", stA.sameTypeTriples)
	r.Set("cross_type_eq_intransitive_triples_not_a_violation", stA.crossTypeEqIntransitive)
	report(truthinessObject(r, vals))

	// ---------------------------------------------------------------- B
	scrT := newTable("script", len(vals))
	classes := make([]map[string]int, len(vals))
	rowErr := make([]string, len(vals))
	rowEvals := make([]int, len(vals))
	ev.ParFor(len(vals), func(i int) {
		classes[i] = map[string]int{}
		rowEvals[i], rowErr[i] = scriptRow(scrT, vals, i, classes[i])
	})
	scripts := 0
	errClasses := map[string]int{}
	for i := range vals {
		if rowErr[i] != "" {
			r.EngineError("script row " + vals[i].Name + ": " + rowErr[i])
			return
		}
		scripts += rowEvals[i]
		for k, n := range classes[i] {
			errClasses[k] += n
		}
	}
	fB, stB := checkLaws(scrT, vals, nil)
	report(fB)
	report(compareTables(objT, scrT, vals, nil))
	r.Eval(stB.pairs*nOps + stB.triples)
	for i, a := range vals {
		for j, b := range vals {
			r.Outcome("script|" + orderedSig(a.Obj, b.Obj) + "|" + scrT.row(i, j))
		}
	}
	r.Set("script_pairs", stB.pairs)
	r.Set("script_operator_answers", stB.pairs*nOps)
	r.Set("scripts_evaluated_pairs", scripts)
	r.Set("script_error_classes", errClasses)
	fT, nT := truthinessScript(vals)
	if nT < 0 {
		r.EngineError("truthiness script: " + fT[0].What)
		return
	}
	report(fT)
	r.Eval(nT)

	tick("A+B")
	// ---------------------------------------------------------------- C
	totalLists, listScripts := 0, 0
	var notes []string
	famSizes := map[string]int{}
	for _, f := range families() {
		fi, msg := newFamInfo(f)
		if msg == "" {
			msg = checkLiterals(f.Vals)
		}
		if msg != "" {
			r.EngineError(msg)
			return
		}
		ml := maxLen
		if len(f.Vals) == 2 {
			ml = maxLen + 4 // bool has two values: longer lists are cheap
		}
		lists := enumLists(len(f.Vals), ml)
		famSizes[f.Name] = len(lists)
		totalLists += len(lists)
		const batch = 16
		nb := (len(lists) + batch - 1) / batch
		type res struct {
			f       []finding
			outcome string
			note    []string
		}
		results := make([]res, len(lists))
		var mu sync.Mutex
		engineErr := ""
		ev.ParFor(nb, func(b int) {
			lo, hi := b*batch, (b+1)*batch
			if hi > len(lists) {
				hi = len(lists)
			}
			out, n, ee := fi.runBatch(lists[lo:hi])
			mu.Lock()
			listScripts += n
			if ee != "" && engineErr == "" {
				engineErr = ee
			}
			mu.Unlock()
			if ee != "" {
				return
			}
			for k := lo; k < hi; k++ {
				fs, oc, note, ee := fi.judgeList(lists[k], ml, out[k-lo])
				if ee != "" {
					mu.Lock()
					if engineErr == "" {
						engineErr = ee
					}
					mu.Unlock()
					return
				}
				fs = append(fs, fi.objectSort(lists[k], ml)...)
				results[k] = res{fs, oc, note}
			}
		})
		if engineErr != "" {
			r.EngineError("family " + f.Name + ": " + engineErr)
			return
		}
		for k := range lists {
			report(results[k].f)
			r.Outcome("list|" + f.Name + "|" + results[k].outcome + "|" + fi.show(fi.sortedForOutcome(lists[k])))
			notes = append(notes, results[k].note...)
		}
		r.Eval(len(lists) * (nPieces + 1))
	}
	// ---------------------------------------------------------------- D
	// Go's sort package switches from insertion sort to other algorithms above 12 elements;
	// stability must survive that switch. All lists of length exactly 13.
	longN := 13
	long3 := longFamilies()[0]
	tick("C lists")
	nLong3, msg := longObjectSort(r, long3, longN, report)
	if msg != "" {
		r.EngineError(msg)
		return
	}
	for _, f := range longFamilies()[1:] {
		n, msg := longObjectSort(r, f, longN, report)
		if msg != "" {
			r.EngineError(msg)
			return
		}
		nLong3 += n
	}
	tick("D object.Sort long")
	zeroAt := []int{0, 6, 12}
	if r.Thorough() {
		zeroAt = []int{0, 1, 2, 3, 4, 5, 6, 7, 8, 9, 10, 11, 12}
	}
	nLong2, nLong2Scripts, msg := longScriptSort(r, long3, longN, zeroAt, report)
	if msg != "" {
		r.EngineError(msg)
		return
	}
	tick("D script long")
	r.Set("long_lists_object_sort", nLong3)
	r.Set("long_lists_script_sorted", nLong2)
	listScripts += nLong2Scripts
	r.Set("list_families", famSizes)
	r.Set("lists_total", totalLists)
	r.Set("scripts_evaluated_lists", listScripts)
	if len(notes) > 0 {
		classes := map[string]int{}
		for _, n := range notes {
			k := n
			if i := strings.Index(n, " ended the script: "); i >= 0 {
				k = strings.SplitN(n, " of ", 2)[0]
				if j := strings.Index(k, "("); j >= 0 {
					k = k[:j]
				}
				k += ": " + n[i+len(" ended the script: "):]
			}
			classes[k]++
		}
		r.Set("observations_outside_statement", map[string]any{"count": len(notes), "classes": classes, "first": notes[0]})
	}
	r.Set("bound_completed", maxLen)
	r.Set("rule", fmt.Sprintf("A: all %d ordered pairs x %d operators and all %d triples over the 45-value pool through the object API; B: the same pairs and triples through scripts run by risor.Eval (literal operands, 45 scripts of %d guarded expressions) plus cell-by-cell agreement with A; C: every list of length 0..%d (bool: 0..%d) over each of %d families of 6 values (%d lists) through sorted, sorted twice, list.sort, set(), set literal, `in`, bool()/!! vs len, and object.Sort; D: every list of length 13 over {1, 1.0, 0}, over {0.0, -0.0, -1.0} and over {[1], [1.0], [0]} (3^13 each) through object.Sort and, for the first family, through sorted()/list.sort() in scripts, those with exactly one 0 at a position in %v and every arrangement of 1 / 1.0 elsewhere (%d lists; Go's sort changes algorithm above 12 elements). distinct = distinct (level, type pair, answers of all %d operators) rows and distinct (family, outcome classes, sorted result) tuples",
		stA.pairs, nOps, stA.triples, len(vals)*nOps, maxLen, maxLen+4, len(famSizes), totalLists, zeroAt, nLong2, nOps))
	r.Sample(map[string]any{"level": "object", "a": "int(2^53+1)", "b": "float(2^53)", "answers": objT.row(7, 14)})
	r.Sample(map[string]any{"level": "script", "a": "int(2^53+1)", "b": "float(2^53)", "answers": scrT.row(7, 14), "expr": pairExprs(vals[7].Src, vals[14].Src)[oLT]})
	r.Sample(map[string]any{"level": "script", "a": "set{1}", "b": "float(1.0)", "answers": scrT.row(41, 12)})
	r.Sample(map[string]any{"part": "list", "family": "num-mixed", "input": "[float(1.0), int(2), byte(1), int(1)]", "expected_sorted": "[float(1.0), byte(1), int(1), int(2)]"})
}

// sortedForOutcome: the harness's own sorted order when defined, else the input (outcome key only).
func (fi *famInfo) sortedForOutcome(items []int) []int {
	if fi.mutuallyComparable(items) {
		return fi.stableSorted(items)
	}
	return nil
}

// objectSort runs object.Sort (the routine behind sorted() and list.sort()) through the Go API.
func (fi *famInfo) objectSort(items []int, maxLen int) (out []finding) {
	if !fi.mutuallyComparable(items) {
		return nil
	}
	objs := make([]object.Object, len(items))
	for k, i := range items {
		objs[k] = fi.Vals[i].Obj
	}
	errText := func() (t string) {
		defer func() {
			if e := recover(); e != nil {
				t = fmt.Sprintf("panic: %v", e)
			}
		}()
		if e := object.Sort(objs); e != nil {
			return "error: " + e.Message().Value()
		}
		return ""
	}()
	rc := replayCase{Part: "list", Family: fi.Name, Items: append([]int{}, items...), MaxLen: maxLen}
	want := fi.stableSorted(items)
	if errText != "" {
		rc.Law = "sorted-error:" + fi.Name
		return []finding{{Sig: "sorted-error:" + fi.Name, What: fmt.Sprintf("family %s, input %s: object.Sort fails on mutually comparable input: %s", fi.Name, fi.names(items), errText), Observed: errText, Expected: fi.show(want), Case: rc}}
	}
	got := make([]int, len(objs))
	for k, o := range objs {
		i, ok := fi.ptr[o] // object.Sort permutes the very objects it was given
		if !ok {
			if i, ok = fi.idx[ident(o)]; !ok {
				i = -1
			}
		}
		got[k] = i
	}
	if law := fi.classifySorted(got, items, want); law != "" {
		rc.Law = "sorted-" + law + ":" + fi.Name
		return []finding{{Sig: "sorted-" + law + ":" + fi.Name, What: fmt.Sprintf("family %s, input %s: object.Sort gives %s (breaks: %s)", fi.Name, fi.names(items), fi.show(got), law), Observed: fi.show(got), Expected: fi.show(want), Case: rc}}
	}
	return nil
}

func longFamilies() []family {
	li := func(name string, o object.Object) val {
		return val{name, name, object.NewList([]object.Object{o})}
	}
	return []family{
		{"long-num3", []val{vInt(1), vFloat(1), vInt(0)}},
		// values of ONE type that are == and still distinguishable: the two float zeros, and lists
		// with an int and a float element (a sort that is only stable for mixed-type input shows here)
		{"long-float-zeros", []val{vFloat(0), {"-0.0", "(0.0 * -1.0)", object.NewFloat(math.Copysign(0, -1))}, vFloat(-1)}},
		{"long-lists", []val{li("[1]", object.NewInt(1)), li("[1.0]", object.NewFloat(1)), li("[0]", object.NewInt(0))}},
	}
}

// longObjectSort: every list of length n over a 3-value family through object.Sort.
func longObjectSort(r *ev.Run, f family, n int, report func([]finding)) (int, string) {
	fi, msg := newFamInfo(f)
	if msg != "" {
		return 0, msg
	}
	k := len(f.Vals)
	pow := func(e int) int {
		p := 1
		for i := 0; i < e; i++ {
			p *= k
		}
		return p
	}
	const prefixLen = 5
	nPre, nSuf := pow(prefixLen), pow(n-prefixLen)
	first := make([][]finding, nPre)
	ev.ParFor(nPre, func(p int) {
		items := make([]int, n)
		x := p
		for d := 0; d < prefixLen; d++ {
			items[d] = x % k
			x /= k
		}
		for s := 0; s < nSuf; s++ {
			x := s
			for d := prefixLen; d < n; d++ {
				items[d] = x % k
				x /= k
			}
			if fs := fi.objectSort(items, n); len(fs) > 0 && first[p] == nil {
				first[p] = fs
			}
		}
		r.Eval(nSuf)
	})
	for _, fs := range first {
		report(fs)
	}
	r.Outcome("long|" + f.Name + "|object.Sort|all lists judged against the harness's stable sort")
	return nPre * nSuf, ""
}

// longScriptSort: the lists of length n with exactly one 0 among 1 / 1.0 through sorted() and list.sort() in scripts.
func longScriptSort(r *ev.Run, f family, n int, zeroAt []int, report func([]finding)) (int, int, string) {
	fi, msg := newFamInfo(f)
	if msg == "" {
		msg = checkLiterals(f.Vals)
	}
	if msg != "" {
		return 0, 0, msg
	}
	// exactly one 0 (index 2) at one of the given positions, every arrangement of {1, 1.0} elsewhere
	fi.sortOnly = true
	var lists [][]int
	for _, pos := range zeroAt {
		for i := 0; i < 1<<(n-1); i++ {
			items := make([]int, 0, n)
			for d := 0; d < n-1; d++ {
				if d == pos {
					items = append(items, 2)
				}
				items = append(items, (i>>d)&1)
			}
			if pos == n-1 {
				items = append(items, 2)
			}
			lists = append(lists, items)
		}
	}
	const batch = 32
	nb := (len(lists) + batch - 1) / batch
	results := make([][]finding, len(lists))
	var mu sync.Mutex
	engineErr, scripts := "", 0
	ev.ParFor(nb, func(b int) {
		lo, hi := b*batch, (b+1)*batch
		if hi > len(lists) {
			hi = len(lists)
		}
		out, ne, ee := fi.runBatch(lists[lo:hi])
		for k := lo; ee == "" && k < hi; k++ {
			results[k], _, _, ee = fi.judgeList(lists[k], n, out[k-lo])
		}
		mu.Lock()
		scripts += ne
		if ee != "" && engineErr == "" {
			engineErr = ee
		}
		mu.Unlock()
	})
	if engineErr != "" {
		return 0, 0, engineErr
	}
	for _, fs := range results {
		report(fs)
	}
	r.Eval(len(lists) * nPieces)
	r.Outcome("long|" + f.Name + "|sorted,list.sort|all lists judged against the harness's stable sort")
	return len(lists), scripts, ""
}

// ------------------------------------------------------------ truthiness

func truthinessObject(r *ev.Run, vals []val) (out []finding) {
	extra := []val{
		{"byte_slice()", "", object.NewByteSlice([]byte{})},
		{"byte_slice(0)", "", object.NewByteSlice([]byte{0})},
		{"float_slice()", "", object.NewFloatSlice([]float64{})},
		{"float_slice(0.0)", "", object.NewFloatSlice([]float64{0})},
	}
	n := 0
	for _, v := range append(append([]val{}, vals...), extra...) {
		c, ok := v.Obj.(object.Container)
		if !ok {
			continue
		}
		n++
		truthy, ln := v.Obj.IsTruthy(), c.Len().Value()
		r.Outcome(fmt.Sprintf("truthy|object|%s|%v|%v", typeOf(v.Obj), truthy, ln != 0))
		if truthy != (ln != 0) {
			out = append(out, finding{Sig: "truthy-len:" + typeOf(v.Obj), What: fmt.Sprintf("[object level] %s: IsTruthy()=%v but Len()=%d", v.Name, truthy, ln),
				Observed: fmt.Sprint(truthy), Expected: fmt.Sprint(ln != 0), Case: replayCase{Part: "truthy", Level: "object", Values: []string{v.Name}}})
		}
	}
	r.Eval(n)
	r.Set("containers_truthiness_object", n)
	return out
}

// truthinessScript: bool(v), !!v, ternary and if agree with len(v) != 0 for every container expression.
func truthinessScript(vals []val) ([]finding, int) {
	type cv struct{ name, src, typ string }
	var cs []cv
	for _, v := range vals {
		if _, ok := v.Obj.(object.Container); ok {
			cs = append(cs, cv{v.Name, v.Src, typeOf(v.Obj)})
		}
	}
	cs = append(cs, cv{"byte_slice()", "byte_slice()", "byte_slice"}, cv{"byte_slice([0])", "byte_slice([0])", "byte_slice"},
		cv{`{"":nil}`, `{"": nil}`, "map"}, cv{"[nil]", "[nil]", "list"}, cv{"[[]]", "[[]]", "list"}, cv{"{nil}", "{nil}", "set"}, cv{"{false}", "{false}", "set"}, cv{`"\x00"`, `"\x00"`, "string"})
	var sb strings.Builder
	sb.WriteString("func viaif(x) { if x { return true } else { return false } }\n[\n")
	for _, c := range cs {
		fmt.Fprintf(&sb, " [len(%s), bool(%s), !!(%s), (%s) ? true : false, viaif(%s)],\n", c.src, c.src, c.src, c.src, c.src)
	}
	sb.WriteString("]\n")
	res, et := evalScript(sb.String())
	if et != "" {
		return []finding{{What: et}}, -1
	}
	rows, ok := res.(*object.List)
	if !ok || len(rows.Value()) != len(cs) {
		return []finding{{What: "unexpected result " + ident(res)}}, -1
	}
	var out []finding
	forms := []string{"bool(x)", "!!x", "x ? true : false", "if x"}
	for k, ro := range rows.Value() {
		row, ok := ro.(*object.List)
		if !ok || len(row.Value()) != 5 {
			return []finding{{What: "malformed row"}}, -1
		}
		ln, ok := row.Value()[0].(*object.Int)
		if !ok {
			return []finding{{What: "len is " + ident(row.Value()[0])}}, -1
		}
		for q, form := range forms {
			b, ok := row.Value()[q+1].(*object.Bool)
			if !ok {
				return []finding{{What: form + " is " + ident(row.Value()[q+1])}}, -1
			}
			if b.Value() != (ln.Value() != 0) {
				out = append(out, finding{Sig: "truthy-len:" + cs[k].typ, What: fmt.Sprintf("[script level] x = %s: %s is %v but len(x) is %d", cs[k].src, form, b.Value(), ln.Value()),
					Observed: fmt.Sprint(b.Value()), Expected: fmt.Sprint(ln.Value() != 0), Case: replayCase{Part: "truthy", Level: "script", Values: []string{cs[k].name}}})
			}
		}
	}
	return out, len(cs) * len(forms)
}

// ---------------------------------------------------------------- replay

func replayOne(r *ev.Run, path string) {
	var c replayCase
	if err := ev.ReadReplay(path, &c); err != nil {
		r.EngineError("replay: " + err.Error())
		return
	}
	fmt.Printf("replay input: %+v\n", c)
	r.Outcome("replay")
	r.Outcome("replay:" + c.Part)
	vals := pool()
	report := func(fs []finding) {
		n := 0
		for _, f := range fs {
			if c.Law != "" && f.Sig != c.Law {
				fmt.Printf("  (also, other signature) %s: %s\n", f.Sig, f.What)
				continue
			}
			n++
			fmt.Printf("  finding %s: %s\n", f.Sig, f.What)
			r.Report(f.Sig, f.What, f.Case, f.Observed, f.Expected)
		}
		if n == 0 {
			fmt.Println("  the recorded law is not broken by this case")
		}
	}
	switch c.Part {
	case "law", "agree":
		var idx []int
		for _, name := range c.Values {
			found := -1
			for i, v := range vals {
				if v.Name == name {
					found = i
				}
			}
			if found < 0 {
				r.EngineError("replay: unknown pool value " + name)
				return
			}
			idx = append(idx, found)
		}
		allowed := map[int]bool{}
		for _, i := range idx {
			allowed[i] = true
		}
		keep := func(t ...int) bool {
			for _, i := range t {
				if !allowed[i] {
					return false
				}
			}
			return true
		}
		objT := objectTable(vals)
		var scrT *table
		if c.Level == "script" || c.Part == "agree" {
			scrT = newTable("script", len(vals))
			uniq := append([]int{}, idx...)
			sort.Ints(uniq)
			for k, i := range uniq {
				if k > 0 && uniq[k-1] == i {
					continue
				}
				if _, ee := scriptRow(scrT, vals, i, map[string]int{}); ee != "" {
					r.EngineError("replay: " + ee)
					return
				}
			}
		}
		for _, i := range idx {
			for _, j := range idx {
				fmt.Printf("  object a=%-16s b=%-16s %s\n", vals[i].Name, vals[j].Name, objT.row(i, j))
				if scrT != nil {
					fmt.Printf("  script a=%-16s b=%-16s %s\n", vals[i].Name, vals[j].Name, scrT.row(i, j))
				}
				r.Eval(nOps)
			}
		}
		var fs []finding
		if c.Part == "agree" {
			fs = compareTables(objT, scrT, vals, keep)
		} else if c.Level == "script" {
			fs, _ = checkLaws(scrT, vals, keep)
		} else {
			fs, _ = checkLaws(objT, vals, keep)
		}
		report(fs)
	case "list":
		for _, f := range append(families(), longFamilies()...) {
			if f.Name != c.Family {
				continue
			}
			fi, msg := newFamInfo(f)
			if msg != "" {
				r.EngineError(msg)
				return
			}
			for _, i := range c.Items {
				if i < 0 || i >= len(f.Vals) {
					r.EngineError("replay: item index out of range")
					return
				}
			}
			fmt.Printf("  input %s mutually comparable (harness-verified): %v\n", fi.names(c.Items), fi.mutuallyComparable(c.Items))
			fmt.Printf("  script:\n%s\n", fi.batchScript([][]int{c.Items}))
			out, n, ee := fi.runBatch([][]int{c.Items})
			if ee != "" {
				r.EngineError(ee)
				return
			}
			r.Eval(n)
			for q := 0; q < nPieces; q++ {
				if out[0].fail[q] != "" {
					fmt.Printf("  %-12s -> script failed: %s\n", pieceName[q], out[0].fail[q])
				} else {
					fmt.Printf("  %-12s -> %s\n", pieceName[q], ev.Clip(ident(out[0].piece[q]), 400))
				}
			}
			fs, oc, _, ee := fi.judgeList(c.Items, c.MaxLen, out[0])
			if ee != "" {
				r.EngineError(ee)
				return
			}
			fmt.Println("  outcome:", oc)
			report(append(fs, fi.objectSort(c.Items, c.MaxLen)...))
			return
		}
		r.EngineError("replay: unknown family " + c.Family)
	case "truthy":
		fs := truthinessObject(r, vals)
		f2, n := truthinessScript(vals)
		if n < 0 {
			r.EngineError(f2[0].What)
			return
		}
		report(append(fs, f2...))
	default:
		r.EngineError("replay: unknown part " + c.Part)
	}
}
