package c15

import (
	"errors"
	"fmt"
	"math"
	"sort"
	"strconv"
	"strings"

	"github.com/risor-io/risor/object"
)

// val is one pool value: the object built through the Go API and the script
// expression that must evaluate to an identical object.
type val struct {
	Name string
	Src  string
	Obj  object.Object
}

// raisedErrGlobal carries the one pool value that no script expression can
// produce as a value (a *raised* error); it is injected as a global.
const raisedErrGlobal = "ERR_A_RAISED"

// errors that wrap one another: a cause, an error that wraps it, one that wraps the wrapper, and an unrelated
// error with the same text as the wrapper. Equality between them has to be symmetric and transitive like any other
// (a comparison that follows the chain of causes in one direction only is not).
var (
	errCause    = errors.New("disk full")
	errWrap     = fmt.Errorf("save failed: %w", errCause)
	errWrapWrap = fmt.Errorf("request failed: %w", errWrap)
	errSameText = errors.New("save failed: disk full")
)

func wrappedErrs() map[string]object.Object {
	return map[string]object.Object{
		"ERR_CAUSE":     object.NewError(errCause).WithRaised(false),
		"ERR_WRAP":      object.NewError(errWrap).WithRaised(false),
		"ERR_WRAPWRAP":  object.NewError(errWrapWrap).WithRaised(false),
		"ERR_SAME_TEXT": object.NewError(errSameText).WithRaised(false),
	}
}

func scriptGlobals() map[string]any {
	g := map[string]any{raisedErrGlobal: object.NewError(errors.New("a"))}
	for k, v := range wrappedErrs() {
		g[k] = v
	}
	return g
}

func lst(items ...object.Object) object.Object { return object.NewList(items) }
func in(v int64) object.Object                { return object.NewInt(v) }
func fl(v float64) object.Object              { return object.NewFloat(v) }
func st(v string) object.Object               { return object.NewString(v) }
func by(v byte) object.Object                 { return object.NewByte(v) }

func intSrc(v int64) string {
	if v == math.MinInt64 {
		return "(-9223372036854775807 - 1)" // the lexer rejects 9223372036854775808
	}
	return strconv.FormatInt(v, 10)
}

func floatSrc(v float64) string {
	switch {
	case math.IsInf(v, 1):
		return "math.inf()"
	case math.IsInf(v, -1):
		return "(-math.inf())"
	case v == 0 && math.Signbit(v):
		return "-0.0"
	case v == 1e308:
		return `float("1e308")` // no exponent syntax in the lexer
	}
	s := strconv.FormatFloat(v, 'f', -1, 64)
	if !strings.Contains(s, ".") {
		s += ".0"
	}
	return s
}

func strSrc(v string) string {
	var sb strings.Builder
	sb.WriteByte('"')
	for _, r := range v {
		switch {
		case r == 0:
			sb.WriteString(`\x00`)
		case r == '"' || r == '\\':
			sb.WriteByte('\\')
			sb.WriteRune(r)
		default:
			sb.WriteRune(r)
		}
	}
	sb.WriteByte('"')
	return sb.String()
}

func vInt(v int64) val {
	n := strconv.FormatInt(v, 10)
	switch v {
	case 1 << 53:
		n = "2^53"
	case 1<<53 + 1:
		n = "2^53+1"
	case math.MaxInt64:
		n = "MaxInt64"
	case math.MinInt64:
		n = "MinInt64"
	}
	return val{"int(" + n + ")", intSrc(v), in(v)}
}

func vFloat(v float64) val {
	n := strconv.FormatFloat(v, 'g', -1, 64)
	if v == float64(1<<53) {
		n = "2^53"
	}
	if v == float64(1<<63) {
		n = "2^63"
	}
	if !strings.ContainsAny(n, ".eIn^") {
		n += ".0"
	}
	return val{"float(" + n + ")", floatSrc(v), fl(v)}
}

func vByte(v byte) val  { return val{fmt.Sprintf("byte(%d)", v), fmt.Sprintf("byte(%d)", v), by(v)} }
func vStr(v string) val { return val{fmt.Sprintf("str(%q)", v), strSrc(v), st(v)} }

// pool is the 45-value pool of DESIGN "### C15".
func pool() []val {
	var p []val
	for _, v := range []int64{0, 1, -1, 2, 255, 256, 1 << 53, 1<<53 + 1, math.MaxInt64, math.MinInt64, math.MaxInt64 - 511, math.MaxInt64 - 512} {
		p = append(p, vInt(v))
	}
	// (2^63 is the float that MaxInt64 and its 511 predecessors round to; the float below it is 2^63-1024)
	for _, v := range []float64{0, math.Copysign(0, -1), 1, 1.5, float64(1 << 53), 1e308, math.Inf(1), math.Inf(-1), 9223372036854775808.0, 9223372036854774784.0, -9223372036854775808.0} {
		p = append(p, vFloat(v))
	}
	for _, v := range []byte{0, 1, 255} {
		p = append(p, vByte(v))
	}
	for _, v := range []string{"", "a", "b", "ab", "é", "a\x00"} {
		p = append(p, vStr(v))
	}
	p = append(p,
		val{"true", "true", object.True},
		val{"false", "false", object.False},
		val{"nil", "nil", object.Nil},
		val{"[]", "[]", lst()},
		val{"[1]", "[1]", lst(in(1))},
		val{"[1,2]", "[1, 2]", lst(in(1), in(2))},
		val{"[2,1]", "[2, 1]", lst(in(2), in(1))},
		val{"[1.0]", "[1.0]", lst(fl(1))},
		val{`["a"]`, `["a"]`, lst(st("a"))},
		val{"[[1]]", "[[1]]", lst(lst(in(1)))},
		val{"{}", "{}", object.NewMap(nil)},
		val{"{a:1}", `{"a": 1}`, object.NewMap(map[string]object.Object{"a": in(1)})},
		val{"{a:1.0}", `{"a": 1.0}`, object.NewMap(map[string]object.Object{"a": fl(1)})},
		val{"{a:nil}", `{"a": nil}`, object.NewMap(map[string]object.Object{"a": object.Nil})},
		val{"{b:nil}", `{"b": nil}`, object.NewMap(map[string]object.Object{"b": object.Nil})},
		val{"{a:nil,b:1}", `{"a": nil, "b": 1}`, object.NewMap(map[string]object.Object{"a": object.Nil, "b": in(1)})},
		val{"{b:1,c:2}", `{"b": 1, "c": 2}`, object.NewMap(map[string]object.Object{"b": in(1), "c": in(2)})},
		val{"bytes()", `byte_slice()`, object.NewByteSlice([]byte{})},
		val{"bytes(a)", `byte_slice("a")`, object.NewByteSlice([]byte("a"))},
		val{"bytes(1,97)", `byte_slice([1, 97])`, object.NewByteSlice([]byte{1, 97})},
		val{"set{}", "set()", object.NewSet(nil)},
		val{"set{1}", "{1}", object.NewSet([]object.Object{in(1)})},
		val{"set{1.0}", "{1.0}", object.NewSet([]object.Object{fl(1)})},
		val{"err(a,raised)", raisedErrGlobal, object.NewError(errors.New("a"))},
		val{"err(b)", `errors.new("b")`, object.NewError(errors.New("b")).WithRaised(false)},
		val{"err(a)", `errors.new("a")`, object.NewError(errors.New("a")).WithRaised(false)},
	)
	for _, k := range []string{"ERR_CAUSE", "ERR_WRAP", "ERR_WRAPWRAP", "ERR_SAME_TEXT"} {
		p = append(p, val{"err(" + k + ")", k, wrappedErrs()[k]})
	}
	return p
}

// family is a 6-value (bool: 2-value) alphabet for the list enumeration.
type family struct {
	Name string
	Vals []val
}

func families() []family {
	return []family{
		{"int", []val{vInt(0), vInt(1), vInt(-1), vInt(1<<53 + 1), vInt(math.MaxInt64), vInt(math.MinInt64)}},
		{"float", []val{vFloat(0), vFloat(math.Copysign(0, -1)), vFloat(1.5), vFloat(float64(1 << 53)), vFloat(math.Inf(1)), vFloat(math.Inf(-1))}},
		{"byte", []val{vByte(0), vByte(1), vByte(2), vByte(127), vByte(128), vByte(255)}},
		{"string", []val{vStr(""), vStr("a"), vStr("b"), vStr("ab"), vStr("é"), vStr("a\x00")}},
		{"bool", []val{{"true", "true", object.True}, {"false", "false", object.False}}},
		// lists that are all mutually comparable, with Compare-equal but distinguishable members
		{"list-num", []val{
			{"[]", "[]", lst()}, {"[1]", "[1]", lst(in(1))}, {"[1.0]", "[1.0]", lst(fl(1))},
			{"[1,2]", "[1, 2]", lst(in(1), in(2))}, {"[2,1]", "[2, 1]", lst(in(2), in(1))}, {"[1.0,2]", "[1.0, 2]", lst(fl(1), in(2))}}},
		// the pool's lists, some pairs of which cannot be compared
		{"list-mixed", []val{
			{"[]", "[]", lst()}, {"[1]", "[1]", lst(in(1))}, {"[1.0]", "[1.0]", lst(fl(1))},
			{`["a"]`, `["a"]`, lst(st("a"))}, {"[[1]]", "[[1]]", lst(lst(in(1)))}, {"[1,2]", "[1, 2]", lst(in(1), in(2))}}},
		// equal across numeric types: stability of sorted, slots and membership of sets
		{"num-mixed", []val{vInt(1), vFloat(1), vByte(1), vInt(2), vFloat(1.5), vByte(0)}},
		// equality across int/float is not transitive around 2^53 and 2^63: "mutually comparable" must be decided per input
		{"num-boundary", []val{vInt(1 << 53), vInt(1<<53 + 1), vFloat(float64(1 << 53)), vInt(math.MaxInt64), vFloat(float64(1 << 63)), vFloat(math.Copysign(0, -1))}},
		// hashable values of different types
		{"hashable-mixed", []val{vInt(1), vStr("1"), {"true", "true", object.True}, {"nil", "nil", object.Nil}, vFloat(1), vByte(1)}},
		// values that are not all comparable or hashable
		{"any-mixed", []val{{"nil", "nil", object.Nil}, {"[1]", "[1]", lst(in(1))}, {"{}", "{}", object.NewMap(nil)}, vInt(1), vStr("a"), {"set{1}", "{1}", object.NewSet([]object.Object{in(1)})}}},
	}
}

// ident is a canonical, order-independent rendering that distinguishes values
// that compare equal (1 / 1.0 / byte(1), 0.0 / -0.0, [1] / [1.0]).
func ident(o object.Object) string {
	switch o := o.(type) {
	case nil:
		return "<go-nil>"
	case *object.Int:
		return "int:" + strconv.FormatInt(o.Value(), 10)
	case *object.Float:
		return fmt.Sprintf("float:%016x", math.Float64bits(o.Value()))
	case *object.Byte:
		return "byte:" + strconv.Itoa(int(o.Value()))
	case *object.String:
		return "string:" + strconv.Quote(o.Value())
	case *object.Bool:
		return "bool:" + strconv.FormatBool(o.Value())
	case *object.NilType:
		return "nil"
	case *object.List:
		parts := make([]string, 0, len(o.Value()))
		for _, it := range o.Value() {
			parts = append(parts, ident(it))
		}
		return "list[" + strings.Join(parts, ",") + "]"
	case *object.Map:
		m := o.Value()
		keys := make([]string, 0, len(m))
		for k := range m {
			keys = append(keys, k)
		}
		sort.Strings(keys)
		parts := make([]string, 0, len(keys))
		for _, k := range keys {
			parts = append(parts, strconv.Quote(k)+"="+ident(m[k]))
		}
		return "map{" + strings.Join(parts, ",") + "}"
	case *object.Set:
		var parts []string
		for _, it := range o.Value() {
			parts = append(parts, ident(it))
		}
		sort.Strings(parts)
		return "set{" + strings.Join(parts, ",") + "}"
	case *object.Error:
		return fmt.Sprintf("error:%q raised=%v", o.Message().Value(), o.IsRaised())
	}
	return "other:" + string(o.Type()) + ":" + o.Inspect()
}

func typeOf(o object.Object) string { return string(o.Type()) }

// pairSig names an unordered type pair.
func pairSig(a, b object.Object) string {
	x, y := typeOf(a), typeOf(b)
	if x == y {
		return x
	}
	if typeRank(x) > typeRank(y) || (typeRank(x) == typeRank(y) && x > y) {
		x, y = y, x
	}
	return x + "/" + y
}

func typeRank(t string) int {
	switch t {
	case "int":
		return 0
	case "float":
		return 1
	case "byte":
		return 2
	}
	return 3
}

// orderedSig names an ordered (left/right) type pair.
func orderedSig(a, b object.Object) string { return typeOf(a) + "/" + typeOf(b) }
