package c15

import (
	"context"
	"fmt"
	"strings"

	"github.com/risor-io/risor"
	"github.com/risor-io/risor/object"
)

// prelude shared by every generated script.
const prelude = `
func H(e) { return "E:" + e.error() }
// try() leaves one stray operand on the caller's stack when the failing call had operands pending
// (vm.resumeFrame); calling it from a function that returns normally drops the stray value.
func G(f) { return try(f, H) }
func has(c, x) {
	t := type(c)
	if t == "list" || t == "string" || t == "byte_slice" {
		for _, v := range c { if v == x { return true } }
	} else {
		for v := range c { if v == x { return true } }
	}
	return false
}
`

// evalScript runs one script with risor.Eval (default globals + the raised error global).
func evalScript(src string) (res object.Object, errText string) {
	defer func() {
		if e := recover(); e != nil {
			res, errText = nil, fmt.Sprintf("GO-PANIC: %v", e)
		}
	}()
	r, err := risor.Eval(context.Background(), src, risor.WithGlobals(scriptGlobals()))
	if err != nil {
		return nil, "ERR: " + err.Error()
	}
	return r, ""
}

func guarded(expr string) string { return "G(func() { return " + expr + " })" }

// pairExprs are the operator expressions for one ordered pair, indexed by operator.
func pairExprs(a, b string) [nOps]string {
	var e [nOps]string
	e[oEQ] = "(" + a + ") == (" + b + ")"
	e[oNE] = "(" + a + ") != (" + b + ")"
	e[oLT] = "(" + a + ") < (" + b + ")"
	e[oLE] = "(" + a + ") <= (" + b + ")"
	e[oGT] = "(" + a + ") > (" + b + ")"
	e[oGE] = "(" + a + ") >= (" + b + ")"
	e[oIN] = "(" + b + ") in (" + a + ")"
	e[oINL] = "(" + b + ") in [" + a + "]"
	e[oINS] = "(" + b + ") in {" + a + "}"
	e[oHAS] = "len(" + a + ") >= 0 && has(" + a + ", " + b + ")" // len() fails for non-containers
	e[oSLOT] = "len({" + a + ", " + b + "})"
	return e
}

func decodeAnswer(o object.Object) (int16, string) {
	switch o := o.(type) {
	case *object.Bool:
		return b2a(o.Value()), ""
	case *object.Int:
		return int16(o.Value()), ""
	case *object.String:
		if strings.HasPrefix(o.Value(), "E:") {
			return aE, errClass(o.Value()[2:])
		}
	}
	return aX, "unexpected result " + ident(o)
}

// errClass is the text before the first ':' (errors are compared by class only).
func errClass(msg string) string {
	if i := strings.Index(msg, ":"); i >= 0 {
		return msg[:i]
	}
	return msg
}

// rowScript evaluates all operators for a fixed left value against every right value.
func rowScript(vals []val, i int, js []int) string {
	var sb strings.Builder
	sb.WriteString(prelude)
	sb.WriteString("[\n")
	for _, j := range js {
		ex := pairExprs(vals[i].Src, vals[j].Src)
		fmt.Fprintf(&sb, " [%d", 1000+j) // row marker: detects any operand-stack misalignment
		for o := 0; o < nOps; o++ {
			sb.WriteString(", ")
			sb.WriteString(guarded(ex[o]))
		}
		sb.WriteString("],\n")
	}
	sb.WriteString("]\n")
	return sb.String()
}

// scriptRow fills row i of the script-level table. If the batched script fails
// as a whole (a Go panic recovered by the VM ends the evaluation) every
// expression is evaluated in a script of its own.
func scriptRow(t *table, vals []val, i int, errClasses map[string]int) (evals int, engineErr string) {
	js := make([]int, len(vals))
	for j := range js {
		js[j] = j
	}
	res, errText := evalScript(rowScript(vals, i, js))
	evals++
	if errText == "" {
		rows, ok := res.(*object.List)
		if !ok || len(rows.Value()) != len(vals) {
			return evals, "row script returned " + ident(res)
		}
		for j, rowObj := range rows.Value() {
			row, ok := rowObj.(*object.List)
			if !ok || len(row.Value()) != nOps+1 || ident(row.Value()[0]) != fmt.Sprintf("int:%d", 1000+j) {
				return evals, "row script returned a malformed row: " + ident(rowObj)
			}
			for o, cell := range row.Value()[1:] {
				v, cls := decodeAnswer(cell)
				if v == aX {
					return evals, fmt.Sprintf("operator %s on (%s, %s): %s", opName[o], vals[i].Name, vals[j].Name, cls)
				}
				if cls != "" {
					errClasses[cls]++
				}
				t.a[o][i][j] = v
			}
		}
		return evals, ""
	}
	// fall back: one expression per script
	for j := range vals {
		ex := pairExprs(vals[i].Src, vals[j].Src)
		for o := 0; o < nOps; o++ {
			r, et := evalScript(prelude + guarded(ex[o]))
			evals++
			if et != "" {
				if isStaticError(et) {
					return evals, "generated script does not compile: " + et
				}
				if strings.Contains(et, "panic") || strings.HasPrefix(et, "GO-PANIC") {
					t.a[o][i][j] = aP
				} else {
					t.a[o][i][j] = aE
				}
				errClasses["whole-script:"+errClass(strings.TrimPrefix(et, "ERR: "))]++
				continue
			}
			v, cls := decodeAnswer(r)
			if v == aX {
				return evals, fmt.Sprintf("operator %s on (%s, %s): %s", opName[o], vals[i].Name, vals[j].Name, cls)
			}
			if cls != "" {
				errClasses[cls]++
			}
			t.a[o][i][j] = v
		}
	}
	return evals, ""
}

// checkLiterals verifies that every script expression of the pool evaluates to
// an object identical to the one built through the Go API (engine self-check).
func checkLiterals(vals []val) string {
	var sb strings.Builder
	sb.WriteString("[")
	for i, v := range vals {
		if i > 0 {
			sb.WriteString(", ")
		}
		sb.WriteString(v.Src)
	}
	sb.WriteString("]")
	res, et := evalScript(sb.String())
	if et != "" {
		return "literal script failed: " + et
	}
	l, ok := res.(*object.List)
	if !ok || len(l.Value()) != len(vals) {
		return "literal script returned " + ident(res)
	}
	for i, o := range l.Value() {
		if ident(o) != ident(vals[i].Obj) {
			return fmt.Sprintf("script expression %q gives %s, the Go-built pool value %s is %s", vals[i].Src, ident(o), vals[i].Name, ident(vals[i].Obj))
		}
	}
	return ""
}
