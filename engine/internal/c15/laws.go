package c15

import (
	"context"
	"fmt"
	"strings"

	"github.com/risor-io/risor/object"
	"github.com/risor-io/risor/op"
)

// answers of one operator on one ordered pair
const (
	aF int16 = 0  // false
	aT int16 = 1  // true
	aE int16 = -1 // error (type error, not a container, unhashable ...)
	aP int16 = -2 // Go panic
	aX int16 = -3 // not asked
)

const (
	oEQ   = iota // a == b
	oNE          // a != b
	oLT          // a <  b
	oLE          // a <= b
	oGT          // a >  b
	oGE          // a >= b
	oIN          // b in a
	oINL         // b in [a]
	oINS         // b in {a}          (set literal)
	oHAS         // iterate a, compare each element with b
	oSLOT        // len({a, b})       (number of set slots; -1 error)
	nOps
)

var opName = [nOps]string{"==", "!=", "<", "<=", ">", ">=", "in", "in-list", "in-set", "iterate-compare", "set-slots"}

// table[o][i][j] is the answer of operator o on (vals[i], vals[j]).
type table struct {
	level string
	n     int
	a     [nOps][][]int16
}

func newTable(level string, n int) *table {
	t := &table{level: level, n: n}
	for o := 0; o < nOps; o++ {
		t.a[o] = make([][]int16, n)
		for i := range t.a[o] {
			t.a[o][i] = make([]int16, n)
			for j := range t.a[o][i] {
				t.a[o][i][j] = aX
			}
		}
	}
	return t
}

func ansName(o int, v int16) string {
	switch {
	case v == aE:
		return "error"
	case v == aP:
		return "PANIC"
	case v == aX:
		return "-"
	case o == oSLOT:
		return fmt.Sprint(v)
	case v == aT:
		return "true"
	case v == aF:
		return "false"
	}
	return fmt.Sprint(v)
}

func (t *table) row(i, j int) string {
	var sb strings.Builder
	for o := 0; o < nOps; o++ {
		if o > 0 {
			sb.WriteByte(' ')
		}
		sb.WriteString(opName[o] + ":" + ansName(o, t.a[o][i][j]))
	}
	return sb.String()
}

// ------------------------------------------------------------ object level

func guard(f func() int16) (r int16) {
	defer func() {
		if recover() != nil {
			r = aP
		}
	}()
	return f()
}

func b2a(b bool) int16 {
	if b {
		return aT
	}
	return aF
}

var cmpOps = map[int]op.CompareOpType{oNE: op.NotEqual, oLT: op.LessThan, oLE: op.LessThanOrEqual, oGT: op.GreaterThan, oGE: op.GreaterThanOrEqual}

// iterHas iterates c the way a script's for-range does and compares every element with x.
func iterHas(c object.Object, x object.Object) int16 {
	it, ok := c.(object.Iterable)
	if !ok {
		return aE
	}
	iter := it.Iter()
	ctx := context.Background()
	found := false
	for n := 0; n < 1000; n++ {
		v, ok := iter.Next(ctx)
		if !ok {
			break
		}
		if v.Equals(x).(*object.Bool).Value() {
			found = true
		}
	}
	return b2a(found)
}

func objectAnswer(o int, a, b object.Object) int16 {
	return guard(func() int16 {
		switch o {
		case oEQ:
			r, ok := a.Equals(b).(*object.Bool)
			if !ok {
				return aE
			}
			return b2a(r.Value())
		case oNE, oLT, oLE, oGT, oGE:
			r, err := object.Compare(cmpOps[o], a, b)
			if err != nil {
				return aE
			}
			rb, ok := r.(*object.Bool)
			if !ok {
				return aE
			}
			return b2a(rb.Value())
		case oIN:
			c, ok := a.(object.Container)
			if !ok {
				return aE
			}
			return b2a(c.Contains(b).Value())
		case oINL:
			return b2a(object.NewList([]object.Object{a}).Contains(b).Value())
		case oINS:
			s, ok := object.NewSet([]object.Object{a}).(*object.Set)
			if !ok {
				return aE
			}
			return b2a(s.Contains(b).Value())
		case oHAS:
			if _, ok := a.(object.Container); !ok {
				return aE
			}
			return iterHas(a, b)
		case oSLOT:
			s, ok := object.NewSet([]object.Object{a, b}).(*object.Set)
			if !ok {
				return aE
			}
			return int16(s.Size())
		}
		return aX
	})
}

func objectTable(vals []val) *table {
	t := newTable("object", len(vals))
	for o := 0; o < nOps; o++ {
		for i, a := range vals {
			for j, b := range vals {
				t.a[o][i][j] = objectAnswer(o, a.Obj, b.Obj)
			}
		}
	}
	return t
}

// ------------------------------------------------------------------- laws

type finding struct {
	Sig, What, Observed, Expected string
	Case                          replayCase
}

type replayCase struct {
	Part   string   `json:"part"`             // "law" | "agree" | "list" | "truthy"
	Level  string   `json:"level,omitempty"`  // object | script
	Law    string   `json:"law,omitempty"`    // signature of the law
	Values []string `json:"values,omitempty"` // pool value names (pairs / triples)
	Family string   `json:"family,omitempty"`
	Items  []int    `json:"items,omitempty"` // indices into the family
	MaxLen int      `json:"maxlen,omitempty"`
}

var orderedTypes = map[string]bool{"int": true, "float": true, "byte": true, "string": true, "bool": true, "list": true}
var numericTypes = map[string]bool{"int": true, "float": true, "byte": true}

// deepComparable is the harness's own notion of "these two values can be
// ordered whatever the traversal order of the implementation": numbers with
// numbers, strings with strings, bools with bools, lists whose every element
// is deepComparable with every element of the other list.
func deepComparable(a, b object.Object) bool {
	ta, tb := typeOf(a), typeOf(b)
	if numericTypes[ta] && numericTypes[tb] {
		return true
	}
	if ta != tb {
		return false
	}
	switch ta {
	case "string", "bool":
		return true
	case "list":
		la, lb := a.(*object.List).Value(), b.(*object.List).Value()
		all := append(append([]object.Object{}, la...), lb...)
		for _, x := range all {
			for _, y := range all {
				if !deepComparable(x, y) {
					return false
				}
			}
		}
		return true
	}
	return false
}

type lawStats struct {
	pairs, triples, sameTypeTriples, crossTypeEqIntransitive int
}

// checkLaws applies every law of the statement that is about pairs and triples
// to one answer table. keep (optional) restricts the tuples (used by replay).
func checkLaws(t *table, vals []val, keep func(idx ...int) bool) ([]finding, lawStats) {
	var out []finding
	var stats lawStats
	add := func(sig, what, observed, expected string, idx ...int) {
		names := make([]string, len(idx))
		for k, i := range idx {
			names[k] = vals[i].Name
		}
		out = append(out, finding{Sig: sig, What: "[" + t.level + " level] " + what, Observed: observed, Expected: expected,
			Case: replayCase{Part: "law", Level: t.level, Law: sig, Values: names}})
	}
	if keep == nil {
		keep = func(...int) bool { return true }
	}
	n := t.n
	EQ, NE, LT, LE, GT, GE := t.a[oEQ], t.a[oNE], t.a[oLT], t.a[oLE], t.a[oGT], t.a[oGE]
	isBool := func(v int16) bool { return v == aT || v == aF }

	for i := 0; i < n; i++ {
		a := vals[i]
		if keep(i) || keep(i, i) {
			if EQ[i][i] != aT {
				add("eq-reflexive:"+typeOf(a.Obj), fmt.Sprintf("%s == %s is %s", a.Name, a.Name, ansName(oEQ, EQ[i][i])), ansName(oEQ, EQ[i][i]), "true", i)
			}
		}
		for j := 0; j < n; j++ {
			if !keep(i, j) {
				continue
			}
			stats.pairs++
			b := vals[j]
			ps, os := pairSig(a.Obj, b.Obj), orderedSig(a.Obj, b.Obj)
			ta, tb := typeOf(a.Obj), typeOf(b.Obj)
			// == and != always answer
			if !isBool(EQ[i][j]) {
				add("eq-not-boolean:"+os, fmt.Sprintf("%s == %s does not yield a boolean: %s", a.Name, b.Name, ansName(oEQ, EQ[i][j])), ansName(oEQ, EQ[i][j]), "true or false", i, j)
			}
			if !isBool(NE[i][j]) {
				add("ne-not-boolean:"+os, fmt.Sprintf("%s != %s does not yield a boolean: %s", a.Name, b.Name, ansName(oNE, NE[i][j])), ansName(oNE, NE[i][j]), "true or false", i, j)
			}
			if isBool(EQ[i][j]) && isBool(NE[i][j]) && EQ[i][j] == NE[i][j] {
				add("ne-negation:"+os, fmt.Sprintf("%s == %s is %s and != is %s", a.Name, b.Name, ansName(oEQ, EQ[i][j]), ansName(oNE, NE[i][j])), t.row(i, j), "!= is the exact negation of ==", i, j)
			}
			if i < j && isBool(EQ[i][j]) && isBool(EQ[j][i]) && EQ[i][j] != EQ[j][i] {
				add("eq-symmetric:"+ps, fmt.Sprintf("%s == %s is %s but %s == %s is %s", a.Name, b.Name, ansName(oEQ, EQ[i][j]), b.Name, a.Name, ansName(oEQ, EQ[j][i])), "asymmetric", "symmetric ==", i, j)
			}
			// never a<b and b<a: across numeric types (and, as part of the preorder, within a type)
			if i < j && numericTypes[ta] && numericTypes[tb] && LT[i][j] == aT && LT[j][i] == aT {
				add("compare-antisymmetry:"+ps, fmt.Sprintf("both %s < %s and %s < %s are true", a.Name, b.Name, b.Name, a.Name), "a<b and b<a", "never both", i, j)
			}
			// total preorder agreeing with == inside an ordered type
			if ta == tb && orderedTypes[ta] {
				must := ta != "list" || deepComparable(a.Obj, b.Obj)
				vals4 := []int16{LT[i][j], LE[i][j], GT[i][j], GE[i][j], LE[j][i], LT[j][i]}
				answered := true
				for _, v := range vals4 {
					if !isBool(v) {
						answered = false
					}
				}
				if !answered {
					if must {
						add("order-no-answer:"+ta, fmt.Sprintf("%s vs %s: an ordering operator fails on two values of type %s: %s", a.Name, b.Name, ta, t.row(i, j)), t.row(i, j), "true or false from < <= > >=", i, j)
					}
					continue
				}
				lt, le, gt, ge, leR, ltR := LT[i][j] == aT, LE[i][j] == aT, GT[i][j] == aT, GE[i][j] == aT, LE[j][i] == aT, LT[j][i] == aT
				eq := EQ[i][j] == aT
				switch {
				case !le && !leR:
					add("order-total:"+ta, fmt.Sprintf("neither %s <= %s nor the converse", a.Name, b.Name), t.row(i, j), "a<=b or b<=a", i, j)
				case (le && leR) != eq:
					add("order-agrees-eq:"+ta, fmt.Sprintf("%s vs %s: (a<=b and b<=a) is %v but a==b is %v", a.Name, b.Name, le && leR, eq), t.row(i, j)+" | reverse: "+t.row(j, i), "a<=b and b<=a exactly when a==b", i, j)
				case lt != (le && !leR):
					add("order-lt-strict:"+ta, fmt.Sprintf("%s vs %s: a<b is %v but (a<=b and not b<=a) is %v", a.Name, b.Name, lt, le && !leR), t.row(i, j)+" | reverse: "+t.row(j, i), "a<b exactly when a<=b and not b<=a", i, j)
				case gt != ltR:
					add("order-gt-converse:"+ta, fmt.Sprintf("%s vs %s: a>b is %v but b<a is %v", a.Name, b.Name, gt, ltR), t.row(i, j)+" | reverse: "+t.row(j, i), "a>b exactly when b<a", i, j)
				case ge != leR:
					add("order-ge-converse:"+ta, fmt.Sprintf("%s vs %s: a>=b is %v but b<=a is %v", a.Name, b.Name, ge, leR), t.row(i, j)+" | reverse: "+t.row(j, i), "a>=b exactly when b<=a", i, j)
				}
			}
			// values of one type that are == occupy one slot
			if ta == tb && EQ[i][j] == aT && t.a[oSLOT][i][j] >= 0 && t.a[oSLOT][i][j] != 1 {
				add("set-slot:"+ta, fmt.Sprintf("%s == %s (same type) but the set {a, b} has %d slots", a.Name, b.Name, t.a[oSLOT][i][j]), fmt.Sprint(t.a[oSLOT][i][j]), "1", i, j)
			}
			// membership agrees with iterating and comparing
			// single-element list and set built from a:
			if isBool(t.a[oINL][i][j]) && isBool(EQ[i][j]) && t.a[oINL][i][j] != EQ[i][j] {
				add("in-vs-iterate:list:"+os, fmt.Sprintf("(%s in [%s]) is %s but the only element == needle is %s", b.Name, a.Name, ansName(oINL, t.a[oINL][i][j]), ansName(oEQ, EQ[i][j])), ansName(oINL, t.a[oINL][i][j]), ansName(oEQ, EQ[i][j]), i, j)
			}
			if isBool(t.a[oINS][i][j]) && isBool(EQ[i][j]) && t.a[oINS][i][j] != EQ[i][j] {
				add("in-vs-iterate:set:"+os, fmt.Sprintf("(%s in {%s}) is %s but iterating the set and comparing (%s == %s) gives %s", b.Name, a.Name, ansName(oINS, t.a[oINS][i][j]), a.Name, b.Name, ansName(oEQ, EQ[i][j])), ansName(oINS, t.a[oINS][i][j]), ansName(oEQ, EQ[i][j]), i, j)
			}
			// a is itself a container of the pool
			if isBool(t.a[oIN][i][j]) && isBool(t.a[oHAS][i][j]) && t.a[oIN][i][j] != t.a[oHAS][i][j] && inLawApplies(a.Obj, b.Obj) {
				add("in-vs-iterate:"+ta+":"+containerElemSig(a.Obj, b.Obj), fmt.Sprintf("(%s in %s) is %s but iterating and comparing gives %s", b.Name, a.Name, ansName(oIN, t.a[oIN][i][j]), ansName(oHAS, t.a[oHAS][i][j])), ansName(oIN, t.a[oIN][i][j]), ansName(oHAS, t.a[oHAS][i][j]), i, j)
			}
		}
	}
	// triples
	for i := 0; i < n; i++ {
		for j := 0; j < n; j++ {
			for k := 0; k < n; k++ {
				if !keep(i, j, k) {
					continue
				}
				stats.triples++
				a, b, c := vals[i], vals[j], vals[k]
				ta := typeOf(a.Obj)
				same := ta == typeOf(b.Obj) && ta == typeOf(c.Obj)
				if !same {
					if EQ[i][j] == aT && EQ[j][k] == aT && EQ[i][k] == aF {
						stats.crossTypeEqIntransitive++ // the statement only promises transitivity within a type
					}
					continue
				}
				stats.sameTypeTriples++
				if EQ[i][j] == aT && EQ[j][k] == aT && EQ[i][k] != aT {
					add("eq-transitive:"+ta, fmt.Sprintf("%s == %s and %s == %s but %s == %s is %s", a.Name, b.Name, b.Name, c.Name, a.Name, c.Name, ansName(oEQ, EQ[i][k])), ansName(oEQ, EQ[i][k]), "true", i, j, k)
				}
				if orderedTypes[ta] && LE[i][j] == aT && LE[j][k] == aT && LE[i][k] == aF {
					add("order-transitive:"+ta, fmt.Sprintf("%s <= %s and %s <= %s but not %s <= %s", a.Name, b.Name, b.Name, c.Name, a.Name, c.Name), "false", "true", i, j, k)
				}
			}
		}
	}
	return out, stats
}

// inLawApplies: for a string container `in` is substring search; it coincides
// with element membership only for needles that are one rune long or are not
// strings at all. Other needles are outside the oracle.
func inLawApplies(container, needle object.Object) bool {
	if _, ok := container.(*object.String); ok {
		switch s := needle.(type) {
		case *object.String:
			return len([]rune(s.Value())) == 1
		case *object.ByteSlice:
			return false // subsequence search, like a string needle
		}
	}
	// a byte_slice searches for a subsequence when the needle is a byte_slice or a string; single
	// bytes and numbers are elements
	if _, ok := container.(*object.ByteSlice); ok {
		switch needle.(type) {
		case *object.String, *object.ByteSlice:
			return false
		}
	}
	return true
}

// containerElemSig names the type of the first element that equals the needle
// (or "-" when none does) and the type of the needle.
func containerElemSig(c, needle object.Object) string {
	el := "-"
	if it, ok := c.(object.Iterable); ok {
		iter := it.Iter()
		for n := 0; n < 1000; n++ {
			v, ok := iter.Next(context.Background())
			if !ok {
				break
			}
			if objectAnswer(oEQ, v, needle) == aT {
				el = typeOf(v)
				break
			}
		}
	}
	return el + "/" + typeOf(needle)
}

// compareTables reports every operator/pair on which the script and the object API disagree.
func compareTables(obj, scr *table, vals []val, keep func(idx ...int) bool) []finding {
	var out []finding
	if keep == nil {
		keep = func(...int) bool { return true }
	}
	for i := 0; i < obj.n; i++ {
		for j := 0; j < obj.n; j++ {
			if !keep(i, j) {
				continue
			}
			for o := 0; o < nOps; o++ {
				x, y := obj.a[o][i][j], scr.a[o][i][j]
				if x == y {
					continue
				}
				a, b := vals[i], vals[j]
				sig := fmt.Sprintf("script-vs-object:%s:%s", opName[o], orderedSig(a.Obj, b.Obj))
				out = append(out, finding{Sig: sig,
					What:     fmt.Sprintf("operator %q on a=%s b=%s: script answers %s, object API answers %s", opName[o], a.Name, b.Name, ansName(o, y), ansName(o, x)),
					Observed: ansName(o, y), Expected: ansName(o, x),
					Case:     replayCase{Part: "agree", Law: sig, Values: []string{a.Name, b.Name}}})
			}
		}
	}
	return out
}
