package c15

import (
	"fmt"
	"sort"
	"strings"

	"github.com/risor-io/risor/object"
)

// famInfo is what the harness establishes about a family before any list is sorted.
type famInfo struct {
	family
	idx  map[string]int // ident -> index
	cmp  [][]int        // Compare(a,b) in {-1,0,1}; 2 = error / panic
	eq   [][]bool
	hash []bool
	ptr  map[object.Object]int
	sortOnly bool // long lists: only the sorting pieces are generated
}

func cmp3(a, b object.Object) (r int) {
	defer func() {
		if recover() != nil {
			r = 2
		}
	}()
	c, ok := a.(object.Comparable)
	if !ok {
		return 2
	}
	v, err := c.Compare(b)
	if err != nil {
		return 2
	}
	switch {
	case v < 0:
		return -1
	case v > 0:
		return 1
	}
	return 0
}

func newFamInfo(f family) (*famInfo, string) {
	fi := &famInfo{family: f, idx: map[string]int{}, ptr: map[object.Object]int{}}
	n := len(f.Vals)
	for i, v := range f.Vals {
		id := ident(v.Obj)
		if _, dup := fi.idx[id]; dup {
			return nil, "family " + f.Name + " has two indistinguishable values: " + id
		}
		fi.idx[id] = i
		fi.ptr[v.Obj] = i
		_, h := v.Obj.(object.Hashable)
		fi.hash = append(fi.hash, h)
	}
	fi.cmp = make([][]int, n)
	fi.eq = make([][]bool, n)
	for i := range f.Vals {
		fi.cmp[i] = make([]int, n)
		fi.eq[i] = make([]bool, n)
		for j := range f.Vals {
			fi.cmp[i][j] = cmp3(f.Vals[i].Obj, f.Vals[j].Obj)
			fi.eq[i][j] = objectAnswer(oEQ, f.Vals[i].Obj, f.Vals[j].Obj) == aT
		}
	}
	return fi, ""
}

// mutuallyComparable: on the distinct members of items, Compare answers for
// every ordered pair (including a value with itself), the answers are
// antisymmetric in sign and <= is transitive. Only then is "ordered" defined.
func (fi *famInfo) mutuallyComparable(items []int) bool {
	seen := map[int]bool{}
	var d []int
	for _, i := range items {
		if !seen[i] {
			seen[i] = true
			d = append(d, i)
		}
	}
	for _, i := range d {
		if fi.cmp[i][i] != 0 {
			return false
		}
		for _, j := range d {
			if fi.cmp[i][j] == 2 || fi.cmp[i][j] != -fi.cmp[j][i] {
				return false
			}
		}
	}
	for _, i := range d {
		for _, j := range d {
			for _, k := range d {
				if fi.cmp[i][j] <= 0 && fi.cmp[j][k] <= 0 && fi.cmp[i][k] > 0 {
					return false
				}
			}
		}
	}
	return true
}

// stableSorted is the unique stably ordered permutation (insertion sort on the verified table).
func (fi *famInfo) stableSorted(items []int) []int {
	out := append([]int{}, items...)
	for i := 1; i < len(out); i++ {
		for j := i; j > 0 && fi.cmp[out[j]][out[j-1]] < 0; j-- {
			out[j], out[j-1] = out[j-1], out[j]
		}
	}
	return out
}

func (fi *famInfo) listSrc(items []int, open, close string) string {
	parts := make([]string, len(items))
	for k, i := range items {
		parts[k] = fi.Vals[i].Src
	}
	return open + strings.Join(parts, ", ") + close
}

func (fi *famInfo) names(items []int) string {
	parts := make([]string, len(items))
	for k, i := range items {
		parts[k] = fi.Vals[i].Name
	}
	return "[" + strings.Join(parts, ", ") + "]"
}

const listPrelude = prelude + `
func ins(c) { r := []; for _, x := range F { r.append(x in c) }; return r }
func hass(c) { r := []; for _, x := range F { r.append(has(c, x)) }; return r }
func elems(c) { r := []; for v := range c { r.append(v) }; return r }
`

// pieces of one list case; each is one guarded expression
const (
	pSorted = iota
	pSorted2
	pSort
	pSetFn
	pSetLit
	pList
	nPieces
)

var pieceName = [nPieces]string{"sorted", "sorted-twice", "list.sort", "set()", "set-literal", "list-in"}

func (fi *famInfo) pieceExprs(items []int) [nPieces]string {
	l := fi.listSrc(items, "[", "]")
	var p [nPieces]string
	p[pSorted] = "G(func() { l := " + l + "; s := sorted(l); return [s, l] })"
	p[pSorted2] = guarded("sorted(sorted(" + l + "))")
	p[pSort] = "G(func() { m := " + l + "; r := m.sort(); return [m, r] })"
	p[pSetFn] = "G(func() { s := set(" + l + "); return [len(s), elems(s), ins(s), hass(s), bool(s), !!s] })"
	if len(items) > 0 {
		p[pSetLit] = "G(func() { s := " + fi.listSrc(items, "{", "}") + "; return [len(s), elems(s), ins(s), hass(s), bool(s), !!s] })"
	} else {
		p[pSetLit] = `"E:no-literal: {} is a map"`
	}
	p[pList] = "G(func() { l := " + l + "; return [len(l), elems2(l), ins(l), hass(l), bool(l), !!l] })"
	if fi.sortOnly {
		p[pSetFn], p[pSetLit], p[pList] = `"E:skipped: long list"`, `"E:skipped: long list"`, `"E:skipped: long list"`
	}
	return p
}

const listPrelude2 = `
func elems2(c) { r := []; for _, v := range c { r.append(v) }; return r }
`

func (fi *famInfo) famDecl() string {
	all := make([]int, len(fi.Vals))
	for i := range all {
		all[i] = i
	}
	return "F := " + fi.listSrc(all, "[", "]") + "\n"
}

func (fi *famInfo) batchScript(lists [][]int) string {
	var sb strings.Builder
	sb.WriteString(fi.famDecl() + listPrelude + listPrelude2)
	sb.WriteString("[\n")
	for k, items := range lists {
		p := fi.pieceExprs(items)
		fmt.Fprintf(&sb, " [%d,\n  %s],\n", 1000+k, strings.Join(p[:], ",\n  "))
	}
	sb.WriteString("]\n")
	return sb.String()
}

// listResult holds the raw script results of one list case: one object per piece, or an error text.
type listResult struct {
	piece [nPieces]object.Object
	fail  [nPieces]string // whole-script failure for the piece (panic recovered by the VM ...)
}

func (fi *famInfo) runBatch(lists [][]int) (out []listResult, evals int, engineErr string) {
	out = make([]listResult, len(lists))
	res, et := evalScript(fi.batchScript(lists))
	evals++
	if et == "" {
		rows, ok := res.(*object.List)
		if !ok || len(rows.Value()) != len(lists) {
			return out, evals, "list batch returned " + ident(res)
		}
		for k, ro := range rows.Value() {
			row, ok := ro.(*object.List)
			if !ok || len(row.Value()) != nPieces+1 || ident(row.Value()[0]) != fmt.Sprintf("int:%d", 1000+k) {
				return out, evals, "list batch returned a malformed row for " + fi.names(lists[k]) + ": " + ident(ro)
			}
			copy(out[k].piece[:], row.Value()[1:])
		}
		return out, evals, ""
	}
	// the batch died as a whole: run every piece of every list on its own
	for k, items := range lists {
		p := fi.pieceExprs(items)
		for q := 0; q < nPieces; q++ {
			r, et := evalScript(fi.famDecl() + listPrelude + listPrelude2 + p[q])
			evals++
			if et != "" {
				if isStaticError(et) {
					return out, evals, "generated script does not compile: " + et
				}
				out[k].fail[q] = et
				continue
			}
			out[k].piece[q] = r
		}
	}
	return out, evals, ""
}

// isStaticError: the generated script itself is wrong (engine error, never a finding).
func isStaticError(et string) bool {
	return strings.Contains(et, "compile error") || strings.Contains(et, "parse error") || strings.Contains(et, "syntax error")
}

// decodeIdx maps a list of objects back to family indices (-1: not a family value).
func (fi *famInfo) decodeIdx(o object.Object) ([]int, bool) {
	l, ok := o.(*object.List)
	if !ok {
		return nil, false
	}
	out := make([]int, len(l.Value()))
	for k, it := range l.Value() {
		i, ok := fi.idx[ident(it)]
		if !ok {
			i = -1
		}
		out[k] = i
	}
	return out, true
}

func decodeBools(o object.Object) ([]bool, bool) {
	l, ok := o.(*object.List)
	if !ok {
		return nil, false
	}
	out := make([]bool, len(l.Value()))
	for k, it := range l.Value() {
		b, ok := it.(*object.Bool)
		if !ok {
			return nil, false
		}
		out[k] = b.Value()
	}
	return out, true
}

func errOf(o object.Object) (string, bool) {
	if s, ok := o.(*object.String); ok && strings.HasPrefix(s.Value(), "E:") {
		return s.Value()[2:], true
	}
	return "", false
}

func sameInts(a, b []int) bool {
	if len(a) != len(b) {
		return false
	}
	for i := range a {
		if a[i] != b[i] {
			return false
		}
	}
	return true
}

func isPerm(a, b []int) bool {
	x, y := append([]int{}, a...), append([]int{}, b...)
	sort.Ints(x)
	sort.Ints(y)
	return sameInts(x, y)
}

// judgeList applies the laws to the results of one list case.
// It returns findings, an outcome key and an optional engine error.
func (fi *famInfo) judgeList(items []int, maxLen int, res listResult) (out []finding, outcome string, note []string, engineErr string) {
	rc := replayCase{Part: "list", Family: fi.Name, Items: append([]int{}, items...), MaxLen: maxLen}
	add := func(sig, what, observed, expected string) {
		c := rc
		c.Law = sig
		out = append(out, finding{Sig: sig, What: fmt.Sprintf("family %s, input %s: %s", fi.Name, fi.names(items), what), Observed: observed, Expected: expected, Case: c})
	}
	var oc []string
	comparable := fi.mutuallyComparable(items)
	want := []int(nil)
	if comparable {
		want = fi.stableSorted(items)
	}
	show := func(ix []int) string {
		parts := make([]string, len(ix))
		for k, i := range ix {
			if i < 0 {
				parts[k] = "<foreign value>"
			} else {
				parts[k] = fi.Vals[i].Name
			}
		}
		return "[" + strings.Join(parts, ", ") + "]"
	}
	// judgeSorted checks permutation / ordered / stable for one sorted sequence.
	judgeSorted := func(prefix string, got []int) {
		switch fi.classifySorted(got, items, want) {
		case "permutation":
			add(prefix+"-permutation:"+fi.Name, "result "+show(got)+" is not a permutation of the input", show(got), "a permutation of the input")
		case "ordered":
			add(prefix+"-ordered:"+fi.Name, "result "+show(got)+" is not in non-decreasing order (input verified mutually comparable)", show(got), show(want))
		case "stable":
			add(prefix+"-stable:"+fi.Name, "result "+show(got)+" reorders values that compare equal", show(got), show(want))
		}
	}

	// ---- sorted()
	var sortedIdx []int
	sortedOK := false
	switch {
	case res.fail[pSorted] != "":
		oc = append(oc, "sorted=FAIL("+errClass(strings.TrimPrefix(res.fail[pSorted], "ERR: "))+")")
		note = append(note, "sorted("+fi.names(items)+") ended the script: "+res.fail[pSorted])
		if comparable {
			add("sorted-error:"+fi.Name, "sorted() fails on mutually comparable input: "+res.fail[pSorted], res.fail[pSorted], show(want))
		}
	default:
		if msg, isErr := errOf(res.piece[pSorted]); isErr {
			oc = append(oc, "sorted=err("+errClass(msg)+")")
			if comparable {
				add("sorted-error:"+fi.Name, "sorted() raises on mutually comparable input: "+msg, msg, show(want))
			}
			break
		}
		pair, ok := res.piece[pSorted].(*object.List)
		if !ok || len(pair.Value()) != 2 {
			return nil, "", nil, "sorted piece returned " + ident(res.piece[pSorted])
		}
		got, ok1 := fi.decodeIdx(pair.Value()[0])
		if !ok1 {
			add("sorted-not-a-list:"+fi.Name, "sorted() returned "+ident(pair.Value()[0]), ident(pair.Value()[0]), "a list")
			break
		}
		sortedIdx, sortedOK = got, true
		if comparable {
			oc = append(oc, "sorted=ok")
			judgeSorted("sorted", got)
		} else {
			oc = append(oc, "sorted=ok-uncomparable-input")
		}
	}
	// ---- idempotence
	switch {
	case res.fail[pSorted2] != "":
		oc = append(oc, "twice=FAIL")
	default:
		if _, isErr := errOf(res.piece[pSorted2]); isErr {
			oc = append(oc, "twice=err")
			if comparable && sortedOK {
				add("sorted-idempotent:"+fi.Name, "sorted(sorted(x)) raises although sorted(x) succeeds", "error", show(sortedIdx))
			}
			break
		}
		got, ok := fi.decodeIdx(res.piece[pSorted2])
		if ok && sortedOK && comparable {
			if !sameInts(got, sortedIdx) {
				add("sorted-idempotent:"+fi.Name, "sorted(sorted(x)) = "+show(got)+" differs from sorted(x) = "+show(sortedIdx), show(got), show(sortedIdx))
			}
			oc = append(oc, "twice=ok")
		}
	}
	// ---- list.sort()
	switch {
	case res.fail[pSort] != "":
		oc = append(oc, "sort=FAIL")
		if comparable {
			add("listsort-error:"+fi.Name, "list.sort() fails on mutually comparable input: "+res.fail[pSort], res.fail[pSort], show(want))
		}
	default:
		if msg, isErr := errOf(res.piece[pSort]); isErr {
			oc = append(oc, "sort=err("+errClass(msg)+")")
			if comparable {
				add("listsort-error:"+fi.Name, "list.sort() raises on mutually comparable input: "+msg, msg, show(want))
			}
			break
		}
		pair, ok := res.piece[pSort].(*object.List)
		if !ok || len(pair.Value()) != 2 {
			return nil, "", nil, "list.sort piece returned " + ident(res.piece[pSort])
		}
		got, ok1 := fi.decodeIdx(pair.Value()[0])
		if ok1 && comparable {
			oc = append(oc, "sort=ok")
			judgeSorted("listsort", got)
		}
	}
	// ---- containers: set(), set literal, the list itself
	judgeContainer := func(q int, kind string) {
		if res.fail[q] != "" {
			oc = append(oc, kind+"=FAIL")
			note = append(note, kind+" of "+fi.names(items)+" ended the script: "+res.fail[q])
			return
		}
		if msg, isErr := errOf(res.piece[q]); isErr {
			oc = append(oc, kind+"=err("+errClass(msg)+")")
			return
		}
		r, ok := res.piece[q].(*object.List)
		if !ok || len(r.Value()) != 6 {
			engineErr = kind + " piece returned " + ident(res.piece[q])
			return
		}
		f := r.Value()
		ln, ok0 := f[0].(*object.Int)
		el, ok1 := fi.decodeIdx(f[1])
		inA, ok2 := decodeBools(f[2])
		hasA, ok3 := decodeBools(f[3])
		tb, ok4 := f[4].(*object.Bool)
		tn, ok5 := f[5].(*object.Bool)
		if !(ok0 && ok1 && ok2 && ok3 && ok4 && ok5) || len(inA) != len(fi.Vals) || len(hasA) != len(fi.Vals) {
			engineErr = kind + " piece returned " + ident(res.piece[q])
			return
		}
		oc = append(oc, fmt.Sprintf("%s=%d", kind, ln.Value()))
		ctype := "list"
		if kind != "list" {
			ctype = "set"
			// one slot per (type, ==) class
			for x := 0; x < len(el); x++ {
				for y := x + 1; y < len(el); y++ {
					a, b := el[x], el[y]
					if a >= 0 && b >= 0 && typeOf(fi.Vals[a].Obj) == typeOf(fi.Vals[b].Obj) && fi.eq[a][b] {
						add("set-slot:"+typeOf(fi.Vals[a].Obj), fmt.Sprintf("%s holds both %s and %s, which are == and of one type", kind, fi.Vals[a].Name, fi.Vals[b].Name), show(el), "one slot for == values of one type")
					}
				}
			}
		}
		// in == iterate-and-compare, for every family value as needle
		for x := range fi.Vals {
			if inA[x] == hasA[x] {
				continue
			}
			elt := "-"
			for _, e := range el {
				if e >= 0 && fi.eq[e][x] {
					elt = typeOf(fi.Vals[e].Obj)
					break
				}
			}
			sig := fmt.Sprintf("in-vs-iterate:%s:%s/%s", ctype, elt, typeOf(fi.Vals[x].Obj))
			add(sig, fmt.Sprintf("(%s in %s %s) is %v but iterating and comparing gives %v", fi.Vals[x].Name, kind, show(el), inA[x], hasA[x]), fmt.Sprint(inA[x]), fmt.Sprint(hasA[x]))
		}
		// truthy exactly when len != 0
		if tb.Value() != (ln.Value() != 0) || tn.Value() != (ln.Value() != 0) {
			add("truthy-len:"+ctype, fmt.Sprintf("%s %s: bool()=%v !!=%v len=%d", kind, show(el), tb.Value(), tn.Value(), ln.Value()), fmt.Sprint(tb.Value()), fmt.Sprint(ln.Value() != 0))
		}
	}
	judgeContainer(pSetFn, "set()")
	if len(items) > 0 {
		judgeContainer(pSetLit, "set-literal")
	}
	judgeContainer(pList, "list")
	return out, strings.Join(oc, " "), note, engineErr
}

// classifySorted names the first clause of "stably ordered permutation" that got breaks ("" = none).
func (fi *famInfo) classifySorted(got, items, want []int) string {
	if !isPerm(got, items) {
		return "permutation"
	}
	for k := 1; k < len(got); k++ {
		if got[k] < 0 || got[k-1] < 0 || fi.cmp[got[k]][got[k-1]] < 0 {
			return "ordered"
		}
	}
	if !sameInts(got, want) {
		return "stable"
	}
	return ""
}

func (fi *famInfo) show(ix []int) string {
	parts := make([]string, len(ix))
	for k, i := range ix {
		if i < 0 {
			parts[k] = "<foreign value>"
		} else {
			parts[k] = fi.Vals[i].Name
		}
	}
	return "[" + strings.Join(parts, ", ") + "]"
}

// enumLists lists every index sequence of length 0..maxLen over n values.
func enumLists(n, maxLen int) [][]int {
	out := [][]int{{}}
	prev := [][]int{{}}
	for l := 1; l <= maxLen; l++ {
		var cur [][]int
		for _, p := range prev {
			for v := 0; v < n; v++ {
				cur = append(cur, append(append([]int{}, p...), v))
			}
		}
		out = append(out, cur...)
		prev = cur
	}
	return out
}
