// Package bcflow is an explicit-state search over compiled risor bytecode:
// states (code, ip, operand-stack height), transitions from a stack-effect
// table transcribed from vm.eval, all paths (both successors of every
// conditional jump). The table is bound to the implementation by replaying
// every executed instruction of real runs against it (Tracer).
package bcflow

import (
	"fmt"
	"sync"

	"github.com/risor-io/risor/compiler"
	"github.com/risor-io/risor/op"
	"github.com/risor-io/risor/vm"
)

type st struct{ ip, h int }

// Problem is one violated invariant.
type Problem struct {
	Kind string // "two-heights", "underflow", "end-height", "overflow", "jump-out", "unknown-opcode"
	Text string
}

// Result of analysing one code object (with its nested functions).
type Result struct {
	States, Transitions int
	Problems            []Problem
	Heights             map[*compiler.Code]map[int]int
}

// step returns the successors of s; pop is the number of slots the instruction needs.
func step(code *compiler.Code, s st) (succ []st, prob *Problem) {
	ins := code.Instruction(s.ip)
	info := op.GetInfo(ins)
	if info.Name == "" {
		return nil, &Problem{"unknown-opcode", fmt.Sprintf("unknown opcode %d at ip %d", ins, s.ip)}
	}
	a := func(i int) int { return int(code.Instruction(s.ip + 1 + i)) }
	next := s.ip + 1 + info.OperandCount
	h := s.h
	under := func(n int) *Problem {
		if h < n {
			return &Problem{"underflow", fmt.Sprintf("ip %d %s: height %d, needs %d", s.ip, info.Name, h, n)}
		}
		return nil
	}
	one := func(pop, push int) ([]st, *Problem) {
		if p := under(pop); p != nil {
			return nil, p
		}
		return []st{{next, h - pop + push}}, nil
	}
	switch ins {
	case op.Nop:
		return one(0, 0)
	case op.Halt:
		return nil, nil
	case op.LoadAttr:
		return one(1, 1)
	case op.LoadConst, op.LoadFast, op.LoadGlobal, op.LoadFree, op.Nil, op.True, op.False, op.MakeCell:
		return one(0, 1)
	case op.StoreFast, op.StoreGlobal, op.StoreFree, op.PopTop, op.Go, op.Defer:
		return one(1, 0)
	case op.StoreAttr, op.Send:
		return one(2, 0)
	case op.LoadClosure:
		return one(a(1), 1)
	case op.CompareOp, op.BinaryOp, op.BinarySubscr, op.ContainsOp:
		return one(2, 1)
	case op.Call, op.Partial:
		return one(a(0)+1, 1)
	case op.ReturnValue:
		return nil, under(1)
	case op.PopJumpForwardIfTrue, op.PopJumpForwardIfFalse:
		if p := under(1); p != nil {
			return nil, p
		}
		return []st{{next, h - 1}, {s.ip + a(0), h - 1}}, nil
	case op.JumpForward:
		return []st{{s.ip + a(0), h}}, nil
	case op.JumpBackward:
		return []st{{s.ip - a(0), h}}, nil
	case op.BuildList, op.BuildSet, op.BuildString:
		return one(a(0), 1)
	case op.BuildMap:
		return one(2*a(0), 1)
	case op.StoreSubscr:
		return one(3, 0)
	case op.UnaryNegative, op.UnaryNot, op.Range, op.Length, op.Import, op.GetIter, op.Receive:
		return one(1, 1)
	case op.Swap:
		if p := under(a(0) + 1); p != nil {
			return nil, p
		}
		return []st{{next, h}}, nil
	case op.Copy:
		if p := under(a(0) + 1); p != nil {
			return nil, p
		}
		return []st{{next, h + 1}}, nil
	case op.Slice:
		return one(3, 1)
	case op.Unpack:
		return one(1, a(0))
	case op.FromImport:
		return one(a(0)+a(1), a(1))
	case op.ForIter:
		if p := under(1); p != nil {
			return nil, p
		}
		push, ok := map[int]int{0: 0, 1: 1, 2: 2, 3: 1}[a(1)]
		if !ok {
			return nil, &Problem{"unknown-opcode", fmt.Sprintf("ForIter name count %d", a(1))}
		}
		return []st{{next, h + push}, {s.ip + a(0), h - 1}}, nil
	}
	return nil, &Problem{"unknown-opcode", "unmodelled opcode " + info.Name}
}

// Analyze explores every reachable (ip, height) state of code and of every
// function constant nested in it. isMain: the code must end at height 1.
func Analyze(code *compiler.Code, isMain bool) *Result {
	res := &Result{Heights: map[*compiler.Code]map[int]int{}}
	analyze(code, isMain, "main", res)
	return res
}

func analyze(code *compiler.Code, isMain bool, label string, res *Result) {
	heights := map[int]int{}
	res.Heights[code] = heights
	work := []st{{0, 0}}
	n := code.InstructionCount()
	add := func(k, t string) { res.Problems = append(res.Problems, Problem{k, label + ": " + t}) }
	for len(work) > 0 {
		s := work[len(work)-1]
		work = work[:len(work)-1]
		if s.ip < 0 || s.ip > n {
			add("jump-out", fmt.Sprintf("jump to %d outside [0,%d]", s.ip, n))
			continue
		}
		if prev, ok := heights[s.ip]; ok {
			if prev != s.h {
				name := "end"
				if s.ip < n {
					name = op.GetInfo(code.Instruction(s.ip)).Name
				}
				add("two-heights", fmt.Sprintf("ip %d (%s) is reached with heights %d and %d", s.ip, name, prev, s.h))
			}
			continue
		}
		heights[s.ip] = s.h
		res.States++
		if s.h > vm.MaxStackDepth {
			add("overflow", fmt.Sprintf("height %d at ip %d", s.h, s.ip))
			continue
		}
		if s.ip == n {
			if isMain && s.h != 1 {
				add("end-height", fmt.Sprintf("program ends with %d values on the stack (want exactly its result)", s.h))
			}
			continue
		}
		succ, p := step(code, s)
		if p != nil {
			add(p.Kind, p.Text)
			continue
		}
		res.Transitions += len(succ)
		work = append(work, succ...)
	}
	for i := 0; i < code.ConstantsCount(); i++ {
		if fn, ok := code.Constant(i).(*compiler.Function); ok {
			analyze(fn.Code(), false, label+"/"+fn.Name()+"#"+fn.ID(), res)
		}
	}
}

// ------------------------------------------------------------------ conformance

// Tracer checks every executed instruction of one VM against the static heights.
type Tracer struct {
	Heights  map[*compiler.Code]map[int]int
	Steps    int
	Mismatch []string
	bases    []int
	lastFP   int
	lastCode *compiler.Code
	Probe    func(site int64) // optional
}

var tracers sync.Map // *vm.VirtualMachine -> *Tracer

func init() {
	vm.VerifStep = func(m *vm.VirtualMachine, opcode op.Code) {
		if t, ok := tracers.Load(m); ok {
			t.(*Tracer).step(m, opcode)
		}
	}
}

// Attach starts checking m; Detach stops.
func Attach(m *vm.VirtualMachine, t *Tracer) { t.lastFP = -1; tracers.Store(m, t) }
func Detach(m *vm.VirtualMachine)            { tracers.Delete(m) }

func (t *Tracer) step(m *vm.VirtualMachine, opcode op.Code) {
	fp, ip, sp, code := m.VerifFP(), m.VerifIP()-1, m.VerifSP(), m.VerifCode()
	hs, known := t.Heights[code]
	if !known {
		// code the analysis has not seen (imported module): analyse on demand
		r := Analyze(code, false)
		for c, h := range r.Heights {
			t.Heights[c] = h
		}
		hs = t.Heights[code]
	}
	for len(t.bases) > fp+1 {
		t.bases = t.bases[:len(t.bases)-1]
	}
	for len(t.bases) <= fp {
		t.bases = append(t.bases, sp)
	}
	if ip == 0 && !(t.lastFP == fp && t.lastCode == code) {
		t.bases[fp] = sp // new activation at this depth
	}
	t.lastFP, t.lastCode = fp, code
	t.Steps++
	want, ok := hs[ip]
	got := sp - t.bases[fp]
	if !ok {
		if len(t.Mismatch) < 4 {
			t.Mismatch = append(t.Mismatch, fmt.Sprintf("executed ip %d (%s) that the static search never reached", ip, op.GetInfo(opcode).Name))
		}
		return
	}
	if got != want && len(t.Mismatch) < 4 {
		t.Mismatch = append(t.Mismatch, fmt.Sprintf("ip %d (%s): concrete height %d, table predicts %d", ip, op.GetInfo(opcode).Name, got, want))
	}
}
