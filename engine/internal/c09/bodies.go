// Package c09: evaluations on separate VMs are safe to run concurrently.
package c09

import (
	"bytes"
	"compress/gzip"
	"context"
	"fmt"
	"os"
	"path/filepath"
	"reflect"
	"strings"
	"sync"
	"sync/atomic"
	"time"

	"github.com/risor-io/risor"
	"github.com/risor-io/risor/builtins"
	"github.com/risor-io/risor/compiler"
	"github.com/risor-io/risor/importer"
	"github.com/risor-io/risor/object"
	"github.com/risor-io/risor/parser"
	"github.com/risor-io/risor/vm"
)

// Go types handed to scripts. Each scenario uses types that no other scenario has touched, but the
// type caches are reset before every execution anyway (first use is the state under test).

type Inner struct{ N int }

type StructA struct {
	F     int
	Name  string
	In    Inner
	Items []int
}

func (s *StructA) Get() int      { return s.F }
func (s *StructA) Add(n int) int { return s.F + n }
func (s *StructA) Label() string { return "A:" + s.Name }
func (s *StructA) Inner() Inner  { return s.In }
func (s *StructA) Sum(xs []int) int {
	t := 0
	for _, x := range xs {
		t += x
	}
	return t
}

type StructB struct {
	V    float64
	Tags map[string]string
}

// StructD carries values of different dynamic types in interface-typed positions.
type StructD struct {
	L []any
	V float64
}

// Pick hands out values of different dynamic types through an interface-typed result.
func (s *StructD) Pick(i int) any {
	switch i % 3 {
	case 0:
		return s.V
	case 1:
		return "tag"
	}
	return i
}

func (s *StructB) Double() float64      { return s.V * 2 }
func (s *StructB) Tag(k string) string  { return s.Tags[k] }
func (s *StructB) Other(a *StructA) int { return a.F + 1 }
func (s *StructB) MakeA() *StructA      { return &StructA{F: 41, Name: "x"} }
func (s *StructB) Scale(n int) float64  { return s.V * float64(n) }

// StructE1 / StructE2 have parameters and fields whose types differ only in a defined key / element type: a converter
// built for one of them must not serve the other.
type Label string
type Count int
type Ints []int

type StructE1 struct {
	ByName map[string]int
}

type StructE2 struct {
	ByLabel map[Label]int
}

func (s *StructE1) SumS(m map[string]int) int {
	t := 0
	for k, v := range m {
		t += v * len(k)
	}
	return t
}
func (s *StructE2) SumL(m map[Label]int) int {
	t := 0
	for k, v := range m {
		t += v * (len(k) + 100)
	}
	return t
}
func (s *StructE2) SumC(m map[string]Count) int {
	t := 0
	for _, v := range m {
		t += int(v) + 1000
	}
	return t
}
func (s *StructE1) JoinI(xs []int) int { return len(xs)*10 + xs[0] }
func (s *StructE2) JoinN(xs Ints) int  { return len(xs)*1000 + xs[0] }
func (s *StructE2) JoinC(xs []Count) int {
	return len(xs)*100000 + int(xs[0])
}

// StructC is converted for the first time by the evaluation that receives it.
type StructC struct {
	Words []string
	Pairs map[string][]int
}

// Body is one evaluation; it returns a printable result.
type Body func() string

func evalBody(src string, opts ...risor.Option) Body {
	return func() string {
		v, err := risor.Eval(context.Background(), src, opts...)
		if err != nil {
			return "error: " + err.Error()
		}
		return v.Inspect()
	}
}

// Scenario: bodies that meet on one piece of package-level or shared state.
type Scenario struct {
	Name  string
	Make  func() []Body // fresh bodies (and fresh shared objects) for one execution
	After func() string // optional: observation of shared objects after all bodies finished
	// Free: every body is a self-contained evaluation (no object shared through Go), so any number of copies
	// may run at once and each still has to return what it returns alone: the free-running harness compares
	Free bool
	// NoExplore: the bodies have thousands of hook points (no schedule enumeration); the scenario is judged by the
	// comparison of the sequential run with each evaluation alone, and by the free-running pass
	NoExplore bool
}

func a() *StructA { return &StructA{F: 41, Name: "x", In: Inner{N: 7}, Items: []int{1, 2}} }

// a2 is a second, distinguishable receiver of the same type (a mix-up of receivers or arguments
// between concurrent calls changes the results).
func a2() *StructA { return &StructA{F: 1041, Name: "y", In: Inner{N: 70}, Items: []int{10, 20}} }
func b() *StructB  { return &StructB{V: 1.5, Tags: map[string]string{"k": "v"}} }

var codecSeq atomic.Int64

var importDir string
var importOnce sync.Once

func moduleDir() string {
	importOnce.Do(func() {
		d, err := os.MkdirTemp("", "verif-c09-")
		if err != nil {
			panic(err)
		}
		importDir = d
		os.WriteFile(filepath.Join(d, "m.risor"), []byte("x := 5\nfunc double(n) { return n * 2 }\n"), 0o644)
		os.WriteFile(filepath.Join(d, "n.risor"), []byte("import m\ny := m.double(4)\n"), 0o644)
	})
	return importDir
}

// Cleanup removes the temporary module directory.
func Cleanup() {
	if importDir != "" {
		os.RemoveAll(importDir)
	}
}

func Scenarios() []Scenario {
	return append([]Scenario{
		{Name: "first conversion of two struct types (global) ", Make: func() []Body {
			return []Body{
				evalBody("s.F + 1", risor.WithGlobal("s", a())),
				evalBody("t.V", risor.WithGlobal("t", b())),
			}
		}},
		{Name: "proxy method calls on two struct types", Make: func() []Body {
			return []Body{
				evalBody("s.Add(1)", risor.WithGlobal("s", a())),
				evalBody("t.Double()", risor.WithGlobal("t", b())),
			}
		}},
		{Name: "proxy method calls on the same struct type", Make: func() []Body {
			return []Body{
				evalBody("s.Add(1)", risor.WithGlobal("s", a())),
				evalBody("s.Label()", risor.WithGlobal("s", a2())),
			}
		}},
		{Name: "the same method on the same struct type twice", Make: func() []Body {
			return []Body{
				evalBody("s.Add(1)", risor.WithGlobal("s", a())),
				evalBody("s.Add(200)", risor.WithGlobal("s", a2())),
			}
		}},
		{Name: "the same two-argument-free method on three receivers of one type", Make: func() []Body {
			return []Body{
				evalBody("[s.Add(1), s.Sum([1, 2]), s.Label()]", risor.WithGlobal("s", a())),
				evalBody("[s.Add(200), s.Sum([10, 20]), s.Label()]", risor.WithGlobal("s", a2())),
				evalBody("[s.Add(3000), s.Sum([100]), s.Label()]", risor.WithGlobal("s", &StructA{F: 5, Name: "z"})),
			}
		}},
		{Name: "methods with an int parameter on two struct types", Make: func() []Body {
			return []Body{
				evalBody("s.Add(1)", risor.WithGlobal("s", a())),
				evalBody("t.Scale(2)", risor.WithGlobal("t", b())),
			}
		}},
		{Name: "slice-parameter method call vs first conversion of a struct with slice and map fields", Make: func() []Body {
			return []Body{
				evalBody("s.Sum([1, 2, 3])", risor.WithGlobal("s", a())),
				evalBody("len(c.Words)", risor.WithGlobal("c", &StructC{Words: []string{"a"}, Pairs: map[string][]int{"k": {1}}})),
			}
		}},
		{Name: "method taking a slice vs method returning a struct", Make: func() []Body {
			return []Body{
				evalBody("s.Sum([1, 2, 3])", risor.WithGlobal("s", a())),
				evalBody("s.Inner().N", risor.WithGlobal("s", a2())),
			}
		}},
		{Name: "three evaluations: field, method, method with proxy argument", Make: func() []Body {
			return []Body{
				evalBody("s.Items", risor.WithGlobal("s", a())),
				evalBody("t.Tag(\"k\")", risor.WithGlobal("t", b())),
				evalBody("t.Other(t.MakeA())", risor.WithGlobal("t", b())), // one global per evaluation: the order in which several globals are converted follows Go map iteration
			}
		}},
		{Name: "values of different dynamic types through any-typed positions", Make: func() []Body {
			// one global per evaluation: several globals would be converted in Go map order
			return []Body{
				evalBody(`[d.L[0], d.L[1], d.Pick(0), d.Pick(1), d.Pick(2)]`, risor.WithGlobal("d", &StructD{L: []any{1, "s"}, V: 1.5})),
				evalBody(`[d.L[0], d.L[1], d.Pick(1), d.Pick(2), d.Pick(3)]`, risor.WithGlobal("d", &StructD{L: []any{"t", 2.5}, V: 2.5})),
			}
		}},
		{Name: "map parameters that differ only in a defined key type", Make: func() []Body {
			return []Body{
				evalBody(`[e.SumS({"a": 1, "bb": 2}), e.ByName["k"], e.SumS({"ccc": 3})]`, risor.WithGlobal("e", &StructE1{ByName: map[string]int{"k": 5}})),
				evalBody(`[e.SumL({"a": 1, "bb": 2}), e.ByLabel["k"], e.SumL({"ccc": 3})]`, risor.WithGlobal("e", &StructE2{ByLabel: map[Label]int{"k": 6}})),
			}
		}},
		{Name: "map and slice parameters that differ only in a defined element type", Make: func() []Body {
			return []Body{
				evalBody(`[e.SumS({"a": 1}), e.JoinI([1, 2]), e.SumS({"b": 2})]`, risor.WithGlobal("e", &StructE1{})),
				evalBody(`[e.SumC({"a": 1}), e.JoinC([3, 4, 5]), e.JoinN([6])]`, risor.WithGlobal("e", &StructE2{})),
			}
		}},
		{Name: "threads of one evaluation call functions while the main thread calls nested functions for the first time", Make: func() []Body {
			// the clones a VM makes for its threads share nothing writable with it: the first call of a nested
			// function makes the VM load its code
			src := `func mk(i) { return func() { return func() { return i } } }
work := func() { k := func(x) { return x + 1 }; t := 0; for j := range 4 { t = k(t) }; return t }
w1 := spawn(work)
w2 := spawn(work)
acc := 0
for i := range 3 { acc += mk(i)()() }
[acc, w1.wait(), w2.wait()]`
			return []Body{evalBody(src, risor.WithConcurrency())}
		}},
		{Name: "one evaluation edits the attribute map of a Go type, another reads it", Make: func() []Body {
			// reflection data handed to scripts as ordinary (mutable) containers must not be shared between VMs
			return []Body{
				evalBody(`a := d.__type__.attributes; a["injected"] = 1; len(a)`, risor.WithGlobal("d", &StructD{L: []any{1}, V: 1})),
				evalBody(`a := d.__type__.attributes; [len(a), "injected" in a]`, risor.WithGlobal("d", &StructD{L: []any{2}, V: 2})),
			}
		}},
		{Name: "codec lookup vs codec lookup vs registration", Make: func() []Body {
			return []Body{
				evalBody(`encode("a", "base64")`),
				evalBody(`decode("YQ==", "base64")`),
				func() string {
					name := fmt.Sprintf("verif%d", codecSeq.Add(1))
					err := builtins.RegisterCodec(name, &builtins.Codec{
						Encode: func(ctx context.Context, o object.Object) object.Object { return o },
						Decode: func(ctx context.Context, o object.Object) object.Object { return o },
					})
					return fmt.Sprint("registered ", err == nil)
				},
			}
		}},
		{Name: "one shared LocalImporter, same module", Make: func() []Body {
			im := importer.NewLocalImporter(importer.LocalImporterOptions{SourceDir: moduleDir(), Extensions: []string{".risor"}})
			return []Body{
				evalBody("import m\nm.double(3)", risor.WithImporter(im)),
				evalBody("import m\nm.x", risor.WithImporter(im)),
			}
		}},
		{Name: "one shared LocalImporter, transitive import", Make: func() []Body {
			im := importer.NewLocalImporter(importer.LocalImporterOptions{SourceDir: moduleDir(), Extensions: []string{".risor"}})
			return []Body{
				evalBody("import n\nn.y", risor.WithImporter(im)),
				evalBody("import m\nm.double(1)", risor.WithImporter(im)),
			}
		}},
		{Name: "a host-built slice iterator over a new struct type vs the first conversion of another struct type", Make: func() []Body {
			// object.NewSliceIter is an entry point of its own into the Go type registries (no script-level iteration
			// goes through it): the host builds the iterator inside its evaluation
			return []Body{
				func() string {
					it, err := object.NewSliceIter([]StructA{*a(), *a2()})
					if err != nil {
						return "error: " + err.Error()
					}
					return evalBody(`out := []; for i, v := range it { out.append(v.F) }; out`, risor.WithGlobal("it", it))()
				},
				evalBody(`[s.V, s.Tags["k"]]`, risor.WithGlobal("s", b())),
			}
		}},
		{Name: "two host-built slice iterators over slices of slices of one struct type", Make: func() []Body {
			mk := func(n int) Body {
				return func() string {
					it, err := object.NewSliceIter([][]StructA{{*a()}, {*a2(), *a()}})
					if err != nil {
						return "error: " + err.Error()
					}
					return evalBody(`out := []; for i, v := range it { out.append(len(v) + n) }; out`, risor.WithGlobal("it", it), risor.WithGlobal("n", n))()
				}
			}
			return []Body{mk(10), mk(20)}
		}},
		{Name: "a host that has registered more than a thousand Go types vs an evaluation with byte, time and float-slice globals", Free: true, NoExplore: true, Make: func() []Body {
			// the package-level converter registry has no bound; whatever a host with a very large API (or one that
			// builds types with reflect) makes of it, another evaluation converts its own globals as it does alone
			return []Body{
				func() string {
					for n := 1; n <= 1100; n++ {
						if _, err := object.NewTypeConverter(reflect.ArrayOf(n, reflect.TypeOf(int16(0)))); err != nil {
							return "error: " + err.Error()
						}
					}
					return "registered"
				},
				evalBody(`[type(bs), type(tm), type(fs), type(bf), string(bs)]`, risor.WithGlobal("bs", []byte("abc")), risor.WithGlobal("tm", time.Unix(1700000000, 0).UTC()),
					risor.WithGlobal("fs", []float64{1.5}), risor.WithGlobal("bf", bytes.NewBufferString("x"))),
			}
		}},
		sharedCode(),
		clones(),
	}, codecScenarios()...)
}

// codecScenarios: two evaluations use the same codec at once, each after a decode of a damaged input has
// failed in it (whatever a codec keeps between calls - a pooled reader, a scratch buffer - has been through
// its error path) and with a payload of its own that is large enough for the two to overlap when they run free.
func codecScenarios() []Scenario {
	var truncated []byte
	{
		var buf bytes.Buffer
		w := gzip.NewWriter(&buf)
		w.Write([]byte(strings.Repeat("damaged stream ", 4000)))
		w.Close()
		truncated = buf.Bytes()[:buf.Len()/2]
	}
	type cd struct {
		name string
		bad  any
	}
	var out []Scenario
	for _, c := range []cd{{"gzip", string(truncated)}, {"base64", "%%%"}, {"base32", "%%%"}, {"hex", "zz"}, {"json", "{"}, {"csv", "\"a"}, {"urlquery", "%zz"}} {
		c := c
		out = append(out, Scenario{Name: "two evaluations use the " + c.name + " codec after a failed decode", Free: true, Make: func() []Body {
			var bodies []Body
			for k := 0; k < 2; k++ {
				data := strings.Repeat(fmt.Sprintf("payload %d of %s;", k, c.name), 6000+1000*k)
				src := `r1 := try(func() { return string(decode(bad, codec)) }, func(e) { return "failed" })
enc := encode(data, codec)
r2 := try(func() { return string(decode(bad, codec)) }, func(e) { return "failed" })
dec := decode(enc, codec)
[r1, r2, len(enc), string(dec) == data || dec == data || dec == [[data]], len(string(dec))]`
				if c.name == "csv" {
					src = strings.Replace(src, "encode(data, codec)", "encode([[data]], codec)", 1)
				}
				bodies = append(bodies, evalBody(src, risor.WithGlobal("bad", c.bad), risor.WithGlobal("data", data), risor.WithGlobal("codec", c.name)))
			}
			return bodies
		}})
	}
	return out
}

const sharedSrc = "k := 3\nfunc mk(a) { return func(b) { return a * k + b } }\nfs := [mk(1), mk(2)]\n[fs[0](1), fs[1](2), [1, 2, 3].map(func(x) { x * k })]"

func sharedCode() Scenario {
	var code *compiler.Code
	return Scenario{
		Name: "one compiled code object run on two VMs",
		Make: func() []Body {
			prog, err := parser.Parse(context.Background(), sharedSrc)
			if err != nil {
				panic(err)
			}
			cfg := risor.NewConfig()
			c, err := compiler.Compile(prog, cfg.CompilerOpts()...)
			if err != nil {
				panic(err)
			}
			code = c // for After (scheduler runs call Make once per execution)
			run := func() string {
				v, err := risor.EvalCode(context.Background(), c)
				if err != nil {
					return "error: " + err.Error()
				}
				return v.Inspect()
			}
			return []Body{run, run}
		},
		After: func() string {
			b, err := compiler.MarshalCode(code)
			if err != nil {
				return "marshal error: " + err.Error()
			}
			return fmt.Sprint(len(b), " bytes ", string(b[:40]))
		},
	}
}

func clones() Scenario {
	return Scenario{
		Name: "two clones of one VM call the same function",
		Make: func() []Body {
			ctx := context.Background()
			prog, err := parser.Parse(ctx, "k := 3\nfunc f(a) { t := 0\n for i := range a { t += i * k }\n return t }\n0")
			if err != nil {
				panic(err)
			}
			code, err := compiler.Compile(prog)
			if err != nil {
				panic(err)
			}
			base := vm.New(code)
			if err := base.Run(ctx); err != nil {
				panic(err)
			}
			fo, _ := base.Get("f")
			fn := fo.(*object.Function)
			call := func(n int64) Body {
				return func() string {
					c, err := base.Clone()
					if err != nil {
						return "clone error: " + err.Error()
					}
					v, err := c.Call(ctx, fn, []object.Object{object.NewInt(n)})
					if err != nil {
						return "error: " + err.Error()
					}
					return v.Inspect()
				}
			}
			return []Body{call(4), call(5)}
		},
	}
}
