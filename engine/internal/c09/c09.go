package c09

import (
	"fmt"
	"os"
	"os/exec"
	"strings"
	"sync"

	"github.com/risor-io/risor/object"

	"verif/internal/dsched"
	"verif/internal/ev"
)

type state struct {
	bodies  []Body
	results []string
	mu      sync.Mutex
	after   string
}

func scenario(sc Scenario, seq []string, seqAfter string) *dsched.Scenario {
	return &dsched.Scenario{
		Name:     sc.Name,
		Horizon:  10,
		MaxSteps: 20000,
		Setup: func() any {
			object.VerifResetTypeCaches()
			st := &state{bodies: sc.Make()}
			st.results = make([]string, len(st.bodies))
			return st
		},
		Body: func(x *dsched.Exec, sti any) {
			st := sti.(*state)
			var wg sync.WaitGroup
			done := make(chan struct{})
			for i := range st.bodies {
				i := i
				wg.Add(1)
				x.Go(fmt.Sprintf("eval%d", i), func() {
					defer wg.Done()
					st.results[i] = safe(st.bodies[i])
				})
			}
			// the main task waits for the evaluations at a scheduling point that opens when all are done
			go func() { wg.Wait(); close(done) }()
			x.EnvGate("join", func() bool {
				for _, t := range x.Tasks() {
					if t.ID != 0 && !t.Ended() {
						return false
					}
				}
				return true
			})
			<-done
			if sc.After != nil {
				st.after = sc.After()
			}
		},
		Check: func(x *dsched.Exec, sti any) (string, string) {
			st := sti.(*state)
			key := strings.Join(st.results, " | ")
			if x.Deadlock {
				return "deadlock: " + key, "deadlock"
			}
			if len(x.Races) > 0 {
				return "data race on " + x.Races[0], "race"
			}
			for i, r := range st.results {
				if r != seq[i] {
					return fmt.Sprintf("evaluation %d returned %s when run concurrently but %s when run alone", i, r, seq[i]), key
				}
			}
			if st.after != seqAfter {
				return fmt.Sprintf("the shared object differs after concurrent use: %s vs %s", st.after, seqAfter), key
			}
			return "", key
		},
	}
}

func safe(b Body) (s string) {
	defer func() {
		if r := recover(); r != nil {
			s = fmt.Sprint("GO PANIC: ", r)
		}
	}()
	return b()
}

// sequential runs the bodies one after another (from fresh caches) to obtain the expected results.
func sequential(sc Scenario) ([]string, string) {
	object.VerifResetTypeCaches()
	bodies := sc.Make()
	out := make([]string, len(bodies))
	for i, b := range bodies {
		out[i] = safe(b)
	}
	after := ""
	if sc.After != nil {
		after = sc.After()
	}
	return out, after
}

// alone runs every body by itself, each from fresh caches: the result "it would produce running alone".
// (The sequential run above lets a later body start from the caches an earlier one filled; an
// interference that needs no overlap at all would hide in it.)
func alone(sc Scenario) []string {
	n := len(sc.Make())
	out := make([]string, n)
	for i := 0; i < n; i++ {
		object.VerifResetTypeCaches()
		out[i] = safe(sc.Make()[i])
	}
	return out
}

type replayIn struct {
	Scenario string `json:"scenario"`
	Schedule []int  `json:"schedule"`
}

func Check(r *ev.Run, replay string) {
	defer Cleanup()
	scs := Scenarios()
	if replay != "" {
		var in replayIn
		if err := ev.ReadReplay(replay, &in); err != nil {
			r.EngineError(err.Error())
			return
		}
		for _, sc := range scs {
			if sc.Name == in.Scenario {
				_, after := sequential(sc)
				seq := alone(sc)
				x, e := dsched.Replay(scenario(sc, seq, after), in.Schedule)
				fmt.Printf("%s\nschedule %v\ntrace %v\nraces %v\nengine error %q\n", sc.Name, in.Schedule, x.Trace, x.Races, e)
				if len(x.Races) > 0 {
					r.Report("replayed", x.Races[0], in, x.Races[0], "")
				}
			}
		}
		r.Set("states", 1)
		r.Set("transitions", 1)
		r.Set("traces_validated_against_impl", 1)
		return
	}
	bound, limit := 2, 4000
	if r.Thorough() {
		bound, limit = 3, 60000
	}
	r.Sharded(len(scs), func(shard, n int) {
		defer Cleanup() // the worker process exits right after this function
		for i, sc := range scs {
			if i%n != shard {
				continue
			}
			seq, after := sequential(sc)
			// the expected results are those of each evaluation alone; one after the other (no overlap at all)
			// must already give the same
			al := alone(sc)
			for i := range al {
				if al[i] != seq[i] {
					r.Report("C09:result-differs:sequential", fmt.Sprintf("%s\n  evaluation %d returns %s when it runs after the other evaluations have finished, and %s alone", sc.Name, i, seq[i], al[i]), replayIn{sc.Name, nil}, seq[i], al[i])
				}
			}
			seq = al
			if sc.NoExplore {
				r.Eval(len(al))
				r.Outcome(sc.Name + "|sequential-equals-alone")
				continue
			}
			b := bound
			if !r.Thorough() && len(seq) > 2 {
				b = 1 // quick: the three-evaluation scenarios with one preemption (two exceed the execution budget)
			}
			st := dsched.Explore(scenario(sc, seq, after), b, limit)
			r.Eval(st.Executions)
			r.Add("transitions", st.Points)
			r.Add("traces_validated_against_impl", st.Executions)
			r.Add("states", st.Points+st.Executions)
			for k := range st.Outcomes {
				r.Outcome(sc.Name + "|" + k)
			}
			r.Sample(map[string]any{"scenario": sc.Name, "sequential_results": seq, "executions": st.Executions, "bound_completed": st.BoundCompleted})
			if st.EngineError != "" {
				r.EngineError(sc.Name + ": " + st.EngineError)
				continue
			}
			if st.Capped {
				r.Cap(fmt.Sprintf("%s: %d executions, bound %d completed", sc.Name, st.Executions, st.BoundCompleted))
			}
			if st.Violation != "" {
				r.Report(signature(st.Violation), sc.Name+"\n  "+st.Violation+"\n  schedule "+fmt.Sprint(st.ViolationSched), replayIn{sc.Name, st.ViolationSched}, st.Violation, "no unordered conflicting accesses; same results as sequential runs")
			}
		}
	})
	r.Set("scenarios", len(scs))
	r.Set("preemption_bound", bound)
	raceSupplement(r)
	r.Set("rule", fmt.Sprintf("%d scenarios of 2-3 concurrent evaluations on separate VMs that meet on one piece of package-level or shared state (Go type registries via globals, field access and proxy calls; codec registry; a shared importer; one compiled code object on two VMs; two clones of one VM; each of the seven codecs used by two evaluations at once, after a decode of a damaged input has failed in it); the package caches are reset before every execution; every schedule of the lock and access hook points with at most %d preemptions (quick: 1 for the scenarios with three evaluations); oracle: vector-clock happens-before race detection on the hooked accesses + each result equals the result of that evaluation running alone from fresh caches (and one after the other gives the same). The same bodies also run free (6 rounds, thorough 40, x 4 copies of every body at once, caches reset per round) in a build with Go's race detector, which reports unsynchronised accesses that no hook names; the self-contained evaluations among them (the codec scenarios) also have to return there what they return alone.", len(scs), bound))
}

func signature(v string) string {
	switch {
	case strings.HasPrefix(v, "data race on typeConverters"), strings.HasPrefix(v, "data race on goTypeRegistry"), strings.HasPrefix(v, "data race on converter"):
		return "C09:race:go-type-registries"
	case strings.HasPrefix(v, "data race on"):
		f := strings.Fields(v)
		return "C09:race:" + strings.TrimSuffix(f[3], ":")
	case strings.HasPrefix(v, "deadlock"):
		return "C09:deadlock"
	}
	return "C09:result-differs"
}

// raceSupplement builds the free-running harness with -race and runs it; it can only add true reports.
func raceSupplement(r *ev.Run) {
	bin := ev.Home + "/.work/bin/c09race"
	args := []string{"build", "-race", "-tags", "verif"}
	if mf := os.Getenv("VERIF_MODFLAG"); mf != "" {
		args = append(args, mf) // a scratch copy of the repository is being checked
		bin += "-alt"
	}
	args = append(args, "-o", bin, "./cmd/c09race")
	cmd := exec.Command("go", args...)
	cmd.Dir = ev.Home + "/engine"
	cmd.Env = append(os.Environ(), "GOFLAGS=-mod=mod", "GOPROXY=off", "GOSUMDB=off", "GOTOOLCHAIN=local", "GOWORK=off", "CGO_ENABLED=1")
	if out, err := cmd.CombinedOutput(); err != nil {
		r.EngineError("race supplement: -race build failed: " + ev.Clip(string(out), 400))
		return
	}
	rounds := "6"
	if r.Thorough() {
		rounds = "40"
	}
	out, _ := exec.Command(bin, rounds).CombinedOutput()
	r.Set("race_supplement_rounds", rounds)
	// self-contained evaluations also have to return, running free next to copies of themselves, what they return alone
	for _, l := range strings.Split(string(out), "\n") {
		if strings.HasPrefix(l, "RESULT-DIFFERS ") {
			name, what, _ := strings.Cut(strings.TrimPrefix(l, "RESULT-DIFFERS "), " | ")
			r.Report("C09:result-differs:free-running", name+"\n  "+what, map[string]any{"supplement": "go build -race ./cmd/c09race", "scenario": name}, what, "the result of the evaluation alone")
			break
		}
	}
	n := strings.Count(string(out), "WARNING: DATA RACE")
	r.Set("race_supplement_reports", n)
	if n > 0 {
		// classify by the first risor frame of the first report
		first := string(out)
		if i := strings.Index(first, "WARNING: DATA RACE"); i >= 0 {
			first = first[i:]
		}
		site := "unknown"
		for _, l := range strings.Split(first, "\n") {
			if strings.Contains(l, "risor-io/risor/") || strings.Contains(l, "/repo/") {
				site = strings.TrimSpace(l)
				break
			}
		}
		sig := "C09:race-detector:" + site
		if strings.Contains(site, "typeconv") || strings.Contains(site, "go_type") || strings.Contains(site, "proxy") {
			sig = "C09:race:go-type-registries"
		}
		r.Report(sig, "the Go race detector reports a data race in the free-running harness:\n"+ev.Clip(first, 1500), map[string]any{"supplement": "go build -race ./cmd/c09race"}, ev.Clip(first, 600), "no report")
	}
}
