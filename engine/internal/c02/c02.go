// Package c02: closures capture variables lexically, at any depth and from any call path.
// Every program of progen.C02 (depth x owner level x in-place/returned per level x read/write x
// invocation route) is run through the real pipeline and through the reference interpreter,
// whose closures hold real heap environments.
package c02

import (
	"fmt"
	"sync/atomic"

	"verif/internal/c01"
	"verif/internal/ev"
	"verif/internal/progen"
	"verif/internal/rt"
)

func Check(r *ev.Run, replay string) {
	if replay != "" {
		c01.Check(r, replay)
		return
	}
	st := &c01.Stats{}
	var n int32
	ops := 3
	if r.Thorough() {
		ops = 4
	}
	c01.Pool(func(y func(progen.Program)) {
		progen.C02(r.Thorough(), y)
		// which binding a name inside a closure denotes: captures, later shadowing declarations and
		// uses from deeper blocks of the inner function (shared with C01's scoping families)
		progen.F4c(ops, y)
	}, func(env *rt.Env, p progen.Program) {
		if atomic.AddInt32(&n, 1)%97 == 1 {
			r.Sample(map[string]string{"case": p.Meta, "source": p.Src()})
		}
		c01.One(r, env, p, st)
	})
	depth := 3
	if r.Thorough() {
		depth = 5
	}
	r.Set("max_nesting_depth", depth)
	r.Set("model_values", int(st.Values))
	r.Set("model_errors", int(st.Errors))
	r.Set("rule", fmt.Sprintf("every combination of nesting depth 1..%d x owning level x (each enclosing function calls the next in place | returns it uncalled) x read/write x 11 invocation routes (direct, from a list, from a map by index and by attribute, as list.map callback, inside a try callback, through call(), spawn(), fn.spawn(), from Go with vm.Get+vm.Call, inside a nested callback); the escaped closure is invoked twice and a sibling closure over the same binding is read afterwards; plus the binding family F4c: every placement of up to %d operations (declare, assign, read, ++, +=, read into another name) on a name that is a local of the enclosing function over 7 slots of the inner function (two top-level slots, two nested blocks, a loop body, trailing slots), the enclosing function printing its own variable after each call; the event family: two worker closures of one maker that first do one of 14 things (nothing, call a sibling closure with other captured variables, have such a call fail under try - directly, in a callback of each, in a deferred call, three frames deep, in a spawned thread -, run a closure that updates the same variable and then fails) and then update their captured variables and build a nested closure over them, every ordered pair of events, two instances, small and large frames; distinct = distinct model outcomes", depth, ops))
}
