// Package c07: runs on a reused VM are independent of earlier runs and their contexts.
//
// Explicit-state search over API histories executed under the controlled scheduler: every
// history of 1..N invocations over an alphabet of {RunCode, Call} x outcome kinds (normal, runtime
// error at depth 0/2, recovered Go panic, frame overflow, cancelled mid-run), with one stale
// cancel(ctx_i) event for an earlier invocation placed at every point of the later ones (every
// VM instruction is a scheduling point) and the watcher goroutine's halt store scheduled at every
// point within the deviation bound. Oracle: differential - the k-th invocation's (result, error)
// equals the same invocation on a fresh VM.
package c07

import (
	"testing/fstest"

	"context"
	"errors"
	"fmt"
	"github.com/risor-io/risor/importer"
	"strings"
	"sync/atomic"

	"github.com/risor-io/risor/compiler"
	"github.com/risor-io/risor/object"
	"github.com/risor-io/risor/op"
	"github.com/risor-io/risor/vm"

	"verif/internal/dsched"
	"verif/internal/ev"
	"verif/internal/rt"
)

// ones: 120 list elements that are on the operand stack while the last element is evaluated, so
// that the recursion of callover exhausts the stack within a few frames
var ones = strings.Repeat("1, ", 120)

// invocation kinds
var kinds = map[string]string{
	"a":          "s := 0\nfor i := range 4 { s += i }\ns",
	"b":          "\"b\" + string(len([1, 2, 3]))",
	"err0":       "x := 1\n[1][5]",
	"err2":       "func g(d) { if d == 0 { return {}[\"k\"] }\n return g(d - 1) }\ng(2)",
	"panic":      "z := 0\n1 / z",
	"overflow":   "func r(n) { return r(n + 1) }\nr(0)",
	"cancel":     "s := 0\nfor i := range 6 { s += i }\ns",
	"deff":       "k := 10\nfunc boom() { z := 0\n return 1 / z }\nfunc f(n) { c := func() { return n }\n if n == -2 { return [" + ones + "f(n)] }\n if n == -3 { return [7, 8, boom()] }\n if n == -4 { import flaky\n return [flaky.before, flaky.after] }\n if n < 0 { [1][5] }\n t := k\n for i := range n { t += i }\n return t + c() * 100 }\n7",
	"callf":      "", // Call(f, 3) with f taken from the VM after the last deff
	"callferr":   "", // Call(f) with a wrong argument count
	"callfail":   "", // Call(f, -1): f fails with a runtime error after it has created a closure over its parameter
	"callpanic":  "", // Call(f, -3): a Go panic (division by zero) two frames below the call, recovered by Call
	"callimport": "", // Call(f, -4): f imports a file module whose top-level code fails half way; every attempt fails alike
	"callover":   "", // Call(f, -2): f recurses until the operand stack overflows (a recovered Go panic many frames deep)
}

// flakyImporter serves one file module whose top-level code raises an error between two assignments.
func flakyImporter(env *rt.Env) *importer.FSImporter {
	return importer.NewFSImporter(importer.FSImporterOptions{
		GlobalNames: env.Names,
		SourceFS:    fstest.MapFS{"flaky.risor": &fstest.MapFile{Data: []byte("before := 1\n[1][5]\nafter := 2\n")}},
	})
}

// safeInspect renders a result; a value that cannot be rendered (a Go nil inside a container) is a
// result like any other, not a crash of the harness.
func safeInspect(o object.Object) (s string) {
	defer func() {
		if e := recover(); e != nil {
			s = fmt.Sprintf("<value that panics when inspected: %v>", e)
		}
	}()
	return o.Inspect()
}

type history []string

func (h history) String() string { return strings.Join(h, ",") }

type result struct {
	SP     int // operand stack depth change left behind by the invocation (successful ones)
	CallSP int // the same for a Call that failed
	FP     int // frame pointer change left behind by a Call (whether it succeeded or failed)
	Val    string
	Err    string
	Class  string
	IsCtx  bool
}

func (r result) String() string {
	if r.Err != "" {
		return "error(" + r.Class + ")"
	}
	return r.Val
}

type state struct {
	env        *rt.Env
	codes      map[string]*compiler.Code
	ctxs       []context.Context
	cancels    []context.CancelFunc
	results    []result
	done       int32 // invocations finished
	invStart   []int32
	cancelAt   int // index of the invocation whose context gets the stale cancel (-1 none)
	inOverflow int32
}

func compileAll(env *rt.Env) (map[string]*compiler.Code, string) {
	out := map[string]*compiler.Code{}
	for k, src := range kinds {
		if src == "" {
			continue
		}
		c, o := env.Compile(src)
		if c == nil {
			return nil, k + ": " + o.ErrText
		}
		out[k] = c
	}
	return out, ""
}

// invoke performs invocation i of the history on machine m.
func invoke(m *vm.VirtualMachine, st *state, kind string, ctx context.Context, fn **object.Function) result {
	var val object.Object
	var err error
	spBefore := m.VerifSP()
	fpBefore := m.VerifFP()
	switch kind {
	case "callf", "callferr", "callfail", "callpanic", "callimport", "callover":
		if *fn == nil {
			return result{Err: "no function", Class: "harness"}
		}
		args := []object.Object{object.NewInt(3)}
		if kind == "callferr" {
			args = nil
		}
		if kind == "callfail" {
			args = []object.Object{object.NewInt(-1)}
		}
		if kind == "callover" {
			args = []object.Object{object.NewInt(-2)}
		}
		if kind == "callpanic" {
			args = []object.Object{object.NewInt(-3)}
		}
		if kind == "callimport" {
			args = []object.Object{object.NewInt(-4)}
		}
		val, err = m.Call(ctx, *fn, args)
	default:
		err = m.RunCode(ctx, st.codes[kind])
		if err == nil {
			if v, ok := m.TOS(); ok {
				val = v
			}
		}
		if kind == "deff" && err == nil {
			if f, gerr := m.Get("f"); gerr == nil {
				if ff, ok := f.(*object.Function); ok {
					*fn = ff
				}
			}
		}
	}
	fpd := 0
	if strings.HasPrefix(kind, "call") {
		fpd = m.VerifFP() - fpBefore
	}
	if err != nil {
		cls, _ := rt.Classify(err.Error())
		r := result{Err: err.Error(), Class: cls, IsCtx: errors.Is(err, context.Canceled), FP: fpd}
		if strings.HasPrefix(kind, "call") {
			r.CallSP = m.VerifSP() - spBefore // a failed Call, too, leaves the stack as it found it
		}
		return r
	}
	sp := m.VerifSP() + 1 // RunCode: exactly the result on the stack
	if kind == "callf" || kind == "callferr" || kind == "callfail" || kind == "callpanic" || kind == "callimport" || kind == "callover" {
		sp = m.VerifSP() - spBefore // Call: leaves the stack as it found it
	}
	if val == nil {
		return result{Val: "<no value>", SP: sp, FP: fpd}
	}
	return result{Val: safeInspect(val), SP: sp, FP: fpd}
}

// expected computes the result of each invocation kind on a fresh VM (after the deff it depends on).
func expected(codes map[string]*compiler.Code, env *rt.Env) map[string]result {
	out := map[string]result{}
	for k := range kinds {
		m := vm.New(codes["b"], vm.WithGlobals(env.Globals), vm.WithOS(env.OS), vm.WithImporter(flakyImporter(env)))
		st := &state{codes: codes}
		var fn *object.Function
		if k == "callf" || k == "callferr" || k == "callfail" || k == "callpanic" || k == "callimport" || k == "callover" {
			invoke(m, st, "deff", context.Background(), &fn)
		}
		out[k] = invoke(m, st, k, context.Background(), &fn)
	}
	return out
}

type caseT struct {
	H        history
	CancelAt int  // stale cancel for invocation CancelAt's context (-1 = none)
	Fine     bool `json:"fine_points,omitempty"` // every VM instruction of the main task is a scheduling point
}

func (c caseT) name() string {
	return fmt.Sprintf("history [%s] stale cancel of ctx %d", c.H, c.CancelAt)
}

func (c caseT) scenario(exp map[string]result) *dsched.Scenario {
	// the overflow kinds execute about a thousand instructions per invocation: coarse points for them
	fine := c.Fine && !contains(c.H, "callover") && !contains(c.H, "overflow")
	envs := []func(x *dsched.Exec, st any){}
	if c.CancelAt >= 0 {
		envs = append(envs, func(x *dsched.Exec, sti any) {
			st := sti.(*state)
			i := c.CancelAt
			x.EnvGate(fmt.Sprintf("stale-cancel-ctx%d", i), func() bool { return int(atomic.LoadInt32(&st.done)) > i })
			x.Cancel(st.ctxs[i], st.cancels[i])
		})
	}
	for i, k := range c.H {
		if k == "cancel" {
			i := i
			envs = append(envs, func(x *dsched.Exec, sti any) {
				st := sti.(*state)
				x.EnvGate(fmt.Sprintf("cancel-own-ctx%d", i), func() bool {
					m := x.Task(0)
					return int(atomic.LoadInt32(&st.done)) > i || (int(atomic.LoadInt32(&st.done)) == i && atomic.LoadInt32(&st.invStart[i]) >= 0 && m != nil && m.Points-int(atomic.LoadInt32(&st.invStart[i])) >= 3)
				})
				x.Cancel(st.ctxs[i], st.cancels[i])
			})
		}
	}
	return &dsched.Scenario{
		Name:              c.name(),
		Horizon:           20,
		Fair:              0,
		EnvUrgent:         true,
		MaxSteps:          30000,
		NoBranchAfterRoot: true,
		AllowSelectRace:   true,
		Env:               envs,
		Setup: func() any {
			st := &state{cancelAt: c.CancelAt}
			for range c.H {
				ctx, cancel := context.WithCancel(context.Background())
				st.ctxs = append(st.ctxs, ctx)
				st.cancels = append(st.cancels, cancel)
				st.invStart = append(st.invStart, -1)
			}
			return st
		},
		StepPoint: func(x *dsched.Exec, t *dsched.Task, m *vm.VirtualMachine, code op.Code) bool {
			// every instruction of the main task (quick: loop back-edges, calls and every 4th
			// instruction) except inside the frame-overflow recursion (1024 calls)
			if t.ID != 0 || x.State.(*state).inOverflow != 0 {
				return false
			}
			return fine || code == op.JumpBackward || code == op.Call || t.Steps%4 == 0
		},
		Body: func(x *dsched.Exec, sti any) {
			st := sti.(*state)
			st.env = rt.NewEnv(nil)
			codes, cerr := compileAll(st.env)
			if cerr != "" {
				st.results = append(st.results, result{Err: cerr, Class: "harness"})
				return
			}
			st.codes = codes
			m := vm.New(codes["b"], vm.WithGlobals(st.env.Globals), vm.WithOS(st.env.OS), vm.WithImporter(flakyImporter(st.env)))
			var fn *object.Function
			for i, k := range c.H {
				if t := x.Task(0); t != nil {
					atomic.StoreInt32(&st.invStart[i], int32(t.Points))
				}
				if k == "overflow" {
					atomic.StoreInt32(&st.inOverflow, 1)
				}
				res := invoke(m, st, k, st.ctxs[i], &fn)
				atomic.StoreInt32(&st.inOverflow, 0)
				st.results = append(st.results, res)
				atomic.AddInt32(&st.done, 1)
			}
		},
		Check: func(x *dsched.Exec, sti any) (string, string) { return c.judge(x, sti.(*state), exp) },
	}
}

func (c caseT) judge(x *dsched.Exec, st *state, exp map[string]result) (violation, key string) {
	var ks []string
	for _, r := range st.results {
		ks = append(ks, r.String())
	}
	key = strings.Join(ks, " | ")
	if x.Deadlock {
		return "deadlock: " + key, "deadlock"
	}
	if len(st.results) != len(c.H) {
		return fmt.Sprintf("only %d of %d invocations finished: %s", len(st.results), len(c.H), key), key
	}
	for i, k := range c.H {
		got, want := st.results[i], exp[k]
		if k == "cancel" && got.IsCtx {
			continue // cancelled by its own context: allowed
		}
		if got.Class == "harness" {
			return "harness: " + got.Err, key
		}
		if got.Err == "" && want.Err == "" && got.SP != want.SP {
			return fmt.Sprintf("invocation %d (%s) leaves %d values on the VM's stack; on a fresh VM it leaves %d", i, k, got.SP, want.SP), key
		}
		if got.CallSP != 0 {
			return fmt.Sprintf("invocation %d (%s), a Call that fails, leaves %d more values on the VM's stack than it found (on a fresh VM %d): every such call uses up a slot for good", i, k, got.CallSP, want.CallSP), key
		}
		if got.FP != want.FP || got.FP != 0 {
			return fmt.Sprintf("invocation %d (%s) moves the VM's frame pointer by %d (a call has to leave it where it found it; on a fresh VM the same call moves it by %d)", i, k, got.FP, want.FP), key
		}
		if (got.Err == "") != (want.Err == "") || got.Val != want.Val || got.Class != want.Class {
			return fmt.Sprintf("invocation %d (%s) returned (%s, err=%q); on a fresh VM the same invocation returns (%s, err=%q)", i, k, got.Val, got.Err, want.Val, want.Err), key
		}
	}
	return "", key
}

type replayIn struct {
	Case     caseT `json:"case"`
	Schedule []int `json:"schedule"`
}

func histories(alpha []string, maxLen int) []history {
	var out []history
	var rec func(h history)
	rec = func(h history) {
		if len(h) > 0 {
			out = append(out, append(history{}, h...))
		}
		if len(h) == maxLen {
			return
		}
		for _, a := range alpha {
			if (a == "callf" || a == "callferr" || a == "callfail" || a == "callpanic" || a == "callimport" || a == "callover") && !contains(h, "deff") {
				continue
			}
			rec(append(h, a))
		}
	}
	rec(nil)
	return out
}

func contains(h history, k string) bool {
	for _, x := range h {
		if x == k {
			return true
		}
	}
	return false
}

func Check(r *ev.Run, replay string) {
	env0 := rt.NewEnv(nil)
	codes0, cerr := compileAll(env0)
	if cerr != "" {
		r.EngineError("harness program does not compile: " + cerr)
		return
	}
	exp := expected(codes0, env0)
	if replay != "" {
		var pin plainReplay
		if err := ev.ReadReplay(replay, &pin); err == nil && len(pin.Plain) > 0 {
			replayPlain(r, pin)
			r.Set("states", 1)
			r.Set("transitions", len(pin.Plain))
			r.Set("traces_validated_against_impl", 1)
			return
		}
		var in replayIn
		if err := ev.ReadReplay(replay, &in); err != nil {
			r.EngineError(err.Error())
			return
		}
		sc := in.Case.scenario(exp)
		x, e := dsched.Replay(sc, in.Schedule)
		v, key := in.Case.judge(x, x.State.(*state), exp)
		fmt.Printf("%s\nschedule %v\nengine error %q\nresults %s\nviolation %q\n", in.Case.name(), in.Schedule, e, key, v)
		if v != "" {
			r.Report("replayed", v, in, v, "")
		}
		r.Set("states", 1)
		r.Set("transitions", len(x.Choices)+1)
		r.Set("traces_validated_against_impl", 1)
		return
	}
	alpha := []string{"a", "err0", "panic", "cancel", "deff", "callf", "callfail", "callpanic", "callimport"}
	maxLen, bound, limit := 3, 1, 12000
	if r.Thorough() {
		alpha = []string{"a", "b", "err0", "err2", "panic", "cancel", "deff", "callf", "callferr", "callfail", "callpanic", "callimport", "callover", "overflow"}
		maxLen, bound, limit = 3, 2, 30000
	}
	hs := histories(alpha, maxLen)
	if r.Thorough() {
		// length 4 over a smaller alphabet, one deviation
		for _, h := range histories([]string{"a", "err0", "cancel", "deff", "callf", "callfail"}, 4) {
			if len(h) == 4 {
				hs = append(hs, h)
			}
		}
	}
	var cases []caseT
	for _, h := range hs {
		if !r.Thorough() {
			nc := 0
			for _, k := range h {
				if k == "cancel" {
					nc++
				}
			}
			if nc > 1 {
				continue // quick: at most one invocation that is cancelled by its own context
			}
		}
		// thorough: the histories of one and two invocations with every instruction as a scheduling point
		// and two deviations; the longer ones with the quick tier's points and one deviation
		fine := r.Thorough() && len(h) <= 2
		cases = append(cases, caseT{h, -1, fine})
		for i := 0; i+1 < len(h); i++ {
			if h[i] != "cancel" {
				cases = append(cases, caseT{h, i, fine})
			}
		}
	}
	r.Sharded(16, func(shard, n int) {
		total, points, nc := 0, 0, 0
		for ci, c := range cases {
			if ci%n != shard {
				continue
			}
			b := bound
			if len(c.H) >= 3 {
				b = 1
			}
			st := dsched.Explore(c.scenario(exp), b, limit)
			nc++
			total += st.Executions
			points += st.Points
			r.Eval(st.Executions)
			for k := range st.Outcomes {
				r.Outcome(c.H.String() + "|" + k)
			}
			if nc%61 == 1 {
				r.Sample(map[string]any{"case": c.name(), "executions": st.Executions, "bound_completed": st.BoundCompleted, "outcomes": len(st.Outcomes)})
			}
			if st.EngineError != "" {
				r.EngineError(c.name() + ": " + st.EngineError)
				break
			}
			if st.Capped {
				r.Cap(fmt.Sprintf("%s: %d executions, bound %d completed", c.name(), st.Executions, st.BoundCompleted))
			}
			if st.Violation != "" {
				r.Report(signature(c, st.Violation), c.name()+"\n  "+st.Violation, replayIn{c, st.ViolationSched}, st.Violation, "the same (result, error) as on a fresh VM")
			}
		}
		r.Add("transitions", points)
		r.Add("traces_validated_against_impl", total)
		r.Add("states", points+total)
		r.Add("histories_with_placement", nc)
	})
	plainHistories(r)
	r.Set("alphabet", alpha)
	r.Set("max_history_length", maxLen)
	r.Set("deviation_bound", bound)
	r.Set("rule", fmt.Sprintf("every history of 1..%d invocations over %v on one VM (RunCode of 8 programs with normal / error / recovered-panic / cancelled outcomes, Call of a function fetched from the VM) x (no stale cancel | cancel of the context of an earlier invocation after it returned), every schedule with at most %d deviations of canceller, watcher goroutines and the main task (scheduling points: loop back-edges, calls and every 4th instruction; thorough: every VM instruction and two deviations for the histories of one and two invocations, the whole alphabet at length 3 and six kinds at length 4 with one deviation); oracle: each invocation returns what it returns on a fresh VM; plus the plain histories, executed without scheduling: every history of 2..3 (thorough 4) invocations over programs whose functions update their own globals, programs run with differing host-supplied globals, each both as the very same code object and as a fresh compilation of the same source, and calls of a function fetched from the VM", maxLen, alpha, bound))
}

func signature(c caseT, v string) string {
	kind := "differs-from-fresh-vm"
	if strings.HasPrefix(v, "deadlock") {
		kind = "deadlock"
	}
	stale := "no-stale-cancel"
	if c.CancelAt >= 0 {
		stale = "stale-cancel"
	}
	// which invocation failed
	var idx int
	var k string
	if _, err := fmt.Sscanf(v, "invocation %d (%s", &idx, &k); err == nil && idx < len(c.H) {
		k = c.H[idx]
		if k == "callf" || k == "callferr" || k == "callfail" || k == "callpanic" || k == "callimport" || k == "callover" {
			last := -1
			for i := 0; i < idx; i++ {
				if c.H[i] == "deff" {
					last = i
				}
			}
			for i := last + 1; i < idx; i++ {
				if c.H[i] != "callf" && c.H[i] != "callferr" && c.H[i] != "callfail" && c.H[i] != "callpanic" && c.H[i] != "callimport" && c.H[i] != "callover" {
					return "C07:" + kind + ":call-of-function-whose-code-was-replaced-by-a-later-RunCode"
				}
			}
		}
	}
	return "C07:" + kind + ":" + stale
}
