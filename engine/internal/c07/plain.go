package c07

import (
	"context"
	"fmt"
	"strings"

	"github.com/risor-io/risor/compiler"
	modstrings "github.com/risor-io/risor/modules/strings"
	"github.com/risor-io/risor/object"
	"github.com/risor-io/risor/vm"

	"verif/internal/ev"
	"verif/internal/rt"
)

// Plain histories: the scheduled histories above ask what another goroutine can do to a reused VM; this
// family asks what the EARLIER INVOCATIONS can do to it, with no scheduling at all, so it can afford longer
// histories over a larger alphabet. Every invocation comes in the two ways an embedder can present the same
// program again: the very same *compiler.Code object (compile once, run many) and a fresh compilation of
// the same source. New kinds: programs whose functions read and update their own globals ("g": the second
// run must start from fresh globals, whatever the first run's functions did), and one program run with
// different host-supplied globals ("in1"/"in2": the function must see the globals of ITS run).
// Oracle: each invocation returns what it returns as the first invocation of a fresh VM.

var plainKinds = map[string]string{
	"g":       "cnt := 0\nfunc bump() { cnt = cnt + 1\n return cnt }\nbump()\nbump() * 10 + cnt",
	"g2":      "acc := [0]\nfunc push(v) { acc.append(v)\n return len(acc) }\npush(1)\n[push(2), acc]",
	"in":      "func h() { return mode * 2 }\n[h(), mode]",
	"imp":     "import strings\nstrings.to_upper(\"ab\")",
	"topover": "func keep() { return 5 }\nx := [" + ones + ones + ones + ones + ones + ones + ones + ones + ones + "1]\nkeep()",
	"gc":      "hits.append(1)\ntally[\"n\"] = len(tally) + 1\n[len(hits), len(tally)]",
	"clo":     "func mk() { c := mode\n return func() { c = c + 1\n return c } }\nk := mk()\nk()\n[k(), mode]",
}

type plainStep struct {
	Kind  string `json:"kind"`
	Fresh bool   `json:"fresh_compilation"`    // false: the shared code object
	Mode  int    `json:"mode,omitempty"`       // host-supplied global "mode" of this invocation
	Bare  bool   `json:"no_options,omitempty"` // RunCode without any option (the globals of the VM's creation stay in force)
}

func (s plainStep) String() string {
	t := s.Kind
	if s.Mode != 0 {
		t += fmt.Sprintf("(mode=%d)", s.Mode)
	}
	if s.Fresh {
		t += "'"
	}
	if s.Bare {
		t += "~"
	}
	return t
}

type plainReplay struct {
	Plain []plainStep `json:"plain_history"`
}

func plainSource(kind string) string {
	if s, ok := plainKinds[kind]; ok {
		return s
	}
	return kinds[kind]
}

type plainWorld struct {
	env    *rt.Env
	shared map[string]*compiler.Code
	main   *compiler.Code // the VM's own main code (the source of kind "a", a code object of its own)
}

// chainSource is a program that nests n+1 calls through deferred calls - the one way to reach the call-depth limit
// itself (plain recursion runs out of frames first).
func chainSource(n int) string {
	return fmt.Sprintf("func chain(n) {\n if n > 0 { defer chain(n - 1) }\n return n\n}\nchain(%d)", n)
}

func newPlainWorld() (*plainWorld, string) {
	w := &plainWorld{env: rt.NewEnv(map[string]any{"mode": 0, "strings": modstrings.Module(), "hits": []any{}, "tally": map[string]any{}}), shared: map[string]*compiler.Code{}}
	// the longest chain of deferred calls that a fresh VM accepts: "chainmax" needs exactly all of the VM's call
	// depth, "chainover" one more (refused at the limit). What a refused call costs must be given back.
	if _, done := plainKinds["chainmax"]; !done {
		best := 0
		for n := 900; n <= 1100; n++ {
			if c, _ := w.env.Compile(chainSource(n)); c != nil {
				o := w.env.RunCode(c, nil, 0)
				if o.Stage == "ok" {
					best = n
				}
				o.Release()
			}
		}
		if best == 0 {
			return nil, "no working deferred chain found"
		}
		plainKinds["chainmax"], plainKinds["chainover"] = chainSource(best), chainSource(best+1)
	}
	for _, k := range plainAlphabetKinds(true) {
		c, o := w.env.Compile(plainSource(k))
		if c == nil {
			return nil, k + ": " + o.ErrText
		}
		w.shared[k] = c
	}
	w.main, _ = w.env.Compile(plainSource("a"))
	return w, ""
}

func plainAlphabetKinds(all bool) []string {
	ks := []string{"a", "g", "g2", "gc", "in", "imp", "clo", "deff", "err0", "err2", "panic", "topover", "chainmax", "chainover"}
	if all {
		ks = append(ks, "b", "overflow")
	}
	return ks
}

// plainRun executes the history on one VM and returns the rendering of each invocation's outcome.
func (w *plainWorld) run(h []plainStep) (out []string) {
	defer func() {
		if r := recover(); r != nil {
			out = append(out, fmt.Sprintf("GO PANIC out of the VM: %v", r))
		}
	}()
	ctx := context.Background()
	var m *vm.VirtualMachine
	var fn *object.Function
	for _, s := range h {
		if s.Kind == "run" {
			// Run: the VM's own main code (the program "a"). After a RunCode of other code, or as the first
			// invocation, it runs from the start; directly after another Run it has nothing left to do
			if m == nil {
				m = vm.New(w.main, vm.WithGlobals(w.env.Globals), vm.WithOS(w.env.OS))
			}
			err := m.Run(ctx)
			var v object.Object
			if err == nil {
				if t, ok := m.TOS(); ok {
					v = t
				}
			}
			out = append(out, render(v, err))
			continue
		}
		if strings.HasPrefix(s.Kind, "call") {
			if fn == nil {
				out = append(out, "no function")
				continue
			}
			arg := map[string]int64{"callf": 3, "callfail": -1, "callpanic": -3}[s.Kind]
			v, err := m.Call(ctx, fn, []object.Object{object.NewInt(arg)})
			out = append(out, render(v, err))
			continue
		}
		code := w.shared[s.Kind]
		if s.Fresh {
			c, o := w.env.Compile(plainSource(s.Kind))
			if c == nil {
				out = append(out, "compile: "+o.ErrText)
				continue
			}
			code = c
		}
		g := map[string]any{}
		for k, v := range w.env.Globals {
			g[k] = v
		}
		g["mode"] = s.Mode
		// Go containers given as globals are converted anew for every invocation: each run starts from the
		// host's (empty) values
		g["hits"] = []any{}
		g["tally"] = map[string]any{}
		var err error
		if m == nil {
			m = vm.New(w.main, vm.WithGlobals(g), vm.WithOS(w.env.OS))
			err = m.RunCode(ctx, code, vm.WithGlobals(g))
		} else if s.Bare {
			err = m.RunCode(ctx, code)
		} else {
			err = m.RunCode(ctx, code, vm.WithGlobals(g))
		}
		var v object.Object
		if err == nil {
			if t, ok := m.TOS(); ok {
				v = t
			}
			if s.Kind == "deff" {
				if f, gerr := m.Get("f"); gerr == nil {
					if ff, ok := f.(*object.Function); ok {
						fn = ff
					}
				}
			}
		}
		out = append(out, render(v, err))
	}
	return out
}

func render(v object.Object, err error) string {
	if err != nil {
		cls, _ := rt.Classify(err.Error())
		return "error(" + cls + ")"
	}
	if v == nil {
		return "<no value>"
	}
	return safeInspect(v)
}

func plainAlphabet(thorough bool) []plainStep {
	var out []plainStep
	for _, k := range plainAlphabetKinds(thorough) {
		modes := []int{0}
		if k == "in" || k == "clo" {
			modes = []int{1, 2}
		}
		for _, md := range modes {
			out = append(out, plainStep{Kind: k, Mode: md})
			if k != "chainmax" && k != "chainover" {
				out = append(out, plainStep{Kind: k, Mode: md, Fresh: true})
			}
		}
		if k == "gc" || k == "g" {
			out = append(out, plainStep{Kind: k, Bare: true})
		}
	}
	out = append(out, plainStep{Kind: "callf"}, plainStep{Kind: "callfail"}, plainStep{Kind: "run"})
	if thorough {
		out = append(out, plainStep{Kind: "callpanic"})
	}
	return out
}

func plainHistories(r *ev.Run) {
	w0, cerr := newPlainWorld()
	if cerr != "" {
		r.EngineError("plain histories: harness program does not compile: " + cerr)
		return
	}
	alpha := plainAlphabet(r.Thorough())
	maxLen := 3
	if r.Thorough() {
		maxLen = 4
	}
	// what each step returns as the first invocation of a fresh VM (calls: after one deff)
	fresh := map[string]string{}
	for _, s := range alpha {
		if strings.HasPrefix(s.Kind, "call") {
			o := w0.run([]plainStep{{Kind: "deff"}, s})
			fresh[s.String()] = o[len(o)-1]
		} else {
			fresh[s.String()] = w0.run([]plainStep{s})[0]
		}
	}
	var hs [][]plainStep
	var rec func(h []plainStep, hasF bool)
	rec = func(h []plainStep, hasF bool) {
		if len(h) >= 2 {
			hs = append(hs, append([]plainStep{}, h...))
		}
		if len(h) == maxLen {
			return
		}
		for _, s := range alpha {
			if strings.HasPrefix(s.Kind, "call") && !hasF {
				continue
			}
			rec(append(h, s), hasF || s.Kind == "deff")
		}
	}
	rec(nil, false)
	worlds := make([]*plainWorld, 16)
	ev.ParFor(len(hs), func(i int) {
		h := hs[i]
		w := worlds[i%16]
		_ = w
		wl, _ := newPlainWorld() // shared code objects belong to one history: a code object is not run on two VMs at once
		got := wl.run(h)
		r.Eval(1)
		lastDeff := -1
		for j, s := range h {
			if s.Kind == "deff" {
				lastDeff = j
			}
			if j >= len(got) {
				break
			}
			want := fresh[s.String()]
			if s.Kind == "run" && j > 0 && (h[j-1].Kind == "run" || strings.HasPrefix(h[j-1].Kind, "call")) {
				continue // a Run directly after a Run (or after calls that followed one) continues a finished program: nothing to judge
			}
			if strings.HasPrefix(got[j], "GO PANIC") {
				r.Report("C07:plain:gopanic", fmt.Sprintf("plain history %v: %s", h, got[j]), plainReplay{h}, got[j], want)
				break
			}
			if strings.HasPrefix(s.Kind, "call") {
				// a function whose code was replaced by a later RunCode is the known finding C07-1; not this family's subject
				stale := false
				for q := lastDeff + 1; q < j; q++ {
					if !strings.HasPrefix(h[q].Kind, "call") {
						stale = true
					}
				}
				if stale {
					continue
				}
			}
			if got[j] != want {
				r.Report("C07:plain:differs-from-fresh-vm:"+s.Kind, fmt.Sprintf("plain history %v (' = fresh compilation of the same source, ~ = RunCode without options): invocation %d (%s) returned %s, on a fresh VM it returns %s", h, j, s, ev.Clip(got[j], 120), ev.Clip(want, 120)), plainReplay{h}, got[j], want)
				break
			}
		}
		if i%997 == 0 {
			r.Outcome("plain|" + strings.Join(got, ";"))
		}
	})
	r.Set("plain_histories", len(hs))
	r.Set("plain_alphabet", len(alpha))
	r.Set("plain_max_length", maxLen)
	r.Sample(map[string]any{"family": "plain histories", "history": fmt.Sprint(hs[len(hs)/2]), "fresh_vm_results": fresh})
}

func replayPlain(r *ev.Run, in plainReplay) {
	w, cerr := newPlainWorld()
	if cerr != "" {
		r.EngineError(cerr)
		return
	}
	got := w.run(in.Plain)
	for j, s := range in.Plain {
		var want string
		if strings.HasPrefix(s.Kind, "call") {
			w2, _ := newPlainWorld()
			o := w2.run([]plainStep{{Kind: "deff"}, s})
			want = o[len(o)-1]
		} else {
			w2, _ := newPlainWorld()
			want = w2.run([]plainStep{s})[0]
		}
		g := "<not reached>"
		if j < len(got) {
			g = got[j]
		}
		fmt.Printf("invocation %d %s: %s (fresh VM: %s)\n", j, s, g, want)
		if g != want {
			r.Report("replayed", fmt.Sprintf("invocation %d (%s) returned %s, on a fresh VM %s", j, s, g, want), in, g, want)
			return
		}
	}
	r.Eval(1)
}
