// Package c06: cancelling the context stops the evaluation and everything it started.
//
// Stateless model checking of the implementation under internal/dsched: for every program shape
// (loop forms, callbacks inside builtins, blocked channel/sleep/wait operations, spawned goroutines
// nested to depth 2-3) and every cancellation instant k (the canceller's gate opens when the main
// task has taken k scheduling points; every VM instruction is a scheduling point), all schedules
// within the deviation bound are enumerated: delaying the cancel, the watcher goroutines and the
// children relative to each other. Promptness is counted in VM instructions, never in wall time.
package c06

import (
	"context"
	"errors"
	"fmt"
	"os"
	"strings"
	"sync/atomic"
	"time"

	modtime "github.com/risor-io/risor/modules/time"
	"github.com/risor-io/risor/object"
	"github.com/risor-io/risor/op"
	"github.com/risor-io/risor/vm"

	"verif/internal/dsched"
	"verif/internal/ev"
	"verif/internal/rt"
)

type shape struct {
	Name string
	Src  string
	Pre  string // mode "cross" only: what the earlier invocation, under another context, ran
	Ks   []int  // cancellation instants of its own (instead of 0..maxK)
}

// fullStackShapes: the cancellation is noticed while the operand stack is full to the last slot, one below, two
// below: a function with a deferred builtin call builds a list literal of N constants (one push per instruction),
// the canceller's gate opens at every instant in a window around the N-th push. Whatever the clean-up of the
// halted call does with the operands it finds, the evaluation reports its context's error.
func fullStackShapes(thorough bool) []shape {
	var out []shape
	ns, lo, hi := []int{1022, 1023}, 1024, 1040
	if thorough {
		ns, lo, hi = []int{1019, 1020, 1021, 1022, 1023}, 1012, 1048
	}
	var ks []int
	for k := lo; k <= hi; k++ {
		ks = append(ks, k)
	}
	for _, n := range ns {
		for _, deferred := range []string{"defer close(d)\n", "defer len(\"ab\")\n", ""} {
			out = append(out, shape{Name: fmt.Sprintf("list-of-%d-operands-in-a-function%s", n, map[bool]string{true: "-with-a-deferred-builtin", false: ""}[deferred != ""]),
				Src: "d := chan(1)\nfunc g() {\n" + deferred + "return [" + strings.Repeat("0, ", n) + "tick()]\n}\ng()\nfor { tick() }", Ks: ks})
		}
	}
	// the same with the FRAME stack: a loop with a deferred builtin runs in the last frame the VM has, in the one
	// before it, ... - the deferred call needs a frame of its own when the halted function is unwound
	// (1021 is the deepest at which the loop is reached at all: one more and the evaluation fails by itself)
	fs := []int{1019, 1020, 1021}
	if thorough {
		fs = []int{1012, 1013, 1014, 1015, 1016, 1017, 1018, 1019, 1020, 1021}
	}
	for _, n := range fs {
		for _, deferred := range []string{"defer close(d)\n", "defer func() { tick() }()\n", ""} {
			out = append(out, shape{Name: fmt.Sprintf("loop-at-recursion-depth-%d%s", n, map[bool]string{true: "-with-a-deferred-call", false: ""}[deferred != ""]),
				Src: "d := chan(1)\nfunc h() {\n" + deferred + "for { tick() }\n}\nfunc rec(n) {\nif n == 0 { return h() }\nreturn rec(n - 1)\n}\nrec(" + fmt.Sprint(n) + ")", Ks: []int{14000}})
		}
	}
	return out
}

func mainShapes() []shape {
	return []shape{
		{Name: "simple-loop", Src: "for { tick() }"},
		{Name: "cond-loop", Src: "i := 0\nfor i >= 0 { i++\n tick() }"},
		{Name: "three-part-loop", Src: "for i := 0; i >= 0; i++ { tick() }"},
		{Name: "range-loop", Src: "for i := range 1000000000 { tick() }"},
		{Name: "for-in-loop", Src: "for v in 1000000000 { tick() }"},
		{Name: "empty-loop", Src: "for { }"},
		{Name: "mutual-recursion", Src: "func a() { for { b() } }\nfunc b() { tick() }\na()"},
		{Name: "deep-recursion", Src: "func r(n) { tick()\n if n > 400 { for { tick() } }\n return r(n + 1) }\nr(0)"},
		{Name: "recv-blocked", Src: "ch := chan()\n<-ch"},
		{Name: "recv-method-blocked", Src: "ch := chan()\nch.receive()"},
		{Name: "send-blocked", Src: "ch := chan()\nch <- 1"},
		{Name: "range-chan-blocked", Src: "ch := chan()\nfor v in ch { tick() }"},
		{Name: "wait-blocked", Src: "t := spawn(func() { c := chan()\n <-c })\nt.wait()"},
		// waiting, in a later invocation with its own context, for a thread that an earlier invocation
		// started under another context (mode "cross" only): the cancellation of the waiter's context
		// ends the wait although nothing ends the thread
		{Name: "wait-on-thread-of-an-earlier-run", Src: "t.wait()", Pre: "t := spawn(func() { c := chan()\n <-c })"},
		// the same for everything else that can be carried from one invocation to the next: a channel, an
		// iterator that the earlier invocation has already advanced, a closure
		{Name: "receive-blocked-on-channel-of-an-earlier-run", Src: "<-ch", Pre: "ch := chan()"},
		{Name: "send-blocked-on-channel-of-an-earlier-run", Src: "ch <- 1", Pre: "ch := chan()"},
		{Name: "range-blocked-on-iterator-of-an-earlier-run", Src: "for v := range it { tick() }", Pre: "ch := chan(1)\nit := iter(ch)\nch <- 1\nfor v := range it { break }"},
		{Name: "for-in-blocked-on-channel-iterated-by-an-earlier-run", Src: "for v in ch { tick() }", Pre: "ch := chan(2)\nch <- 1\nfor v in ch { break }"},
		{Name: "loop-in-closure-of-an-earlier-run", Src: "f()", Pre: "f := func() { for { tick() } }"},
		{Name: "sleep", Src: "time.sleep(3600)"},
		// code that follows the blocking operation and fails on what it left half done: the evaluation ended
		// because its context did, and must say so, not report the follow-up failure
		{Name: "sleep-blocked-then-failing-statement", Src: "time.sleep(3600)\n[][0]"},
		{Name: "range-chan-blocked-then-failing-statement", Src: "ch := chan()\nl := []\nfor v in ch { l.append(v) }\nl[0]"},
		{Name: "list-of-chan-blocked-then-failing-statement", Src: "ch := chan()\nlist(ch)[0]"},
		{Name: "sleep-blocked-then-raised-error", Src: "time.sleep(3600)\nerror(\"boom\")"},
		{Name: "loop-in-map-callback", Src: "[1, 2, 3].map(func(x) { for { tick() } })"},
		{Name: "loop-in-each-callback", Src: "[1, 2].each(func(x) { for { tick() } })"},
		{Name: "loop-in-filter-callback", Src: "[1, 2].filter(func(x) { for { tick() } })"},
		{Name: "loop-in-sorted-callback", Src: "sorted([2, 1, 3], func(a, b) { for { tick() } })"},
		{Name: "loop-in-try", Src: "try(func() { for { tick() } })\nfor { tick() }"},
		{Name: "blocked-in-try", Src: "ch := chan()\ntry(func() { <-ch }, func(e) { 1 })\nfor { tick() }"},
		{Name: "loop-in-call", Src: "call(func() { for { tick() } })"},
	}
}

// child prefixes: code placed before the main shape that starts goroutines
func childPrefixes(thorough bool) []shape {
	out := []shape{
		{Name: "no-children", Src: ""},
		{Name: "go-looping-child", Src: "go func() { for { tick() } }()\n"},
		{Name: "spawn-looping-child", Src: "spawn(func() { for { tick() } })\n"},
		{Name: "fnspawn-looping-child", Src: "func lp() { for { tick() } }\nlp.spawn()\n"},
		{Name: "spawn-blocked-child", Src: "spawn(func() { c := chan()\n <-c })\n"},
		// the spawned callable is a builtin that carries the script callback
		{Name: "spawn-builtin-with-looping-callback", Src: "ll := [1]\nspawn(ll.each, func(x) { for { tick() } })\n"},
		{Name: "go-builtin-with-looping-callback", Src: "ll := [1]\ngo ll.map(func(x) { for { tick() } })\n"},
		{Name: "nested-2", Src: "spawn(func() { spawn(func() { for { tick() } })\n for { tick() } })\n"},
	}
	if thorough {
		out = append(out,
			shape{Name: "nested-3", Src: "spawn(func() { spawn(func() { go func() { for { tick() } }()\n c := chan()\n <-c })\n for { tick() } })\n"},
			shape{Name: "two-children", Src: "spawn(func() { for { tick() } })\ngo func() { c := chan()\n <-c }()\n"},
			shape{Name: "child-sleeps", Src: "spawn(func() { time.sleep(3600) })\n"},
			shape{Name: "child-in-callback", Src: "spawn(func() { [1].map(func(x) { for { tick() } }) })\n"},
		)
	}
	return out
}

type state struct {
	ctx            context.Context
	cancel         context.CancelFunc
	env            *rt.Env
	out            rt.Outcome
	returned       int32
	ticksAfter     int32
	stepsAfter     int32
	haltedSteps    int32 // instructions dispatched by a VM whose halt flag was already set
	idleCancel     bool
	cancelIssued   int32
	pointsAtCancel int32
	ctxA           context.Context    // mode "cross": the context of the earlier invocation
	cleanup        context.CancelFunc // mode "cross": ends the earlier invocation's thread once the scenario is over
}

// whenBlocked as cancellation instant: the canceller waits until the main task is blocked.
const whenBlocked = 1 << 20

type caseT struct {
	Child, Main shape
	K           int
	// Mode: "" = one Run on a fresh VM; "rerun" = the program is the second RunCode on a VM that has
	// already completed a run under the same context; "call" = the program is the body of a function
	// invoked with vm.Call after a RunCode under the same context (what risor.Call does)
	Mode string
	// Deadline: the context of the evaluation also has a deadline (an hour away); it is cancelled long before
	Deadline bool `json:"deadline,omitempty"`
}

func (c caseT) name() string {
	m := ""
	if c.Mode != "" {
		m = " [" + c.Mode + " on a reused VM, same context]"
		if c.Mode == "cross" {
			m = " [a Call under its own context on a VM whose earlier run, under another context, started the thread]"
		}
	}
	if c.Deadline {
		m += " [the context has a deadline an hour away]"
	}
	if c.K >= whenBlocked {
		return fmt.Sprintf("%s + %s, cancel when the main task has blocked%s", c.Child.Name, c.Main.Name, m)
	}
	return fmt.Sprintf("%s + %s, cancel at main point %d%s", c.Child.Name, c.Main.Name, c.K, m)
}

// runReused performs the evaluation of src as a later invocation on a VM that has already been
// used with the same context.
func runReused(st *state, src, mode, pre string) rt.Outcome {
	var o rt.Outcome
	first, o1 := st.env.Compile("1")
	if first == nil {
		return o1
	}
	body := src
	if mode == "call" {
		body = "func entry() {\n" + src + "\n}\n0"
	}
	runCtx := st.ctx
	if mode == "cross" {
		// the first RunCode runs under a context of its own that is never cancelled during the scenario
		body = pre + "\nfunc entry() {\n" + src + "\n}\n0"
		var stop context.CancelFunc
		runCtx, stop = context.WithCancel(context.Background())
		st.ctxA, st.cleanup = runCtx, stop
	}
	code, o2 := st.env.Compile(body)
	if code == nil {
		return o2
	}
	m := vm.New(first, vm.WithGlobals(st.env.Globals), vm.WithOS(st.env.OS), vm.WithConcurrency())
	fail := func(err error) rt.Outcome {
		o.Stage, o.Err, o.ErrText = "run", err, err.Error()
		return o
	}
	if err := m.Run(runCtx); err != nil {
		return fail(err)
	}
	if err := m.RunCode(runCtx, code); err != nil {
		return fail(err)
	}
	if mode == "call" || mode == "cross" {
		f, err := m.Get("entry")
		if err != nil {
			return fail(err)
		}
		if _, err := m.Call(st.ctx, f.(*object.Function), nil); err != nil {
			return fail(err)
		}
	}
	o.Stage = "ok"
	return o
}

func (c caseT) scenario() *dsched.Scenario {
	src := c.Child.Src + c.Main.Src
	return &dsched.Scenario{
		Name:              c.name(),
		Horizon:           60,
		Fair:              4,
		EnvUrgent:         true,
		MaxSteps:          20000,
		NoBranchAfterRoot: true,
		// a blocked operation whose channel becomes ready at the moment the context is cancelled may
		// take either select branch; both are judged by the same oracle (the returned error must be
		// the context's error) and the scheduler-level trace does not depend on the branch taken
		AllowSelectRace: true,
		Setup: func() any {
			st := &state{}
			st.ctx, st.cancel = context.WithCancel(context.Background())
			if c.Deadline {
				st.ctx, st.cancel = context.WithDeadline(context.Background(), time.Now().Add(time.Hour))
			}
			return st
		},
		StepPoint: func(x *dsched.Exec, t *dsched.Task, m *vm.VirtualMachine, code op.Code) bool {
			if m.VerifHalted() {
				// this instruction is dispatched although the VM's halt flag is already set
				atomic.AddInt32(&x.State.(*state).haltedSteps, 1)
			}
			return true
		},
		Stop: func(x *dsched.Exec, sti any) bool {
			st := sti.(*state)
			if atomic.LoadInt32(&st.haltedSteps) > 40 {
				return true
			}
			if atomic.LoadInt32(&st.cancelIssued) == 1 && !x.RootEnded() {
				if m := x.Task(0); m != nil && m.Points-int(atomic.LoadInt32(&st.pointsAtCancel)) > 600 {
					return true // the main task is still running 600 instructions after the cancel
				}
			}
			return false
		},
		Body: func(x *dsched.Exec, sti any) {
			st := sti.(*state)
			st.env = rt.NewEnv(map[string]any{
				"time": modtime.Module(),
				"tick": object.NewBuiltin("tick", func(ctx context.Context, args ...object.Object) object.Object {
					if atomic.LoadInt32(&st.returned) == 1 {
						atomic.AddInt32(&st.ticksAfter, 1)
					}
					return object.Nil
				}),
			})
			if c.Mode != "" {
				st.out = runReused(st, src, c.Mode, c.Main.Pre)
				atomic.StoreInt32(&st.returned, 1)
				if st.cleanup != nil {
					x.Cancel(st.ctxA, st.cleanup) // the thread of the earlier invocation is not this scenario's subject
				}
				return
			}
			code, o := st.env.Compile(src)
			if code == nil {
				st.out = o
				atomic.StoreInt32(&st.returned, 1)
				return
			}
			st.out = st.env.RunCodeCtx(st.ctx, code)
			atomic.StoreInt32(&st.returned, 1)
		},
		Env: []func(x *dsched.Exec, st any){
			func(x *dsched.Exec, sti any) {
				st := sti.(*state)
				k := c.K
				early := false
				idle := x.EnvGateOrIdle("cancel", func() bool {
					m := x.Task(0)
					if k >= whenBlocked {
						// the cancellation comes when the main task has blocked (or ended), however many
						// instructions that takes
						return m != nil && (m.Ended() || x.Blocked(m))
					}
					if m != nil && m.Points < k && !m.Ended() && x.Blocked(m) {
						// the main task blocks before its k-th instruction: with a spinning child the system never
						// goes idle, so this is the last instant there is
						early = true
						return true
					}
					return m != nil && (m.Points >= k || m.Ended())
				})
				st.idleCancel = idle || early
				if m := x.Task(0); m != nil {
					atomic.StoreInt32(&st.pointsAtCancel, int32(m.Points))
				}
				atomic.StoreInt32(&st.cancelIssued, 1)
				x.Cancel(st.ctx, st.cancel)
			},
		},
		Check: func(x *dsched.Exec, sti any) (string, string) { return c.judge(x, sti.(*state)) },
	}
}

func (c caseT) judge(x *dsched.Exec, st *state) (violation, key string) {
	main := x.Task(0)
	key = fmt.Sprintf("stage=%s canceled=%v idle=%v", st.out.Stage, errors.Is(st.out.Err, context.Canceled) || st.out.ErrText == context.Canceled.Error(), st.idleCancel)
	if st.out.Stage == "parse" || st.out.Stage == "compile" {
		return "harness program does not compile: " + st.out.ErrText, key
	}
	if n := atomic.LoadInt32(&st.haltedSteps); n > 3 {
		return fmt.Sprintf("%d instructions were executed by a VM whose halt flag was already set", n), "not-prompt"
	}
	if x.Stopped && !main.Ended() {
		return "the evaluation did not return: 600 instructions after its context was cancelled it is still running", "main-not-returned"
	}
	if x.Deadlock {
		if !main.Ended() {
			return "the evaluation is still blocked after its context was cancelled (no task can run)", "deadlock-main"
		}
		return "after the evaluation returned, tasks it started are blocked forever: " + describe(x), "deadlock-children"
	}
	if !main.Ended() {
		return "the evaluation did not return after its context was cancelled: " + describe(x), "main-not-returned"
	}
	if st.out.Stage == "ok" {
		// no main shape ends by itself: an evaluation that returns without an error has taken the cancellation
		// for the end of what it was blocked in (a sleep, a loop over a channel) and finished before the
		// halt flag was set. The statement wants the context's error.
		return "the evaluation returned without an error although it can only have ended because its context was cancelled", key + " finished"
	}
	if !errors.Is(st.out.Err, context.Canceled) && st.out.ErrText != context.Canceled.Error() {
		return fmt.Sprintf("the evaluation returned %q instead of the context's error", st.out.ErrText), key
	}
	if n := atomic.LoadInt32(&st.haltedSteps); n > 3 {
		return fmt.Sprintf("%d instructions were executed by a VM whose halt flag was already set", n), key
	}
	if len(x.Leftover) > 0 {
		return fmt.Sprintf("script code keeps executing after the evaluation returned (%d ticks, still running: %s)", atomic.LoadInt32(&st.ticksAfter), strings.Join(x.Leftover, "; ")), "leftover"
	}
	return "", key
}

func describe(x *dsched.Exec) string {
	var parts []string
	for _, t := range x.Tasks() {
		if !t.Ended() {
			parts = append(parts, fmt.Sprintf("t%d(%s)", t.ID, t.Label))
		}
	}
	return strings.Join(parts, " ")
}

type replayIn struct {
	Case     caseT `json:"case"`
	Schedule []int `json:"schedule"`
}

func Check(r *ev.Run, replay string) {
	if replay != "" {
		var in replayIn
		if err := ev.ReadReplay(replay, &in); err != nil {
			r.EngineError(err.Error())
			return
		}
		sc := in.Case.scenario()
		x, e := dsched.Replay(sc, in.Schedule)
		v, key := in.Case.judge(x, x.State.(*state))
		fmt.Printf("%s\n%s\nschedule %v\ntrace %v\nengine error %q\noutcome %s\nviolation %q\n", in.Case.name(), in.Case.Child.Src+in.Case.Main.Src, in.Schedule, x.Trace, e, key, v)
		if v != "" {
			r.Report("replayed", v, in, v, "")
		}
		r.Set("states", 1)
		r.Set("transitions", len(x.Choices)+1)
		r.Set("traces_validated_against_impl", 1)
		return
	}
	bound, maxK, limit := 1, 8, 8000
	mains := mainShapes()
	if r.Thorough() {
		bound, maxK, limit = 2, 14, 20000
	}
	mains = append(mains, fullStackShapes(r.Thorough())...)
	children := childPrefixes(r.Thorough())
	shards := 16
	if r.Thorough() {
		shards = 1024 // each worker keeps the goroutines of abandoned executions alive: many small workers
	}
	r.Sharded(shards, func(shard, nShards int) {
		total, points, cases, idx := 0, 0, 0, 0
		for ci, ch := range children {
			for mi, mn := range mains {
				if !r.Thorough() && ci > 0 && mi%3 != ci%3 {
					continue // quick: every child prefix with a third of the main shapes (all shapes without children)
				}
				idx++
				if idx%nShards != shard {
					continue
				}
				if only := os.Getenv("VERIF_C06_MAIN"); only != "" && only != mn.Name {
					continue
				}
				modes := []string{"", "rerun", "call"}
				if len(mn.Ks) > 0 {
					if ci != 0 {
						continue
					}
					modes = []string{""}
				}
				if mn.Pre != "" {
					if ci != 0 {
						continue
					}
					modes = []string{"cross"}
				}
				for _, mode := range modes {
					if mode == "call" && mn.Name == "mutual-recursion" {
						continue // forward references between named functions only exist at the top level
					}
					if mode != "" && mode != "cross" && (ci > 1 || (!r.Thorough() && mi%2 == 1)) {
						continue // reused-VM modes: without children and with the go-looping child; quick: every other main shape
					}
					ks := []int{}
					for k := 0; k <= maxK; k++ {
						if !r.Thorough() && k > 3 && k%2 == 1 {
							continue
						}
						ks = append(ks, k)
					}
					if len(mn.Ks) > 0 {
						ks = mn.Ks
					}
					if ci == 0 && (strings.Contains(mn.Name, "blocked") || strings.HasPrefix(mn.Name, "wait-") || mn.Name == "sleep") {
						ks = append(ks, whenBlocked) // and once the main task has blocked
					}
					type kd struct {
						k        int
						deadline bool
					}
					var kds []kd
					for _, k := range ks {
						kds = append(kds, kd{k, false})
					}
					if ci <= 1 && mode == "" && strings.Contains(mn.Src+ch.Src, "sleep") {
						// a context that has a deadline as well and is cancelled long before it: the sleeps (of the main
						// task, of a child) end at the cancellation, not at the deadline
						for _, k := range ks {
							kds = append(kds, kd{k, true})
						}
					}
					for _, kdv := range kds {
						k := kdv.k
						c := caseT{ch, mn, k, mode, kdv.deadline}
						sc := c.scenario()
						b := bound
						if b > 1 && (mode != "" || k > 8 || ci > 2) {
							b = 1 // thorough: two deviations for the fresh-VM scenarios without children or with one looping child up to instant 8, one deviation elsewhere
						}
						if mode != "" && k > 12 {
							continue
						}
						if len(mn.Ks) > 0 {
							// a thousand instructions per execution: the instants are swept, the schedule around each is the default
							// one (thorough: one deviation)
							b = 0
							if r.Thorough() && k < 2000 {
								b = 1 // (not for the deep-frame shapes: fourteen thousand instructions per execution)
							}
						}
						st := dsched.Explore(sc, b, limit)
						cases++
						total += st.Executions
						points += st.Points
						r.Eval(st.Executions)
						idleOnly := true
						for key := range st.Outcomes {
							r.Outcome(ch.Name + "|" + mn.Name + "|" + key)
							if !strings.Contains(key, "idle=true") {
								idleOnly = false
							}
						}
						if cases%29 == 1 {
							r.Sample(map[string]any{"case": c.name(), "source": ch.Src + mn.Src, "executions": st.Executions, "bound_completed": st.BoundCompleted, "outcomes": len(st.Outcomes)})
						}
						if st.EngineError != "" {
							r.EngineError(c.name() + ": " + st.EngineError)
							break
						}
						if st.Capped {
							r.Cap(fmt.Sprintf("%s: %d executions, bound %d completed", c.name(), st.Executions, st.BoundCompleted))
						}
						if st.Violation != "" {
							r.Report(signature(ch, mn, st.Violation), c.name()+"\n  "+strings.ReplaceAll(ch.Src+mn.Src, "\n", "; ")+"\n  "+st.Violation, replayIn{c, st.ViolationSched}, st.Violation, "the evaluation returns the context's error promptly and nothing it started keeps running")
							break
						}
						if idleOnly && st.Executions > 0 {
							break // the main task blocks before point k: later instants are the same execution
						}
					}
				}
			}
		}
		r.Add("transitions", points)
		r.Add("traces_validated_against_impl", total)
		r.Add("states", points+total)
		r.Add("cases", cases)
	})
	finish(r, bound, maxK)
}

func finish(r *ev.Run, bound, maxK int) {
	r.Set("deviation_bound", bound)
	r.Set("max_cancellation_instant", maxK)
	r.Set("rule", fmt.Sprintf("child prefixes x main shapes x cancellation instants 0..%d (the canceller's gate opens when the main task has taken k scheduling points = VM instructions, or when the system is idle; for the main shapes that block, also the instant at which the main task has blocked, however many instructions that takes) x every schedule with at most %d deviations (delayed cancel, preempted watcher/child/main; thorough: 2 up to instant 8 for the scenarios without children or with one looping child, 1 elsewhere; the reused-VM modes - RunCode and Call on a VM that already ran with the same context - with at most 1 and up to instant 12); a list literal of 1019..1023 constants in a function with and without a deferred builtin, cancelled at every instant in a window around the last push (the stack exactly full when the halt is noticed); fairness 4 bounds spinning; horizon 60 decisions after the evaluation returned", maxK, bound))
}

func signature(ch, mn shape, v string) string {
	kind := "other"
	switch {
	case strings.Contains(v, "keeps executing"):
		kind = "spawned-code-survives-cancel"
	case strings.Contains(v, "blocked operation did not return"):
		kind = "blocked-forever"
	case strings.Contains(v, "still blocked"):
		kind = "blocked-forever"
	case strings.Contains(v, "did not return"):
		kind = "no-return"
	case strings.Contains(v, "instead of the context's error"), strings.Contains(v, "returned without an error"):
		kind = "wrong-error"
	case strings.Contains(v, "halt flag"):
		kind = "not-prompt"
	case strings.Contains(v, "blocked forever"):
		kind = "children-blocked"
	}
	c := "with-children"
	if ch.Src == "" {
		c = "no-children"
	}
	return "C06:" + kind + ":" + c
}
