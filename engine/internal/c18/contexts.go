package c18

import (
	"sort"
	"fmt"
	"sync/atomic"

	"verif/internal/ev"
	. "verif/internal/lang"
	"verif/internal/progen"
)

// Rejected pieces of every syntactic shape. The piece alphabet has a handful of rejected pieces; what a
// rejected piece may leave behind in the compiler (a mode flag, a loop or scope stack, a half-built
// child code object) depends on WHERE in the syntax the compiler gave up. This family takes every
// expression-bearing context of the composition family F8 (61 statement and expression slots), directly
// and through 16 wrappers, and fills it with an undefined name in eight positions (bare, inside a function
// literal that is called / that is a pipe stage, inside the arguments of a pipe stage, a ternary branch, an
// if-expression block, an interpolation, a call target). Sessions: [definitions, rejected piece, probe] and
// [definitions, probe, rejected piece, probe]; the probe piece uses calls, a pipe, a loop left by break, a
// switch, a closure, a deferred call and try, so a compiler that is still "inside" the rejected construct
// shows. Oracle: the reference session (a rejected piece has no effect).

func contextAlphabet() []piece {
	probe := []*N{
		Var("total", call("add", Int(3), Int(1))),
		Var("p", Pipe(List(Int(1), Int(2), Int(3)), Id("len"))),
		Var("acc", Int(0)),
		ForRange("i", Int(5), If(Bin("==", Id("i"), Int(3)), []*N{Break()}, nil), Assign(Id("acc"), "+=", Id("i"))),
		Var("sw", Int(0)),
		Switch(Id("total"), Case{Vals: []*N{Int(31)}, Body: []*N{Set1("sw", Int(1))}}, Case{Default: true, Body: []*N{Set1("sw", Int(2))}}),
		Var("f", Func("", P("a"), Return(Bin("+", Id("a"), Id("x"))))),
		Var("d", Call(Func("", nil, Defer(call("t", Int(5))), Return(Int(2))))),
		Set1("x", Bin("+", Id("x"), Int(1))),
		Expr(List(Id("total"), Id("p"), Id("acc"), Id("sw"), call("f", Int(1)), Id("d"),
			call("try", Func("", nil, Expr(call("error", Str("e")))), Func("", P("e"), Return(Int(9)))),
			Pipe(Int(4), Id("inc")))),
	}
	alpha := []piece{
		{Name: "definitions", Prog: progen.F8Prelude()},
		{Name: "probe", Prog: probe},
	}
	progen.F8Rejected(func(meta string, body []*N) {
		alpha = append(alpha, piece{Group: "contexts", Name: meta, Prog: body})
	})
	// a function literal that is rejected in its PARAMETER LIST, before its body is looked at: a default that names
	// nothing, the same parameter twice, a default in front of a parameter without one, a parameter named like the
	// function - as a named function, as a value, as a call argument, inside a block and inside another function
	bad := map[string][]Param{
		"default-undefined":     {{Name: "a", Def: Id("nosuch")}},
		"default-undefined-2nd": {{Name: "a"}, {Name: "b", Def: Id("nosuch")}},
		"duplicate-parameter":   {{Name: "a"}, {Name: "a"}},
		"default-before-plain":  {{Name: "a", Def: Int(1)}, {Name: "b"}},
		"named-like-function":   {{Name: "pf"}},
		"default-negative":      {{Name: "a", Def: Pre("-", Int(1))}},
	}
	var kinds []string
	for k := range bad {
		kinds = append(kinds, k)
	}
	sort.Strings(kinds)
	for _, k := range kinds {
		ps := bad[k]
		body := []*N{Return(Int(1))}
		alpha = append(alpha,
			piece{Group: "contexts", Name: "parameter-list " + k + " named-function", Prog: []*N{FuncDecl("pf", ps, body...)}},
			piece{Group: "contexts", Name: "parameter-list " + k + " function-value", Prog: []*N{Var("pv", Func("pf", ps, body...))}},
			piece{Group: "contexts", Name: "parameter-list " + k + " call-argument", Prog: []*N{Expr(call("add", Func("pf", ps, body...), Int(1)))}},
			piece{Group: "contexts", Name: "parameter-list " + k + " in-block", Prog: []*N{If(Bool(true), []*N{Var("pv", Func("pf", ps, body...))}, nil)}},
			piece{Group: "contexts", Name: "parameter-list " + k + " after-statement", Prog: []*N{Var("before", Int(1)), FuncDecl("pf", ps, body...)}},
			piece{Group: "contexts", Name: "parameter-list " + k + " in-function", Prog: []*N{FuncDecl("outerpf", nil, Var("pv", Func("pf", ps, body...)), Return(Int(2)))}},
		)
	}
	return alpha
}

func contextSessions(r *ev.Run) (alpha []piece, seqs [][]int) {
	alpha = contextAlphabet()
	for k := 2; k < len(alpha); k++ {
		seqs = append(seqs, []int{0, k, 1}, []int{0, 1, k, 1})
	}
	return
}

func runContexts(r *ev.Run) int {
	alpha, seqs := contextSessions(r)
	var next int64 = -1
	var notRejected int64
	done := make(chan bool)
	for w := 0; w < 16; w++ {
		go func() {
			env := newEnv()
			for {
				i := int(atomic.AddInt64(&next, 1))
				if i >= len(seqs) {
					break
				}
				want, _, ok := model(alpha, seqs[i])
				if ok {
					for j, k := range seqs[i] {
						if k >= 2 && want[j].Status != "rejected" {
							ok = false // the model accepts this composition: not a member of the family
						}
					}
				}
				if !ok {
					atomic.AddInt64(&notRejected, 1)
					continue
				}
				key := judgeFam(r, env, alpha, seqs[i], false, "contexts")
				r.Outcome("contexts|" + key)
				r.Eval(1)
			}
			done <- true
		}()
	}
	for w := 0; w < 16; w++ {
		<-done
	}
	r.Set("rejected_composition_pieces", len(alpha)-2)
	r.Set("rejected_composition_sessions", len(seqs)-int(notRejected))
	r.Set("rejected_composition_sessions_outside_model", int(notRejected))
	r.Sample(map[string]any{"family": "contexts", "rejected_piece": alpha[len(alpha)/2].src(), "probe": alpha[1].src()})
	_ = fmt.Sprint
	return len(seqs) - int(notRejected)
}
