package c18

import (
	"fmt"

	"verif/internal/ev"
)

// Pieces that run into one of the VM's limits. The reference session has no limits, so this family is differential
// within the implementation: a session [definitions, probe] against the same session with a piece in between that
// fails AT a limit - a chain of deferred calls one longer than the call-depth limit allows, plain recursion past
// the frame limit, a list literal past the operand limit. The piece fails and defines nothing; the probe after it
// has to fare exactly as it does without it. The probes need exactly as much as a fresh session allows: the
// harness finds those sizes itself (the largest deferred chain / recursion depth / literal that a fresh session
// accepts), so that one unit of budget lost to the failed piece shows.
func limitSessions(r *ev.Run) {
	defs := "func chain(n) {\n if n > 0 { defer chain(n - 1) }\n return n\n}\nfunc rec(n) {\n if n == 0 { return 0 }\n return 1 + rec(n - 1)\n}\n"
	env := newEnv()
	works := func(probe string) bool {
		steps, _, _, pan := incremental(env, []piece{{Raw: defs}, {Raw: probe}}, []int{0, 1})
		return pan == "" && len(steps) == 2 && steps[1].Status == "ok"
	}
	largest := func(format string) int {
		best := 0
		for n := 900; n <= 1100; n++ {
			if works(fmt.Sprintf(format, n)) {
				best = n
			}
		}
		return best
	}
	maxChain, maxRec := largest("a := chain(%d)\na"), largest("a := rec(%d)\na")
	r.Set("limit_largest_deferred_chain", maxChain)
	r.Set("limit_largest_recursion", maxRec)
	if maxChain == 0 || maxRec == 0 {
		r.EngineError(fmt.Sprintf("limit sessions: no working size found (chain %d, recursion %d)", maxChain, maxRec))
		return
	}
	failing := []string{
		fmt.Sprintf("b := chain(%d)", maxChain+1), fmt.Sprintf("b := chain(%d)", maxChain+2), fmt.Sprintf("b := chain(%d)", maxChain+50),
		fmt.Sprintf("b := rec(%d)", maxRec+1), fmt.Sprintf("b := rec(%d)", maxRec+2), "b := rec(5000)",
		"func f() { defer f() }\nf()", "func g() { return g() }\ng()",
		fmt.Sprintf("b := [chain(%d), chain(%d)]", maxChain+1, maxChain+1),
		"b := try(func() { return chain(" + fmt.Sprint(maxChain+1) + ") }, func(e) { return -1 })",
	}
	probes := []string{fmt.Sprintf("a := chain(%d)\na", maxChain), fmt.Sprintf("a := chain(%d)\na", maxChain-1), fmt.Sprintf("a := rec(%d)\na", maxRec), fmt.Sprintf("a := rec(%d)\na", maxRec-1), "a := chain(3) + rec(3)\na"}
	n := 0
	for _, probe := range probes {
		base, _, _, pan0 := incremental(env, []piece{{Raw: defs}, {Raw: probe}}, []int{0, 1})
		for _, bad := range failing {
			for reps := 1; reps <= 3; reps++ {
				n++
				r.Eval(1)
				alpha := []piece{{Raw: defs}, {Raw: bad}, {Raw: probe}}
				seq := []int{0}
				for k := 0; k < reps; k++ {
					seq = append(seq, 1)
				}
				seq = append(seq, 2)
				got, _, _, pan := incremental(env, alpha, seq)
				in := replayIn{Family: "limits", Pieces: []string{defs, bad, probe}}
				switch {
				case pan != "" || pan0 != "":
					r.Report("C18:limits:gopanic", "a Go panic escaped the session ["+bad+"] x "+fmt.Sprint(reps)+" then ["+probe+"]: "+pan+pan0, in, pan+pan0, "no panic")
				case len(got) != len(seq) || len(base) != 2:
					r.EngineError("limit sessions: unexpected number of steps")
				case got[len(got)-1].String() != base[1].String():
					r.Report("C18:limits:probe-fares-differently-after-a-piece-that-failed-at-a-limit", fmt.Sprintf("pieces [definitions] [%s] x %d [%s]: the last piece gives %s; without the failed piece(s) before it, it gives %s", bad, reps, probe, got[len(got)-1], base[1]), in, got[len(got)-1].String(), base[1].String())
				default:
					r.Outcome("limits|" + got[1].Status + "|" + got[len(got)-1].Status)
				}
			}
		}
	}
	r.Add("limit_sessions", n)
}
