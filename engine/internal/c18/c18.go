// Package c18: incremental (REPL-style) evaluation equals whole-program evaluation.
//
// Explicit-state search over piece histories: every sequence of <= N pieces over an alphabet of
// accepted, rejected and failing pieces is fed to one compiler and one VM exactly the way
// cmd/risor/repl does, and compared with (a) a reference session model (internal/refsem.Session),
// (b) the whole-program evaluation of the accepted pieces, (c) the same history without its
// rejected pieces. States are merged on (global values, accepted-piece list); un-merged histories
// are all executed, the merge only counts states.
package c18

import (
	"context"
	"fmt"
	"sort"
	"strings"
	"sync/atomic"

	"github.com/risor-io/risor/compiler"
	"github.com/risor-io/risor/parser"
	"github.com/risor-io/risor/vm"

	"verif/internal/ev"
	. "verif/internal/lang"
	"verif/internal/refsem"
	"verif/internal/rt"
)

type piece struct {
	Group  string // "" = core piece; otherwise the feature group the piece belongs to
	Name   string
	Prog   []*N
	Raw    string // syntax-error pieces have only text
	Syntax bool
}

func (p piece) src() string {
	if p.Raw != "" {
		return p.Raw
	}
	return Src(p.Prog)
}

func call(f string, a ...*N) *N { return Call(Id(f), a...) }

// newEnv: the host provides one global of its own, hostn = 0, which the pieces may reassign.
func newEnv() *rt.Env { return rt.NewEnv(map[string]any{"hostn": 0}) }

func alphabet() []piece {
	pr := func(s string) *N { return Expr(call("print", Str(s))) }
	return []piece{
		{Name: "x:=1", Prog: []*N{Var("x", Int(1))}},
		{Name: "x=x+1", Prog: []*N{Set1("x", Bin("+", Id("x"), Int(1)))}},
		{Name: "x", Prog: []*N{Expr(Id("x"))}},
		{Name: "y:=x*2", Prog: []*N{Var("y", Bin("*", Id("x"), Int(2)))}},
		{Name: "func f", Prog: []*N{FuncDecl("f", nil, Return(Bin("+", Id("x"), Int(100))))}},
		{Name: "f()", Prog: []*N{Expr(call("f"))}},
		{Group: "const", Name: "const c", Prog: []*N{Const("c", Int(3))}},
		{Group: "const", Name: "c=4", Prog: []*N{Set1("c", Int(4))}},
		{Group: "const", Name: "c++", Prog: []*N{Inc("c", "++")}},
		{Group: "const", Name: "x,c=[5,6]", Prog: []*N{MultiSet([]string{"x", "c"}, List(Int(5), Int(6)))}},
		{Name: "undefined", Prog: []*N{Expr(Id("undefined_name"))}},
		{Group: "output", Name: "print;undefined", Prog: []*N{pr("p"), Expr(Id("undefined_name"))}},
		{Name: "syntax", Raw: ")(", Syntax: true},
		{Name: "fail", Prog: []*N{Expr(Index(List(Int(1)), Int(5)))}},
		{Group: "output", Name: "print;fail;print", Prog: []*N{pr("q"), Set1("x", Int(50)), Expr(Index(List(Int(1)), Int(5))), pr("r")}},
		{Group: "closure", Name: "loop", Prog: []*N{ForRange("i", Int(3), Set1("x", Bin("+", Id("x"), Id("i"))))}},
		{Group: "closure", Name: "g:=closure", Prog: []*N{Var("g", Func("", P("a"), Return(Bin("+", Id("a"), Id("x")))))}},
		{Group: "closure", Name: "g(1)", Prog: []*N{Expr(call("g", Int(1)))}},
		{Group: "shadow", Name: "x:=2", Prog: []*N{Var("x", Int(2))}},
		{Group: "shadow", Name: "y", Prog: []*N{Expr(Id("y"))}},
		{Group: "shadow", Name: "if{x:=5;undefined}", Prog: []*N{If(Bool(true), []*N{Var("x", Int(5)), Expr(Bin("+", Id("x"), Id("undefined_name")))}, nil)}},
		{Group: "const", Name: "for x{c=1}", Prog: []*N{ForRange("x", Int(2), Set1("c", Int(1)))}},
		{Group: "shadow", Name: "if{x:=6;x}", Prog: []*N{If(Bool(true), []*N{Var("x", Int(6)), Expr(Id("x"))}, nil)}},
		// functions nested in functions that read and write a global: made by a factory and called in
		// the piece that defines them, then called again after later pieces have changed the global
		{Group: "factory", Name: "h:=mk();h()", Prog: []*N{FuncDecl("mk", nil, Return(Func("", nil, Return(Bin("+", Id("x"), Int(1000)))))), Var("h", call("mk")), Expr(call("h"))}},
		{Group: "factory", Name: "h()", Prog: []*N{Expr(call("h"))}},
		{Group: "factory", Name: "w:=mkw();w()", Prog: []*N{FuncDecl("mkw", nil, Return(Func("", nil, Set1("x", Bin("+", Id("x"), Int(10))), Return(Id("x"))))), Var("w", call("mkw")), Expr(call("w"))}},
		{Group: "factory", Name: "w()", Prog: []*N{Expr(call("w"))}},
		// method and attribute names: a rejected piece that is the first to mention a name, another new name, then the name again
		{Group: "names", Name: "xs:=[1,2]", Prog: []*N{Var("xs", List(Int(1), Int(2)))}},
		{Group: "names", Name: "xs.append(undefined)", Prog: []*N{Expr(Meth(Id("xs"), "append", Id("undefined_name")))}},
		{Group: "names", Name: "to_upper", Prog: []*N{Expr(Meth(Str("ab"), "to_upper"))}},
		{Group: "names", Name: "xs.append(4);xs", Prog: []*N{Expr(Meth(Id("xs"), "append", Int(4))), Expr(Id("xs"))}},
		// a piece rejected inside a function body, then a piece whose top-level functions refer to each other forwards
		{Group: "forward", Name: "func bad(){undefined}", Prog: []*N{FuncDecl("bad", nil, Return(Id("undefined_name")))}},
		{Group: "forward", Name: "func deep(){if{undefined}}", Prog: []*N{FuncDecl("bad2", nil, If(Bool(true), []*N{Expr(Func("", nil, Return(Id("undefined_name"))))}, nil), Return(Int(1)))}},
		{Group: "forward", Name: "fa->fb;fa()", Prog: []*N{FuncDecl("fa", nil, Return(call("fb"))), FuncDecl("fb", nil, Return(Bin("+", Id("x"), Int(7)))), Expr(call("fa"))}},
		{Group: "forward", Name: "fa()", Prog: []*N{Expr(call("fa"))}},
		// a piece that fails by exhausting the operand stack many frames deep: the session goes on
		// a name the host provides, reassigned by the script: the new value holds in the following pieces
		{Group: "hostname", Name: "hostn+=5", Prog: []*N{Assign(Id("hostn"), "+=", Int(5))}},
		{Group: "hostname", Name: "hostn", Prog: []*N{Expr(Id("hostn"))}},
		{Group: "hostname", Name: "func rh;rh()", Prog: []*N{FuncDecl("rh", nil, Set1("hostn", Bin("+", Id("hostn"), Int(100))), Return(Id("hostn"))), Expr(call("rh"))}},
		{Group: "hostname", Name: "rh()", Prog: []*N{Expr(call("rh"))}},
		// a piece that fails before a later declaration of the same piece ran: the name is known, it has no value
		{Group: "afterfail", Name: "fail;late:=3", Prog: []*N{Var("q", Index(List(Int(1)), Int(5))), Var("late", Int(3))}},
		{Group: "afterfail", Name: "late", Prog: []*N{Expr(Id("late"))}},
		{Group: "afterfail", Name: "[late,x]", Prog: []*N{Expr(List(Id("late"), Id("x")))}},
		{Group: "afterfail", Name: "late=4;late", Prog: []*N{Set1("late", Int(4)), Expr(Id("late"))}},
		{Group: "overflow", Name: "overflow", Prog: []*N{FuncDecl("deep", P("n"), Return(Bin("+", Int(1), call("deep", Bin("+", Id("n"), Int(1)))))), Expr(call("deep", Int(0)))}},
	}
}

type stepOut struct {
	Status string // ok, rejected, failed
	Val    string
	Log    []string
}

func (s stepOut) String() string {
	return s.Status + ":" + s.Val + ":" + strings.Join(s.Log, ",")
}

// incremental drives the real compiler and VM the way getEvaluator in cmd/risor/repl does.
func incremental(env *rt.Env, alpha []piece, seq []int) (steps []stepOut, globals map[string]string, sps []int, pan string) {
	defer func() {
		if r := recover(); r != nil {
			pan = fmt.Sprint(r)
		}
	}()
	ctx := context.Background()
	env.Reset()
	c, err := compiler.New(compiler.WithGlobalNames(env.Names))
	if err != nil {
		return nil, nil, nil, err.Error()
	}
	var m *vm.VirtualMachine
	for _, k := range seq {
		logStart := len(env.Log)
		out := stepOut{}
		ast, err := parser.Parse(ctx, alpha[k].src())
		if err != nil {
			out.Status = "rejected"
			steps = append(steps, out)
			continue
		}
		code, err := c.Compile(ast)
		if err != nil {
			out.Status = "rejected"
			steps = append(steps, out)
			continue
		}
		if m == nil {
			m = vm.New(code, vm.WithGlobals(env.Globals), vm.WithOS(env.OS))
		}
		if err := m.Run(ctx); err != nil {
			m.SetIP(code.InstructionCount())
			out.Status = "failed"
			out.Log = append([]string{}, env.Log[logStart:]...)
			steps = append(steps, out)
			sps = append(sps, m.VerifSP())
			continue
		}
		out.Status = "ok"
		out.Val = "nil"
		if tos, ok := m.TOS(); ok && tos != nil {
			out.Val = tos.Inspect()
		}
		out.Log = append([]string{}, env.Log[logStart:]...)
		steps = append(steps, out)
		sps = append(sps, m.VerifSP())
	}
	globals = map[string]string{}
	if m != nil {
		for _, n := range []string{"x", "y", "c", "xs", "hostn"} {
			if v, err := m.Get(n); err == nil && v != nil {
				globals[n] = v.Inspect()
			}
		}
	}
	return steps, globals, sps, ""
}

// model runs the same history on the reference session.
func model(alpha []piece, seq []int) (steps []stepOut, globals map[string]string, ok bool) {
	s := refsem.NewSession(20000)
	s.DefineGlobal("hostn", int64(0))
	for _, k := range seq {
		o := s.Piece(alpha[k].Prog, alpha[k].Syntax)
		switch {
		case o.NonTerm || o.Unspec:
			return nil, nil, false
		case o.Rejected:
			steps = append(steps, stepOut{Status: "rejected"})
		case o.Err != nil:
			steps = append(steps, stepOut{Status: "failed", Log: o.Log})
		default:
			steps = append(steps, stepOut{Status: "ok", Val: o.Val, Log: o.Log})
		}
	}
	g := s.Globals()
	globals = map[string]string{}
	for _, n := range []string{"x", "y", "c", "xs", "hostn"} {
		if v, ok := g[n]; ok {
			globals[n] = v
		}
	}
	return steps, globals, true
}

type replayIn struct {
	Pieces []string `json:"pieces"`
	Seq    []int    `json:"alphabet_indices"`
	Family string   `json:"family,omitempty"` // "" = the piece alphabet, "contexts" = rejected compositions
}

func show(steps []stepOut) string {
	parts := make([]string, len(steps))
	for i, s := range steps {
		parts[i] = s.String()
	}
	return "[" + strings.Join(parts, " | ") + "]"
}

func gshow(g map[string]string) string {
	var ks []string
	for k, v := range g {
		ks = append(ks, k+"="+v)
	}
	sort.Strings(ks)
	return strings.Join(ks, " ")
}

func judge(r *ev.Run, env *rt.Env, alpha []piece, seq []int, verbose bool) string {
	return judgeFam(r, env, alpha, seq, verbose, "")
}

func judgeFam(r *ev.Run, env *rt.Env, alpha []piece, seq []int, verbose bool, family string) string {
	names := make([]string, len(seq))
	for i, k := range seq {
		names[i] = alpha[k].src()
	}
	in := replayIn{names, seq, family}
	got, gg, sps, pan := incremental(env, alpha, seq)
	if pan != "" {
		r.Report("C18:gopanic", fmt.Sprintf("%q\n  %s", names, pan), in, pan, "")
		return "panic"
	}
	want, wg, ok := model(alpha, seq)
	if !ok {
		return "skip"
	}
	if verbose {
		fmt.Printf("pieces %q\nincremental %s globals %s stack depths %v\nmodel       %s globals %s\n", names, show(got), gshow(gg), sps, show(want), gshow(wg))
	}
	key := show(want) + " " + gshow(wg)
	// classify the first difference
	for i := range want {
		// the value of a piece that ends with a named function definition is not in the sheet
		if p := alpha[seq[i]].Prog; len(p) > 0 && p[len(p)-1].K == SFunc && got[i].Status == "ok" && want[i].Status == "ok" {
			got[i].Val = want[i].Val
		}
		if got[i].String() != want[i].String() {
			cause := cause(alpha, seq, i, want)
			r.Report("C18:"+cause, fmt.Sprintf("pieces %q\n  piece %d: incremental %s, reference %s", names, i, got[i], want[i]), in, show(got), show(want))
			return key
		}
	}
	// names that are not globals of the program (block variables that vm.Get happens to find) are not compared
	for k := range gg {
		if _, ok := wg[k]; !ok {
			delete(gg, k)
		}
	}
	if _, ran := gg["hostn"]; !ran {
		delete(wg, "hostn") // no piece was accepted: there is no VM to ask for the host global
	}
	if gshow(gg) != gshow(wg) {
		r.Report("C18:globals:"+cause(alpha, seq, len(seq)-1, want), fmt.Sprintf("pieces %q\n  final globals: incremental %s, reference %s", names, gshow(gg), gshow(wg)), in, gshow(gg), gshow(wg))
	}
	return key
}

// cause names the kind of earlier piece that precedes the first difference (for signatures).
func cause(alpha []piece, seq []int, at int, want []stepOut) string {
	rejected, failed := false, false
	for i := 0; i < at; i++ {
		switch want[i].Status {
		case "rejected":
			rejected = true
		case "failed":
			failed = true
		}
	}
	switch {
	case rejected && failed:
		return "after-rejected-and-failed-piece"
	case rejected:
		return "after-rejected-piece"
	case failed:
		return "after-failed-piece"
	}
	if want[at].Status == "rejected" {
		return "piece-must-be-rejected"
	}
	return "accepted-pieces-only"
}

func Check(r *ev.Run, replay string) {
	alpha := alphabet()
	if replay != "" {
		var in replayIn
		if err := ev.ReadReplay(replay, &in); err != nil {
			r.EngineError(err.Error())
			return
		}
		if in.Family == "contexts" {
			alpha = contextAlphabet()
		}
		judgeFam(r, newEnv(), alpha, in.Seq, true, in.Family)
		r.Set("states", 1)
		r.Set("transitions", 1)
		r.Set("traces_validated_against_impl", 1)
		return
	}
	// quick: the whole alphabet to length 3 and, per feature group, the core pieces plus that group to
	// length 4; thorough: the whole alphabet to length 4 and core plus each group to length 5
	depth, fullDepth := 4, 3
	if r.Thorough() {
		depth, fullDepth = 5, 4
	}
	var seqs [][]int
	seen := map[string]bool{}
	enumerate := func(idx []int, maxLen int) {
		var rec func(cur []int)
		rec = func(cur []int) {
			if len(cur) > 0 {
				k := fmt.Sprint(cur)
				if !seen[k] {
					seen[k] = true
					seqs = append(seqs, append([]int{}, cur...))
				}
			}
			if len(cur) == maxLen {
				return
			}
			for _, k := range idx {
				rec(append(cur, k))
			}
		}
		rec(nil)
	}
	var all []int
	var core []int
	groupNames := []string{}
	for i, p := range alpha {
		all = append(all, i)
		if p.Group == "" {
			core = append(core, i)
		} else if len(groupNames) == 0 || groupNames[len(groupNames)-1] != p.Group {
			known := false
			for _, g := range groupNames {
				known = known || g == p.Group
			}
			if !known {
				groupNames = append(groupNames, p.Group)
			}
		}
	}
	enumerate(all, fullDepth)
	for _, g := range groupNames {
		idx := append([]int{}, core...)
		for i, p := range alpha {
			if p.Group == g {
				idx = append(idx, i)
			}
		}
		enumerate(idx, depth)
	}
	var n int64
	states := make([]map[string]struct{}, 16)
	envs := make([]*rt.Env, 16)
	for i := range envs {
		envs[i] = newEnv()
		states[i] = map[string]struct{}{}
	}
	var next int64 = -1
	done := make(chan bool)
	for w := 0; w < 16; w++ {
		go func(w int) {
			for {
				i := int(atomic.AddInt64(&next, 1))
				if i >= len(seqs) {
					break
				}
				key := judge(r, envs[w], alpha, seqs[i], false)
				states[w][key] = struct{}{}
				r.Eval(1)
				if atomic.AddInt64(&n, 1)%9001 == 1 {
					names := []string{}
					for _, k := range seqs[i] {
						names = append(names, alpha[k].src())
					}
					r.Sample(map[string]any{"pieces": names})
				}
			}
			done <- true
		}(w)
	}
	for w := 0; w < 16; w++ {
		<-done
	}
	allStates := map[string]struct{}{}
	for _, s := range states {
		for k := range s {
			allStates[k] = struct{}{}
			r.Outcome(k)
		}
	}
	longHistory(r, alpha)
	limitSessions(r)
	nctx := runContexts(r)
	r.Set("states", len(allStates))
	r.Set("transitions", len(seqs)+nctx)
	r.Set("traces_validated_against_impl", len(seqs)+nctx)
	r.Set("alphabet_size", len(alpha))
	r.Set("max_history_length", depth)
	r.Set("feature_groups", groupNames)
	r.Set("full_alphabet_history_length", fullDepth)
	r.Set("rule", fmt.Sprintf("every sequence of 1..%d pieces over the core pieces plus one feature group at a time, and every sequence of 1..%d pieces over the whole %d-piece alphabet (definitions, uses, a loop, a closure, functions made by a factory that read and write a global, a constant; pieces the compiler must reject: undefined name, constant assignment, redeclaration, a rejected piece with a side-effecting prefix, a rejected piece that is the first to mention a method name, a syntax error; pieces that fail at run time, one of them mid-piece) fed to one compiler and one VM as cmd/risor/repl does; oracle: per-piece status/value/output and final globals equal the reference session model (a rejected piece has no effect; a failed piece keeps its effects up to the failure); rejected compositions: every expression slot of every statement and expression form (the F8 contexts, directly and through 16 wrappers) filled with an undefined name in 8 positions, as sessions [definitions, rejected, probe] and [definitions, probe, rejected, probe] with a probe piece that uses calls, a pipe, break, switch, a closure, defer and try; limits (differential within the implementation): 10 pieces that fail at the call-depth, frame or operand limit, repeated 1-3 times, before 5 probes that need exactly what a fresh session allows; states = distinct (per-piece outcomes, globals) of the model, transitions = histories executed on the implementation", depth, fullDepth, len(alpha)))
}

// longHistory: a REPL session of many pieces must not run out of VM capacity.
func longHistory(r *ev.Run, alpha []piece) {
	seq := []int{0}
	for i := 0; i < 1200; i++ {
		seq = append(seq, 2) // x
	}
	env := newEnv()
	got, _, sps, pan := incremental(env, alpha, seq)
	r.Eval(1)
	bad := pan
	for i, s := range got {
		if s.Status != "ok" && bad == "" {
			bad = fmt.Sprintf("piece %d of a session of %d trivial pieces: %s", i, len(seq), s.Status)
		}
	}
	if bad != "" {
		depthAt := 0
		if len(sps) > 0 {
			depthAt = sps[len(sps)-1]
		}
		r.Report("C18:long-session-exhausts-stack", fmt.Sprintf("x := 1 followed by 1200 pieces `x`: %s (stack depth %d)", bad, depthAt), replayIn{[]string{"x := 1", "x (1200 times)"}, seq, ""}, bad, "every piece evaluates to 1")
	}
}
